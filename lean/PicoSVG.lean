import PicoSVG.Model.F64
import PicoSVG.Model.Geom
import PicoSVG.Model.Str
import PicoSVG.Model.Transform
import PicoSVG.Gen.Tables
import PicoSVG.Spec.Transform
import PicoSVG.Props.C11
import PicoSVG.Props.C09
