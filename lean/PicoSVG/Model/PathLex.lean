/-
  L1: the path-data tokenizer — mirrors picosvg/svg_path_iter.py.
  Works on lexemes (strings); conversion to numbers is `F64.pyFloat?` at the Float layer.
  The scanners below are the meaning of the regular expressions whose *sources* are tied to
  the code by the generated `Gen.cmdRe / separatorRe / floatRe / boolRe` (Props/C10).
-/
import PicoSVG.Model.Str
import PicoSVG.Model.Transform
import PicoSVG.Gen.Tables

namespace PicoSVG

namespace PathLex
open Str

/-- letters of `_CMD_RE` = keys of `_CMD_ARGS` (generated) -/
def isCmd (c : Char) : Bool := (Gen.cmdArgs.lookup c).isSome

def numArgs (c : Char) : Option Nat := Gen.cmdArgs.lookup c

/-- `_CMD_RE.split(s)[1:]` grouped as (cmd, raw argument text) pairs; the text before the
    first command letter is silently dropped -/
def splitCmds (cs : List Char) : List (Char × List Char) :=
  let rec go (cur : Option Char) (buf : List Char) (rest : List Char)
      (acc : List (Char × List Char)) : List (Char × List Char) :=
    match rest with
    | [] => (match cur with
        | some c => (c, buf.reverse) :: acc
        | none => acc).reverse
    | c :: r =>
      if isCmd c then
        match cur with
        | some k => go (some c) [] r ((k, buf.reverse) :: acc)
        | none => go (some c) [] r acc
      else go cur (c :: buf) r acc
  go none [] cs []

def isSep (c : Char) : Bool := c == ',' || c == ' '

/-- `[s for s in _SEPARATOR_RE.split(args) if s]` : maximal runs of non-separator characters -/
def splitSep (cs : List Char) : List (List Char) :=
  let rec go (buf : List Char) (rest : List Char) (acc : List (List Char)) : List (List Char) :=
    match rest with
    | [] => (if buf.isEmpty then acc else buf.reverse :: acc).reverse
    | c :: r =>
      if isSep c then go [] r (if buf.isEmpty then acc else buf.reverse :: acc)
      else go (c :: buf) r acc
  go [] cs []

def isDigit (c : Char) : Bool := '0' ≤ c && c ≤ '9'

def spanDigits : List Char → List Char × List Char
  | c :: cs => if isDigit c then let (d, r) := spanDigits cs; (c :: d, r) else ([], c :: cs)
  | [] => ([], [])

/-- optional `(?:\.[0-9]+)` -/
def optFrac (cs : List Char) : List Char × List Char :=
  match cs with
  | '.' :: r =>
    let (d, r') := spanDigits r
    if d.isEmpty then ([], cs) else ('.' :: d, r')
  | _ => ([], cs)

/-- optional `(?:[eE][-+]?[0-9]+)` -/
def optExp (cs : List Char) : List Char × List Char :=
  match cs with
  | e :: r =>
    if e == 'e' || e == 'E' then
      let (sgn, r1) := match r with
        | '-' :: t => (['-'], t)
        | '+' :: t => (['+'], t)
        | _ => ([], r)
      let (d, r2) := spanDigits r1
      if d.isEmpty then ([], cs) else (e :: sgn ++ d, r2)
    else ([], cs)
  | [] => ([], [])

/-- `[-+]?` -/
def splitSign (cs : List Char) : List Char × List Char :=
  match cs with
  | '-' :: t => (['-'], t)
  | '+' :: t => (['+'], t)
  | _ => ([], cs)

/-- `(?:(?:[0-9]+)(?:\.[0-9]+)?|(?:\.[0-9]+))`: once the first alternative matches, the
    rest of the pattern is optional, so the engine never falls back to the second -/
def matchBody (cs : List Char) : Option (List Char × List Char) :=
  match cs with
  | [] => none
  | c :: t =>
    if isDigit c then   -- [0-9]+
      some (c :: (spanDigits t).1 ++ (optFrac (spanDigits t).2).1, (optFrac (spanDigits t).2).2)
    else if c == '.' then
      if (spanDigits t).1.isEmpty then none else some ('.' :: (spanDigits t).1, (spanDigits t).2)
    else none

/-- `_FLOAT_RE.match(arg)`: (matched lexeme, remainder) or none.
    `[-+]?(?:(?:0|[1-9][0-9]*)(?:\.[0-9]+)?|(?:\.[0-9]+))(?:[eE][-+]?[0-9]+)?` -/
def matchFloat (cs : List Char) : Option (List Char × List Char) :=
  match matchBody (splitSign cs).2 with
  | none => none
  | some br => some ((splitSign cs).1 ++ br.1 ++ (optExp br.2).1, (optExp br.2).2)

/-- `_BOOL_RE.match(arg)` = `^[01]` -/
def matchBool (cs : List Char) : Option (List Char × List Char) :=
  match cs with
  | c :: r => if c == '0' || c == '1' then some ([c], r) else none
  | [] => none

/-- a parsed argument: a float lexeme, or an arc flag converted with `int` -/
inductive Arg
  | num (lex : String)
  | flag (b : Bool)
deriving Repr, BEq, DecidableEq

/-- the characters of the argument text an `Arg` was made from -/
def argText : Arg → List Char
  | .num s => s.toList
  | .flag b => if b then ['1'] else ['0']

/-- is argument slot `i` (mod 7) of an arc a flag?  (generated `_ARC_ARGUMENT_TYPES`) -/
def arcSlotIsFlag (i : Nat) : Bool :=
  match Gen.arcArgTypes[i % Gen.arcArgTypes.length]? with
  | some (_, rx) => rx == "boolRe"
  | none => false

/-- `_parse_args`: peel one regex match at a time from `raw[j]`, typing slot `i` modulo the
    arc signature; `fuel` bounds the loop (each iteration consumes ≥ 1 character) -/
def peel (isArc : Bool) : (fuel : Nat) → (i : Nat) → List (List Char) → Except PyErr (List Arg)
  | 0, _, _ => .ok []
  | _, _, [] => .ok []
  | fuel + 1, i, arg :: rest =>
    let flagSlot := isArc && arcSlotIsFlag i
    let m := if flagSlot then matchBool arg else matchFloat arg
    match m with
    | none => .error .valueError
    | some (lex, rem) =>
      let a := if flagSlot then Arg.flag (lex == ['1']) else Arg.num (String.ofList lex)
      let next := if rem.isEmpty then rest else rem :: rest
      match peel isArc fuel (i + 1) next with
      | .ok l => .ok (a :: l)
      | .error e => .error e

def parseArgs (cmd : Char) (raw : List Char) : Except PyErr (List Arg) :=
  let toks := splitSep raw
  let total := toks.foldl (fun a t => a + t.length) 0
  peel (cmd == 'a' || cmd == 'A') (total + 1) 0 toks

/-- `svg_meta.check_cmd` -/
def checkCmd (cmd : Char) (nargs : Nat) : Except PyErr Nat :=
  match numArgs cmd with
  | none => .error .valueError
  | some 0 => if nargs != 0 then .error .valueError else .ok 0
  | some k => if nargs % k != 0 then .error .valueError else .ok k

def implicitRepeat (c : Char) : Char := (Gen.implicitRepeat.lookup c).getD c

def chunks {β : Type} (k : Nat) : (fuel : Nat) → List β → List (List β)
  | 0, _ => []
  | _, [] => []
  | fuel + 1, l => if k == 0 then [] else l.take k :: chunks k fuel (l.drop k)

/-- `_explode_cmd` -/
def explode {β : Type} (k : Nat) (cmd : Char) (args : List β) : List (Char × List β) :=
  let groups := (chunks k (args.length + 1) args).filter (fun g => g.length == k)
  match groups with
  | [] => []
  | g :: gs => (cmd, g) :: gs.map (fun g' => (implicitRepeat cmd, g'))

/-- `parse_svg_path(s, exploded)` on lexemes -/
def parse (exploded : Bool) (cs : List Char) : Except PyErr (List (Char × List Arg)) := do
  let parts := splitCmds cs
  let mut out : List (Char × List Arg) := []
  for (cmd, raw) in parts do
    let args ← parseArgs cmd (strip raw)
    let k ← checkCmd cmd args.length
    if k == 0 || !exploded then
      out := out ++ [(cmd, args)]
    else
      out := out ++ explode k cmd args
  return out

def argToFloat : Arg → Float
  | .num s => (F64.pyFloat? s).getD F64.nan
  | .flag b => if b then 1.0 else 0.0

/-- `list(parse_svg_path(s, exploded))` with arguments as doubles -/
def parseFloat (exploded : Bool) (s : String) : Except PyErr (List (Char × List Float)) := do
  let cmds ← parse exploded s.toList
  pure (cmds.map (fun (c, as) => (c, as.map argToFloat)))

end PathLex

end PicoSVG
