/-
  String helpers with CPython `str` semantics (Unicode whitespace set, strip, lower-ASCII).
-/
namespace PicoSVG.Str

/-- `str.isspace` / regex `\s` on str patterns (Py_UNICODE_ISSPACE) -/
def isSpace (c : Char) : Bool :=
  let n := c.toNat
  (0x09 ≤ n && n ≤ 0x0D) || (0x1C ≤ n && n ≤ 0x20) || n == 0x85 || n == 0xA0 || n == 0x1680 ||
  (0x2000 ≤ n && n ≤ 0x200A) || n == 0x2028 || n == 0x2029 || n == 0x202F || n == 0x205F ||
  n == 0x3000

def lstrip (cs : List Char) : List Char := cs.dropWhile isSpace
def rstrip (cs : List Char) : List Char := (cs.reverse.dropWhile isSpace).reverse
def strip (cs : List Char) : List Char := rstrip (lstrip cs)

/-- ASCII lower-casing (the only case-folding the modelled code relies on) -/
def lowerAscii (cs : List Char) : List Char :=
  cs.map (fun c => if 'A' ≤ c && c ≤ 'Z' then Char.ofNat (c.toNat + 32) else c)

def startsWith (cs pre : List Char) : Bool := pre.isPrefixOf cs

/-- split on a single separator character, like `str.split(sep)` -/
def splitOnChar (sep : Char) (cs : List Char) : List (List Char) :=
  let rec go (cur : List Char) (rest : List Char) (acc : List (List Char)) : List (List Char) :=
    match rest with
    | [] => (cur.reverse :: acc).reverse
    | c :: r => if c == sep then go [] r (cur.reverse :: acc) else go (c :: cur) r acc
  go [] cs []

end PicoSVG.Str
