/-
  L0: points, rectangles, affine matrices — mirrors picosvg/geometric_types.py and
  svg_transform.py (Affine2D).  Generic over the scalar type: instantiated at `Float`
  by the driver, at `Rat` for exact correspondence, at ordered fields in the proofs.
  Core Lean only.
-/
namespace PicoSVG

structure Pt (α : Type) where
  x : α
  y : α
deriving Repr, DecidableEq

instance {α : Type} [BEq α] : BEq (Pt α) := ⟨fun p q => p.x == q.x && p.y == q.y⟩

structure Rect (α : Type) where
  x : α
  y : α
  w : α
  h : α
deriving Repr, DecidableEq

instance {α : Type} [BEq α] : BEq (Rect α) :=
  ⟨fun p q => p.x == q.x && p.y == q.y && p.w == q.w && p.h == q.h⟩

/-- a c e / b d f  (Affine2D NamedTuple order a b c d e f) -/
structure Aff (α : Type) where
  a : α
  b : α
  c : α
  d : α
  e : α
  f : α
deriving Repr, DecidableEq

instance {α : Type} [BEq α] : BEq (Aff α) :=
  ⟨fun s o => s.a == o.a && s.b == o.b && s.c == o.c && s.d == o.d && s.e == o.e && s.f == o.f⟩

section
variable {α : Type} [Add α] [Sub α] [Mul α] [Div α] [Neg α] [OfNat α 0] [OfNat α 1] [BEq α]
  [LT α] [LE α] [DecidableLT α] [DecidableLE α]

def two : α := (1 : α) + 1

def absv (x : α) : α := if x < 0 then -x else x
def maxv (x y : α) : α := if x < y then y else x   -- Python max(x, y): returns y only if y > x
def minv (x y : α) : α := if y < x then y else x   -- Python min(x, y): returns y only if y < x

namespace Aff

def id : Aff α := ⟨1, 0, 0, 1, 0, 0⟩
def zero : Aff α := ⟨0, 0, 0, 0, 0, 0⟩
def flipY : Aff α := ⟨1, 0, 0, -1, 0, 0⟩

/-- `self @ other`: maps by `other` first, then `self` -/
def mul (s o : Aff α) : Aff α :=
  ⟨s.a * o.a + s.c * o.b,
   s.b * o.a + s.d * o.b,
   s.a * o.c + s.c * o.d,
   s.b * o.c + s.d * o.d,
   s.a * o.e + s.c * o.f + s.e,
   s.b * o.e + s.d * o.f + s.f⟩

def matrix (s : Aff α) (a b c d e f : α) : Aff α := s.mul ⟨a, b, c, d, e, f⟩

/-- `translate(tx, ty)`: the `(0,0) == (tx,ty)` shortcut returns `self` unchanged -/
def translate (s : Aff α) (tx ty : α) : Aff α :=
  if (tx == 0 && ty == 0) then s else s.matrix 1 0 0 1 tx ty

def scale (s : Aff α) (sx sy : α) : Aff α := s.matrix sx 0 0 sy 0 0

/-- rotation by an angle whose cosine / sine are `cs` / `sn` about `(cx, cy)` -/
def rotateCS (s : Aff α) (cs sn cx cy : α) : Aff α :=
  ((s.translate cx cy).matrix cs sn (-sn) cs 0 0).translate (-cx) (-cy)

def skewxT (s : Aff α) (t : α) : Aff α := s.matrix 1 0 t 1 0 0
def skewyT (s : Aff α) (t : α) : Aff α := s.matrix 1 t 0 1 0 0

def det (s : Aff α) : α := s.a * s.d - s.b * s.c

def isDegenerate (eps : α) (s : Aff α) : Bool := decide (absv s.det ≤ eps)

def inverse (eps : α) (s : Aff α) : Aff α :=
  if s == id then s
  else if s.isDegenerate eps then zero
  else
    let dt := s.det
    let a := s.d / dt
    let b := -s.b / dt
    let c := -s.c / dt
    let d := s.a / dt
    let e := -a * s.e - c * s.f
    let f := -b * s.e - d * s.f
    ⟨a, b, c, d, e, f⟩

def mapPt (s : Aff α) (p : Pt α) : Pt α :=
  ⟨s.a * p.x + s.c * p.y + s.e, s.b * p.x + s.d * p.y + s.f⟩

def mapVec (s : Aff α) (p : Pt α) : Pt α :=
  ⟨s.a * p.x + s.c * p.y, s.b * p.x + s.d * p.y⟩

/-- `reduce(matmul, reversed(affines), identity)` -/
def composeLtr (l : List (Aff α)) : Aff α := l.reverse.foldl mul id

def almostEq (tol : α) (s o : Aff α) : Bool :=
  decide (absv (s.a - o.a) ≤ tol) && decide (absv (s.b - o.b) ≤ tol) &&
  decide (absv (s.c - o.c) ≤ tol) && decide (absv (s.d - o.d) ≤ tol) &&
  decide (absv (s.e - o.e) ≤ tol) && decide (absv (s.f - o.f) ≤ tol)

def toList (s : Aff α) : List α := [s.a, s.b, s.c, s.d, s.e, s.f]

def map {β : Type} (g : α → β) (s : Aff α) : Aff β := ⟨g s.a, g s.b, g s.c, g s.d, g s.e, g s.f⟩

end Aff

namespace Rect

def empty (r : Rect α) : Bool := r.w == 0 || r.h == 0

def xMax (r : Rect α) : α := r.x + r.w
def yMax (r : Rect α) : α := r.y + r.h

/-- `_overlap` helper of `Rect.intersection` -/
def overlap (s1 e1 s2 e2 : α) : α × α :=
  let s := maxv s1 s2
  let e := minv e1 e2
  if e ≤ s then (0, 0) else (s, e)     -- `start >= end`

def intersection (r o : Rect α) : Option (Rect α) :=
  let (x1, x2) := overlap r.x (r.x + r.w) o.x (o.x + o.w)
  let (y1, y2) := overlap r.y (r.y + r.h) o.y (o.y + o.h)
  if x1 != x2 && y1 != y2 then some ⟨x1, y1, x2 - x1, y2 - y1⟩ else none

def union (r o : Rect α) : Rect α :=
  let x := minv r.x o.x
  let y := minv r.y o.y
  let xm := maxv r.xMax o.xMax
  let ym := maxv r.yMax o.yMax
  ⟨x, y, xm - x, ym - y⟩

end Rect

/-! ### rect_to_rect (viewport mapping) -/

inductive AlignX | min | mid | max deriving Repr, BEq, DecidableEq
inductive AlignY | min | mid | max deriving Repr, BEq, DecidableEq

/-- parsed preserveAspectRatio: `none`, or an alignment with meet (`slice = false`) or slice -/
inductive PAR
  | none
  | align (ax : AlignX) (ay : AlignY) (slice : Bool)
deriving Repr, BEq, DecidableEq

def rectToRect (src dst : Rect α) (par : PAR) : Aff α :=
  if src.empty then Aff.id
  else if dst.empty then Aff.zero
  else
    let sx := dst.w / src.w
    let sy := dst.h / src.h
    let (sx, sy) := match par with
      | PAR.none => (sx, sy)
      | PAR.align _ _ slice => let s := if slice then maxv sx sy else minv sx sy; (s, s)
    let tx := dst.x - src.x * sx
    let ty := dst.y - src.y * sy
    let tx := match par with
      | PAR.align AlignX.mid _ _ => tx + (dst.w - src.w * sx) / two
      | PAR.align AlignX.max _ _ => tx + (dst.w - src.w * sx)
      | _ => tx
    let ty := match par with
      | PAR.align _ AlignY.mid _ => ty + (dst.h - src.h * sy) / two
      | PAR.align _ AlignY.max _ => ty + (dst.h - src.h * sy)
      | _ => ty
    ⟨sx, 0, 0, sy, tx, ty⟩

/-! ### decompose_translation -/

/-- the pre-translation `(x', y')` computed by `decompose_translation` (both formulas) -/
def decompPre (tolEq : α) (s : Aff α) : α × α :=
  let r := s.mapPt ⟨0, 0⟩
  let r1 := r.x
  let r2 := r.y
  if !(decide (absv (s.a - 0) ≤ tolEq)) then
    let yp := (r2 - r1 * s.b / s.a) / (s.d - s.b * s.c / s.a)
    let xp := (r1 - s.c * yp) / s.a
    (xp, yp)
  else
    let yp := (0 : α) + s.e / s.c
    let xp := (0 : α) + (s.d * 0 / s.b) + (s.f / s.b) - (s.d * yp / s.b)
    (xp, yp)

def zeroTranslation (s : Aff α) : Aff α := ⟨s.a, s.b, s.c, s.d, 0, 0⟩

/-- model of `Affine2D.decompose_translation`; `none` = the code's own assertion fails.
    `tolEq` = DEFAULT_ALMOST_EQUAL_TOLERANCE (1e-9), `tolDec` = DECOMPOSITION tolerance (1e-4) -/
def decomposeTranslation (tolEq tolDec : α) (s : Aff α) : Option (Aff α × Aff α) :=
  if s.almostEq tolEq (zeroTranslation s) then some (Aff.id, zeroTranslation s) else
  let tr := (Aff.id : Aff α).translate (decompPre tolEq s).1 (decompPre tolEq s).2
  if s.almostEq tolDec (Aff.composeLtr [tr, zeroTranslation s]) then some (tr, zeroTranslation s)
  else none

end

end PicoSVG
