/-
  F64: exact bridge between IEEE-754 binary64 (`Float`) and `Rat`, plus the CPython
  primitives `float(str)`, `repr(float)`, `round(float, n)` and picosvg's `ntos`,
  all computed with exact `Nat`/`Rat` arithmetic (no libm, no printf).
  Core Lean only.  Tied to CPython by harness/corr_f64 (sampled) — trusted base.
-/
namespace PicoSVG.F64

def pow2 (n : Nat) : Nat := 1 <<< n

/-- exact value of a finite double; `none` for inf/nan -/
def toRat? (x : Float) : Option Rat :=
  let b := x.toBits.toNat
  let s := b >>> 63
  let e := (b >>> 52) % 2048
  let m := b % pow2 52
  if e == 2047 then none else
  let mag : Rat :=
    if e == 0 then mkRat m (pow2 1074)
    else if e ≥ 1075 then ((pow2 52 + m) * pow2 (e - 1075) : Nat)
    else mkRat (pow2 52 + m) (pow2 (1075 - e))
  some (if s == 1 then -mag else mag)

def isFinite (x : Float) : Bool := (x.toBits.toNat >>> 52) % 2048 != 2047
def isNeg (x : Float) : Bool := x.toBits.toNat >>> 63 == 1

/-- round-half-even of the non-negative rational n/d to a natural number -/
def roundHalfEvenNat (n d : Nat) : Nat :=
  let q := n / d
  let r := n % d
  if 2 * r < d then q else if 2 * r > d then q + 1 else if q % 2 == 0 then q else q + 1

/-- nearest double (ties to even) of a non-negative rational num/den; overflow ↦ +inf -/
def ofPosRatBits (num den : Nat) : Nat :=
  if num == 0 then 0 else
  -- estimate k with 2^52 ≤ (num/den)·2^(-k) < 2^53
  let l : Int := (Nat.log2 num : Int) - (Nat.log2 den : Int)   -- floor(log2 q) ∈ {l-1, l}
  let scaled (k : Int) : Nat × Nat :=   -- (num/den)·2^(-k) as a fraction
    if k ≥ 0 then (num, den * pow2 k.toNat) else (num * pow2 (-k).toNat, den)
  let k0 : Int := l - 52
  let (n0, d0) := scaled k0
  -- if n0/d0 < 2^52 the true floor(log2) is l-1
  let k1 : Int := if n0 < d0 * pow2 52 then k0 - 1 else k0
  let k : Int := if k1 < -1074 then -1074 else k1
  let (n, d) := scaled k
  let mant := roundHalfEvenNat n d
  let (mant, k) := if mant == pow2 53 then (pow2 52, k + 1) else (mant, k)
  if k > 971 then 2047 * pow2 52 else
  if mant < pow2 52 then mant   -- subnormal (k = -1074) or zero
  else ((k + 1075).toNat) * pow2 52 + (mant - pow2 52)

def ofBitsNat (b : Nat) : Float := Float.ofBits (UInt64.ofNat b)

/-- nearest double (round-half-even) of a rational; −0 is never produced (q = 0 ↦ +0) -/
def ofRat (q : Rat) : Float :=
  if q.num < 0 then ofBitsNat (pow2 63 + ofPosRatBits q.num.natAbs q.den)
  else ofBitsNat (ofPosRatBits q.num.natAbs q.den)

def negZero : Float := ofBitsNat (pow2 63)
def posInf : Float := ofBitsNat (2047 * pow2 52)
def negInf : Float := ofBitsNat (pow2 63 + 2047 * pow2 52)
def nan : Float := ofBitsNat (2047 * pow2 52 + pow2 51)

/-! ### `float(str)` for the decimal lexemes picosvg feeds it -/

def isDigit (c : Char) : Bool := '0' ≤ c && c ≤ '9'
def isPyWs (c : Char) : Bool :=
  c == ' ' || c == '\t' || c == '\n' || c == '\r' || c == '\x0b' || c == '\x0c'

def takeDigits : List Char → List Char × List Char
  | c :: cs => if isDigit c then let (d, r) := takeDigits cs; (c :: d, r) else ([], c :: cs)
  | [] => ([], [])

def digitsToNat (ds : List Char) : Nat := ds.foldl (fun a c => a * 10 + (c.toNat - 48)) 0

def pow10 (n : Nat) : Nat := 10 ^ n

/-- parse `[+-]? (D+ ('.' D*)? | '.' D+) ([eE] [+-]? D+)?` exactly; result as sign × Rat.
    Returns `none` when the whole list is not such a lexeme. -/
def parseDecimal (cs : List Char) : Option (Bool × Rat) :=
  let (neg, cs) := match cs with
    | '-' :: r => (true, r)
    | '+' :: r => (false, r)
    | _ => (false, cs)
  let (ip, r1) := takeDigits cs
  let (fp, r2, hadDot) := match r1 with
    | '.' :: r => let (f, r') := takeDigits r; (f, r', true)
    | _ => ([], r1, false)
  if ip.isEmpty && fp.isEmpty then none else
  let _ := hadDot
  let mant := digitsToNat (ip ++ fp)
  let fracLen : Int := fp.length
  let expo? : Option Int := match r2 with
    | [] => some 0
    | e :: r =>
      if e == 'e' || e == 'E' then
        let (eneg, r') := match r with
          | '-' :: t => (true, t)
          | '+' :: t => (false, t)
          | _ => (false, r)
        let (ed, rest) := takeDigits r'
        if ed.isEmpty || !rest.isEmpty then none
        else
          -- clamp huge exponents: anything beyond ±(400 + #digits) is inf / 0 anyway
          let ev := digitsToNat (ed.take 8)
          let ev := if ed.length > 8 then 99999999 else ev
          some (if eneg then -(ev : Int) else (ev : Int))
      else none
  match expo? with
  | none => none
  | some ex =>
    let nd : Int := (ip ++ fp).length
    let e10 : Int := ex - fracLen
    let e10 : Int := if e10 > 400 + nd then 400 + nd else if e10 < -(400 + nd) then -(400 + nd) else e10
    let q : Rat := if e10 ≥ 0 then ((mant * pow10 e10.toNat : Nat) : Rat)
                   else mkRat mant (pow10 (-e10).toNat)
    some (neg, q)

def stripWs (cs : List Char) : List Char :=
  ((cs.dropWhile isPyWs).reverse.dropWhile isPyWs).reverse

def lower (cs : List Char) : List Char := cs.map Char.toLower

/-- CPython `float(s)` on str input (no underscores): `none` = ValueError -/
def pyFloat? (s : String) : Option Float :=
  let cs := stripWs s.toList
  match parseDecimal cs with
  | some (neg, q) =>
    let f := ofRat q
    some (if neg then ofBitsNat (pow2 63 + f.toBits.toNat) else f)
  | none =>
    let (neg, body) := match cs with
      | '-' :: r => (true, r)
      | '+' :: r => (false, r)
      | _ => (false, cs)
    let b := lower body
    if b == "inf".toList || b == "infinity".toList then some (if neg then negInf else posInf)
    else if b == "nan".toList then some nan
    else none

/-! ### `repr(float)` — shortest round-tripping decimal, CPython formatting -/

/-- n-significant-digit decimal candidates of positive rational q: returns (digits as Nat, exp10)
    with value = digits · 10^exp10, 10^(n-1) ≤ digits ≤ 10^n, floor and ceil variants -/
def decExp (q : Rat) : Int :=
  -- floor(log10 q) for q > 0
  let l10 : Int := ((Nat.log2 q.num.natAbs : Int) - (Nat.log2 q.den : Int)) * 30103 / 100000
  let rec fix (e : Int) (fuel : Nat) : Int :=
    match fuel with
    | 0 => e
    | fuel + 1 =>
      let p : Rat := if e ≥ 0 then ((pow10 e.toNat : Nat) : Rat) else mkRat 1 (pow10 (-e).toNat)
      if q < p then fix (e - 1) fuel
      else if q ≥ p * 10 then fix (e + 1) fuel
      else e
  fix l10 8

def scale10 (q : Rat) (e : Int) : Rat :=
  if e ≥ 0 then q * ((pow10 e.toNat : Nat) : Rat) else q / ((pow10 (-e).toNat : Nat) : Rat)

def natDigits (n : Nat) : List Char := (toString n).toList

/-- shortest digits: returns (digit string without trailing zeros?, decimal point position)
    such that value = 0.d1d2... · 10^decpt (dtoa convention) -/
def shortest (x : Float) (q : Rat) : List Char × Int :=
  let e := decExp q           -- 10^e ≤ q < 10^(e+1)
  let rec go (n : Nat) (fuel : Nat) : List Char × Int :=
    match fuel with
    | 0 => (natDigits 0, 0)
    | fuel + 1 =>
      -- n significant digits: unit = 10^(e - n + 1)
      let u : Int := e - (n : Int) + 1
      let s := scale10 q (-u)      -- q / 10^u, in [10^(n-1), 10^n)
      let fl := s.floor.toNat
      let cands : List Nat := if (fl : Rat) == s then [fl] else [fl, fl + 1]
      let good : List Nat := cands.filter (fun (c : Nat) => ofRat (scale10 ((c : Nat) : Rat) u) == x)
      match good with
      | [] => go (n + 1) fuel
      | [c] => finish c u
      | c1 :: c2 :: _ =>
        let d1 := s - (c1 : Rat); let d2 := (c2 : Rat) - s
        if d1 < d2 then finish c1 u else if d2 < d1 then finish c2 u
        else finish (if c1 % 2 == 0 then c1 else c2) u
  go 1 18
where
  finish (c : Nat) (u : Int) : List Char × Int :=
    let ds := natDigits c
    -- strip trailing zeros
    let stripped := (ds.reverse.dropWhile (· == '0')).reverse
    let stripped := if stripped.isEmpty then ['0'] else stripped
    (stripped, u + ds.length)

def padLeft2 (cs : List Char) : List Char := if cs.length < 2 then '0' :: cs else cs

/-- CPython `repr(float)` / `str(float)` -/
def pyRepr (x : Float) : String :=
  match toRat? x with
  | none =>
    if x.toBits.toNat % pow2 52 != 0 then "nan" else if isNeg x then "-inf" else "inf"
  | some q =>
    let sign := if isNeg x then "-" else ""
    if q == 0 then sign ++ "0.0" else
    let (ds, decpt) := shortest (if isNeg x then ofBitsNat (x.toBits.toNat - pow2 63) else x) (if q < 0 then -q else q)
    let nd : Int := ds.length
    if decpt > 16 || decpt < -3 then
      -- exponent notation d.ddde±XX
      let e := decpt - 1
      let mant := match ds with
        | [d] => [d]
        | d :: r => d :: '.' :: r
        | [] => ['0']
      let es := (if e < 0 then "-" else "+") ++ String.ofList (padLeft2 (natDigits e.natAbs))
      sign ++ String.ofList mant ++ "e" ++ es
    else if decpt ≤ 0 then
      sign ++ "0." ++ String.ofList (List.replicate (-decpt).toNat '0' ++ ds)
    else if decpt ≥ nd then
      sign ++ String.ofList (ds ++ List.replicate (decpt - nd).toNat '0') ++ ".0"
    else
      sign ++ String.ofList (ds.take decpt.toNat) ++ "." ++ String.ofList (ds.drop decpt.toNat)

/-- picosvg `ntos` on a float: `str(int(n))` if integral else `str(n)`; inf/nan pass through -/
def ntos (x : Float) : String :=
  match toRat? x with
  | none => pyRepr x
  | some q => if q.den == 1 then toString q.num else pyRepr x

/-! ### `round(x, ndigits)` -/

/-- round-half-even of a rational to an integer -/
def roundHalfEvenInt (q : Rat) : Int :=
  let f := q.floor
  let r := q - (f : Rat)
  let half : Rat := mkRat 1 2
  if r < half then f else if r > half then f + 1 else if f % 2 == 0 then f else f + 1

/-- exact decimal rounding of a rational to `n` fractional digits (n may be negative) -/
def roundDec (q : Rat) (n : Int) : Rat :=
  scale10 ((roundHalfEvenInt (scale10 q n) : Int) : Rat) (-n)

/-- CPython `round(x, n)` for float x, int n: correctly rounded decimal, then nearest double;
    keeps the sign of zero results; non-finite pass through -/
def pyRound (x : Float) (n : Int) : Float :=
  match toRat? x with
  | none => x
  | some q =>
    -- CPython shortcuts: ndigits beyond the float's precision returns x; far negative gives 0
    if n > 400 then x else
    if n < -400 then (if isNeg x then negZero else 0.0) else
    let r := roundDec q n
    let f := ofRat (if r < 0 then -r else r)
    if isNeg x then ofBitsNat (pow2 63 + f.toBits.toNat) else f

/-- CPython `round(x)` (no ndigits) → int, half-even -/
def pyRoundInt (x : Float) : Option Int :=
  (toRat? x).map roundHalfEvenInt

end PicoSVG.F64

namespace PicoSVG.F64

/-- floor of the square root of a natural number (Newton iteration) -/
def natSqrt (n : Nat) : Nat :=
  if n < 2 then n else
  let rec go (x : Nat) (fuel : Nat) : Nat :=
    match fuel with
    | 0 => x
    | fuel + 1 =>
      let y := (x + n / x) / 2
      if y ≥ x then x else go y fuel
  go (1 <<< ((Nat.log2 n) / 2 + 1)) 200

/-- correctly rounded sqrt of a non-negative rational, via exact integer arithmetic:
    compute floor(sqrt(q · 4^k)) with > 60 significant bits and round once (sticky bit) -/
def sqrtRat (q : Rat) : Float :=
  if q.num ≤ 0 then 0.0 else
  let n := q.num.natAbs
  let d := q.den
  -- choose an even shift so that n·2^s / d has ≥ 2·70 bits
  let bits : Int := (Nat.log2 n : Int) - (Nat.log2 d : Int)
  let s0 : Int := 140 - bits
  let s : Int := if s0 % 2 == 0 then s0 else s0 + 1
  let scaled : Nat := if s ≥ 0 then (n <<< s.toNat) / d else n / (d <<< (-s).toNat)
  let exact : Bool := if s ≥ 0 then (n <<< s.toNat) % d == 0 else n % (d <<< (-s).toNat) == 0
  let r := natSqrt scaled
  let sticky : Bool := !(exact && r * r == scaled)
  -- value ≈ r · 2^(-s/2); add a sticky half-unit so that the single rounding is correct
  let num : Nat := 2 * r + (if sticky then 1 else 0)
  let e : Int := -(s / 2) - 1
  ofRat (if e ≥ 0 then ((num <<< e.toNat : Nat) : Rat) else mkRat num (1 <<< (-e).toNat))

/-- `math.hypot(x, y)` (CPython ≥ 3.10 is correctly rounded for two arguments in practice) -/
def hypot (x y : Float) : Float :=
  match toRat? x, toRat? y with
  | some a, some b => sqrtRat (a * a + b * b)
  | _, _ => if x.isNaN || y.isNaN then nan else posInf

end PicoSVG.F64
