/-
  L4: attribute inheritance — mirrors svg.py:1454-1589 (`_inherit_attrib`, the per-attribute
  handlers, `_attr_supported`, `_drop_default_attrib`) and `_attrib_to_pass_on` (314-318).
  Handler kinds come from the generated table `Gen.inheritHandlers`.
-/
import PicoSVG.Model.Tree
import PicoSVG.Model.Shape

namespace PicoSVG.Cascade

/-- `sorted(keys)` -/
def sortedKeys (a : Attrs) : List String :=
  (a.map (·.1)).mergeSort (fun x y => decide (x ≤ y))

def handlerOf (name : String) : Option String := Gen.inheritHandlers.lookup name

/-- `_VALID_FIELDS[tag]` (shape / gradient dataclass fields, `stop`) -/
def validFields (tag : String) : Option (List String) :=
  match Gen.shapeFields.lookup tag with
  | some fs => some (fs.map (·.1))
  | none =>
    match Gen.gradientFields.lookup tag with
    | some fs => some (fs.map (·.1))
    | none => if tag == "stop" then some Gen.stopFields else none

/-- `_attr_supported(el, attr_name)` -/
def attrSupported (childTag : String) (name : String) : Bool :=
  match validFields (Node.stripNs childTag) with
  | some fs => fs.contains (name.replace "-" "_")
  | none => true

def pyFloat (s : String) : Except PyErr Float :=
  match F64.pyFloat? s with
  | some v => .ok v
  | none => .error .valueError

def parseAff (s : String) : Except PyErr (Aff Float) := TransformParse.parse s

def affIsId (A : Aff Float) : Bool := A == (Aff.id : Aff Float)

/-- one handler applied to the child's attributes -/
def applyHandler (kind : String) (attrib child : Attrs) (name : String) : Except PyErr Attrs :=
  match kind with
  | "_inherit_copy" =>
    if child.has name then .ok child
    else match attrib.get name with
      | some v => .ok (child.set name v)
      | none => .ok child
  | "_inherit_multiply" =>
    if !attrib.has name && !child.has name then .ok child else do
      let a ← match attrib.get name with | some v => pyFloat v | none => pure 1.0
      let c ← match child.get name with | some v => pyFloat v | none => pure 1.0
      pure (child.set name (F64.ntos (clampOpacity a * clampOpacity c)))
  | "_inherit_clip_path" =>
    let own := Str.splitOnChar ',' ((child.get "clip-path").getD "").toList |>.map String.ofList
    let all := (own ++ [(attrib.get "clip-path").getD ""]).mergeSort (fun x y => decide (x ≤ y))
    .ok (child.set "clip-path" (",".intercalate (all.filter (· != ""))))
  | "_inherit_nondefault_overflow" =>
    if (attrib.get name).getD "visible" != "visible" then
      (if child.has name then .ok child
       else match attrib.get name with | some v => .ok (child.set name v) | none => .ok child)
    else .ok child
  | "_inherit_nondefault_display" =>
    if (attrib.get name).getD "" == "none" then .ok (child.set name "none")
    else if child.has name then .ok child
    else match attrib.get name with | some v => .ok (child.set name v) | none => .ok child
  | "_inherit_matrix_multiply" => do
    let t0 ← match attrib.get name with | some v => parseAff v | none => pure Aff.id
    let t ← match child.get name with
      | some v => do let c ← parseAff v; pure (Aff.composeLtr [c, t0])
      | none => pure t0
    if !affIsId t then pure (child.set name (Aff.tostring t))
    else if child.has name then pure (child.del name)
    else throw .keyError      -- `del child.attrib[attr_name]` on a missing key
  | "_do_not_inherit" => .ok child
  | _ => .error .typeError

/-- `_inherit_attrib(attrib, child, skip_unhandled, skips)`: the child's new attribute list -/
def inheritAttrib (attrib : Attrs) (childTag : String) (child : Attrs) (skipUnhandled : Bool)
    (skips : List String) : Except PyErr Attrs := do
  let mut c := child
  let mut leftover := false
  for name in sortedKeys attrib do
    if skips.contains name || !attrSupported childTag name then continue
    match handlerOf name with
    | none => leftover := true
    | some kind => c ← applyHandler kind attrib c name
  if leftover && !skipUnhandled then throw .valueError
  pure c

/-- `_attrib_to_pass_on(current_attrib, el)` with the default skips (clip-path, opacity, transform) -/
def attribToPassOn (current : Attrs) (elAttrs : Attrs) : Except PyErr Attrs := do
  let a ← inheritAttrib elAttrs "dummy" [] true Gen.attribWithCustomInheritance
  inheritAttrib current "dummy" a false Gen.attribWithCustomInheritance

/-- the element's own attributes as `_attrib_to_pass_on` reads them: on anything but a shape a `style` attribute is
    spelled out into its declarations first (`parse_css_declarations` into a plain dict: every name is accepted), so
    that descendants inherit property by property and the declarations win over the element's own attributes -/
def ownAttribForPassOn (el : Node) : Except PyErr Attrs :=
  match el.attrs.get "style" with
  | some st =>
    if (Gen.shapeFields.lookup (Node.stripNs el.tag)).isSome then pure el.attrs
    else do
      let (assigned, _) ← Style.parseDecls (fun _ => true) (fun _ => true) st
      pure (assigned.foldl (fun m (k, v) => m.set k v) (el.attrs.del "style"))
  | none => pure el.attrs

/-- `_attrib_to_pass_on(current_attrib, el)` on an element -/
def attribToPassOnEl (current : Attrs) (el : Node) : Except PyErr Attrs :=
  ownAttribForPassOn el >>= fun own => attribToPassOn current own

/-- `_drop_default_attrib(attrib)` -/
def dropDefaultAttrib (a : Attrs) : Except PyErr Attrs := do
  let mut out := a
  for name in sortedKeys a do
    match Gen.attribDefaults.find? (fun (n, _, _) => n == name) with
    | none => pure ()
    | some (_, ty, dv) =>
      let v := (a.get name).getD ""
      if ty == "float" then
        let f ← pyFloat v
        let d ← pyFloat dv
        if f == d then out := out.del name
      else if ty == "int" then
        -- `default_value == value` compares the int default with the attribute *string*: never equal
        pure ()
      else if v == dv then out := out.del name
  pure out

end PicoSVG.Cascade
