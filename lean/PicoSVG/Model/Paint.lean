/-
  L3: the paint-related fields of a shape and the `might_paint` decision ladder
  (svg_types.py:230-262), `normalize_opacity` (373-396) and the stroke split bookkeeping of
  `SVG._stroke` (svg.py:816-849).
-/
import PicoSVG.Model.Style
import PicoSVG.Model.PathOps

namespace PicoSVG

/-- the fields of `SVGShape` that decide painting (after `apply_style_attribute`) -/
structure PaintAttrs (α : Type) where
  display : String := "inline"
  fill : String := "black"
  stroke : String := "none"
  opacity : α
  fillOpacity : α
  strokeOpacity : α
  strokeWidth : α
deriving Repr

/-- `_clamp(value)` / `clamp_opacity(value)`: `max(min(value, 1.0), 0.0)` — an opacity outside [0, 1] means 0 or 1, settled
    before anything is multiplied -/
def clampOpacity (v : Float) : Float :=
  let m := if (1.0 : Float) < v then (1.0 : Float) else v
  if m < (0.0 : Float) then (0.0 : Float) else m

section
variable {α : Type} [Mul α] [OfNat α 0] [BEq α] [LT α] [DecidableLT α]

/-- `_visible(fill, opacity)`: `fill != "none" and shape.opacity * opacity != 0` -/
def paintVisible (s : PaintAttrs α) (paint : String) (o : α) : Bool :=
  paint != "none" && (s.opacity * o != 0)

def strokeVisible (s : PaintAttrs α) : Bool :=
  paintVisible s s.stroke s.strokeOpacity && s.strokeWidth != 0

def fillVisible (s : PaintAttrs α) : Bool := paintVisible s s.fill s.fillOpacity

/-- `SVGShape.might_paint()`; `moveOnly` = every command of `as_cmd_seq()` is a moveto;
    `area` = `svg_pathops.path_area(as_cmd_seq, fill_rule)` or the PathOpsError it raised -/
def mightPaint (s : PaintAttrs α) (moveOnly : Bool) (area : Except PyErr α) : Bool :=
  if s.display == "none" then false
  else if moveOnly then false
  else if strokeVisible s then true
  else if !fillVisible s then false
  else match area with
    | .ok a => decide (0 < a)
    | .error _ => true

end

end PicoSVG
