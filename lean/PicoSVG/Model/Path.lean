/-
  L2: path commands — the generic `walk`, the rewrites built on it and the printer.
  Mirrors picosvg/svg_types.py:55-142,474-711 and svg_meta.path_segment.
  Generic over the scalar; table-driven by the generated `_CMD_ARGS` / `_CMD_COORDS`.
-/
import PicoSVG.Model.PathLex

namespace PicoSVG

abbrev Cmd (α : Type) := Char × List α

namespace Path

def coords (c : Char) : Option (List Nat × List Nat) := Gen.cmdCoords.lookup c

/-- `str.isupper` / `islower` on a single ASCII letter -/
def isUpper (c : Char) : Bool := 'A' ≤ c && c ≤ 'Z'
def isLower (c : Char) : Bool := 'a' ≤ c && c ≤ 'z'
def toUpper (c : Char) : Char := if isLower c then Char.ofNat (c.toNat - 32) else c
def toLower (c : Char) : Char := if isUpper c then Char.ofNat (c.toNat + 32) else c

section
variable {α : Type} [Add α] [Sub α] [Mul α] [Div α] [Neg α] [OfNat α 0] [OfNat α 1] [BEq α]
  [LT α] [LE α] [DecidableLT α] [DecidableLE α]

def getArg (args : List α) (i : Nat) : Except PyErr α :=
  match args[i]? with
  | some v => .ok v
  | none => .error .indexError

/-- `args[i] += v` for every index in `idxs` -/
def addAt (args : List α) (idxs : List Nat) (v : α) : List α :=
  args.zipIdx.map (fun (a, i) => if idxs.contains i then a + v else a)

def setAt (args : List α) (i : Nat) (v : α) : List α :=
  args.zipIdx.map (fun (a, j) => if i == j then v else a)

/-- `_next_pos` -/
def nextPos (curr : Pt α) (cmd : Char) (args : List α) : Except PyErr (Pt α) :=
  match coords cmd with
  | none => .error .valueError
  | some (xs, ys) => do
    let x0 := if isUpper cmd && !xs.isEmpty then (0 : α) else curr.x
    let y0 := if isUpper cmd && !ys.isEmpty then (0 : α) else curr.y
    let x ← match xs.getLast? with
      | some i => do let v ← getArg args i; pure (x0 + v)
      | none => pure x0
    let y ← match ys.getLast? with
      | some i => do let v ← getArg args i; pure (y0 + v)
      | none => pure y0
    pure ⟨x, y⟩

/-- callback of `walk`: (subpath_start, curr_pos, cmd, args, prev = (prev_pos, prev_cmd, prev_args)) -/
abbrev Callback (α : Type) :=
  Pt α → Pt α → Char → List α → Option (Pt α × Char × List α) → Except PyErr (List (Cmd α))

structure WalkState (α : Type) where
  curr : Pt α
  start : Pt α
  /-- (start position of the command, command) in order -/
  out : List (Pt α × Cmd α)

def applyNew (st : WalkState α) (nc : Cmd α) : Except PyErr (WalkState α) := do
  let (c, a) := nc
  let next ← if toLower c != 'z' then nextPos st.curr c a else pure st.start
  let start := if toUpper c == 'M' then next else st.start
  pure { curr := next, start := start, out := st.out ++ [(st.curr, nc)] }

def step (cb : Callback α) (st : WalkState α) (idx : Nat) (cmd : Cmd α) :
    Except PyErr (WalkState α) := do
  let (c, a) := cmd
  let _ ← PathLex.checkCmd c a.length
  let c := if idx == 0 && c == 'm' then 'M' else c
  let prev := st.out.getLast?.map (fun (p, (pc, pa)) => (p, pc, pa))
  let news ← cb st.start st.curr c a prev
  news.foldlM applyNew st

def walkFrom (cb : Callback α) : WalkState α → Nat → List (Cmd α) → Except PyErr (WalkState α)
  | st, _, [] => .ok st
  | st, idx, c :: cs => do
    let st' ← step cb st idx c
    walkFrom cb st' (idx + 1) cs

/-- `SVGPath.walk` on exploded commands; result = the rewritten command list -/
def walk (cb : Callback α) (cmds : List (Cmd α)) : Except PyErr (List (Cmd α)) := do
  let st ← walkFrom cb { curr := ⟨0, 0⟩, start := ⟨0, 0⟩, out := [] } 0 cmds
  pure (st.out.map (·.2))

/-! ### callbacks -/

/-- `_explicit_lines_callback` -/
def explicitLinesCmd (curr : Pt α) (cmd : Char) (args : List α) : Except PyErr (Cmd α) :=
  if cmd == 'v' then do let a ← getArg args 0; pure ('l', [0, a])
  else if cmd == 'V' then do let a ← getArg args 0; pure ('L', [curr.x, a])
  else if cmd == 'h' then do let a ← getArg args 0; pure ('l', [a, 0])
  else if cmd == 'H' then do let a ← getArg args 0; pure ('L', [a, curr.y])
  else pure (cmd, args)

def explicitLinesCb : Callback α := fun _ curr cmd args _ => do
  let c ← explicitLinesCmd curr cmd args
  pure [c]

/-- `_rewrite_coords(cmd_converter, coord_converter, …)`; `neg = true` for absolute→relative -/
def rewriteCoords (toRel : Bool) (curr : Pt α) (cmd : Char) (args : List α) :
    Except PyErr (Cmd α) :=
  match coords cmd with
  | none => .error .valueError
  | some (xs, ys) =>
    let desired := if toRel then toLower cmd else toUpper cmd
    if cmd != desired then
      let dx := if toRel then (0 : α) - curr.x else curr.x
      let dy := if toRel then (0 : α) - curr.y else curr.y
      if (xs ++ ys).any (fun i => i ≥ args.length) then .error .indexError
      else .ok (desired, addAt (addAt args xs dx) ys dy)
    else .ok (cmd, args)

def relToAbs (curr : Pt α) (cmd : Char) (args : List α) : Except PyErr (Cmd α) :=
  rewriteCoords false curr cmd args

def relToAbsMoveto (curr : Pt α) (cmd : Char) (args : List α) : Except PyErr (Cmd α) :=
  if cmd == 'M' || cmd == 'm' then relToAbs curr cmd args else .ok (cmd, args)

def absToRel (curr : Pt α) (cmd : Char) (args : List α) : Except PyErr (Cmd α) :=
  rewriteCoords true curr cmd args

/-- `_move_endpoint` -/
def moveEndpoint (curr : Pt α) (cmd : Char) (args : List α) (newEnd : Pt α) :
    Except PyErr (Cmd α) := do
  let (cmd, args) ← explicitLinesCmd curr cmd args
  match coords cmd with
  | none => .error .valueError
  | some (xs, ys) =>
    if xs.isEmpty && ys.isEmpty then pure (cmd, args)
    else
      let nx := if isLower cmd then newEnd.x - curr.x else newEnd.x
      let ny := if isLower cmd then newEnd.y - curr.y else newEnd.y
      match xs.getLast?, ys.getLast? with
      | some i, some j =>
        if i ≥ args.length || j ≥ args.length then .error .indexError
        else pure (cmd, setAt (setAt args i nx) j ny)
      | _, _ => .error .indexError

def ptAlmostEq (tol : α) (p q : Pt α) : Bool :=
  decide (absv (p.x - q.x) ≤ tol) && decide (absv (p.y - q.y) ≤ tol)

/-- callback of `_rewrite_path`: rewrite, then snap an end point that comes within `tol`
    (1e-9) of the subpath start, but is not equal to it, onto the start -/
def rewriteCb (tol : α) (fn : Pt α → Char → List α → Except PyErr (Cmd α)) : Callback α :=
  fun start curr cmd args _ => do
    let (nc, na) ← fn curr cmd args
    let np ← nextPos curr nc na
    -- … except for an arc that sets out from the subpath start (moved onto its own start it would be zero-length)
    if !(np == start) && ptAlmostEq tol np start && !((nc == 'A' || nc == 'a') && curr == start) then do
      let r ← moveEndpoint curr nc na start
      pure [r]
    else pure [(nc, na)]

def absolute (tol : α) (cmds : List (Cmd α)) := walk (rewriteCb tol relToAbs) cmds
def absoluteMoveto (tol : α) (cmds : List (Cmd α)) := walk (rewriteCb tol relToAbsMoveto) cmds
/-- `relative()` before the "first letter back to M" string surgery -/
def relativeCore (tol : α) (cmds : List (Cmd α)) := walk (rewriteCb tol absToRel) cmds
def explicitLines (cmds : List (Cmd α)) := walk explicitLinesCb cmds

def absIfLower (curr : Pt α) (cmd : Char) (args : List α) : Except PyErr (Cmd α) :=
  if isLower cmd then relToAbs curr cmd args else .ok (cmd, args)

/-- the first control point `expand_shorthand` supplies: the reflection of the previous
    (absolutised) command's second-last x,y pair when that command is of the same family
    (`family` = C for S, Q for T), else the current point -/
def prevCtrl (family : Char) (curr : Pt α) (prev : Option (Pt α × Char × List α)) :
    Except PyErr (List α) :=
  match prev with
  | none => pure [curr.x, curr.y]
  | some (ppos, pcmd, pargs) =>
    absIfLower ppos pcmd pargs >>= fun pa =>
    if pa.1 == family then
      -- prev_args[-4], prev_args[-3]
      if pa.2.length < 4 then .error .indexError else
      getArg pa.2 (pa.2.length - 4) >>= fun px =>
      getArg pa.2 (pa.2.length - 3) >>= fun py =>
      .ok [two * curr.x - px, two * curr.y - py]
    else .ok [curr.x, curr.y]

/-- `expand_shorthand` callback -/
def expandShorthandCb : Callback α := fun _ curr cmd args prev =>
  if !(toUpper cmd == 'S' || toUpper cmd == 'T') then .ok [(cmd, args)] else
    absIfLower curr cmd args >>= fun ca =>
    prevCtrl (if ca.1 == 'S' then 'C' else 'Q') curr prev >>= fun cp =>
    .ok [((if ca.1 == 'S' then 'C' else 'Q'), cp ++ ca.2)]

def expandShorthand (cmds : List (Cmd α)) := walk expandShorthandCb cmds

/-- `move(dx, dy)` callback: shift absolute commands only -/
def moveCb (dx dy : α) : Callback α := fun _ _ cmd args _ =>
  if isLower cmd then pure [(cmd, args)] else
  match coords cmd with
  | none => .error .valueError
  | some (xs, ys) =>
    if (xs ++ ys).any (fun i => i ≥ args.length) then .error .indexError
    else pure [(cmd, addAt (addAt args xs dx) ys dy)]

def move (dx dy : α) (cmds : List (Cmd α)) := walk (moveCb dx dy) cmds

/-- `subpaths()`: after `absolute_moveto`, open a new subpath at every `M` and after every `Z`;
    a subpath that follows a `Z` without its own moveto gets an explicit `M <subpath start>`
    (the subpath start is the argument pair of the last `M`, or the origin) -/
def splitSubpaths (cmds : List (Cmd α)) : List (List (Cmd α)) :=
  let rec go (lastM : List α) (prevZ : Bool) (cur : List (Cmd α)) (rest : List (Cmd α))
      (acc : List (List (Cmd α))) : List (List (Cmd α)) :=
    match rest with
    | [] => (cur.reverse :: acc).reverse
    | (c, a) :: r =>
      let isM := toUpper c == 'M'
      let (acc, cur) := if isM then (cur.reverse :: acc, []) else (acc, cur)
      let cur := if !isM && prevZ && cur.isEmpty then [('M', lastM)] else cur
      let cur := (c, a) :: cur
      let lastM := if isM then a else lastM
      if toUpper c == 'Z' then go lastM true [] r (cur.reverse :: acc) else go lastM false cur r acc
  (go [0, 0] false [] cmds []).filter (fun s => !s.isEmpty)

def subpaths (tol : α) (cmds : List (Cmd α)) : Except PyErr (List (List (Cmd α))) := do
  let a ← absoluteMoveto tol cmds
  -- the walk with the identity callback re-validates and renames a leading 'm'
  let a' ← walk (fun _ _ c as _ => pure [(c, as)]) a
  pure (splitSubpaths a')

end

/-! ### printing (`svg_meta.path_segment`, `SVGPath._add`) -/

/-- is (i, i+1) an (x, y) coordinate pair of the command? (`set(zip(*_CMD_COORDS[cmd]))`) -/
def isXYPair (cmd : Char) (i : Nat) : Bool :=
  match coords cmd with
  | some (xs, ys) => (xs.zip ys).any (fun (x, y) => x == i && y == i + 1)
  | none => false

/-- join one argument group: commas inside x,y pairs, spaces elsewhere -/
def joinGroup (cmd : Char) (fuel : Nat) (i : Nat) (sub : List String) : List String :=
  match fuel with
  | 0 => []
  | fuel + 1 =>
    match sub with
    | [] => []
    | [a] => [a]
    | a :: b :: r =>
      if isXYPair cmd i then (a ++ "," ++ b) :: joinGroup cmd fuel (i + 2) r
      else a :: joinGroup cmd fuel (i + 1) (b :: r)

/-- `path_segment(cmd, *args)` on already printed numbers -/
def segmentStr (cmd : Char) (args : List String) : Except PyErr String := do
  let k ← PathLex.checkCmd cmd args.length
  if k == 0 then pure (String.singleton cmd) else
  let groups := (PathLex.chunks k (args.length + 1) args).filter (fun g => g.length == k)
  let parts := groups.flatMap (fun g => joinGroup cmd (g.length + 1) 0 g)
  pure (String.singleton cmd ++ " ".intercalate parts)

/-- the `d` string built by repeated `_add_cmd` -/
def printWith {β : Type} (show_ : β → String) (cmds : List (Char × List β)) : Except PyErr String := do
  let segs ← cmds.mapM (fun (c, a) => segmentStr c (a.map show_))
  pure (" ".intercalate segs)

def print (cmds : List (Cmd Float)) : Except PyErr String := printWith F64.ntos cmds

end Path
end PicoSVG
