/-
  L2: the command sequences the basic shapes turn into (`as_path()` of SVGRect / SVGEllipse / SVGCircle / SVGLine),
  generic over the scalar so that the theorems about them (Props/C09) are exact-arithmetic statements; the Float instances
  are what Shape.lean / SvgPath.lean print.
-/
import PicoSVG.Model.Path

namespace PicoSVG.ShapeCmds

section
variable {α : Type} [Add α] [Sub α] [Mul α] [Div α] [Neg α] [OfNat α 0] [OfNat α 1] [BEq α]
  [LT α] [LE α] [DecidableLT α] [DecidableLE α]

/-- `SVGRect.as_path()` on the already resolved radii -/
def rectCmds (x y w h rx ry : α) : List (Cmd α) :=
  let arc (ex ey : α) : Cmd α := ('A', [rx, ry, 0, 0, 1, ex, ey])
  [('M', [x + rx, y]), ('H', [x + w - rx])] ++
    (if 0 < rx then [arc (x + w) (y + ry)] else []) ++ [('V', [y + h - ry])] ++
    (if 0 < rx then [arc (x + w - rx) (y + h)] else []) ++ [('H', [x + rx])] ++
    (if 0 < rx then [arc x (y + h - ry)] else []) ++ [('V', [y + ry])] ++
    (if 0 < rx then [arc (x + rx) y] else []) ++ [('Z', [])]

/-- `from_element` for a rect: the dataclass reads a zero radius as "copy the other one"; when both attributes are given
    and one of them is zero, both fields are set to zero first -/
def explicitZeroRadii (givenRx givenRy : Bool) (rx ry : α) : α × α :=
  if givenRx && givenRy && (rx == 0 || ry == 0) then (0, 0) else (rx, ry)

/-- `SVGEllipse.as_path()` / `SVGCircle.as_path()` -/
def ellipseCmds (rx ry cx cy : α) : List (Cmd α) :=
  [('M', [cx + rx, cy]), ('A', [rx, ry, 0, 1, 1, cx - rx, cy]), ('A', [rx, ry, 0, 1, 1, cx + rx, cy]), ('Z', [])]

/-- `SVGLine.as_path()` -/
def lineCmds (x1 y1 x2 y2 : α) : List (Cmd α) := [('M', [x1, y1]), ('L', [x2, y2])]
end

end PicoSVG.ShapeCmds
