/-
  L4: gradients — the dataclasses of svg_types.py:859-984 and the rewrites of svg.py
  (`_apply_gradient_template` 1215-1256, `_apply_gradient_translation` 1195-1213,
  `_transformed_gradient` 678-698, `_add_to_defs` 665-676).
-/
import PicoSVG.Model.Passes

namespace PicoSVG
open DocM Cascade Traverse

structure GradRec where
  tag : String
  id : String
  /-- numeric fields in dataclass order: x1 y1 x2 y2 | cx cy r fx fy fr -/
  vals : List (String × Float)
  transform : Aff Float
  units : String
  spread : String
deriving Repr

namespace GradRec

def get (g : GradRec) (k : String) : Float := (g.vals.lookup k).getD 0.0
def set (g : GradRec) (k : String) (v : Float) : GradRec :=
  { g with vals := g.vals.map (fun (n, w) => if n == k then (n, v) else (n, w)) }

/-- `number_or_percentage(s, scale)` -/
def numOrPct (s : String) (scale : Float) : Except PyErr Float :=
  if s.endsWith "%" then do
    let f ← pyFloat (s.dropEnd 1).toString
    pure (f / 100 * scale)
  else pyFloat s

/-- `_SVGGradient.from_element(el, view_box)` for both classes -/
def fromElement (n : Node) (viewBox : Option (Rect Float)) : Except PyErr GradRec := do
  let tag := n.localTag
  let a := n.attrs
  let unitsAttr := (a.get "gradientUnits").getD "objectBoundingBox"
  let scale : Rect Float ← if unitsAttr == "userSpaceOnUse" then
      (match viewBox with
       | some vb => pure vb
       | none => throw PyErr.attributeError)  -- `None.w` / `None.normalized_diagonal()` in Python
    else if unitsAttr == "objectBoundingBox" then pure ⟨0, 0, 1, 1⟩
    else throw PyErr.valueError
  let pop (k dflt : String) (sc : Float) : Except PyErr Float := numOrPct ((a.get k).getD dflt) sc
  let (vals, used) ← if tag == "linearGradient" then do
      let x1 ← pop "x1" "0%" scale.w; let y1 ← pop "y1" "0%" scale.h
      let x2 ← pop "x2" "100%" scale.w; let y2 ← pop "y2" "0%" scale.h
      pure ([("x1", x1), ("y1", y1), ("x2", x2), ("y2", y2)], ["x1", "y1", "x2", "y2"])
    else do
      let diag := F64.hypot scale.w scale.h / Float.sqrt 2
      let cx ← pop "cx" "50%" scale.w; let cy ← pop "cy" "50%" scale.h
      let r ← pop "r" "50%" diag; let fr ← pop "fr" "0%" diag
      let fx ← match a.get "fx" with | some v => numOrPct v scale.w | none => pure cx
      let fy ← match a.get "fy" with | some v => numOrPct v scale.h | none => pure cy
      pure ([("cx", cx), ("cy", cy), ("r", r), ("fx", fx), ("fy", fy), ("fr", fr)],
            ["cx", "cy", "r", "fr", "fx", "fy"])
  let t ← match a.get "gradientTransform" with | some s => parseAff s | none => pure Aff.id
  let known := used ++ ["id", "gradientUnits", "spreadMethod", "gradientTransform"]
  if a.any (fun (k, _) => !known.contains k) then throw .valueError   -- "unknown attributes in gradient"
  -- a dataclass without `id` cannot be constructed (TypeError)
  let id ← match a.get "id" with | some i => pure i | none => throw PyErr.typeError
  pure { tag := tag, id := id, vals := vals, transform := t, units := unitsAttr,
         spread := (a.get "spreadMethod").getD "pad" }

/-- `as_user_space_units(shape_bbox, inplace=True)` -/
def asUserSpace (g : GradRec) (bbox : Rect Float) : GradRec :=
  if g.units == "objectBoundingBox" then
    { g with transform := Aff.composeLtr [g.transform, rectToRect ⟨0, 0, 1, 1⟩ bbox PAR.none],
             units := "userSpaceOnUse" }
  else g

/-- `to_element(gradient).attrib`: required fields always, optional ones unless at their default -/
def toAttrs (g : GradRec) : Attrs :=
  let num (k : String) : List (String × String) := [(k, F64.ntos (g.get k))]
  let numIfNot (k : String) (d : Float) : List (String × String) :=
    if g.get k == d then [] else [(k, F64.ntos (g.get k))]
  [("id", g.id)] ++
  (if g.tag == "linearGradient" then num "x1" ++ num "y1" ++ num "x2" ++ num "y2"
   else num "cx" ++ num "cy" ++ num "r" ++ numIfNot "fx" (g.get "cx") ++ numIfNot "fy" (g.get "cy") ++
        numIfNot "fr" 0.0) ++
  (if g.transform == (Aff.id : Aff Float) then [] else [("gradientTransform", Aff.tostring g.transform)]) ++
  (if g.units == "objectBoundingBox" then [] else [("gradientUnits", g.units)]) ++
  (if g.spread == "pad" then [] else [("spreadMethod", g.spread)])

def roundAff (A : Aff Float) (n : Nat) : Aff Float := A.map (fun v => F64.pyRound v n)

def coordPairs (tag : String) : List (String × String) := (Gen.gradientCoords.lookup tag).getD []

/-- the dataclass after `_apply_gradient_translation` -/
def applyTranslation (g : GradRec) : Except PyErr GradRec := do
  let nd := Gen.gradientTransformNdigits
  let (tr, prime) ← decomposeTranslationPy SvgPath.tol (F64.ofBitsNat Gen.decompositionTolBits) g.transform
  let g1 := if !(roundAff tr nd == (Aff.id : Aff Float)) then
      (coordPairs g.tag).foldl (fun acc (xa, ya) =>
        let p := tr.mapPt ⟨acc.get xa, acc.get ya⟩
        (acc.set xa (F64.pyRound p.x nd)).set ya (F64.pyRound p.y nd)) g
    else g
  pure { g1 with transform := roundAff prime nd }

end GradRec

namespace SvgObj

/-- white space of `\s` (ASCII part) -/
def isReWs (c : Char) : Bool :=
  c == ' ' || c == '\t' || c == '\n' || c == '\r' || c == '\x0b' || c == '\x0c' || (c.toNat ≥ 0x1c && c.toNat ≤ 0x1f)

/-- `^\s*url[(]\s*(['"]?)#([^)'"\s]+)\1\s*[)].*$` with DOTALL: optional white space and matching quotes around the
    reference, any id without `)`, quotes or white space, an optional fallback after the closing parenthesis -/
def idOfTarget (url : String) : Except PyErr String :=
  let cs := url.toList.dropWhile isReWs
  if !("url(".toList.isPrefixOf cs) then .error .valueError else
  let r1 := (cs.drop 4).dropWhile isReWs
  let (q, r2) : Option Char × List Char := match r1 with
    | '\'' :: t => (some '\'', t)
    | '"' :: t => (some '"', t)
    | _ => (none, r1)
  match r2 with
  | '#' :: r3 =>
    let idc (c : Char) : Bool := !(c == ')' || c == '\'' || c == '"' || isReWs c)
    let i := r3.takeWhile idc
    let r4 := r3.dropWhile idc
    if i.isEmpty then .error .valueError else
    let r5? : Option (List Char) := match q with
      | none => some r4
      | some qc => match r4 with
        | c :: t => if c == qc then some t else none
        | [] => none
    match r5? with
    | none => .error .valueError
    | some r5 =>
      match r5.dropWhile isReWs with
      | ')' :: _ => .ok (String.ofList i)
      | _ => .error .valueError
  | _ => .error .valueError

/-- `resolve_url(url, tag)`: exactly one svg element with that id (and tag, unless `*`) -/
def resolveUrl (root : Node) (url : String) (tag : String) : Except PyErr Node := do
  let i ← idOfTarget url
  let hits := root.elems.filter (fun n =>
    (Node.splitNs n.tag).1 == some svgNs && (tag == "*" || n.localTag == tag) && n.getAttr "id" == some i)
  match hits with
  | [h] => pure h
  | _ => throw .valueError

/-- `_add_to_defs(defs, new_el)`: sorted insert by id with the insert-at-0 fallback -/
def addToDefs (defsKids : List Node) (el : Node) : List Node :=
  match el.getAttr "id" with
  | none => defsKids
  | some nid =>
    let elemsOnly := defsKids.filter Node.isLxmlNode
    let idx := (elemsOnly.zipIdx.find? (fun (k, _) => decide (nid < (k.getAttr "id").getD ""))).map (·.2)
    let at_ := idx.getD 0
    elemsOnly.take at_ ++ [el] ++ elemsOnly.drop at_

/-- the attribute half of `_apply_gradient_template`: a dataclass field the gradient lacks is taken from the template -/
def inheritFields (fields : List String) (tmpl a : Attrs) : Attrs :=
  fields.foldl (fun a f => match Attrs.get tmpl f with
    | some v => if !Attrs.has a f then Attrs.set a f v else a
    | none => a) a

/-- `_apply_gradient_template(gradient)` on the current tree; `fuel` = recursion limit -/
def applyGradientTemplate (gUid : Nat) : (fuel : Nat) → DocM Unit
  | 0 => fail .recursionError
  | fuel + 1 => do
    let root ← getRoot
    let g ← match Node.findUid root gUid with
      | some n => pure n
      | none => fail .valueError
    match g.getAttr Node.xlinkHref with
    | none => pure ()
    | some ref0 =>
      if !ref0.startsWith "#" then fail .valueError
      let ref := String.ofList (Str.strip (ref0.drop 1).toString.toList)
      -- `.//svg:*[@id=ref]`: descendants of the root, exactly one
      let hits := (root.elems.drop 1).filter (fun n =>
        (Node.splitNs n.tag).1 == some svgNs && n.getAttr "id" == some ref)
      let tmpl ← match hits with
        | [h] => pure h
        | _ => fail .valueError
      if !isGradientTag tmpl.tag then fail .valueError
      if ((tmpl.getAttr Node.xlinkHref).getD "") != "" then applyGradientTemplate tmpl.uid fuel
      let root ← getRoot
      let tmpl := (Node.findUid root tmpl.uid).getD tmpl
      let g := (Node.findUid root gUid).getD g
      let fields := ((Gen.gradientFields.lookup g.localTag).getD []).map (·.1)
      let mut a := inheritFields fields tmpl.attrs g.attrs
      -- stops are copied only when the gradient has no children at all
      let mut kids := g.children
      if (g.children.filter Node.isLxmlNode).isEmpty then
        for st in tmpl.children.filter Node.isLxmlNode do
          let c ← copyStripIds st
          -- `_del_attrs(new_stop_el, "id")` strips the stop's own id only; nested ids are kept in
          -- Python, but stops have no element children in practice
          kids := kids ++ [c]
      a := a.del Node.xlinkHref
      setRoot (Node.updateUid root gUid (fun n => (n.setAttrs a).setChildren kids))

/-- `_apply_gradient_translation(el)`: attributes are replaced by the re-emitted dataclass -/
def applyGradientTranslation (gUid : Nat) : DocM Unit := do
  let root ← getRoot
  match Node.findUid root gUid with
  | none => fail .valueError
  | some g =>
    let vb ← liftE (viewBox root)
    let rec_ ← liftE (GradRec.fromElement g vb)
    let r ← liftE rec_.applyTranslation
    setRoot (Node.updateUid root gUid (fun n => n.setAttrs r.toAttrs))

end SvgObj
end PicoSVG
