/-
  L4: document traversal — mirrors `SVG._traverse` / breadth_first / depth_first
  (svg.py:605-663) without clip resolution, `_element_transform`, and the final gate
  `checkpicosvg` (1275-1330).
-/
import PicoSVG.Model.Cascade
import PicoSVG.Model.TreeOps

namespace PicoSVG.Traverse
open Cascade

structure Ctx where
  nth : Nat
  /-- index path from the root (addresses the element inside the immutable tree) -/
  addr : List Nat
  node : Node
  /-- `/svg[0]/g[1]/…` as (local tag, index) segments -/
  segs : List (String × Nat)
  transform : Aff Float
  attrib : Attrs
deriving Repr

def pathString (segs : List (String × Nat)) : String :=
  String.join (segs.map (fun (t, i) => "/" ++ t ++ "[" ++ toString i ++ "]"))

def isGradientTag (tag : String) : Bool := (Gen.gradientFields.lookup (Node.stripNs tag)).isSome
def isShapeTag (tag : String) : Bool := (Gen.shapeFields.lookup (Node.stripNs tag)).isSome
def isGroupTag (tag : String) : Bool := Node.stripNs tag == "g"
def isDefsTag (tag : String) : Bool := Node.stripNs tag == "defs"

/-- `_element_transform(el, current)` -/
def elementTransform (n : Node) (current : Aff Float) : Except PyErr (Aff Float) :=
  let name := if isGradientTag n.tag then "gradientTransform" else "transform"
  match n.getAttr name with
  | some raw =>
    if raw.isEmpty then .ok current
    else do
      let t ← parseAff raw
      pure (Aff.composeLtr [t, current])
  | none => .ok current

/-- child contexts of a context, in document order, skipping comments / PIs -/
def childCtxs (c : Ctx) : Except PyErr (List Ctx) := do
  let mut counts : List (String × Nat) := []
  let mut out : List Ctx := []
  let mut i := 0
  for ch in c.node.children do
    if ch.isLxmlNode && !ch.isRedundant then
      -- `strip_ns(child.tag)` on an entity node: QName of a function object
      if ch == Node.entity then throw .valueError
      let t ← elementTransform ch c.transform
      let l := ch.localTag
      let n := (counts.lookup l).getD 0
      counts := (l, n + 1) :: counts.filter (·.1 != l)
      let a ← attribToPassOnEl c.attrib ch
      out := out ++ [{ nth := n, addr := c.addr ++ [i], node := ch, segs := c.segs ++ [(l, n)],
                       transform := t, attrib := a }]
    i := i + 1
  pure out

def rootCtx (root : Node) : Except PyErr Ctx := do
  let a ← attribToPassOnEl Gen.inheritableAttribDefaults root
  pure { nth := 0, addr := [], node := root, segs := [("svg", 0)], transform := Aff.id, attrib := a }

/-- breadth-first contexts (the traversal is a queue; `fuel` bounds the number of nodes) -/
def bfsFrom : (fuel : Nat) → List Ctx → Except PyErr (List Ctx)
  | 0, _ => .ok []
  | _, [] => .ok []
  | fuel + 1, c :: rest => do
    let kids ← childCtxs c
    let more ← bfsFrom fuel (rest ++ kids)
    pure (c :: more)

/-- depth-first (pre-order) contexts -/
def dfsFrom : (fuel : Nat) → List Ctx → Except PyErr (List Ctx)
  | 0, _ => .ok []
  | _, [] => .ok []
  | fuel + 1, c :: rest => do
    let kids ← childCtxs c
    let more ← dfsFrom fuel (kids ++ rest)
    pure (c :: more)

def nodeCount (n : Node) : Nat := n.flat.length

def breadthFirst (root : Node) : Except PyErr (List Ctx) := do
  let r ← rootCtx root
  bfsFrom (nodeCount root + 1) [r]

def depthFirst (root : Node) : Except PyErr (List Ctx) := do
  let r ← rootCtx root
  dfsFrom (nodeCount root + 1) [r]

/-! ### the gate -/

def isGradLocal (t : String) : Bool := t == "linearGradient" || t == "radialGradient"

/-- the element-path allow list of `checkpicosvg` as a predicate on path segments:
    `/svg[0]`, `/svg[0]/defs[0]`, `/svg[0]/defs[0]/(linear|radial)Gradient[n](/stop[n])?`,
    `/svg[0](/(path|g)[n])+`, and with allow_text
    `/svg[0](/(text|textPath)[n])+(/(text|tspan|textPath)[n])*` -/
def pathAllowed (allowText : Bool) (segs : List (String × Nat)) : Bool :=
  match segs with
  | [("svg", 0)] => true
  | ("svg", 0) :: rest =>
    (match rest with
     | [("defs", 0)] => true
     | [("defs", 0), (g, _)] => isGradLocal g
     | [("defs", 0), (g, _), ("stop", _)] => isGradLocal g
     | _ => false) ||
    (!rest.isEmpty && rest.all (fun (t, _) => t == "path" || t == "g")) ||
    (allowText &&
      (let head := rest.takeWhile (fun (t, _) => t == "text" || t == "textPath")
       let tail := rest.dropWhile (fun (t, _) => t == "text" || t == "textPath")
       !head.isEmpty && tail.all (fun (t, _) => t == "text" || t == "tspan" || t == "textPath")))
  | _ => false

inductive Violation
  | badElement (path : String)
  | reusesId (path : String) (id : String) (first : String)
  | missing (path : String)
deriving Repr, BEq

/-- running state of the gate's scan over the breadth-first contexts -/
structure Scan where
  errs : List Violation := []
  bad : List String := []
  removed : List (List Nat) := []
  ids : List (String × String) := []
  seenRoot : Bool := false
  seenDefs : Bool := false

/-- one context of the scan -/
def scanStep (allowText dropUnsupported : Bool) (st : Scan) (c : Ctx) : Scan :=
  let p := pathString c.segs
  if st.bad.any (fun bp => bp.isPrefixOf p) then st
  else if !pathAllowed allowText c.segs then
    if dropUnsupported then { st with removed := st.removed ++ [c.addr] }
    else { st with errs := st.errs ++ [.badElement p], bad := st.bad ++ [p] }
  else
    let st := { st with seenRoot := st.seenRoot || p == "/svg[0]", seenDefs := st.seenDefs || p == "/svg[0]/defs[0]" }
    match c.node.getAttr "id" with
    | some i =>
      let errs := match st.ids.lookup i with
        | some first => st.errs ++ [.reusesId p i first]
        | none => st.errs
      { st with errs := errs, ids := (i, p) :: st.ids.filter (·.1 != i) }
    | none => st

def scanAll (allowText dropUnsupported : Bool) (ctxs : List Ctx) : Scan :=
  ctxs.foldl (scanStep allowText dropUnsupported) {}

def missing (st : Scan) : List Violation :=
  (if st.seenRoot then [] else [Violation.missing "/svg[0]"]) ++
  (if st.seenDefs then [] else [Violation.missing "/svg[0]/defs[0]"])

/-- `checkpicosvg(allow_text, drop_unsupported)` on an in-sync tree: the violations (BadElement /
    id reuse in traversal order, then MissingElement) and the addresses removed by drop_unsupported -/
def checkPico (allowText dropUnsupported : Bool) (root : Node) :
    Except PyErr (List Violation × List (List Nat)) :=
  breadthFirst root >>= fun ctxs =>
    let st := scanAll allowText dropUnsupported ctxs
    .ok (st.errs ++ missing st, st.removed)

end PicoSVG.Traverse
