/-
  L2: elliptical arc → cubic Béziers — mirrors picosvg/arc_to_cubic.py.
  Generic over the scalar and an `ArcMath` record of the `math` primitives the code calls.
-/
import PicoSVG.Model.Transform

namespace PicoSVG

/-- the `math` functions and literals `arc_to_cubic.py` uses -/
structure ArcMath (α : Type) extends Trig α where
  sqrt : α → α
  atan2 : α → α → α
  /-- `int(ceil(fabs(x)))`; `none` = ceil raised (NaN → ValueError, inf → OverflowError) -/
  ceilAbs : α → Option Nat
  isFinite : α → Bool
  ofNat : Nat → α
  twoPi : α
  piOverTwo : α
  /-- the literals 0.001, 0.25, 0.5, 4/3 -/
  fudge : α
  quarter : α
  half : α
  fourThirds : α

structure EllArc (α : Type) where
  start : Pt α
  rx : α
  ry : α
  rotation : α
  large : Bool
  sweep : Bool
  end_ : Pt α

structure CenterParam (α : Type) where
  theta1 : α
  thetaArc : α
  center : Pt α

section
variable {α : Type} [Add α] [Sub α] [Mul α] [Div α] [Neg α] [OfNat α 0] [OfNat α 1] [BEq α]
  [LT α] [LE α] [DecidableLT α] [DecidableLE α]

namespace EllArc

/-- `is_straight_line`: `not (fabs(rx) and fabs(ry))` -/
def isStraightLine (a : EllArc α) : Bool := absv a.rx == 0 || absv a.ry == 0

def isZeroLength (a : EllArc α) : Bool := a.end_ == a.start

/-- `identity.rotate(angle)` through the same method chain the code uses -/
def rot (M : ArcMath α) (s : Aff α) (angle : α) : Aff α :=
  s.rotateCS (M.cos angle) (M.sin angle) 0 0

/-- `correct_out_of_range_radii`; ZeroDivisionError when a squared radius underflows to 0 -/
def correctRadii (M : ArcMath α) (a : EllArc α) : Except PyErr (EllArc α) :=
  if a.isStraightLine || a.isZeroLength then .ok a else
  let mid : Pt α := ⟨(a.start.x - a.end_.x) * M.half, (a.start.y - a.end_.y) * M.half⟩
  let angle := M.rad a.rotation
  let pt := rot M Aff.id (-angle)
  let tm := pt.mapVec mid
  let sqrx := a.rx * a.rx
  let sqry := a.ry * a.ry
  let sqx := tm.x * tm.x
  let sqy := tm.y * tm.y
  if sqrx == 0 || sqry == 0 then .error .zeroDivisionError else
  let scale := sqx / sqrx + sqy / sqry
  if 1 < scale then
    .ok { a with rx := a.rx * M.sqrt scale, ry := a.ry * M.sqrt scale }
  else .ok a

/-- `end_to_center_parametrization` -/
def endToCenter (M : ArcMath α) (eps : α) (a : EllArc α) : Except PyErr (CenterParam α) :=
  if a.isStraightLine || a.isZeroLength then .error .valueError else
  if a.rx == 0 || a.ry == 0 then .error .zeroDivisionError else
  let angle := M.rad a.rotation
  let pt := rot M ((Aff.id : Aff α).scale ((1 : α) / a.rx) ((1 : α) / a.ry)) (-angle)
  let p1 := pt.mapPt a.start
  let p2 := pt.mapPt a.end_
  let dx := p2.x - p1.x
  let dy := p2.y - p1.y
  let d := dx * dx + dy * dy
  if d == 0 then .error .zeroDivisionError else
  let v := (1 : α) / d - M.quarter
  let sfs := if v < 0 then (0 : α) else v          -- max(v, 0.0)
  let sf0 := M.sqrt sfs
  let sf := if a.sweep == a.large then -sf0 else sf0
  let ddx := dx * sf
  let ddy := dy * sf
  -- point1 + (point2 - point1) * 0.5 + Vector(-delta.y, delta.x)
  let cx := p1.x + (p2.x - p1.x) * M.half + (-ddy)
  let cy := p1.y + (p2.y - p1.y) * M.half + ddx
  let th1 := M.atan2 (p1.y - cy) (p1.x - cx)
  let th2 := M.atan2 (p2.y - cy) (p2.x - cx)
  let ta := th2 - th1
  let ta := if ta < 0 && a.sweep then ta + M.twoPi
            else if 0 < ta && !a.sweep then ta - M.twoPi else ta
  let c := (pt.inverse eps).mapPt ⟨cx, cy⟩
  .ok ⟨th1, ta, c⟩

end EllArc

/-- one generated cubic: two control points and the on-curve end point -/
structure Cubic (α : Type) where
  c1 : Pt α
  c2 : Pt α
  p : Pt α

/-- the segments of `_arc_to_cubic` for the already corrected arc and its parametrisation -/
def arcSegments (M : ArcMath α) (a : EllArc α) (cp : CenterParam α) (n : Nat) : List (Cubic α) :=
  let pt := (EllArc.rot M ((Aff.id : Aff α).translate cp.center.x cp.center.y) (M.rad a.rotation)).scale a.rx a.ry
  let rec go (i : Nat) (fuel : Nat) : List (Cubic α) :=
    match fuel with
    | 0 => []
    | fuel + 1 =>
      if i ≥ n then [] else
      let st := cp.theta1 + M.ofNat i * cp.thetaArc / M.ofNat n
      let en := cp.theta1 + M.ofNat (i + 1) * cp.thetaArc / M.ofNat n
      let t := M.fourThirds * M.tan (M.quarter * (en - st))
      if !M.isFinite t then [] else
      let ss := M.sin st
      let cs := M.cos st
      let se := M.sin en
      let ce := M.cos en
      let p1 : Pt α := ⟨cs - t * ss, ss + t * cs⟩
      let e : Pt α := ⟨ce, se⟩
      let p2 : Pt α := ⟨ce + t * se, se + (-t) * ce⟩
      let q1 := pt.mapPt p1
      let q2 := pt.mapPt p2
      let qe := if i == n - 1 then a.end_ else pt.mapPt e
      ⟨q1, q2, qe⟩ :: go (i + 1) fuel
  go 0 n

/-- result of `arc_to_cubic`: nothing, a straight line to the end point, or cubics -/
inductive ArcOut (α : Type)
  | empty
  | line (p : Pt α)
  | cubics (l : List (Cubic α))

/-- `arc_to_cubic(start, rx, ry, rotation, large, sweep, end)` -/
def arcToCubic (M : ArcMath α) (eps : α) (a : EllArc α) : Except PyErr (ArcOut α) :=
  if a.isZeroLength then .ok .empty
  else if a.isStraightLine then .ok (.line a.end_)
  else do
    let a' ← EllArc.correctRadii M a
    let cp ← EllArc.endToCenter M eps a'
    match M.ceilAbs (cp.thetaArc / (M.piOverTwo + M.fudge)) with
    | none => .error .valueError
    | some n => .ok (.cubics (arcSegments M a' cp n))

end
end PicoSVG
