/-
  L2: elliptical arc → cubic Béziers — mirrors picosvg/arc_to_cubic.py.
  Generic over the scalar and an `ArcMath` record of the `math` primitives the code calls.
-/
import PicoSVG.Model.Transform

namespace PicoSVG

/-- the `math` functions and literals `arc_to_cubic.py` uses -/
structure ArcMath (α : Type) extends Trig α where
  sqrt : α → α
  atan2 : α → α → α
  /-- `int(ceil(fabs(x)))`; `none` = ceil raised (NaN → ValueError, inf → OverflowError) -/
  ceilAbs : α → Option Nat
  isFinite : α → Bool
  ofNat : Nat → α
  twoPi : α
  piOverTwo : α
  /-- the literals 0.001, 0.25, 0.5, 4/3 -/
  fudge : α
  quarter : α
  half : α
  fourThirds : α

structure EllArc (α : Type) where
  start : Pt α
  rx : α
  ry : α
  rotation : α
  large : Bool
  sweep : Bool
  end_ : Pt α

structure CenterParam (α : Type) where
  theta1 : α
  thetaArc : α
  center : Pt α

section
variable {α : Type} [Add α] [Sub α] [Mul α] [Div α] [Neg α] [OfNat α 0] [OfNat α 1] [BEq α]
  [LT α] [LE α] [DecidableLT α] [DecidableLE α]

namespace EllArc

/-- `is_straight_line`: `not (fabs(rx) and fabs(ry))` -/
def isStraightLine (a : EllArc α) : Bool := absv a.rx == 0 || absv a.ry == 0

def isZeroLength (a : EllArc α) : Bool := a.end_ == a.start

/-- `identity.rotate(angle)` through the same method chain the code uses -/
def rot (M : ArcMath α) (s : Aff α) (angle : α) : Aff α :=
  s.rotateCS (M.cos angle) (M.sin angle) 0 0

/-- the quantity `correct_out_of_range_radii` compares with 1:
    x'²/rx² + y'²/ry² for the half chord (x', y') rotated into the ellipse's axes -/
def radiiScale (M : ArcMath α) (a : EllArc α) : α :=
  let mid : Pt α := ⟨(a.start.x - a.end_.x) * M.half, (a.start.y - a.end_.y) * M.half⟩
  let tm := (rot M Aff.id (-(M.rad a.rotation))).mapVec mid
  tm.x * tm.x / (a.rx * a.rx) + tm.y * tm.y / (a.ry * a.ry)

/-- `correct_out_of_range_radii`; ZeroDivisionError when a squared radius underflows to 0 -/
def correctRadii (M : ArcMath α) (a : EllArc α) : Except PyErr (EllArc α) :=
  if a.isStraightLine || a.isZeroLength then .ok a else
  if a.rx * a.rx == 0 || a.ry * a.ry == 0 then .error .zeroDivisionError else
  if 1 < radiiScale M a then
    .ok { a with rx := a.rx * M.sqrt (radiiScale M a), ry := a.ry * M.sqrt (radiiScale M a) }
  else .ok a

/-- the transform into the frame where the ellipse is the unit circle:
    `identity.scale(1/rx, 1/ry).rotate(-angle)` -/
def unitFrame (M : ArcMath α) (a : EllArc α) : Aff α :=
  rot M ((Aff.id : Aff α).scale ((1 : α) / a.rx) ((1 : α) / a.ry)) (-(M.rad a.rotation))

/-- squared distance of the two end points in the unit frame -/
def unitDistSq (p1 p2 : Pt α) : α :=
  (p2.x - p1.x) * (p2.x - p1.x) + (p2.y - p1.y) * (p2.y - p1.y)

/-- `max(1/d − 0.25, 0.0)` then `sqrt`, sign flipped when `sweep == large` -/
def scaleFactor (M : ArcMath α) (a : EllArc α) (d : α) : α :=
  let v := (1 : α) / d - M.quarter
  let sfs := if v < 0 then (0 : α) else v
  if a.sweep == a.large then -(M.sqrt sfs) else M.sqrt sfs

/-- the centre in the unit frame:
    `point1 + (point2 - point1) * 0.5 + Vector(-delta.y, delta.x)` with `delta *= scale_factor` -/
def unitCenter (M : ArcMath α) (a : EllArc α) (p1 p2 : Pt α) : Pt α :=
  let sf := scaleFactor M a (unitDistSq p1 p2)
  ⟨p1.x + (p2.x - p1.x) * M.half + (-((p2.y - p1.y) * sf)),
   p1.y + (p2.y - p1.y) * M.half + (p2.x - p1.x) * sf⟩

/-- `end_to_center_parametrization` -/
def endToCenter (M : ArcMath α) (eps : α) (a : EllArc α) : Except PyErr (CenterParam α) :=
  if a.isStraightLine || a.isZeroLength then .error .valueError else
  if a.rx == 0 || a.ry == 0 then .error .zeroDivisionError else
  let pt := unitFrame M a
  let p1 := pt.mapPt a.start
  let p2 := pt.mapPt a.end_
  if unitDistSq p1 p2 == 0 then .error .zeroDivisionError else
  let c := unitCenter M a p1 p2
  let th1 := M.atan2 (p1.y - c.y) (p1.x - c.x)
  let th2 := M.atan2 (p2.y - c.y) (p2.x - c.x)
  let ta := th2 - th1
  let ta := if ta < 0 && a.sweep then ta + M.twoPi
            else if 0 < ta && !a.sweep then ta - M.twoPi else ta
  -- identity.rotate(angle).scale(rx, ry): the explicit inverse of the unit frame
  let c' := ((rot M (Aff.id : Aff α) (M.rad a.rotation)).scale a.rx a.ry).mapPt c
  .ok ⟨th1, ta, c'⟩

end EllArc

/-- one generated cubic: two control points and the on-curve end point -/
structure Cubic (α : Type) where
  c1 : Pt α
  c2 : Pt α
  p : Pt α

/-- one segment of `_arc_to_cubic` (index `i` of `n`), or `none` when `t` is not finite -/
def arcSegment (M : ArcMath α) (a : EllArc α) (cp : CenterParam α) (pt : Aff α) (n i : Nat) :
    Option (Cubic α) :=
  let st := cp.theta1 + M.ofNat i * cp.thetaArc / M.ofNat n
  let en := cp.theta1 + M.ofNat (i + 1) * cp.thetaArc / M.ofNat n
  let t := M.fourThirds * M.tan (M.quarter * (en - st))
  if !M.isFinite t then none else
  let ss := M.sin st
  let cs := M.cos st
  let se := M.sin en
  let ce := M.cos en
  let p1 : Pt α := ⟨cs - t * ss, ss + t * cs⟩
  let e : Pt α := ⟨ce, se⟩
  let p2 : Pt α := ⟨ce + t * se, se + (-t) * ce⟩
  some ⟨pt.mapPt p1, pt.mapPt p2, if i == n - 1 then a.end_ else pt.mapPt e⟩

def arcSegGo (M : ArcMath α) (a : EllArc α) (cp : CenterParam α) (pt : Aff α) (n : Nat) :
    (i : Nat) → (fuel : Nat) → List (Cubic α)
  | _, 0 => []
  | i, fuel + 1 =>
    if i ≥ n then [] else
    match arcSegment M a cp pt n i with
    | none => []
    | some c => c :: arcSegGo M a cp pt n (i + 1) fuel

/-- `identity.translate(cx, cy).rotate(radians(rotation)).scale(rx, ry)` -/
def ellipseFrame (M : ArcMath α) (a : EllArc α) (cp : CenterParam α) : Aff α :=
  (EllArc.rot M ((Aff.id : Aff α).translate cp.center.x cp.center.y) (M.rad a.rotation)).scale a.rx a.ry

/-- the segments of `_arc_to_cubic` for the already corrected arc and its parametrisation -/
def arcSegments (M : ArcMath α) (a : EllArc α) (cp : CenterParam α) (n : Nat) : List (Cubic α) :=
  arcSegGo M a cp (ellipseFrame M a cp) n 0 n

/-- result of `arc_to_cubic`: nothing, a straight line to the end point, or cubics -/
inductive ArcOut (α : Type)
  | empty
  | line (p : Pt α)
  | cubics (l : List (Cubic α))

/-- `arc_to_cubic(start, rx, ry, rotation, large, sweep, end)` -/
def arcToCubic (M : ArcMath α) (eps : α) (a0 : EllArc α) : Except PyErr (ArcOut α) :=
  -- negative radii are used as their absolute value (`fabs`)
  let a : EllArc α := { a0 with rx := absv a0.rx, ry := absv a0.ry }
  if a.isZeroLength then .ok .empty
  else if a.isStraightLine then .ok (.line a.end_)
  else do
    let a' ← EllArc.correctRadii M a
    let cp ← EllArc.endToCenter M eps a'
    match M.ceilAbs (cp.thetaArc / (M.piOverTwo + M.fudge)) with
    | none => .error .valueError
    | some n => .ok (.cubics (arcSegments M a' cp n))

end
end PicoSVG
