/-
  L4: the document tree — an ordered tree of elements with qualified names, attributes in
  insertion order, and comment / processing-instruction / text nodes (lxml's view after parsing).
  Core Lean only.
-/
import PicoSVG.Model.Style

namespace PicoSVG

def svgNs : String := "http://www.w3.org/2000/svg"
def xlinkNs : String := "http://www.w3.org/1999/xlink"

/-- attribute list in insertion order (lxml `_Attrib`) -/
abbrev Attrs := List (String × String)

inductive Node
  /-- `tag` and attribute names are in Clark notation `{namespace}local` or plain;
      `uid` stands for the Python object identity of the lxml element -/
  | elem (uid : Nat) (tag : String) (attrs : Attrs) (children : List Node)
  | comment
  | pi
  | text (s : String)
  /-- an unexpanded entity reference (`resolve_entities=False`): an lxml node whose tag is a function -/
  | entity
deriving Repr, BEq

namespace Node

/-- `etree.QName(name)` → (namespace, localname) -/
def splitNs (name : String) : Option String × String :=
  match name.toList with
  | '{' :: r =>
    let ns := r.takeWhile (· != '}')
    let l := (r.dropWhile (· != '}')).drop 1
    (some (String.ofList ns), String.ofList l)
  | _ => (none, name)

def stripNs (name : String) : String := (splitNs name).2

def isElem : Node → Bool
  | .elem _ _ _ _ => true
  | _ => false

/-- `_is_redundant(tag)`: comments and processing instructions -/
def isRedundant : Node → Bool
  | .comment => true
  | .pi => true
  | _ => false

/-- what `for child in el` iterates over: element, comment and PI nodes (text is not a node in lxml) -/
def isLxmlNode : Node → Bool
  | .text _ => false
  | _ => true

def tag : Node → String
  | .elem _ t _ _ => t
  | _ => ""

def uid : Node → Nat
  | .elem u _ _ _ => u
  | _ => 0

def localTag (n : Node) : String := stripNs n.tag

def attrs : Node → Attrs
  | .elem _ _ a _ => a
  | _ => []

def children : Node → List Node
  | .elem _ _ _ c => c
  | _ => []

def getAttr (n : Node) (k : String) : Option String := Style.getKV n.attrs k

def setAttrs (n : Node) (a : Attrs) : Node :=
  match n with
  | .elem u t _ c => .elem u t a c
  | x => x

def setChildren (n : Node) (c : List Node) : Node :=
  match n with
  | .elem u t a _ => .elem u t a c
  | x => x

def setTag (n : Node) (t : String) : Node :=
  match n with
  | .elem u _ a c => .elem u t a c
  | x => x

def svgTag (l : String) : String := "{" ++ svgNs ++ "}" ++ l
def xlinkHref : String := "{" ++ xlinkNs ++ "}href"

end Node

/-! attribute map helpers (dict / `_Attrib` semantics) -/
namespace Attrs
def get (a : Attrs) (k : String) : Option String := Style.getKV a k
def set (a : Attrs) (k v : String) : Attrs := Style.setKV a k v
def del (a : Attrs) (k : String) : Attrs := a.filter (·.1 != k)
def has (a : Attrs) (k : String) : Bool := a.any (·.1 == k)
end Attrs

end PicoSVG
