/-
  L4: `_simplify` (svg.py:700-804) with clip resolution (`_resolve_clip_path` 569-590, the
  clip stack of `_traverse` 626-634), the stroke split (`_stroke` 816-849) and the pipeline
  `topicosvg` (1332-1379).  Skia answers come from the oracle tape.
-/
import PicoSVG.Model.Gradient

namespace PicoSVG
open DocM Cascade Traverse

/-- a resolved clip: the command list of the `SVGPath` picosvg builds for it (clip_rule nonzero) -/
structure ClipPath where
  d : String
deriving Repr

structure SCtx where
  uid : Nat
  tag : String
  segs : List (String × Nat)
  transform : Aff Float
  clips : List ClipPath
  attrib : Attrs
deriving Repr

namespace SvgObj

def showAff (A : Aff Float) : String := " ".intercalate (A.toList.map F64.ntos)

/-- `shape.apply_transform(T)` → the new `d` -/
def applyTransformD (sh : ShapeRec) (T : Aff Float) : DocM String := do
  if T.isDegenerate SvgPath.eps then return "M0,0"
  let cmds ← liftE sh.asCmdSeq
  let res ← askCmds (qCmds "transform" cmds (showAff T))
  liftE (Path.print res)

/-- `SVGPath.from_commands(<pathop>(shapes…))`: the question lists every operand with its rule -/
def pathopD (op : String) (operands : List (String × String)) : DocM String := do
  -- operands: (d, rule); each is run through as_cmd_seq like the shapes picosvg passes
  let mut parts : List String := []
  for (d, rule) in operands do
    let cmds ← liftE (SvgPath.asCmdSeq d)
    parts := parts ++ [showCmds cmds ++ " @" ++ rule]
  if operands.isEmpty then fail .typeError     -- from_commands(None)
  let res ← askCmds (op ++ "(" ++ " | ".intercalate parts ++ ")")
  liftE (Path.print res)

/-- `_resolve_clip_path(url, transform)`; `fuel` = recursion limit -/
def resolveClipPathA (active : List Nat) (url : String) (T : Aff Float) : (fuel : Nat) → DocM ClipPath
  | 0 => fail .recursionError
  | fuel + 1 => do
    let root ← getRoot
    let cp ← liftE (resolveUrl root url "clipPath")
    -- a clipPath met again while it is being resolved: "Circular clip-path reference"
    if active.contains cp.uid then fail .valueError
    resolveUseIn cp.uid 64
    let root ← getRoot
    let cp := (Node.findUid root cp.uid).getD cp
    let T1 ← liftE (elementTransform cp T)
    let mut ds : List (String × String) := []
    for ch in cp.children.filter Node.isLxmlNode do
      if !ch.isElem then fail .typeError
      if !isShapeTag ch.tag then fail .valueError           -- from_element: "Bad tag"
      -- clip-rule set on the clipPath or on one of its ancestors (the nearest wins) is inherited by a child without its own
      let inh : Attrs := match ((cp :: Node.ancestors root cp.uid).filterMap (fun n => n.getAttr "clip-rule")).head? with
        | some v => [("clip-rule", v)]
        | none => []
      let sh ← liftE (ShapeRec.fromElement ch inh)
      let Tc ← liftE (elementTransform ch T1)
      let d ← applyTransformD sh Tc
      ds := ds ++ [(d, sh.getS "clip_rule")]
    let clipD ← pathopD "union" ds
    match cp.getAttr "clip-path" with
    | some inner =>
      let cc ← resolveClipPathA (active ++ [cp.uid]) inner T1 fuel
      let d ← pathopD "intersection" [(clipD, "nonzero"), (cc.d, "nonzero")]
      pure ⟨d⟩
    | none => pure ⟨clipD⟩

def resolveClipPath (url : String) (T : Aff Float) (fuel : Nat) : DocM ClipPath := resolveClipPathA [] url T fuel

/-- breadth-first traversal WITH clip resolution, as `_simplify` enumerates it -/
def bfsClips : (fuel : Nat) → List SCtx → DocM (List SCtx)
  | 0, _ => pure []
  | _, [] => pure []
  | fuel + 1, c :: rest => do
    let root ← getRoot
    let node := (Node.findUid root c.uid).getD (.elem c.uid c.tag [] [])
    let mut counts : List (String × Nat) := []
    let mut kids : List SCtx := []
    for ch in node.children do
      if ch.isLxmlNode && !ch.isRedundant then
        if ch == Node.entity then fail .valueError
        let t ← liftE (elementTransform ch c.transform)
        let clips ← match ch.getAttr "clip-path" with
          | some v =>
            if v != "" && v != "none" then do
              let cp ← resolveClipPath v t 200
              pure (c.clips ++ [cp])
            else pure c.clips
          | none => pure c.clips
        let l := ch.localTag
        let n := (counts.lookup l).getD 0
        counts := (l, n + 1) :: counts.filter (·.1 != l)
        -- the child's attributes may have been touched by `_resolve_use` inside a clipPath: re-read
        let root2 ← getRoot
        let ch2 := (Node.findUid root2 ch.uid).getD ch
        let a ← liftE (attribToPassOnEl c.attrib ch2)
        kids := kids ++ [{ uid := ch.uid, tag := ch.tag, segs := c.segs ++ [(l, n)], transform := t,
                           clips := clips, attrib := a }]
    let more ← bfsClips fuel (rest ++ kids)
    pure (c :: more)

/-- `SVG.tolerance` -/
def tolerance (root : Node) : Except PyErr Float := do
  match ← viewBox root with
  | none => pure (F64.ofBitsNat Gen.defaultToleranceBits)
  | some vb =>
    let m := if vb.h < vb.w then vb.h else vb.w        -- min(vbox.w, vbox.h)
    pure (m * F64.ofBitsNat Gen.maxPctErrorBits / 100)

def resetStrokeFields (sh : ShapeRec) : ShapeRec :=
  (ShapeRec.fieldTable sh.tag).foldl (fun acc (n, ty, d) =>
    if n.startsWith "stroke" then acc.set n (ShapeRec.defaultVal ty d) else acc) sh

/-- the dash list of `stroke_commands` -/
def dashArray (s : String) : Except PyErr (List Float) := do
  if s == "none" then return []
  let toks := (PathLex.splitSep s.toList)
  let vals ← toks.mapM (fun t => pyFloat (String.ofList t))
  pure (if vals.length % 2 != 0 then vals ++ vals else vals)

/-- the two pieces `SVG._stroke` builds once Skia has returned the outline `d`: (fill piece, stroke piece) -/
def strokePieces (shape : ShapeRec) (d : String) : ShapeRec × ShapeRec :=
  let st0 := shape.set "d" (.s d)
  let st1 := (st0.set "fill_rule" (.s "nonzero")).set "clip_rule" (.s "nonzero")
  let st2 := st1.set "opacity" (.f (clampOpacity (st1.getF "opacity") * clampOpacity (st1.getF "stroke_opacity")))
  let st3 := st2.set "fill" (.s (st2.getS "stroke"))
  let sh1 := shape.set "opacity" (.f (clampOpacity (shape.getF "opacity") * clampOpacity (shape.getF "fill_opacity")))
  let sh2 := resetStrokeFields (sh1.set "fill_opacity" (.f 1.0))
  let st4 := resetStrokeFields (st3.set "fill_opacity" (.f 1.0))
  (sh2, st4)

/-- what `_stroke` returns: the outline alone when the fill piece cannot paint, otherwise both pieces with their ids
    cleared (`del shape.id`-style reset on the two copies) -/
def strokeOut (mp : Bool) (sh2 st4 : ShapeRec) : List ShapeRec :=
  if !mp then [st4] else [sh2.set "id" (.s ""), st4.set "id" (.s "")]

/-- `SVG._stroke(shape)` → the pieces in draw order -/
def strokeSplit (root : Node) (shape : ShapeRec) : DocM (List ShapeRec) := do
  let tol ← liftE (tolerance root)
  let dash ← liftE (dashArray (shape.getS "stroke_dasharray"))
  let cmds ← liftE shape.asCmdSeq
  let q := qCmds "stroke" cmds (", ".intercalate [shape.getS "stroke_linecap", shape.getS "stroke_linejoin",
      F64.ntos (shape.getF "stroke_width"), F64.ntos (shape.getF "stroke_miterlimit"), F64.ntos tol,
      "[" ++ " ".intercalate (dash.map F64.ntos) ++ "]", F64.ntos (shape.getF "stroke_dashoffset")])
  let res ← askCmds q
  let d ← liftE (Path.print res)
  let (sh2, st4) := strokePieces shape d
  pure (strokeOut (← mightPaintM sh2) sh2 st4)

def recEq (a b : ShapeRec) : Bool :=
  a.tag == b.tag && a.fields.length == b.fields.length &&
  (a.fields.zip b.fields).all (fun ((k1, v1), (k2, v2)) => k1 == k2 && v1 == v2)

/-- `_transformed_gradient(defs, fill_el, transform, shape_bbox)` → the new gradient's id -/
def transformedGradient (defsUid : Nat) (fillUid : Nat) (T : Aff Float) (bbox : Rect Float) : DocM String := do
  let root ← getRoot
  let fillEl ← match Node.findUid root fillUid with
    | some n => pure n
    | none => fail .valueError
  if !isGradientTag fillEl.tag then fail .assertionError
  let vb ← liftE (viewBox root)
  let g0 ← liftE (GradRec.fromElement fillEl vb)
  let g1 := g0.asUserSpace bbox
  let g2 := { g1 with transform := GradRec.roundAff (Aff.composeLtr [g1.transform, T]) Gen.gradientTransformNdigits }
  let nid ← liftE (newId root (g2.id ++ "_"))
  let g3 := { g2 with id := nid }
  let mut stops : List Node := []
  for st in fillEl.children.filter Node.isLxmlNode do
    let s ← get
    let (c, k) := Node.number s.nextUid st
    set { s with nextUid := k }
    stops := stops ++ [c]
  -- `_apply_gradient_translation(new_fill)` on the detached element
  let g4 ← liftE (GradRec.fromElement (.elem 0 (Node.svgTag g3.tag) g3.toAttrs stops) vb >>= GradRec.applyTranslation)
  let gu ← freshUid
  let newFill := Node.elem gu (Node.svgTag g4.tag) g4.toAttrs stops
  let root ← getRoot
  setRoot (Node.updateUid root defsUid (fun d => d.setChildren (addToDefs d.children newFill)))
  pure nid

/-- one shape element of the `_simplify` loop -/
def simplifyShape (c : SCtx) (defsUid : Nat) : DocM Unit := do
  let root ← getRoot
  let el ← match Node.findUid root c.uid with
    | some n => pure n
    | none => fail .valueError
  if !(el.children.filter Node.isLxmlNode).isEmpty then fail .assertionError
  let identity := c.transform == (Aff.id : Aff Float)
  -- the fill paint, then the stroke paint (the outline that replaces the stroke is filled with it)
  for paint in ["fill", "stroke"] do
    let root ← getRoot
    let el' := (Node.findUid root c.uid).getD el
    let paintAttr := (el'.getAttr paint).getD ""
    if !identity && (paintAttr.splitOn "url").length > 1 then
      let fillEl ← liftE (resolveUrl root paintAttr "*")
      applyGradientTemplate fillEl.uid 200
      let root ← getRoot
      let el' := (Node.findUid root c.uid).getD el
      let sh ← liftE (ShapeRec.fromElement el' [])
      let cmds ← liftE sh.asCmdSeq
      let (x1, y1, x2, y2) ← askBox (qCmds "bounding_box" cmds "")
      let nid ← transformedGradient defsUid fillEl.uid c.transform ⟨x1, y1, x2 - x1, y2 - y1⟩
      let root ← getRoot
      setRoot (Node.updateUid root c.uid (fun n => n.setAttrs (n.attrs.set paint ("url(#" ++ nid ++ ")"))))
  let root ← getRoot
  let el := (Node.findUid root c.uid).getD el
  let sh0 ← liftE (ShapeRec.fromElement el [])
  let p0 ← liftE sh0.asPath
  let dAbs ← liftE (SvgPath.absolute (p0.getS "d"))
  let initial := p0.set "d" (.s dAbs)
  -- a stroke of zero (or negative) width is no stroke at all
  let paths0 ← if initial.getS "stroke" != "none" && (0.0 : Float) < initial.getF "stroke_width" then strokeSplit root initial else pure [initial]
  let paths1 := paths0.map resetStrokeFields
  let mut paths2 : List ShapeRec := []
  for p in paths1 do
    if !identity then
      let d ← applyTransformD p c.transform
      paths2 := paths2 ++ [p.set "d" (.s d)]
    else paths2 := paths2 ++ [p]
  let mut paths3 : List ShapeRec := []
  for p in paths2 do
    if !c.clips.isEmpty then
      let d ← pathopD "intersection" ((p.getS "d", p.getS "fill_rule") :: c.clips.map (fun k => (k.d, "nonzero")))
      paths3 := paths3 ++ [(p.set "d" (.s d)).set "fill_rule" (.s "nonzero")]
    else paths3 := paths3 ++ [p]
  let changed := match paths3 with
    | [p] => !recEq p initial
    | _ => true
  if changed then
    let mut news : List Node := []
    for p in paths3 do
      let u ← freshUid
      news := news ++ [p.toElement u []]
    let root ← getRoot
    setRoot (Node.replaceUid root c.uid news)

/-- the ids of the gradients that paint something: the fills of all shapes and of the text elements
    (`//svg:text | //svg:tspan | //svg:textPath`) -/
def usedGradientIds : DocM (List String) := do
  let shapes ← elements
  let root ← getRoot
  let mut fills : List String := []
  for (_, shs) in shapes do
    for sh in shs do
      fills := fills ++ [sh.getS "fill"]
  for n in root.elems do
    if (Node.splitNs n.tag).1 == some svgNs && ["text", "tspan", "textPath"].contains n.localTag then
      fills := fills ++ [(n.getAttr "fill").getD "", (n.getAttr "stroke").getD ""]
  let mut used : List String := []
  for f in fills do
    if "url(".toList.isPrefixOf (f.toList.dropWhile isReWs) then
      match resolveUrl root f "*" with
      | .ok el => if isGradientTag el.tag then used := used ++ [(el.getAttr "id").getD ""]
      | .error _ => pure ()
  pure used

/-- what `_select_gradients()` selects -/
def isGradElem (n : Node) : Bool := (Node.splitNs n.tag).1 == some svgNs && isGradLocal n.localTag

/-- is a gradient element (by its attributes) among the used ones? -/
def gradKept (used : List String) (a : Attrs) : Bool :=
  match Style.getKV a "id" with | some i => used.contains i | none => false

/-- the loop of `_remove_orphaned_gradients()`: every gradient element whose id is not in use leaves the tree -/
def pruneGrads (used : List String) (root : Node) : Node :=
  (root.elems.filter isGradElem).foldl (fun r g => if gradKept used g.attrs then r else Node.removeUid r g.uid) root

/-- `_remove_orphaned_gradients()` + the non-gradient purge of the master defs -/
def removeOrphanedGradients (defsUid : Nat) : DocM Unit := do
  let used ← usedGradientIds
  let root ← getRoot
  let mut r := pruneGrads used root
  r := Node.updateUid r defsUid (fun d => d.setChildren (d.children.filter (fun k => !k.isLxmlNode || isGradientTag k.tag)))
  setRoot r

/-- opacity on the root is handed to a group around all of the root's children -/
def rootOpacityToGroup : DocM Unit := do
  let root ← getRoot
  match root.getAttr "opacity" with
  | none => pure ()
  | some op =>
    let root1 := root.setAttrs (root.attrs.del "opacity")
    if (root.children.filter Node.isLxmlNode).isEmpty then setRoot root1
    else
      let gu ← freshUid
      setRoot (root1.setChildren [.elem gu (Node.svgTag "g") [("opacity", op)] root.children])

/-- `_simplify()` -/
def simplifyCore : DocM Unit := do
  rootOpacityToGroup
  let root ← getRoot
  let rootAttrib ← liftE (attribToPassOnEl Gen.inheritableAttribDefaults root)
  let ctxs ← bfsClips (Traverse.nodeCount root * 4 + 16)
    [{ uid := root.uid, tag := root.tag, segs := [("svg", 0)], transform := Aff.id, clips := [], attrib := rootAttrib }]
  let defsUid ← freshUid
  let root ← getRoot
  setRoot (root.setChildren (.elem defsUid (Node.svgTag "defs") [] [] :: root.children))
  -- every gradient takes from its template what the source says, before any gradient is rewritten
  let root ← getRoot
  for g in root.elems.filter (fun n => (Node.splitNs n.tag).1 == some svgNs && isGradLocal n.localTag) do
    applyGradientTemplate g.uid 200
  for c in ctxs.reverse do
    let root ← getRoot
    match Node.findUid root c.uid with
    | none =>
      -- the element left the tree with an ancestor that was dropped: `_safe_remove` / attribute edits
      -- on a detached element have no visible effect
      pure ()
    | some el0 =>
      if ((pathString c.segs).splitOn "clipPath").length > 1 then
        if c.uid != root.uid then setRoot (Node.removeUid root c.uid)
        continue
      let a0 := (el0.attrs.del "clip-path").del "transform"
      let a1 ← liftE (inheritAttrib c.attrib el0.tag a0 false [])
      setRoot (Node.updateUid root c.uid (fun n => n.setAttrs a1))
      if isShapeTag el0.tag then simplifyShape c defsUid
      else if isGradientTag el0.tag then
        let root ← getRoot
        let el := (Node.findUid root c.uid).getD el0
        let r1 := Node.removeUid root c.uid
        setRoot (Node.updateUid r1 defsUid (fun d => d.setChildren (addToDefs d.children el)))
        -- an id-less gradient was removed and not re-added: nothing left to rewrite
        if (← getRoot) |>.elems.any (fun n => n.uid == c.uid) then
          applyGradientTemplate c.uid 200
          applyGradientTranslation c.uid
        else
          -- Python still calls the two rewrites on the detached element; only their exceptions matter
          pure ()
      else if isDefsTag el0.tag then
        let root ← getRoot
        let el := (Node.findUid root c.uid).getD el0
        let mut r := Node.removeUid root c.uid
        for ch in el.children.filter Node.isLxmlNode do
          r := Node.updateUid r defsUid (fun d => d.setChildren (addToDefs d.children ch))
        setRoot r
      else if isGroupTag el0.tag then
        let root ← getRoot
        let el := (Node.findUid root c.uid).getD el0
        if c.uid != root.uid then
          let (repl, _) ← liftE (Groups.tryRemove el true)
          setRoot (Node.replaceUid root c.uid repl)
  let root ← getRoot
  setRoot (root.setAttrs (root.attrs.filter (fun (k, _) => !Gen.inheritableAttrib.contains k)))
  removeOrphanedGradients defsUid
  modify (fun s => { s with cache := none })

def simplify : DocM Unit := do
  updateEtree
  simplifyCore

end SvgObj
end PicoSVG
