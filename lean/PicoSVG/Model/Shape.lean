/-
  L3: shape records — the dataclasses of svg_types.py as ordered field maps driven by the
  generated field tables (`Gen.shapeFields`): construction defaults, `from_element` coercion,
  `apply_style_attribute`, the paint view used by `might_paint`, geometry via `as_path`.
  Float level.
-/
import PicoSVG.Model.Paint
import PicoSVG.Model.SvgPath

namespace PicoSVG

inductive FVal
  | s (v : String)
  | f (v : Float)
deriving Repr

def FVal.beq : FVal → FVal → Bool
  | .s a, .s b => a == b
  | .f a, .f b => a == b
  | _, _ => false
instance : BEq FVal := ⟨FVal.beq⟩

structure ShapeRec where
  tag : String
  /-- (field name with underscores, value) in dataclass order -/
  fields : List (String × FVal)
deriving Repr

namespace ShapeRec

def attrName (field : String) : String := field.replace "_" "-"
def fieldName (attr : String) : String := attr.replace "-" "_"

def fieldTable (tag : String) : List (String × String × String) := (Gen.shapeFields.lookup tag).getD []

def defaultVal (ty dflt : String) : FVal :=
  if ty == "float" then .f ((F64.pyFloat? dflt).getD 0.0) else .s dflt

/-- the dataclass with all defaults -/
def default (tag : String) : ShapeRec :=
  { tag := tag, fields := (fieldTable tag).map (fun (n, ty, d) => (n, defaultVal ty d)) }

def get (r : ShapeRec) (field : String) : Option FVal := (r.fields.find? (·.1 == field)).map (·.2)
def getS (r : ShapeRec) (field : String) : String := match r.get field with | some (.s v) => v | _ => ""
def getF (r : ShapeRec) (field : String) : Float := match r.get field with | some (.f v) => v | _ => 0.0
def set (r : ShapeRec) (field : String) (v : FVal) : ShapeRec :=
  { r with fields := r.fields.map (fun (k, w) => if k == field then (k, v) else (k, w)) }

def fieldType (tag field : String) : Option String := ((fieldTable tag).find? (·.1 == field)).map (·.2.1)

/-- `f.type(value)`: `float(value)` may raise ValueError -/
def coerce (ty value : String) : Except PyErr FVal :=
  if ty == "float" then
    match F64.pyFloat? value with
    | some v => .ok (.f v)
    | none => .error .valueError
  else .ok (.s value)

/-- `SVGRect.__post_init__` -/
def postInit (r : ShapeRec) : ShapeRec :=
  if r.tag != "rect" then r else
  let rx0 := r.getF "rx"; let ry0 := r.getF "ry"
  let w := r.getF "width"; let h := r.getF "height"
  let rx := if rx0 == 0 then ry0 else rx0
  let ry := if ry0 == 0 then rx else ry0
  let rx := if w / 2 < rx then w / 2 else rx
  let ry := if h / 2 < ry then h / 2 else ry
  (r.set "rx" (.f rx)).set "ry" (.f ry)

/-- `from_element(el, **inherited)`: attributes (inherited overridden by the element's own) that
    are non-blank fields of the dataclass, coerced by the field type -/
def fromAttrs (tag : String) (attrs : List (String × String)) : Except PyErr ShapeRec := do
  let mut r := default tag
  for (n, ty, _) in fieldTable tag do
    match Style.getKV attrs (attrName n) with
    | some v =>
      if !(Str.strip v.toList).isEmpty then
        let fv ← coerce ty v
        r := r.set n fv
    | none => pure ()
  -- a rect with both radii given and one of them zero has square corners (only a missing radius is copied)
  let given := fun (n : String) => match Style.getKV attrs n with
    | some v => !(Str.strip v.toList).isEmpty
    | none => false
  if tag == "rect" then
    let (rx, ry) := ShapeCmds.explicitZeroRadii (given "rx") (given "ry") (r.getF "rx") (r.getF "ry")
    r := (r.set "rx" (.f rx)).set "ry" (.f ry)
  pure (postInit r)

/-- `apply_style_attribute`: declarations whose property is a field of this dataclass are
    assigned (after coercion), the rest stays in `style` -/
def applyStyle (r : ShapeRec) : Except PyErr ShapeRec := do
  let style := r.getS "style"
  if style.isEmpty then return r
  let names := (fieldTable r.tag).map (fun (n, _, _) => attrName n)
  let (assigned, rest) ← Style.parseDecls (fun n => names.contains n) (fun _ => true) style
  -- raw_attrs is a dict: later duplicates win, iteration in first-insertion order
  let raw := assigned.foldl (fun m (k, v) => Style.setKV m k v) []
  let mut out := r
  for (k, v) in raw do
    match fieldType r.tag (fieldName k) with
    | some ty =>
      let fv ← coerce ty v
      out := out.set (fieldName k) fv
    | none => pure ()
  pure (out.set "style" (.s rest))

def paint (r : ShapeRec) : PaintAttrs Float :=
  { display := r.getS "display", fill := r.getS "fill", stroke := r.getS "stroke",
    opacity := r.getF "opacity", fillOpacity := r.getF "fill_opacity",
    strokeOpacity := r.getF "stroke_opacity", strokeWidth := r.getF "stroke_width" }

/-- the `d` of `as_path()` -/
def asPathD (r : ShapeRec) : Except PyErr String :=
  match r.tag with
  | "path" => .ok (r.getS "d")
  | "rect" =>
    -- as_path reads the already clamped rx/ry
    let x := r.getF "x"; let y := r.getF "y"; let w := r.getF "width"; let h := r.getF "height"
    let rx := r.getF "rx"; let ry := r.getF "ry"
    Path.print (ShapeCmds.rectCmds x y w h rx ry)
  | "circle" => SvgPath.circlePath (r.getF "r") (r.getF "cx") (r.getF "cy")
  | "ellipse" => SvgPath.ellipsePath (r.getF "rx") (r.getF "ry") (r.getF "cx") (r.getF "cy")
  | "line" => SvgPath.linePath (r.getF "x1") (r.getF "y1") (r.getF "x2") (r.getF "y2")
  | "polygon" => .ok (SvgPath.polygonPath (r.getS "points"))
  | "polyline" => .ok (SvgPath.polylinePath (r.getS "points"))
  | _ => .error .notImplementedError

def asCmdSeq (r : ShapeRec) : Except PyErr (List (Cmd Float)) := do
  let d ← r.asPathD
  SvgPath.asCmdSeq d

/-- `might_paint()` given the oracle's area answer (`none` = not asked) -/
def mightPaint (r : ShapeRec) (area : Option (Except PyErr Float)) : Except PyErr Bool := do
  let s ← r.applyStyle
  if s.getS "display" == "none" then return false
  let cmds ← r.asCmdSeq
  let moveOnly := cmds.all (fun (c, _) => Path.toUpper c == 'M')
  pure (PicoSVG.mightPaint s.paint moveOnly (area.getD (.ok 0.0)))

/-- does `might_paint` consult the engine's area for this shape? -/
def needsArea (r : ShapeRec) : Except PyErr Bool := do
  let s ← r.applyStyle
  if s.getS "display" == "none" then return false
  let cmds ← r.asCmdSeq
  let moveOnly := cmds.all (fun (c, _) => Path.toUpper c == 'M')
  pure (!moveOnly && !strokeVisible s.paint && fillVisible s.paint)

end ShapeRec
end PicoSVG

namespace PicoSVG.ShapeRec

/-- `SVGPath.remove_empty_subpaths()`: keep the subpaths that might paint with this shape's own
    paint; `areas` = the engine's area answers in the order they are asked for -/
def removeEmptySubpaths (r : ShapeRec) (areas : List (Except PyErr Float)) : Except PyErr String := do
  let subs ← SvgPath.subpaths (r.getS "d")
  let mut rest := areas
  let mut kept : List String := []
  for sub in subs do
    let probe := r.set "d" (.s sub)
    let need ← probe.needsArea
    let ans : Option (Except PyErr Float) := if need then rest.head? else none
    if need then rest := rest.drop 1
    let mp ← probe.mightPaint ans
    if mp then kept := kept ++ [sub]
  pure (" ".intercalate kept)

end PicoSVG.ShapeRec
