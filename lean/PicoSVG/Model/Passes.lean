/-
  L4: the structural passes — groups (`_try_remove_group`), `resolve_use`, `resolve_nested_svgs`,
  id allocation.  Mirrors svg.py:192-239, 491-567, 597-603, 1055-1190.
-/
import PicoSVG.Model.SvgObj

namespace PicoSVG
open DocM Traverse Cascade

namespace Groups

section
variable {α : Type} [OfNat α 0] [OfNat α 1] [BEq α] [LT α] [DecidableLT α]

/-- `_clamp(value)`: `max(min(value, 1.0), 0.0)` -/
def clamp01 (v : α) : α :=
  let m := if (1 : α) < v then (1 : α) else v
  if m < (0 : α) then (0 : α) else m

/-- the decision of `_is_removable_group` on what it looks at: is it a `g`, has it no attributes,
    how many non-redundant children, its clamped opacity -/
def removableCore (isGroup attrsEmpty : Bool) (k : Nat) (o : α) : Bool :=
  if !isGroup then false
  else if attrsEmpty then true
  else decide (k ≤ 1) || (o == 0 || o == 1)
end

/-- `_opacity(el)` -/
def opacity (n : Node) : Except PyErr Float :=
  match n.getAttr "opacity" with
  | some v => do
    let f ← pyFloat v
    if f != f then throw .valueError     -- "nan": rejected, no comparison can place it in [0, 1]
    pure (clamp01 f)
  | none => .ok 1.0

/-- `_is_removable_group(el)` -/
def isRemovable (n : Node) : Except PyErr Bool := do
  if !isGroupTag n.tag then return false
  if n.attrs.isEmpty then return true
  let k := (n.children.filter (fun c => c.isLxmlNode && !c.isRedundant)).length
  if k ≤ 1 then return true
  let o ← opacity n
  pure (removableCore true false k o)

/-- `_try_remove_group(group_el, push_opacity)` for a group that has a parent: the nodes that take
    its place, and whether it was removed -/
def tryRemove (g : Node) (pushOpacity : Bool) : Except PyErr (List Node × Bool) := do
  let remove ← isRemovable g
  let o ← opacity g
  if remove then
    if !pushOpacity then return (g.children.filter Node.isLxmlNode, true)
    let mut kids : List Node := []
    for c in g.children do
      if !c.isLxmlNode then continue     -- text inside a group is not moved (lxml: `list(group_el)`)
      if c.isRedundant then kids := kids ++ [c]
      else
        let a ← inheritAttrib [("opacity", F64.ntos o)] c.tag c.attrs false []
        kids := kids ++ [c.setAttrs a]
    pure (kids, true)
  else
    let a ← dropDefaultAttrib [("opacity", F64.ntos o)]
    pure ([g.setAttrs a], false)

end Groups

namespace SvgObj

/-- all ids in the tree (`//svg:*[@id=…]` matches svg-namespace elements only) -/
def idsOf (root : Node) : List String :=
  root.elems.filterMap (fun n => if (Node.splitNs n.tag).1 == some svgNs then n.getAttr "id" else none)

/-- the search loop of `_new_id`: the lowest `pre ++ i` (i ≥ start) not in `ids` -/
def newIdGo (ids : List String) (pre : String) : (i fuel : Nat) → Except PyErr String
  | _, 0 => .error .valueError
  | i, fuel + 1 =>
    if ids.contains (pre ++ toString i) then newIdGo ids pre (i + 1) fuel else .ok (pre ++ toString i)

/-- `_new_id(template)`: the lowest free `template % i` -/
def newId (root : Node) (pre : String) : Except PyErr String := newIdGo (idsOf root) pre 0 65536

/-- the id-stripping step of `_resolve_use` (`for el in new_el.getiterator("*"): del el.attrib["id"]`) -/
def stripId : Node → List Node := fun x => match x with
  | .elem u t a cs => [.elem u t (a.del "id") cs]
  | y => [y]

/-- deep copy with fresh uids and every `id` stripped (`copy.deepcopy` + the id loop) -/
def copyStripIds (n : Node) : DocM Node := do
  let s ← get
  let stripped := match Node.rewrite stripId n with
    | [r] => r
    | _ => n
  let (c, k) := Node.number s.nextUid stripped
  set { s with nextUid := k }
  pure c

def useAttribNotCopied : List String := ["x", "y", "width", "height", "transform", Node.xlinkHref]

/-- one `use` element → its replacement -/
def expandUse (root : Node) (byId : List (String × Node)) (useEl : Node) : DocM Node := do
  let ref := (useEl.getAttr Node.xlinkHref).getD ""
  if !ref.startsWith "#" then fail .valueError
  let target ← match byId.lookup (ref.drop 1).toString with
    | some t => pure t
    | none => fail .valueError
  -- the target is looked up by the id captured at the start, but copied in its CURRENT state
  let cur := (Node.findUid root target.uid).getD target
  let newEl ← copyStripIds cur
  let x ← liftE (match useEl.getAttr "x" with | some v => pyFloat v | none => pure 0.0)
  let y ← liftE (match useEl.getAttr "y" with | some v => pyFloat v | none => pure 0.0)
  let aff0 := (Aff.id : Aff Float).translate x y
  let aff ← match useEl.getAttr "transform" with
    | some t => do let m ← liftE (parseAff t); pure (Aff.composeLtr [aff0, m])
    | none => pure aff0
  let mut gattrs : Attrs := []
  if !(aff == (Aff.id : Aff Float)) then gattrs := gattrs.set "transform" (Aff.tostring aff)
  for (k, v) in useEl.attrs do
    if !useAttribNotCopied.contains k then gattrs := gattrs.set k v
  let gu ← freshUid
  let group := Node.elem gu (Node.svgTag "g") gattrs [newEl]
  -- `_try_remove_group(group, push_opacity=False)`: one child ⇒ always removable;
  -- `_opacity(group)` is evaluated regardless (ValueError on a non-numeric opacity)
  -- a clip-path on the use stays on a group when the target has its own transform or clip-path
  let keepGroup := gattrs.has "clip-path" && (newEl.attrs.has "transform" || newEl.attrs.has "clip-path")
  if keepGroup then return group
  let removable ← liftE (Groups.isRemovable group)
  let _ ← liftE (Groups.opacity group)
  if removable then
    let a ← liftE (inheritAttrib gattrs newEl.tag newEl.attrs false [])
    pure (newEl.setAttrs a)
  else pure group

/-- the `while True` loop of `_resolve_use(scope)`: re-scan until no `use` is left below `scope`;
    `fuel` = iteration bound (Python loops forever on a reference cycle) -/
def resolveUseLoop (byId : List (String × Node)) (scopeUid : Nat) : (fuel : Nat) → DocM Unit
  | 0 => fail .recursionError
  | fuel + 1 => do
    let root ← getRoot
    let scope := (Node.findUid root scopeUid).getD root
    -- `.//svg:use`: descendants only
    let uses := (scope.elems.drop 1).filter (fun n => n.tag == Node.svgTag "use")
    if uses.isEmpty then return
    -- all replacements are computed against the tree as it is, then swapped in
    let mut swaps : List (Nat × Node) := []
    for u in uses do
      let r ← expandUse root byId u
      swaps := swaps ++ [(u.uid, r)]
    for (u, r) in swaps do
      let cur ← getRoot
      setRoot (Node.replaceUid cur u [r])
    resolveUseLoop byId scopeUid fuel

/-- ids referenced by the `use` elements in `descendant-or-self::svg:use` of `el` (`#fragment` only) -/
def useTargets (el : Node) : List String :=
  (el.elems.filter (fun n => n.tag == Node.svgTag "use")).filterMap (fun u =>
    let r := (u.getAttr Node.xlinkHref).getD ""
    if r.startsWith "#" then some (r.drop 1).toString else none)

/-- does following use references from `node` come back to an id on the current path?
    `fuel` bounds the depth (a repeat-free path has at most one entry per id) -/
def useCycleFrom (byId : List (String × Node)) : (fuel : Nat) → List String → String → Bool
  | 0, _, _ => true
  | fuel + 1, path, node =>
    if path.contains node then true
    else match byId.lookup node with
      | none => false
      | some el => (useTargets el).any (useCycleFrom byId fuel (node :: path))

/-- `_resolve_use(scope_el)`: elements are captured by id once, up front (`.//svg:*[@id]`, last wins);
    circular use references reachable from the scope are rejected (ValueError); without cycles the
    reference depth is below the number of ids, which bounds the re-scan loop -/
def resolveUseIn (scopeUid : Nat) (fuel : Nat) : DocM Unit := do
  let root ← getRoot
  let byId : List (String × Node) := ((root.elems.drop 1).filterMap (fun n =>
    if (Node.splitNs n.tag).1 == some svgNs then (n.getAttr "id").map (fun i => (i, n)) else none)).reverse
  let scope := (Node.findUid root scopeUid).getD root
  if (useTargets scope).any (useCycleFrom byId (byId.length + 1) []) then fail .valueError
  resolveUseLoop byId scopeUid (byId.length + 2 + fuel * 0)

def resolveUse : DocM Unit := do
  updateEtree
  let root ← getRoot
  resolveUseIn root.uid 64

end SvgObj
end PicoSVG

namespace PicoSVG
open DocM Traverse Cascade

namespace SvgObj

/-- `parse_view_box(s)`: `re.split(r",|\s+", s)` then four floats -/
def parseViewBox (s : String) : Except PyErr (Rect Float) := do
  -- split at every comma and at every maximal whitespace run
  let rec toks (cur : List Char) (rest : List Char) (acc : List String) (fuel : Nat) : List String :=
    match fuel with
    | 0 => acc.reverse
    | fuel + 1 =>
      match rest with
      | [] => (String.ofList cur.reverse :: acc).reverse
      | c :: r =>
        if c == ',' then toks [] r (String.ofList cur.reverse :: acc) fuel
        else if Str.isSpace c then toks [] (r.dropWhile Str.isSpace) (String.ofList cur.reverse :: acc) fuel
        else toks (c :: cur) r acc fuel
  let ts := toks [] s.toList [] (s.length + 1)
  let vals ← ts.mapM pyFloat
  match vals with
  | [a, b, c, d] => pure ⟨a, b, c, d⟩
  | _ => throw .valueError

/-- `SVG.view_box()` -/
def viewBox (root : Node) : Except PyErr (Option (Rect Float)) :=
  match root.getAttr "viewBox" with
  | some v => do let r ← parseViewBox v; pure (some r)
  | none =>
    match root.getAttr "width", root.getAttr "height" with
    | some w, some h =>
      if w.isEmpty || h.isEmpty then .ok none
      else do
        let fw ← pyFloat w; let fh ← pyFloat h
        pure (some ⟨0, 0, fw, fh⟩)
    | _, _ => .ok none

/-- `_iter_nested_svgs(root)`: breadth-first over the children, yielding `svg` elements without
    descending into them -/
def iterNestedSvgs (el : Node) : List Node :=
  let rec go (fuel : Nat) (frontier : List Node) : List Node :=
    match fuel with
    | 0 => []
    | fuel + 1 =>
      match frontier with
      | [] => []
      | n :: rest =>
        if !n.isLxmlNode || n.isRedundant then go fuel rest
        else if n.localTag == "svg" then n :: go fuel rest
        else go fuel (rest ++ n.children.filter Node.isLxmlNode)
  go (Traverse.nodeCount el + 1) (el.children.filter Node.isLxmlNode)

/-- what a nested `svg` hands on to the group that replaces it: its attributes named in the generated table
    `_NESTED_SVG_PRESENTATION_ATTRIB`, in the order written -/
def nestedPresentation (a : Attrs) : Attrs := a.filter (fun kv => Gen.nestedSvgPresentationAttrib.contains kv.1)

/-- `_unnest_svg(svg, parent_width, parent_height)` → the nodes replacing the nested `svg`.
    Works on the current tree: inner nested svgs are swapped first. -/
def unnestSvg (svgUid : Nat) (pw ph : Float) : (fuel : Nat) → DocM (List Node)
  | 0 => fail .recursionError
  | fuel + 1 => do
  let root ← getRoot
  let svg ← match Node.findUid root svgUid with
    | some n => pure n
    | none => fail .valueError
  let fl (k : String) (d : Float) : DocM Float :=
    match svg.getAttr k with | some v => liftE (pyFloat v) | none => pure d
  let x ← fl "x" 0.0
  let y ← fl "y" 0.0
  let width ← fl "width" pw
  let height ← fl "height" ph
  let viewport : Rect Float := ⟨x, y, width, height⟩
  let viewbox ← match svg.getAttr "viewBox" with
    | some v => liftE (parseViewBox v)
    | none => pure viewport
  -- first un-nest nested nested svgs (they are swapped into the tree one by one)
  for inner in iterNestedSvgs svg do
    let repl ← unnestSvg inner.uid viewbox.w viewbox.h fuel
    let cur ← getRoot
    match Node.parentOf inner.uid cur with
    | none => fail .valueError
    | some _ => setRoot (Node.replaceUid cur inner.uid repl)
  let root ← getRoot
  let svg := (Node.findUid root svgUid).getD svg
  let gu ← freshUid
  -- g.extend(svg): the children move out of the tree into the new, still detached group
  setRoot (Node.updateUid root svgUid (fun n => n.setChildren []))
  let t0 ← if (svg.getAttr "viewBox").isSome then
      liftE (rectToRectStr viewbox viewport ((svg.getAttr "preserveAspectRatio").getD "xMidYMid"))
    else pure ((Aff.id : Aff Float).translate x y)
  let t ← match svg.getAttr "transform" with
    | some s => do let m ← liftE (parseAff s); pure (Aff.composeLtr [t0, m])
    | none => pure t0
  let gattrs : Attrs := if !(t == (Aff.id : Aff Float)) then [("transform", Aff.tostring t)] else []
  -- the nested svg's presentation attributes go on the outermost group (`attrib.update`: in the order written)
  let pres : Attrs := nestedPresentation svg.attrs
  let kids := svg.children.filter Node.isLxmlNode
  let g := Node.elem gu (Node.svgTag "g") gattrs kids
  let overflow := (svg.getAttr "overflow").getD "hidden"
  if overflow == "visible" then return [Node.elem gu (Node.svgTag "g") (gattrs ++ pres) kids]
  if overflow != "hidden" then fail .notImplementedError
  -- the id search only sees what is in the tree right now (the detached group is not)
  let cur ← getRoot
  let cid ← liftE (newId cur "nested-svg-viewport-")
  let cu ← freshUid
  let ru ← freshUid
  let rect := (ShapeRec.postInit ((((ShapeRec.default "rect").set "x" (.f x)).set "y" (.f y)).set "width" (.f width) |>.set "height" (.f height))).toElement ru []
  let clip := Node.elem cu (Node.svgTag "clipPath") [("id", cid)] [rect]
  let cgu ← freshUid
  let clipped := Node.elem cgu (Node.svgTag "g") (("clip-path", "url(#" ++ cid ++ ")") :: pres) [g]
  pure [clip, clipped]

/-- `resolve_nested_svgs(inplace=True)`; returns whether the Python method returns `self` -/
def resolveNestedSvgs : DocM Bool := do
  updateEtree
  let root ← getRoot
  let nested := iterNestedSvgs root
  if nested.isEmpty then return true
  let vb ← liftE (viewBox root)
  match vb with
  | none => fail .valueError
  | some box =>
    for n in nested do
      let repl ← unnestSvg n.uid box.w box.h 500
      let cur ← getRoot
      match Node.parentOf n.uid cur with
      | none => fail .valueError
      | some _ => setRoot (Node.replaceUid cur n.uid repl)
    pure true

end SvgObj
end PicoSVG
