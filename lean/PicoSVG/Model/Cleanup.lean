/-
  L4: the "discard useless content" passes — mirrors svg.py:960-1041 and `_apply_styles` /
  `apply_style_attributes` (453-473) on an in-sync tree.
-/
import PicoSVG.Model.TreeOps
import PicoSVG.Model.Cascade

namespace PicoSVG.Cleanup
open Node

/-- namespace of a Clark-notation name is acceptable: svg, xlink, or none when the document's
    default namespace is svg (`noneGood`) -/
def goodNs (noneGood : Bool) (name : String) : Bool :=
  match (splitNs name).1 with
  | some ns => ns == svgNs || ns == xlinkNs
  | none => noneGood

/-- `remove_nonsvg_content`: foreign-namespace elements go (with their subtrees), foreign
    attributes are deleted -/
def removeNonSvg (noneGood : Bool) (root : Node) : Node :=
  let f : Node → List Node := fun n =>
    match n with
    | .elem u t a cs =>
      if !goodNs noneGood t then [] else [.elem u t (a.filter (fun (k, _) => goodNs noneGood k)) cs]
    | x => [x]
  -- the root itself is only attribute-filtered (removing it would fail in lxml)
  match rewrite f root with
  | [r] => r
  | _ => root

/-- `remove_processing_instructions` -/
def removePIs (root : Node) : Node :=
  rewriteBelow (fun n => match n with | .pi => [] | x => [x]) root

/-- `remove_anonymous_symbols`: `//svg:symbol[not(@id)]` -/
def removeAnonSymbols (root : Node) : Node :=
  rewriteBelow (fun n => if n.isElem && n.tag == svgTag "symbol" && !(n.attrs.has "id") then [] else [n]) root

def metaTags : List String := ["title", "desc", "metadata", "comment"]

/-- `remove_title_meta_desc` -/
def removeTitleMetaDesc (root : Node) : Node :=
  rewriteBelow (fun n => if n.isElem && metaTags.any (fun t => n.tag == svgTag t) then [] else [n]) root

/-- the four passes in the order `topicosvg` runs them -/
def cleanup (noneGood : Bool) (root : Node) : Node :=
  removeTitleMetaDesc (removeAnonSymbols (removePIs (removeNonSvg noneGood root)))

/-! ### `apply_style_attributes` -/

/-- can lxml set an attribute with this name? (XML NCName, ASCII part) -/
def validAttrName (s : String) : Bool :=
  match s.toList with
  | [] => false
  | c :: r =>
    (c.isAlpha || c == '_') && r.all (fun d => d.isAlphanum || d == '_' || d == '-' || d == '.')

/-- `_apply_styles(el)`: pop `style`, assign every well-formed declaration as an attribute -/
def applyStylesAttrs (a : Attrs) : Except PyErr Attrs := do
  match a.get "style" with
  | none => pure a
  | some st =>
    let a' := a.del "style"
    let (assigned, _) ← Style.parseDecls (fun _ => true) validAttrName st
    pure (assigned.foldl (fun m (k, v) => m.set k v) a')

/-- on an in-sync tree (no pending shape cache): the root and every svg element with `style` -/
def applyStyles (root : Node) : Except PyErr Node := do
  -- collect first so that a malformed declaration raises (document order: root, then //svg:*[@style])
  let mut r := root
  let targets := root :: (root.elems.filter (fun n => (splitNs n.tag).1 == some svgNs && n.attrs.has "style"))
  for t in targets do
    match findUid r t.uid with
    | some cur =>
      let a ← applyStylesAttrs cur.attrs
      r := updateUid r t.uid (fun n => n.setAttrs a)
    | none => pure ()
  pure r

end PicoSVG.Cleanup
