/-
  L4: the "discard useless content" passes — mirrors svg.py:960-1041 and `_apply_styles` /
  `apply_style_attributes` (453-473) on an in-sync tree.
-/
import PicoSVG.Model.TreeOps
import PicoSVG.Model.Cascade

namespace PicoSVG.Cleanup
open Node

/-- namespace of a Clark-notation name is acceptable: svg, xlink, or none when the document's
    default namespace is svg (`noneGood`) -/
def goodNs (noneGood : Bool) (name : String) : Bool :=
  match (splitNs name).1 with
  | some ns => ns == svgNs || ns == xlinkNs
  | none => noneGood

/-- a pass that decides per node from its own (tag, attrs) or node kind -/
structure LocalPass where
  drop : String → Attrs → Bool
  amap : String → Attrs → Attrs
  dropOther : Node → Bool

def LocalPass.f (P : LocalPass) : Node → List Node
  | .elem u t a cs => if P.drop t a then [] else [.elem u t (P.amap t a) cs]
  | n => if P.dropOther n then [] else [n]

/-- an element must be in the svg or xlink namespace; no namespace at all (`<foo xmlns="">`) is not svg either -/
def goodElemNs (name : String) : Bool :=
  match (splitNs name).1 with
  | some ns => ns == svgNs || ns == xlinkNs
  | none => false

def nonSvgPass (noneGood : Bool) : LocalPass :=
  { drop := fun t _ => !goodElemNs t
    amap := fun _ a => a.filter (fun (k, _) => goodNs noneGood k)
    dropOther := fun _ => false }

def piPass : LocalPass :=
  { drop := fun _ _ => false, amap := fun _ a => a, dropOther := fun n => match n with | .pi => true | _ => false }

def anonSymbolPass : LocalPass :=
  { drop := fun t a => t == svgTag "symbol" && !(a.has "id"), amap := fun _ a => a, dropOther := fun _ => false }

def metaTags : List String := ["title", "desc", "metadata", "comment"]

def metaPass : LocalPass :=
  { drop := fun t _ => metaTags.any (fun m => t == svgTag m), amap := fun _ a => a, dropOther := fun _ => false }

/-- `remove_nonsvg_content`: foreign-namespace elements go (with their subtrees), foreign
    attributes are deleted; the root itself is only attribute-filtered -/
def removeNonSvg (noneGood : Bool) (root : Node) : Node :=
  match rewrite (nonSvgPass noneGood).f root with
  | [r] => r
  | _ => root

/-- `remove_processing_instructions` -/
def removePIs (root : Node) : Node := rewriteBelow piPass.f root

/-- `remove_anonymous_symbols`: `//svg:symbol[not(@id)]` -/
def removeAnonSymbols (root : Node) : Node := rewriteBelow anonSymbolPass.f root

def isGradientTag (t : String) : Bool := t == svgTag "linearGradient" || t == svgTag "radialGradient"

mutual
  /-- the gradient elements below a node, outermost ones, in document order -/
  def gradsOf : Node → List Node
    | .elem u t a cs => if isGradientTag t then [.elem u t a cs] else gradsOfList cs
    | _ => []
  def gradsOfList : List Node → List Node
    | [] => []
    | c :: cs => gradsOf c ++ gradsOfList cs
end

/-- what `remove_anonymous_symbols` leaves in the place of an element: a symbol without id goes, the gradients written
    inside it stay where it was (they can be referenced from anywhere); everything else is kept -/
def anonSymbolHoist : Node → List Node
  | .elem u t a cs => if t == svgTag "symbol" && !(a.has "id") then gradsOfList cs else [.elem u t a cs]
  | n => [n]

/-- `remove_anonymous_symbols` as the code does it since the gradients inside an anonymous symbol are kept (bottom-up, so the
    gradients of an anonymous symbol inside an anonymous symbol end up before the outer one). Where no anonymous symbol has a
    gradient below it this is `removeAnonSymbols`, the per-element pass the C14 theorems are about. -/
def removeAnonSymbolsH (root : Node) : Node := rewriteBelow anonSymbolHoist root

/-- `remove_title_meta_desc` -/
def removeTitleMetaDesc (root : Node) : Node := rewriteBelow metaPass.f root

/-- the four passes in the order `topicosvg` runs them -/
def cleanup (noneGood : Bool) (root : Node) : Node :=
  removeTitleMetaDesc (removeAnonSymbols (removePIs (removeNonSvg noneGood root)))

/-! ### `apply_style_attributes` -/

/-- can lxml set an attribute with this name? (XML NCName, ASCII part) -/
def validAttrName (s : String) : Bool :=
  match s.toList with
  | [] => false
  | c :: r =>
    (c.isAlpha || c == '_') && r.all (fun d => d.isAlphanum || d == '_' || d == '-' || d == '.')

/-- `_apply_styles(el)`: pop `style`, assign every well-formed declaration as an attribute -/
def applyStylesAttrs (a : Attrs) : Except PyErr Attrs := do
  match a.get "style" with
  | none => pure a
  | some st =>
    let a' := a.del "style"
    let (assigned, _) ← Style.parseDecls (fun _ => true) validAttrName st
    pure (assigned.foldl (fun m (k, v) => m.set k v) a')

/-- on an in-sync tree (no pending shape cache): the root and every svg element with `style` -/
def applyStyles (root : Node) : Except PyErr Node := do
  -- collect first so that a malformed declaration raises (document order: root, then //svg:*[@style])
  let mut r := root
  let targets := root :: (root.elems.filter (fun n => (splitNs n.tag).1 == some svgNs && n.attrs.has "style"))
  for t in targets do
    match findUid r t.uid with
    | some cur =>
      let a ← applyStylesAttrs cur.attrs
      r := updateUid r t.uid (fun n => n.setAttrs a)
    | none => pure ()
  pure r

end PicoSVG.Cleanup
