/-
  Stratum 3 boundary: picosvg's wrappers around the Skia path engine — mirrors svg_pathops.py.
  The engine itself is a parameter (`Engine`): operations returning `Except PyErr`, so that a
  PathOpsError raised by Skia is a value the wrapper logic must propagate.
-/
import PicoSVG.Model.Path

namespace PicoSVG

inductive FillRule | nonzero | evenodd
deriving Repr, DecidableEq

inductive BoolOp | union | intersection | difference
deriving Repr, DecidableEq

def FillRule.ofString? (s : String) : Option FillRule :=
  if s == "nonzero" then some .nonzero else if s == "evenodd" then some .evenodd else none

/-- the Skia operations picosvg calls, on an abstract engine path type `P` -/
structure Engine (P : Type) (α : Type) where
  /-- `skia_path(cmds, fill_rule)`: ValueError on a command without Skia mapping -/
  ofCmds : List (Cmd α) → FillRule → Except PyErr P
  /-- `pathops.op(one, two, op, fix_winding=True)` -/
  op2 : BoolOp → P → P → Except PyErr P
  /-- `Path.simplify(fix_winding=True)` (in place in Python; returns the new value here) -/
  simplify : P → Except PyErr P
  /-- `svg_commands(path)`: ValueError on a verb without SVG mapping -/
  cmds : P → Except PyErr (List (Cmd α))

namespace PathOps
variable {P α : Type}

/-- the loop of `_do_pathop`: operand `i+1` is converted with `skia_path` right before it is
    combined with the accumulator -/
def goFold (E : Engine P α) (o : BoolOp) (acc : P) :
    List (List (Cmd α)) → List FillRule → Except PyErr P
  | s :: ss, r :: rr =>
    E.ofCmds s r >>= fun b => E.op2 o acc b >>= fun acc' => goFold E o acc' ss rr
  | _, _ => .ok acc

/-- `_do_pathop` up to the final engine path. `none` = empty operand list (the Python function
    returns None). The for-else always runs the final `simplify(fix_winding=True)`. -/
def doPathopP (E : Engine P α) (o : BoolOp) (seqs : List (List (Cmd α))) (rules : List FillRule) :
    Except PyErr (Option P) :=
  match seqs, rules with
  | [], _ => .ok none
  | _ :: _, [] => .error .assertionError
  | s0 :: ss, r0 :: rr =>
    if ss.length != rr.length then .error .assertionError else
    E.ofCmds s0 r0 >>= fun p0 =>
    goFold E o p0 ss rr >>= fun folded =>
    E.simplify folded >>= fun res => .ok (some res)

def doPathop (E : Engine P α) (o : BoolOp) (seqs : List (List (Cmd α))) (rules : List FillRule) :
    Except PyErr (Option (List (Cmd α))) :=
  doPathopP E o seqs rules >>= fun r =>
    match r with
    | none => .ok none
    | some p => E.cmds p >>= fun c => .ok (some c)

/-- `remove_overlaps(cmds, fill_rule)` -/
def removeOverlapsP (E : Engine P α) (cmds : List (Cmd α)) (rule : FillRule) : Except PyErr P :=
  E.ofCmds cmds rule >>= fun p => E.simplify p

end PathOps
end PicoSVG

namespace PicoSVG.PathOps

/-- the shape-level wrappers of svg_types.py:987-1010 and `SVGPath.remove_overlaps` -/
inductive Wrapper
  | union
  | intersection (explicit : Option (List String))
  | difference
deriving Repr

/-- which fill-rule string accompanies each operand: `clip_rule` of the shape unless
    `intersection` is given explicit rules -/
def wrapperRules (w : Wrapper) (shapes : List (String × String)) : List String :=
  match w with
  | .intersection (some rs) => rs
  | _ => shapes.map (·.2)      -- (fill_rule, clip_rule) ↦ clip_rule

def wrapperOp : Wrapper → BoolOp
  | .union => .union
  | .intersection _ => .intersection
  | .difference => .difference

/-- `skia_path`'s fill-rule lookup: unknown string ⇒ ValueError -/
def ruleOf (s : String) : Except PyErr FillRule :=
  match FillRule.ofString? s with
  | some r => .ok r
  | none => .error .valueError

/-- `_do_pathop` with string rules, as called by the wrappers -/
def doPathopStr {P α : Type} (E : Engine P α) (o : BoolOp) (seqs : List (List (Cmd α)))
    (rules : List String) : Except PyErr (Option P) :=
  match seqs with
  | [] => .ok none
  | _ =>
    if seqs.length != rules.length then .error .assertionError else
    -- rules are looked up lazily, operand by operand; every failure is a ValueError
    match rules.mapM ruleOf with
    | .error e => .error e
    | .ok rs => doPathopP E o seqs rs

def wrapperP {P α : Type} (E : Engine P α) (w : Wrapper) (seqs : List (List (Cmd α)))
    (shapes : List (String × String)) : Except PyErr (Option P) :=
  doPathopStr E (wrapperOp w) seqs (wrapperRules w shapes)

end PicoSVG.PathOps
