/-
  L4: generic tree surgery on the immutable document tree — total, structurally recursive
  (mutual recursion through `List Node`), with lxml's conventions: removing an element also
  removes its tail text.
-/
import PicoSVG.Model.Tree

namespace PicoSVG
namespace Node

mutual
  /-- bottom-up rewrite: every node is replaced by the list `f` returns for it (children first) -/
  def rewrite (f : Node → List Node) : Node → List Node
    | .elem u t a cs => f (.elem u t a (rewriteList f false cs))
    | n => f n
  /-- siblings; `skipText`: the previous element was removed, so its tail text goes with it -/
  def rewriteList (f : Node → List Node) (skipText : Bool) : List Node → List Node
    | [] => []
    | c :: cs =>
      match skipText, c with
      | true, .text _ => rewriteList f false cs
      | _, _ =>
        let r := rewrite f c
        r ++ rewriteList f (r.isEmpty && c.isElem) cs
end

/-- rewrite below the root only (the root itself is kept) -/
def rewriteBelow (f : Node → List Node) (root : Node) : Node :=
  root.setChildren (rewriteList f false root.children)

mutual
  /-- all nodes in document order (pre-order) -/
  def flat : Node → List Node
    | .elem u t a cs => .elem u t a cs :: flatList cs
    | n => [n]
  def flatList : List Node → List Node
    | [] => []
    | c :: cs => flat c ++ flatList cs
end

def elems (n : Node) : List Node := n.flat.filter isElem

mutual
  /-- assign fresh uids in document order starting at `k` -/
  def number (k : Nat) : Node → Node × Nat
    | .elem _ t a cs =>
      let (cs', k') := numberList (k + 1) cs
      (.elem k t a cs', k')
    | n => (n, k)
  def numberList (k : Nat) : List Node → List Node × Nat
    | [] => ([], k)
    | c :: cs =>
      let (c', k1) := number k c
      let (cs', k2) := numberList k1 cs
      (c' :: cs', k2)
end

def findUid (root : Node) (u : Nat) : Option Node := root.elems.find? (fun n => n.uid == u)

/-- apply `g` to the element with the given uid -/
def updateUid (root : Node) (u : Nat) (g : Node → Node) : Node :=
  match rewrite (fun n => if n.isElem && n.uid == u then [g n] else [n]) root with
  | [r] => r
  | _ => root

/-- replace the element `u` (not the root) by a list of nodes (`_replace_el` / swap) -/
def replaceUid (root : Node) (u : Nat) (repl : List Node) : Node :=
  rewriteBelow (fun n => if n.isElem && n.uid == u then repl else [n]) root

def removeUid (root : Node) (u : Nat) : Node := replaceUid root u []

mutual
  /-- uid of the parent element of `u` -/
  def parentOf (u : Nat) : Node → Option Nat
    | .elem p _ _ cs => if cs.any (fun c => c.isElem && c.uid == u) then some p else parentOfList u cs
    | _ => none
  def parentOfList (u : Nat) : List Node → Option Nat
    | [] => none
    | c :: cs => match parentOf u c with
      | some p => some p
      | none => parentOfList u cs
end

/-- ancestors of `u`, nearest first -/
def ancestors (root : Node) (u : Nat) : List Node :=
  let rec go (fuel : Nat) (u : Nat) : List Node :=
    match fuel with
    | 0 => []
    | fuel + 1 =>
      match parentOf u root with
      | some p => match findUid root p with
        | some n => n :: go fuel p
        | none => []
      | none => []
  go (root.elems.length + 1) u

end Node
end PicoSVG
