/-
  L5/L4: the `SVG` object — the lxml tree plus the lazy shape cache (`elements`), the flush
  (`_update_etree`), `from_element` / `to_element`, and the cache-only operations.
  Skia is an oracle tape: every call into `svg_pathops` pops the next recorded answer and logs
  what was asked, so the harness can compare the questions too.
  Mirrors svg.py:242-288, 350-374, 415-451, 905-938, 1043-1053, 1391-1412.
-/
import PicoSVG.Model.Traverse
import PicoSVG.Model.TreeOps
import PicoSVG.Model.Cleanup

namespace PicoSVG

inductive OracleAns
  | cmds (l : List (Cmd Float))
  | box (x1 y1 x2 y2 : Float)
  | num (x : Float)
  | err (e : PyErr)
deriving Repr

structure SvgObj where
  root : Node
  /-- `elements`: `none` = None/[] (in sync); `some l` = pending (uid of the tree element, shapes) -/
  cache : Option (List (Nat × List ShapeRec))
  nextUid : Nat
  tape : List OracleAns
  /-- questions asked of the oracle, in order -/
  asked : List String
deriving Repr

abbrev DocM := StateT SvgObj (Except PyErr)

namespace DocM

def fail {β : Type} (e : PyErr) : DocM β := fun _ => .error e
def liftE {β : Type} (x : Except PyErr β) : DocM β := fun s => x.map (fun v => (v, s))

def freshUid : DocM Nat := do
  let s ← get
  set { s with nextUid := s.nextUid + 1 }
  pure s.nextUid

def getRoot : DocM Node := do return (← get).root
def setRoot (r : Node) : DocM Unit := modify (fun s => { s with root := r })

def showCmds (l : List (Cmd Float)) : String :=
  match Path.print l with
  | .ok d => d
  | .error _ => "<unprintable>"

/-- pop the next oracle answer, recording the question -/
def ask (q : String) : DocM OracleAns := do
  let s ← get
  match s.tape with
  | [] => fail .notImplementedError       -- the recorded run made fewer calls than the model
  | a :: rest =>
    set { s with tape := rest, asked := s.asked ++ [q] }
    pure a

def askCmds (q : String) : DocM (List (Cmd Float)) := do
  match ← ask q with
  | .cmds l => pure l
  | .err e => fail e
  | _ => fail .typeError

def askNum (q : String) : DocM Float := do
  match ← ask q with
  | .num x => pure x
  | .err e => fail e
  | _ => fail .typeError

def askBox (q : String) : DocM (Float × Float × Float × Float) := do
  match ← ask q with
  | .box a b c d => pure (a, b, c, d)
  | .err e => fail e
  | _ => fail .typeError

end DocM

open DocM Traverse Cascade

namespace ShapeRec

/-- `as_path()` as a record: a `path` with the common fields copied and the printed `d` -/
def asPath (r : ShapeRec) : Except PyErr ShapeRec := do
  if r.tag == "path" then return r
  let d ← r.asPathD
  let base := ShapeRec.default "path"
  let copied := base.fields.map (fun (k, v) =>
    if k == "d" then (k, FVal.s d) else match r.get k with | some w => (k, w) | none => (k, v))
  pure { tag := "path", fields := copied }

/-- `to_element(shape, **inherited)` -/
def toElement (r : ShapeRec) (uid : Nat) (inherited : Attrs) : Node :=
  let attrs : Attrs := (fieldTable r.tag).filterMap (fun (n, ty, d) =>
    let an := attrName n
    match r.get n with
    | none => none
    | some v =>
      let str := match v with | .f x => F64.ntos x | .s x => x
      match inherited.get an with
      | some iv => if str == iv then none else some (an, str)
      | none => if v == defaultVal ty d then none else some (an, str))
  .elem uid (Node.svgTag r.tag) attrs []

/-- `from_element(el, **inherited)`: `{**inherited, **el.attrib}` -/
def fromElement (n : Node) (inherited : Attrs) : Except PyErr ShapeRec :=
  let merged := n.attrs.foldl (fun m (k, v) => m.set k v) inherited
  fromAttrs (Node.stripNs n.tag) merged

/-- SVGShape.round_floats on the dataclass fields, SVGPath additionally on `d` -/
def roundFloats (r : ShapeRec) (nd : Int) : Except PyErr ShapeRec := do
  let fields := r.fields.map (fun (k, v) => match v with | .f x => (k, FVal.f (F64.pyRound x nd)) | w => (k, w))
  let r' := { r with fields := fields }
  if r.tag == "path" then
    let d ← SvgPath.roundFloats nd (r.getS "d")
    pure (r'.set "d" (.s d))
  else pure r'.postInit      -- `__post_init__` again: a rect's radii stay within half its rounded sides

/-- `normalize_opacity` -/
def normalizeOpacity (r : ShapeRec) : ShapeRec :=
  if r.getS "fill" == "none" && r.getS "stroke" == "none" then r else
  let r1 := if r.getS "fill" == "none" then
      (r.set "opacity" (.f (clampOpacity (r.getF "opacity") * clampOpacity (r.getF "stroke_opacity")))).set "stroke_opacity" (.f 1.0) else r
  if r1.getS "stroke" == "none" then
    (r1.set "opacity" (.f (clampOpacity (r1.getF "opacity") * clampOpacity (r1.getF "fill_opacity")))).set "fill_opacity" (.f 1.0)
  else r1

end ShapeRec

namespace SvgObj

/-- is the element a shape the cache tracks? (`el.tag in _SHAPE_CLASSES`: plain or svg-namespaced) -/
def isCacheShape (n : Node) : Bool :=
  match Node.splitNs n.tag with
  | (some ns, l) => ns == svgNs && (Gen.shapeFields.lookup l).isSome
  | (none, l) => (Gen.shapeFields.lookup l).isSome

/-- `_elements()` -/
def elements : DocM (List (Nat × List ShapeRec)) := do
  let s ← get
  match s.cache with
  | some l => if !l.isEmpty then return l
  | none => pure ()
  let ctxs ← liftE (depthFirst s.root)
  let mut out : List (Nat × List ShapeRec) := []
  for c in ctxs do
    if isCacheShape c.node then
      let sh ← liftE (ShapeRec.fromElement c.node c.attrib)
      out := out ++ [(c.node.uid, [sh])]
  modify (fun s => { s with cache := some out })
  pure out

/-- `_inherited_attrib(el)`: the cascade context the ancestors hand down -/
def inheritedAttrib (root : Node) (u : Nat) : Except PyErr Attrs :=
  (Node.ancestors root u).reverse.foldlM (fun ctx a => attribToPassOnEl ctx a) Gen.inheritableAttribDefaults

/-- `_update_etree()` -/
def updateEtree : DocM Unit := do
  let s ← get
  match s.cache with
  | none => pure ()
  | some [] => pure ()
  | some l =>
    for (u, shapes) in l do
      let root ← getRoot
      -- an element that is no longer in the tree has no parent: "Lost parent!"
      match Node.parentOf u root with
      | none => fail .valueError
      | some _ =>
        let inh ← liftE (inheritedAttrib root u)
        let mut news : List Node := []
        for sh in shapes do
          let nu ← freshUid
          news := news ++ [sh.toElement nu inh]
        setRoot (Node.replaceUid root u news)
    modify (fun s => { s with cache := none })

def setCache (l : List (Nat × List ShapeRec)) : DocM Unit := modify (fun s => { s with cache := some l })

/-- apply `f` to the single shape of every cache entry (the `for idx, (el, (shape,))` loops) -/
def mapShapes (f : ShapeRec → DocM ShapeRec) : DocM Unit := do
  let l ← elements
  let mut out : List (Nat × List ShapeRec) := []
  for (u, shapes) in l do
    match shapes with
    | [sh] =>
      let sh' ← f sh
      out := out ++ [(u, [sh'])]
    | _ => fail .valueError        -- `(shape,)` unpacking of a multi-shape entry
  setCache out

def shapesToPaths : DocM Unit := mapShapes (fun sh => liftE sh.asPath)

def expandShorthand : DocM Unit := mapShapes (fun sh =>
  if sh.tag != "path" then pure sh else do
    let c0 ← liftE (SvgPath.cmdsOf (sh.getS "d"))
    let c1 ← liftE (Path.explicitLines c0)
    let c1 ← liftE (SvgPath.reparse c1)
    let c2 ← liftE (Path.expandShorthand c1)
    let d ← liftE (Path.print c2)
    pure (sh.set "d" (.s d)))

def absolute : DocM Unit := mapShapes (fun sh =>
  if sh.tag != "path" then pure sh else do
    let d ← liftE (SvgPath.absolute (sh.getS "d"))
    pure (sh.set "d" (.s d)))

/-- cache operations written as `for shape in self.shapes(): shape.op(inplace=True)` accept
    multi-shape entries -/
def mapAllShapes (f : ShapeRec → DocM ShapeRec) : DocM Unit := do
  let l ← elements
  let mut out : List (Nat × List ShapeRec) := []
  for (u, shapes) in l do
    let mut ss : List ShapeRec := []
    for sh in shapes do
      let sh' ← f sh
      ss := ss ++ [sh']
    out := out ++ [(u, ss)]
  setCache out

def roundFloats (nd : Int) : DocM Unit := mapAllShapes (fun sh => liftE (sh.roundFloats nd))
def normalizeOpacity : DocM Unit := mapAllShapes (fun sh => pure sh.normalizeOpacity)

/-- the question text for an oracle call on a command sequence -/
def qCmds (op : String) (cmds : List (Cmd Float)) (extra : String) : String :=
  op ++ "(" ++ showCmds cmds ++ (if extra.isEmpty then "" else "; " ++ extra) ++ ")"

/-- `evenodd_to_nonzero_winding` -/
def evenoddToNonzero : DocM Unit := mapShapes (fun sh =>
  if sh.getS "fill_rule" != "evenodd" then pure sh else do
    let p ← liftE sh.asPath
    let cmds ← liftE p.asCmdSeq
    let res ← askCmds (qCmds "remove_overlaps" cmds "evenodd")
    let d ← liftE (Path.print res)
    pure (((p.set "d" (.s d)).set "fill_rule" (.s "nonzero")).set "clip_rule" (.s "nonzero")))

/-- ask the oracle for the area when `might_paint` needs it -/
def mightPaintM (sh : ShapeRec) : DocM Bool := do
  let need ← liftE sh.needsArea
  if need then
    let s ← liftE sh.applyStyle
    let cmds ← liftE s.asCmdSeq
    let a ← ask (qCmds "path_area" cmds (s.getS "fill_rule"))
    match a with
    | .num x => liftE (sh.mightPaint (some (.ok x)))
    | .err _ => liftE (sh.mightPaint (some (.error .pathOpsError)))
    | _ => fail .typeError
  else liftE (sh.mightPaint none)

/-- `_painted_elsewhere()`: the element's own paint says nothing about what it contributes — it sits in a clipPath (geometry
    only) or in defs, or it (or an ancestor) is what a `use` element refers to -/
def paintedElsewhere (root : Node) (u : Nat) : Bool :=
  let usedIds := (root.elems.filter (fun n => n.tag == Node.svgTag "use")).map
      (fun n => (((n.getAttr Node.xlinkHref).getD "").drop 1).toString) |>.filter (· != "")
  let chain := (match Node.findUid root u with | some n => [n] | none => []) ++ Node.ancestors root u
  chain.any (fun a => a.localTag == "clipPath" || a.localTag == "defs" ||
    (match a.getAttr "id" with | some i => usedIds.contains i | none => false))

/-- `remove_empty_subpaths` on every path of the cache that is painted where it stands -/
def removeEmptySubpaths : DocM Unit := do
  let root0 ← getRoot
  let l ← elements
  let mut out : List (Nat × List ShapeRec) := []
  for (u, shapes) in l do
    match shapes with
    | [sh] =>
      if sh.tag != "path" || paintedElsewhere root0 u then out := out ++ [(u, [sh])]
      else
        let subs ← liftE (SvgPath.subpaths (sh.getS "d"))
        let mut kept : List String := []
        for sub in subs do
          let probe := sh.set "d" (.s sub)
          if ← mightPaintM probe then kept := kept ++ [sub]
        out := out ++ [(u, [sh.set "d" (.s (" ".intercalate kept))])]
    | _ => fail .valueError
  setCache out

/-- `remove_unpainted_shapes` -/
def removeUnpaintedShapes : DocM Unit := do
  updateEtree
  let l ← elements
  let mut remove : List Nat := []
  let root0 ← getRoot
  for (u, shapes) in l do
    match shapes with
    | [sh] =>
      if paintedElsewhere root0 u then pure ()
      else if !(← mightPaintM sh) then remove := remove ++ [u]
    | _ => fail .valueError
  for u in remove do
    let root ← getRoot
    setRoot (Node.removeUid root u)
  modify (fun s => { s with cache := none })

/-- `apply_style_attributes(inplace=True)`: flush, then parse every style attribute in the tree -/
def applyStyleAttributes : DocM Unit := do
  updateEtree
  let root ← getRoot
  let r ← liftE (Cleanup.applyStyles root)
  setRoot r

/-- `_clone()`: flush the pending shape edits, then deep-copy the tree; the model continues on the copy,
    whose cache is empty -/
def clone : DocM Unit := do
  updateEtree
  modify (fun s => { s with cache := none })

end SvgObj
end PicoSVG
