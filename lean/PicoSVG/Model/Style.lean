/-
  CSS declaration lists in `style` attributes — mirrors svg_meta.parse_css_declarations and
  SVGShape.apply_style_attribute (svg_types.py:317-339).
-/
import PicoSVG.Model.Str
import PicoSVG.Model.Transform

namespace PicoSVG.Style
open Str

def countChar (c : Char) (cs : List Char) : Nat := (cs.filter (· == c)).length

/-- result of `parse_css_declarations(style, output, property_names)`:
    the assignments made to `output` in order, and the returned "unparsed" string.
    `accept name` = `property_names is None or name in property_names`;
    `settable name` = the output mapping accepts the key (lxml rejects invalid XML names) -/
def parseDecls (accept settable : String → Bool) (style : String) :
    Except PyErr (List (String × String) × String) := do
  let decls := splitOnChar ';' style.toList
  let mut assigned : List (String × String) := []
  let mut unparsed : List String := []
  for d0 in decls do
    let d := strip d0
    if countChar ':' d == 1 then
      let name := String.ofList (strip (d.takeWhile (· != ':')))
      let value := String.ofList (strip ((d.dropWhile (· != ':')).drop 1))
      if accept name then
        if settable name then assigned := assigned ++ [(name, value)]
        else unparsed := unparsed ++ [String.ofList d]
      else unparsed := unparsed ++ [String.ofList d]
    else if !(strip d).isEmpty then throw .valueError
  let rest := if unparsed.isEmpty then "" else "; ".intercalate unparsed ++ ";"
  return (assigned, rest)

/-- dict update semantics: later assignments win, insertion position of the first occurrence -/
def setKV (m : List (String × String)) (k v : String) : List (String × String) :=
  if m.any (·.1 == k) then m.map (fun (k', v') => if k' == k then (k', v) else (k', v')) else m ++ [(k, v)]

def getKV (m : List (String × String)) (k : String) : Option String := (m.find? (·.1 == k)).map (·.2)

end PicoSVG.Style
