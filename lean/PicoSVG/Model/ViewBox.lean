/-
  clip_to_viewbox (svg.py:851-903): the per-shape decision, and the document bounding box fold.
-/
import PicoSVG.Model.Geom

namespace PicoSVG

inductive ClipDecision (α : Type)
  /-- phase 1: `view_box.intersection(bbox) is None` — the element is removed -/
  | drop
  /-- phase 2: `bbox == isct` — untouched -/
  | keep
  /-- phase 2: intersect the shape with the rectangle `isct` -/
  | clip (isct : Rect α)

section
variable {α : Type} [Add α] [Sub α] [Mul α] [Div α] [Neg α] [OfNat α 0] [OfNat α 1] [BEq α]
  [LT α] [LE α] [DecidableLT α] [DecidableLE α]

def clipDecision (viewBox bbox : Rect α) : ClipDecision α :=
  match viewBox.intersection bbox with
  | none => .drop
  | some isct => if bbox == isct then .keep else .clip isct

/-- `SVG.bounding_box`: `reduce(union, shape boxes)`; `none` when there is no shape -/
def docBBox : List (Rect α) → Option (Rect α)
  | [] => none
  | r :: rs => some (rs.foldl Rect.union r)

end
end PicoSVG
