/-
  L2 at the `Float`/string level: the public `SVGPath` rewrite API (d-string in, d-string out)
  and the seven basic shapes' `as_path`.  Mirrors svg_types.py:398-853.
-/
import PicoSVG.Model.Path
import PicoSVG.Model.Arc
import PicoSVG.Model.ShapeCmds

namespace PicoSVG

def ArcMath.float : ArcMath Float :=
  { Trig.float with
    sqrt := Float.sqrt
    atan2 := Float.atan2
    ceilAbs := fun x =>
      if !F64.isFinite x then none else some (Float.ceil (Float.abs x)).toUInt64.toNat
    isFinite := F64.isFinite
    ofNat := Float.ofNat
    twoPi := F64.ofBitsNat Gen.twoPiBits
    piOverTwo := F64.ofBitsNat Gen.piOverTwoBits
    fudge := 0.001
    quarter := 0.25
    half := 0.5
    fourThirds := 4.0 / 3.0 }

namespace SvgPath
open Path

def tol : Float := F64.ofBitsNat Gen.almostEqualTolBits
def eps : Float := F64.ofBitsNat Gen.floatEpsilonBits

/-- `SVGPath.__iter__` = `parse_svg_path(d, exploded=True)` -/
def cmdsOf (d : String) : Except PyErr (List (Cmd Float)) := PathLex.parseFloat true d

/-- what re-parsing a printed path returns: `ntos` prints −0.0 as `0`; inf/nan do not re-parse -/
def reparse (cmds : List (Cmd Float)) : Except PyErr (List (Cmd Float)) :=
  cmds.mapM (fun (c, as) => do
    let as' ← as.mapM (fun x =>
      if !F64.isFinite x then (throw .valueError : Except PyErr Float)
      else pure (if x == 0 then 0.0 else x))
    pure (c, as'))

def rewriteStr (f : List (Cmd Float) → Except PyErr (List (Cmd Float))) (d : String) :
    Except PyErr String := do
  let cmds ← cmdsOf d
  let out ← f cmds
  print out

def absolute (d : String) := rewriteStr (Path.absolute tol) d
def absoluteMoveto (d : String) := rewriteStr (Path.absoluteMoveto tol) d
def explicitLines (d : String) := rewriteStr Path.explicitLines d
def expandShorthand (d : String) := rewriteStr Path.expandShorthand d
def move (dx dy : Float) (d : String) := rewriteStr (Path.move dx dy) d

/-- `relative()`: the walk, then "first letter back to M" (IndexError on an empty result) -/
def relative (d : String) : Except PyErr String := do
  let s ← rewriteStr (Path.relativeCore tol) d
  match s.toList with
  | [] => throw .indexError
  | 'm' :: r => pure (String.ofList ('M' :: r))
  | _ => pure s

/-- `arcs_to_cubics` callback -/
def arcCb : Callback Float := fun _ curr cmd args _ =>
  if !(cmd == 'a' || cmd == 'A') then pure [(cmd, args)] else
  match args with
  | [rx, ry, rot, large, sweep, ex, ey] => do
    let (ex, ey) := if cmd == 'a' then (ex + curr.x, ey + curr.y) else (ex, ey)
    let arc : EllArc Float := ⟨curr, rx, ry, rot, large != 0, sweep != 0, ⟨ex, ey⟩⟩
    -- `self.sweep == self.large` compares the numbers; on the parsed flags 0/1 this is Bool equality
    let out ← arcToCubic ArcMath.float eps arc
    match out with
    | .empty => pure []
    | .line p => pure [('L', [p.x, p.y])]
    | .cubics l => pure (l.map (fun c => ('C', [c.c1.x, c.c1.y, c.c2.x, c.c2.y, c.p.x, c.p.y])))
  | _ => throw .valueError

/-- `arcs_to_cubics()`: when the data contains an arc, shorthand is spelled out first (a smooth curveto after an arc
    uses the current point, which it could no longer tell once the arc is cubics) -/
def arcsToCubics (d : String) : Except PyErr String :=
  if d.toList.any (fun c => c == 'a' || c == 'A') then
    expandShorthand d >>= fun d' => rewriteStr (walk arcCb) d'
  else rewriteStr (walk arcCb) d

/-- `subpaths()` -/
def subpaths (d : String) : Except PyErr (List String) := do
  let cmds ← cmdsOf d
  let a ← Path.absoluteMoveto tol cmds
  let a ← reparse a
  let a' ← walk (fun _ _ c as _ => pure [(c, as)]) a
  (splitSubpaths a').mapM print

/-- `as_cmd_seq()` of a path: explicit_lines → expand_shorthand → absolute → arcs_to_cubics,
    each step printing and re-parsing the d string -/
def asCmdSeq (d : String) : Except PyErr (List (Cmd Float)) := do
  let c0 ← cmdsOf d
  let c1 ← Path.explicitLines c0
  let c1 ← reparse c1
  let c2 ← Path.expandShorthand c1
  let c2 ← reparse c2
  let c3 ← Path.absolute tol c2
  let c3 ← reparse c3
  let c4 ← walk arcCb c3
  reparse c4

def asCmdSeqStr (d : String) : Except PyErr String := do
  let c ← asCmdSeq d
  print c

/-- `SVGPath.round_floats(ndigits)` on the d string (non-exploded parse, per-argument round) -/
def roundFloats (ndigits : Int) (d : String) : Except PyErr String := do
  let cmds ← PathLex.parseFloat false d
  print (cmds.map (fun (c, as) => (c, as.map (fun x => F64.pyRound x ndigits))))

/-! ### basic shapes → path (`as_path`) -/

def rectPath (x y w h rx0 ry0 : Float) : Except PyErr String := do
  -- __post_init__
  let rx := if rx0 == 0 then ry0 else rx0       -- `if not self.rx`
  let ry := if ry0 == 0 then rx else ry0
  let rx := if w / 2 < rx then w / 2 else rx    -- min(rx, w/2)
  let ry := if h / 2 < ry then h / 2 else ry
  let arc (ex ey : Float) : Cmd Float := ('A', [rx, ry, 0, 0, 1, ex, ey])
  let cmds : List (Cmd Float) :=
    [('M', [x + rx, y]), ('H', [x + w - rx])] ++
    (if 0 < rx then [arc (x + w) (y + ry)] else []) ++
    [('V', [y + h - ry])] ++
    (if 0 < rx then [arc (x + w - rx) (y + h)] else []) ++
    [('H', [x + rx])] ++
    (if 0 < rx then [arc x (y + h - ry)] else []) ++
    [('V', [y + ry])] ++
    (if 0 < rx then [arc (x + rx) y] else []) ++
    [('Z', [])]
  print cmds

def ellipsePath (rx ry cx cy : Float) : Except PyErr String := print (ShapeCmds.ellipseCmds rx ry cx cy)

def circlePath (r cx cy : Float) : Except PyErr String := ellipsePath r r cx cy

def linePath (x1 y1 x2 y2 : Float) : Except PyErr String := print (ShapeCmds.lineCmds x1 y1 x2 y2)

def polygonPath (points : String) : String := if points.isEmpty then "" else "M" ++ points ++ " Z"
def polylinePath (points : String) : String := if points.isEmpty then "" else "M" ++ points

end SvgPath
end PicoSVG
