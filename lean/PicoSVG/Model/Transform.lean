/-
  L0: transform operation lists and their evaluation — mirrors `parse_svg_transform`
  (svg_transform.py:351-368) and the Affine2D op methods it dispatches to.
-/
import PicoSVG.Model.Geom
import PicoSVG.Model.Str
import PicoSVG.Model.F64

namespace PicoSVG

/-- the trigonometric primitives the code takes from `math` -/
structure Trig (α : Type) where
  sin : α → α
  cos : α → α
  tan : α → α
  /-- `math.radians` -/
  rad : α → α

def Trig.float : Trig Float :=
  { sin := Float.sin, cos := Float.cos, tan := Float.tan,
    -- CPython: x * (Py_MATH_PI / 180.0)
    rad := fun x => x * (3.141592653589793 / 180.0) }

/-- one parsed transform operation after Python's positional-argument binding -/
inductive TOp (α : Type)
  | matrix (a b c d e f : α)
  | translate (tx : α) (ty : Option α)
  | scale (sx : α) (sy : Option α)
  /-- rotate(a [, cx [, cy]]) — the Python signature also accepts two arguments -/
  | rotate (deg : α) (cx : Option α) (cy : Option α)
  | skewX (deg : α)
  | skewY (deg : α)
deriving Repr

section
variable {α : Type} [Add α] [Sub α] [Mul α] [Div α] [Neg α] [OfNat α 0] [OfNat α 1] [BEq α]
  [LT α] [LE α] [DecidableLT α] [DecidableLE α]

/-- `getattr(transform, op)(*args)` after `_SVG_ARG_FIXUPS` (degrees → radians) -/
def evalOp (T : Trig α) (s : Aff α) : TOp α → Aff α
  | .matrix a b c d e f => s.matrix a b c d e f
  | .translate tx ty => s.translate tx (ty.getD 0)
  | .scale sx sy => s.scale sx (sy.getD sx)
  | .rotate deg cx cy =>
      let a := T.rad deg
      s.rotateCS (T.cos a) (T.sin a) (cx.getD 0) (cy.getD 0)
  | .skewX deg => s.skewxT (T.tan (T.rad deg))
  | .skewY deg => s.skewyT (T.tan (T.rad deg))

def evalOps (T : Trig α) (ops : List (TOp α)) : Aff α := ops.foldl (evalOp T) Aff.id

/-- the single operation `Affine2D.tostring` prints: `translate(e, f)` when the matrix is a pure
    translation, else `matrix(a b c d e f)` -/
def Aff.tostringOp (s : Aff α) : TOp α :=
  if s == (Aff.id : Aff α).translate s.e s.f then .translate s.e (some s.f)
  else .matrix s.a s.b s.c s.d s.e s.f

end

/-! ### string level (Float only) -/

inductive PyErr
  | valueError
  | typeError
  | indexError
  | assertionError
  | keyError
  | zeroDivisionError
  | recursionError
  | notImplementedError
  | overflowError
  | stopIteration
  | pathOpsError
  | attributeError
deriving Repr, BEq, DecidableEq

def PyErr.name : PyErr → String
  | .valueError => "ValueError"
  | .typeError => "TypeError"
  | .indexError => "IndexError"
  | .assertionError => "AssertionError"
  | .keyError => "KeyError"
  | .zeroDivisionError => "ZeroDivisionError"
  | .recursionError => "RecursionError"
  | .notImplementedError => "NotImplementedError"
  | .overflowError => "OverflowError"
  | .stopIteration => "StopIteration"
  | .pathOpsError => "PathOpsError"
  | .attributeError => "AttributeError"

namespace TransformParse
open Str

def opNames : List String := ["matrix", "translate", "scale", "rotate", "skewx", "skewy"]

/-- try to match `(?i)(name)\s*\(([^)]*)\)` at the head of `cs`;
    returns (lower-cased op, group 2, rest after the `)`) -/
def matchAt (cs : List Char) : Option (String × List Char × List Char) :=
  let rec tryNames : List String → Option (String × List Char × List Char)
    | [] => none
    | n :: ns =>
      let nl := n.toList
      if startsWith (lowerAscii (cs.take nl.length)) nl && cs.length ≥ nl.length then
        let r := (cs.drop nl.length).dropWhile isSpace
        match r with
        | '(' :: body =>
          let inner := body.takeWhile (· != ')')
          let after := body.dropWhile (· != ')')
          match after with
          | ')' :: rest => some (n, inner, rest)
          | _ => tryNames ns
        | _ => tryNames ns
      else tryNames ns
  tryNames opNames

/-- `re.finditer` — leftmost, non-overlapping -/
def findAll : (fuel : Nat) → List Char → List (String × List Char)
  | 0, _ => []
  | _, [] => []
  | fuel + 1, c :: cs =>
    match matchAt (c :: cs) with
    | some (n, inner, rest) => (n, inner) :: findAll fuel rest
    | none => findAll fuel cs

/-- `re.split(r"\s*[,\s]\s*", s)` -/
def splitArgs (cs : List Char) : List (List Char) :=
  let rec go (fuel : Nat) (cur : List Char) (rest : List Char) (acc : List (List Char)) :
      List (List Char) :=
    match fuel with
    | 0 => (cur.reverse :: acc).reverse
    | fuel + 1 =>
      match rest with
      | [] => (cur.reverse :: acc).reverse
      | c :: r =>
        if isSpace c then
          let r1 := r.dropWhile isSpace
          match r1 with
          | ',' :: r2 => go fuel [] (r2.dropWhile isSpace) (cur.reverse :: acc)
          | _ => go fuel [] r1 (cur.reverse :: acc)
        else if c == ',' then go fuel [] (r.dropWhile isSpace) (cur.reverse :: acc)
        else go fuel (c :: cur) r acc
  go (cs.length + 1) [] cs []

def parseFloats (parts : List (List Char)) : Except PyErr (List Float) :=
  parts.mapM (fun p => match F64.pyFloat? (String.ofList p) with
    | some f => .ok f
    | none => .error .valueError)

/-- Python positional binding of `args` to the op method; wrong arity is a `TypeError` -/
def bind (op : String) (args : List Float) : Except PyErr (TOp Float) :=
  match op, args with
  | "matrix", [a, b, c, d, e, f] => .ok (.matrix a b c d e f)
  | "translate", [tx] => .ok (.translate tx none)
  | "translate", [tx, ty] => .ok (.translate tx (some ty))
  | "scale", [sx] => .ok (.scale sx none)
  | "scale", [sx, sy] => .ok (.scale sx (some sy))
  | "rotate", [a] => .ok (.rotate a none none)
  | "rotate", [a, cx] => .ok (.rotate a (some cx) none)
  | "rotate", [a, cx, cy] => .ok (.rotate a (some cx) (some cy))
  | "skewx", [a] => .ok (.skewX a)
  | "skewy", [a] => .ok (.skewY a)
  | _, _ => .error .typeError

def parseOps (s : String) : Except PyErr (List (TOp Float)) :=
  let cs := s.toList
  (findAll (cs.length + 1) cs).mapM (fun (n, inner) => do
    let args ← parseFloats (splitArgs (strip inner))
    bind n args)

def parse (s : String) : Except PyErr (Aff Float) := do
  let ops ← parseOps s
  pure (evalOps Trig.float ops)

end TransformParse

end PicoSVG

namespace PicoSVG

/-! ### `rect_to_rect` at string level, `tostring`, ZeroDivisionError guards (driver side) -/

def alignTable : List (String × Option (AlignX × AlignY)) :=
  [("none", none),
   ("xminymin", some (.min, .min)), ("xminymid", some (.min, .mid)), ("xminymax", some (.min, .max)),
   ("xmidymin", some (.mid, .min)), ("xmidymid", some (.mid, .mid)), ("xmidymax", some (.mid, .max)),
   ("xmaxymin", some (.max, .min)), ("xmaxymid", some (.max, .mid)), ("xmaxymax", some (.max, .max))]

/-- `preserveAspectRatio.lower().strip().partition(" ")` + the two membership tests;
    the code decides by substring tests ("slice" in meetOrSlice, "xmid" in align …) which on the
    accepted values coincide with this table -/
def parsePAR (s : String) : Except PyErr PAR :=
  let cs := Str.strip (Str.lowerAscii s.toList)
  let align := cs.takeWhile (· != ' ')
  let rest := cs.dropWhile (· != ' ')
  let mos := match rest with | _ :: r => r | [] => []
  match alignTable.lookup (String.ofList align) with
  | none => .error .valueError
  | some a =>
    if !mos.isEmpty && mos != "meet".toList && mos != "slice".toList then .error .valueError
    else match a with
      | none => .ok PAR.none
      | some (ax, ay) => .ok (PAR.align ax ay (mos == "slice".toList))

section
variable {α : Type} [Add α] [Sub α] [Mul α] [Div α] [Neg α] [OfNat α 0] [OfNat α 1] [BEq α]
  [LT α] [LE α] [DecidableLT α] [DecidableLE α]

/-- the empty-rectangle shortcuts come BEFORE the preserveAspectRatio validation -/
def rectToRectStr (src dst : Rect α) (par : String) : Except PyErr (Aff α) :=
  if src.empty then .ok Aff.id
  else if dst.empty then .ok Aff.zero
  else do
    let p ← parsePAR par
    pure (rectToRect src dst p)

/-- would `decompose_translation` divide by (±)zero?  (Python raises ZeroDivisionError) -/
def decompZeroDiv (tolEq : α) (s : Aff α) : Bool :=
  if s.almostEq tolEq (zeroTranslation s) then false
  else if !(decide (absv (s.a - 0) ≤ tolEq)) then
    s.a == 0 || (s.d - s.b * s.c / s.a) == 0
  else s.c == 0 || s.b == 0

def decomposeTranslationPy (tolEq tolDec : α) (s : Aff α) : Except PyErr (Aff α × Aff α) :=
  if decompZeroDiv tolEq s then .error .zeroDivisionError
  else match decomposeTranslation tolEq tolDec s with
    | some r => .ok r
    | none => .error .assertionError
end

/-- `Affine2D.tostring()` on floats -/
def Aff.tostring (s : Aff Float) : String :=
  match Aff.tostringOp s with
  | .translate e f => "translate(" ++ F64.ntos e ++ ", " ++ (F64.ntos (f.getD 0)) ++ ")"
  | _ => "matrix(" ++ " ".intercalate (s.toList.map F64.ntos) ++ ")"

end PicoSVG
