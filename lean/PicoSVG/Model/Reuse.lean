/-
  L6: the shape-reuse search — mirrors picosvg/svg_reuse.py (affine_between and helpers).
  Float level (the search is numeric heuristics); the soundness theorem (C20) is about the
  control structure: every reported transform has passed the verification step.
-/
import PicoSVG.Model.SvgPath

namespace PicoSVG.Reuse
open Path

def significanceFactor : Float := 5
def roundRange : List Nat := [3, 4, 5, 6, 7, 8, 9, 10, 11, 12]

/-- `SVGShape.almost_equals` on exploded command lists (zip_longest) -/
def almostEquals (tol : Float) : List (Cmd Float) → List (Cmd Float) → Bool
  | [], [] => true
  | (c1, a1) :: r1, (c2, a2) :: r2 =>
    if c1 != c2 || a1.length != a2.length then false
    else if (a1.zip a2).any (fun (x, y) => tol < Float.abs (x - y)) then false
    -- the large-arc and sweep flags of an arc are switches, not lengths: `l_args[3:5] != r_args[3:5]`
    else if (c1 == 'A' || c1 == 'a') && (((a1.drop 3).take 2).zip ((a2.drop 3).take 2)).any (fun (x, y) => x != y) then false
    else almostEquals tol r1 r2
  | _, _ => false

/-- `_affine_friendly`: explicit_lines → expand_shorthand → relative (first letter back to `M`) -/
def affineFriendly (d : String) : Except PyErr (List (Cmd Float)) := do
  let c0 ← SvgPath.cmdsOf d
  let c1 ← Path.explicitLines c0
  let c1 ← SvgPath.reparse c1
  let c2 ← Path.expandShorthand c1
  let c2 ← SvgPath.reparse c2
  let c3 ← Path.relativeCore SvgPath.tol c2
  let c3 ← SvgPath.reparse c3
  match c3 with
  | [] => throw .indexError           -- result.d[0] on an empty string
  | ('m', a) :: r => pure (('M', a) :: r)
  | l => pure l

/-- `_first_move` -/
def firstMove (p : List (Cmd Float)) : Except PyErr (Float × Float) :=
  match p with
  | [] => .error .stopIteration    -- next(iter(path))
  | (c, a) :: _ =>
    if toUpper c != 'M' then .error .valueError
    else match a with
      | [x, y] => .ok (x, y)
      | _ => .error .valueError

/-- `_farthest(rx, ry, large_arc, line_length)`; AssertionError on negative length -/
def farthest (rx ry : Float) (largeArc : Float) (lineLength : Float) : Except PyErr Float :=
  if lineLength < 0 then .error .assertionError else
  let x := lineLength / 2
  let (y, ry') :=
    if Float.abs (2 * rx - lineLength) ≤ SvgPath.tol then (0.0, ry)
    else if lineLength ≤ 2 * rx then
      -- pow(ry,2) - pow(ry,2)*pow(x,2)/pow(rx,2)
      (Float.sqrt (Float.pow ry 2 - Float.pow ry 2 * Float.pow x 2 / Float.pow rx 2), ry)
    else
      let scale := lineLength / (2 * rx)
      (0.0, ry * scale)
  .ok (if largeArc == 0 then ry' - y else y + ry')

/-- `_vectors(path)`; AssertionError when a command is neither `M` nor lowercase -/
def vectors (p : List (Cmd Float)) : Except PyErr (List (Pt Float)) := do
  let mut out : List (Pt Float) := []
  for (c, a) in p do
    let (xs, ys) ← match coords c with
      | some v => pure v
      | none => throw PyErr.valueError
    if !(c == 'M' || isLower c) then throw PyErr.assertionError
    if c == 'z' then
      out := out ++ [⟨0.0, 0.0⟩]
    else
      let dflt : Except PyErr (Pt Float) := match xs.getLast?, ys.getLast? with
        | some i, some j => do
          let x ← getArg a i; let y ← getArg a j
          pure ⟨x, y⟩
        | _, _ => throw PyErr.indexError
      if c == 'a' then
        match a with
        | [rx, ry, rot, large, _, ex, ey] =>
          if rot == 0 && (ex == 0 || ey == 0) then
            if Float.abs (ey - 0) ≤ SvgPath.tol then
              let ym ← farthest rx ry large (Float.abs ex)
              out := out ++ [⟨ex, 0.0⟩, ⟨0.0, ym⟩]
            else if Float.abs (ex - 0) ≤ SvgPath.tol then
              let xm ← farthest ry rx large (Float.abs ey)
              out := out ++ [⟨xm, 0.0⟩, ⟨0.0, ey⟩]
            else
              let v ← dflt
              out := out ++ [v]
          else
            let v ← dflt
            out := out ++ [v]
        | _ => throw PyErr.valueError
      else
        let v ← dflt
        out := out ++ [v]
  pure out

def norm (v : Pt Float) : Float := Float.sqrt (v.x * v.x + v.y * v.y)

/-- `_first_significant(vectors, val_fn, tolerance)` -/
def firstSignificant (vs : List (Pt Float)) (val : Pt Float → Float) (tol : Float) : Option (Nat × Pt Float) :=
  let t := significanceFactor * tol
  (vs.zipIdx.find? (fun (v, i) => i != 0 && t < Float.abs (val v))).map (fun (v, i) => (i, v))

def firstSignificantBoth (v1 v2 : List (Pt Float)) (val : Pt Float → Float) (tol : Float) :
    Option (Nat × Pt Float × Pt Float) :=
  let t := significanceFactor * tol
  (((v1.zip v2).zipIdx).find? (fun ((a, b), i) => i != 0 && t < Float.abs (val a) && t < Float.abs (val b))).map
    (fun ((a, b), i) => (i, a, b))

def rotate (angle : Float) : Aff Float :=
  (Aff.id : Aff Float).rotateCS (Float.cos angle) (Float.sin angle) 0 0

/-- `_affine_vec2vec(initial, target)` -/
def affineVec2Vec (initial target : Pt Float) : Aff Float :=
  let angle := Float.atan2 target.y target.x - Float.atan2 initial.y initial.x
  let aff := rotate angle
  let vec := aff.mapVec initial
  let s := if norm vec != 0 then norm target / norm vec else 0
  Aff.composeLtr [aff, (Aff.id : Aff Float).scale s s]

def snap0 (x : Float) : Float := if Float.abs (x - 0) ≤ SvgPath.tol then 0 else x

/-- `_affine_callback` as a walk callback -/
def affineCb (A : Aff Float) : Callback Float := fun _ _ cmd args _ =>
  match coords cmd with
  | none => .error .valueError
  | some (xs, ys) =>
    if xs.length != ys.length then .error .assertionError else
    if (xs ++ ys).any (fun i => i ≥ args.length) then .error .indexError else
    let step (args : List Float) (ij : Nat × Nat) : List Float :=
      let (i, j) := ij
      let x := args.getD i 0; let y := args.getD j 0
      let p := if cmd == toUpper cmd then A.mapPt ⟨x, y⟩ else A.mapVec ⟨x, y⟩
      let args := setAt (setAt args i (snap0 p.x)) j (snap0 p.y)
      if toUpper cmd == 'A' then
        -- radii live 5 slots before the end point coordinates
        let rx := args.getD (i - 5) 0; let ry := args.getD (j - 5) 0
        setAt (setAt args (i - 5) (rx * norm ⟨A.a, A.b⟩)) (j - 5) (ry * norm ⟨A.c, A.d⟩)
      else args
    .ok [(cmd, (xs.zip ys).foldl step args)]

/-- `_apply_affine` (walk, then the d string is what later iterations see) -/
def applyAffine (A : Aff Float) (p : List (Cmd Float)) : Except PyErr (List (Cmd Float)) := do
  let r ← walk (affineCb A) p
  SvgPath.reparse r

/-- `_try_affine` -/
def hasArcLetter (d : String) : Bool := d.toList.any (fun c => c == 'a' || c == 'A')

/-- the path with its arcs as cubics (`SVGPath.arcs_to_cubics()` on a copy, read back through the d string) -/
def cubicForm (p : List (Cmd Float)) : Except PyErr (List (Cmd Float)) :=
  Path.print p >>= fun d => SvgPath.arcsToCubics d >>= fun d' => SvgPath.cmdsOf d'

/-- `_try_affine`: command by command on the affine-friendly form, and — when there are arcs, whose radii, rotation
    and flags are not coordinates — once more on the cubic form of both paths -/
def tryAffine (A : Aff Float) (s1 s2 : List (Cmd Float)) (tol : Float) : Except PyErr Bool :=
  applyAffine A s1 >>= fun s1' =>
  if !almostEquals tol s1' s2 then .ok false else
  Path.print s1 >>= fun d1 =>
  if hasArcLetter d1 then
    cubicForm s1 >>= fun c1 => applyAffine A c1 >>= fun c1' => cubicForm s2 >>= fun c2 => .ok (almostEquals tol c1' c2)
  else .ok true

def roundAff (A : Aff Float) (n : Nat) : Aff Float := A.map (fun v => F64.pyRound v n)

/-- `_round`: the first coarser rounding that still verifies, else the (verified) input -/
def roundSearch (A : Aff Float) (s1 s2 : List (Cmd Float)) (tol : Float) : List Nat → Except PyErr (Aff Float)
  | [] => .ok A
  | n :: ns =>
    tryAffine (roundAff A n) s1 s2 tol >>= fun ok =>
      if ok then .ok (roundAff A n) else roundSearch A s1 s2 tol ns

/-- a candidate is reported only through this gate -/
def gate (A : Aff Float) (s1 s2 : List (Cmd Float)) (tol : Float) : Except PyErr (Option (Aff Float)) :=
  tryAffine A s1 s2 tol >>= fun ok =>
    if ok then roundSearch A s1 s2 tol roundRange >>= fun r => .ok (some r)
    else .ok none

def nthVector (p : List (Cmd Float)) (n : Nat) : Except PyErr (Pt Float) := do
  let vs ← vectors p
  match vs[n]? with
  | some v => pure v
  | none => throw .stopIteration      -- next(islice(...))

/-- try a candidate; on failure continue with `next` -/
def orElseGate (A : Aff Float) (s1 s2 : List (Cmd Float)) (tol : Float)
    (next : Except PyErr (Option (Aff Float))) : Except PyErr (Option (Aff Float)) :=
  gate A s1 s2 tol >>= fun g =>
    match g with
    | some r => .ok (some r)
    | none => next

/-- third stage: align the first y-significant vectors (non-uniform scaling / mirroring) -/
def stage3 (s1 s2 : List (Cmd Float)) (tol : Float) (s1ToOrigin s2ToOrigin v2v originToS2 : Aff Float)
    (s2vec1x : Pt Float) : Except PyErr (Option (Aff Float)) :=
  let ang := Float.atan2 s2vec1x.y s2vec1x.x
  let ontoX := rotate (-ang)
  let offX := rotate ang
  applyAffine (Aff.composeLtr [s1ToOrigin, v2v, ontoX]) s1 >>= fun s1p =>
  applyAffine (Aff.composeLtr [s2ToOrigin, ontoX]) s2 >>= fun s2p =>
  vectors s1p >>= fun w1 =>
  vectors s2p >>= fun w2 =>
  match firstSignificantBoth w1 w2 (fun v => v.y) tol with
  | none => .ok none
  | some (_, s1vecy, s2vecy) =>
    gate (Aff.composeLtr [s1ToOrigin, v2v, ontoX,
      (Aff.id : Aff Float).scale 1.0 (s2vecy.y / s1vecy.y), offX, originToS2]) s1 s2 tol

/-- second stage: align the first x-significant edge (rotation, uniform scale) -/
def stage2 (s1 s2 : List (Cmd Float)) (tol : Float) (s1x s1y s2x s2y : Float) :
    Except PyErr (Option (Aff Float)) :=
  vectors s2 >>= fun v2 =>
  match firstSignificant v2 (fun v => v.x) tol with
  | none => .ok none
  | some (idx, s2vec1x) =>
    nthVector s1 idx >>= fun s1vec1 =>
    let s1ToOrigin := (Aff.id : Aff Float).translate (-s1x) (-s1y)
    let s2ToOrigin := (Aff.id : Aff Float).translate (-s2x) (-s2y)
    let v2v := affineVec2Vec s1vec1 s2vec1x
    let originToS2 := (Aff.id : Aff Float).translate s2x s2y
    orElseGate (Aff.composeLtr [s1ToOrigin, v2v, originToS2]) s1 s2 tol
      (stage3 s1 s2 tol s1ToOrigin s2ToOrigin v2v originToS2 s2vec1x)

/-- the staged search on the affine-friendly outlines -/
def searchFriendly (s1 s2 : List (Cmd Float)) (tol : Float) : Except PyErr (Option (Aff Float)) :=
  firstMove s1 >>= fun m1 =>
  firstMove s2 >>= fun m2 =>
  orElseGate ((Aff.id : Aff Float).translate (m2.1 - m1.1) (m2.2 - m1.2)) s1 s2 tol
    (stage2 s1 s2 tol m1.1 m1.2 m2.1 m2.2)

/-- the identity shortcut: equal command for command within the tolerance and — with arcs, whose rotation is an angle — equal
    cubic forms too -/
def identityHolds (d1 d2 : String) (p1 p2 : List (Cmd Float)) (tol : Float) : Except PyErr Bool :=
  if !almostEquals tol p1 p2 then .ok false else
  if hasArcLetter d1 then
    SvgPath.arcsToCubics d1 >>= fun e1 => SvgPath.cmdsOf e1 >>= fun c1 =>
    SvgPath.arcsToCubics d2 >>= fun e2 => SvgPath.cmdsOf e2 >>= fun c2 =>
    .ok (almostEquals tol c1 c2)
  else .ok true

/-- `affine_between(s1, s2, tolerance)` on the d strings of `as_path()` -/
def affineBetween (d1 d2 : String) (tol : Float) : Except PyErr (Option (Aff Float)) :=
  SvgPath.cmdsOf d1 >>= fun p1 =>
  SvgPath.cmdsOf d2 >>= fun p2 =>
  identityHolds d1 d2 p1 p2 tol >>= fun same =>
  if same then .ok (some Aff.id) else
  affineFriendly d1 >>= fun s1 =>
  affineFriendly d2 >>= fun s2 =>
  searchFriendly s1 s2 tol

end PicoSVG.Reuse
