/-
  L4/L5: the public in-place operations of `SVG` as state transformers, the final gate and the
  conversion pipeline `topicosvg` (svg.py:1332-1379).
-/
import PicoSVG.Model.Simplify
import PicoSVG.Model.ViewBox

namespace PicoSVG
open DocM Traverse

namespace SvgObj

def dropCache : DocM Unit := modify (fun s => { s with cache := none })

def opRemoveNonSvg (noneGood : Bool) : DocM Unit := do
  updateEtree
  setRoot (Cleanup.removeNonSvg noneGood (← getRoot))
  dropCache

def opRemovePIs : DocM Unit := do
  updateEtree
  setRoot (Cleanup.removePIs (← getRoot))

def opRemoveAnonSymbols : DocM Unit := do
  updateEtree
  setRoot (Cleanup.removeAnonSymbolsH (← getRoot))

def opRemoveTitleMetaDesc : DocM Unit := do
  updateEtree
  setRoot (Cleanup.removeTitleMetaDesc (← getRoot))

/-- `checkpicosvg(allow_text, drop_unsupported)`: flushes, reports, and (with drop_unsupported)
    detaches the offending elements -/
def checkpicosvg (allowText dropUnsupported : Bool) : DocM (List Violation) := do
  updateEtree
  let root ← getRoot
  let (viol, removedAddrs) ← liftE (checkPico allowText dropUnsupported root)
  if dropUnsupported then
    -- addresses → uids on the unmodified tree, then detach
    let ctxs ← liftE (breadthFirst root)
    let uids := ctxs.filterMap (fun c => if removedAddrs.contains c.addr then some c.node.uid else none)
    let mut r := root
    for u in uids do
      if u != root.uid then r := Node.removeUid r u
    setRoot r
  pure viol

/-- `_remove_orphaned_gradients()` after pruning (no master-defs purge here), then `elements = None` -/
def removeOrphansAfterPruning : DocM Unit := do
  let used ← usedGradientIds
  let root ← getRoot
  setRoot (pruneGrads used root)
  dropCache

/-- groups left underfull by pruning are flattened: reversed depth-first, `_try_remove_group` -/
def flattenGroups : DocM Unit := do
  let root ← getRoot
  let ctxs ← liftE (depthFirst root)
  for c in ctxs.reverse do
    if isGroupTag c.node.tag then
      let cur ← getRoot
      match Node.findUid cur c.node.uid with
      | some g =>
        if g.uid != cur.uid then
          let (repl, _) ← liftE (Groups.tryRemove g true)
          setRoot (Node.replaceUid cur g.uid repl)
      | none => pure ()

/-- the last step of `topicosvg`: run the gate, raise ValueError if it reports anything -/
def gateStep (allowText dropUnsupported : Bool) : DocM Unit :=
  checkpicosvg allowText dropUnsupported >>= fun viol =>
    if !viol.isEmpty then fail .valueError else pure ()

/-- the closing loop of `topicosvg`: prune, drop orphaned gradients, flatten underfull groups, round; repeated
    while a round removed a shape or a group.  `fuel` bounds the number of rounds (each non-final round removes one,
    so #shapes + #groups + 1 rounds always suffice); running out is a RecursionError like every other fuelled loop. -/
def pruneCensus : DocM (Nat × Nat) := do
  let l ← elements
  let root ← getRoot
  pure ((l.map (·.2.length)).sum, (root.elems.filter (fun n => n.tag == Node.svgTag "g")).length)

def pruneLoop (ndigits : Int) : Nat → DocM Unit
  | 0 => fail .recursionError
  | fuel + 1 => do
    let before ← pruneCensus
    removeUnpaintedShapes
    removeOrphansAfterPruning
    flattenGroups
    roundFloats ndigits
    let after ← pruneCensus
    if after == before then pure () else pruneLoop ndigits fuel

/-- rounds that always suffice: every round but the last removes a shape or a group -/
def pruneFuel : DocM Nat := pruneCensus >>= fun c => pure (c.1 + c.2 + 2)

/-- everything `topicosvg` does before the gate -/
def convertSteps (ndigits : Int) (noneGood : Bool) : DocM Unit := do
  updateEtree
  opRemoveNonSvg noneGood
  opRemovePIs
  opRemoveAnonSymbols
  opRemoveTitleMetaDesc
  applyStyleAttributes
  let _ ← resolveNestedSvgs
  resolveUse
  shapesToPaths
  expandShorthand
  simplify
  evenoddToNonzero
  normalizeOpacity
  absolute
  roundFloats ndigits
  removeEmptySubpaths
  let f ← pruneFuel
  pruneLoop ndigits f

/-- `topicosvg(ndigits, inplace=True, allow_text, drop_unsupported)`; ValueError when the gate
    reports violations -/
def topicosvg (ndigits : Int) (allowText dropUnsupported noneGood : Bool) : DocM Unit :=
  convertSteps ndigits noneGood >>= fun _ => gateStep allowText dropUnsupported >>= fun _ =>
    -- the elements the gate dropped may have been the only users of a gradient, or have left a group underfull:
    -- the closing loop runs once more
    if dropUnsupported then (pruneFuel >>= fun f => pruneLoop ndigits f) else pure ()

/-- `set_attributes(name_values)` with the default xpath `/svg:svg`: flush, then assign on the root -/
def setRootAttributes (kvs : List (String × String)) : DocM Unit := do
  updateEtree
  let root ← getRoot
  setRoot (root.setAttrs (kvs.foldl (fun a (k, v) => a.set k v) root.attrs))

/-- `remove_attributes(names)` with the default xpath: flush, then `_del_attrs` on the root -/
def removeRootAttributes (names : List String) : DocM Unit := do
  updateEtree
  let root ← getRoot
  setRoot (root.setAttrs (names.foldl (fun a k => a.del k) root.attrs))

/-- `bounding_box()`: the union of the shapes' Skia bounding boxes, `none` without shapes (a query: loads the cache) -/
def boundingBox : DocM (Option (Rect Float)) := do
  let l ← elements
  let mut boxes : List (Rect Float) := []
  for (_, shs) in l do
    for sh in shs do
      let cmds ← liftE sh.asCmdSeq
      let (x1, y1, x2, y2) ← askBox (qCmds "bounding_box" cmds "")
      boxes := boxes ++ [⟨x1, y1, x2 - x1, y2 - y1⟩]
  pure (docBBox boxes)

/-- `view_box()`: reads the root's viewBox (or width / height) — no flush, the root is not a cached shape -/
def viewBoxQ : DocM (Option (Rect Float)) := do
  let root ← getRoot
  liftE (viewBox root)

/-- `toetree()` / `tostring()`: flush and hand out the tree -/
def toTree : DocM Node := do
  updateEtree
  getRoot

def initObj (root : Node) (tape : List OracleAns) : SvgObj :=
  let (r, k) := Node.number 1 root
  { root := r, cache := none, nextUid := k, tape := tape, asked := [] }

end SvgObj
end PicoSVG
