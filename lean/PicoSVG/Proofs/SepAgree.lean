/-
  C10: the grammar's optional `comma-wsp` against the tokenizer's `[, ]+` split, on well-formed separator runs.
-/
import PicoSVG.Proofs.NumAgree
namespace PicoSVG.SepAgree
open PicoSVG PathLex
open PicoSVG.Spec

def spaces (cs : List Char) : List Char := cs.dropWhile (· == ' ')

/-- the head is neither one of the tokenizer's separators nor grammar whitespace -/
def headFree (cs : List Char) : Bool := match cs with
  | c :: _ => !isSep c && !PathGrammar.wsp c
  | [] => true

/-- a separator run as the printer and ordinary path data write it: spaces, at most one comma, spaces — followed by
    something that is neither a separator nor whitespace (no tabs or newlines next to it) -/
def sepRunOK (cs : List Char) : Bool := match spaces cs with
  | ',' :: r => headFree (spaces r)
  | r => headFree r

theorem dropSep_spaces (cs : List Char) : cs.dropWhile isSep = (spaces cs).dropWhile isSep := by
  induction cs with
  | nil => rfl
  | cons c cs ih =>
    by_cases h : c = ' '
    · subst h; simp only [spaces, List.dropWhile_cons, isSep] at ih ⊢; simpa using ih
    · simp [spaces, h]

theorem skipWsp_spaces (cs : List Char) : PathGrammar.skipWsp cs = PathGrammar.skipWsp (spaces cs) := by
  induction cs with
  | nil => rfl
  | cons c cs ih =>
    by_cases h : c = ' '
    · subst h; simp only [spaces, PathGrammar.skipWsp, List.dropWhile_cons, PathGrammar.wsp] at ih ⊢; simpa using ih
    · simp [spaces, List.dropWhile_cons, h]

theorem headFree_drop (r : List Char) (h : headFree r = true) : r.dropWhile isSep = r ∧ PathGrammar.skipWsp r = r := by
  cases r with
  | nil => exact ⟨rfl, rfl⟩
  | cons c t =>
    simp only [headFree, Bool.and_eq_true, Bool.not_eq_true'] at h
    simp [List.dropWhile_cons, PathGrammar.skipWsp, h.1, h.2]

theorem spaces_head (cs : List Char) : ∀ c t, spaces cs = c :: t → c ≠ ' ' := by
  intro c t h
  induction cs with
  | nil => simp [spaces] at h
  | cons x xs ih =>
    by_cases hx : x = ' '
    · subst hx; simp only [spaces, List.dropWhile_cons] at h ih; exact ih (by simpa using h)
    · simp only [spaces, List.dropWhile_cons] at h
      have : (x == ' ') = false := by simpa using hx
      simp only [this] at h
      injection h with h1 _; subst h1; exact hx

/-- C10 (tokenizer = grammar, separators): on a well-formed separator run the grammar's optional `comma-wsp` and the
    tokenizer's `[, ]+` split skip exactly the same characters — the next number starts at the same place for both -/
theorem optCommaWsp_eq_dropSep (cs : List Char) (h : sepRunOK cs = true) :
    PathGrammar.optCommaWsp cs = cs.dropWhile isSep := by
  unfold sepRunOK at h
  rw [dropSep_spaces]
  cases hs : spaces cs with
  | nil =>
    -- only spaces (or nothing)
    cases cs with
    | nil => rfl
    | cons c t =>
      have hc : c = ' ' := by
        by_cases hne : c = ' '
        · exact hne
        · exfalso
          have : spaces (c :: t) = c :: t := by simp [spaces, List.dropWhile_cons, hne]
          rw [this] at hs; exact absurd hs (by simp)
      subst hc
      simp only [PathGrammar.optCommaWsp, PathGrammar.commaWsp, PathGrammar.wsp, beq_self_eq_true, Bool.true_or, if_true]
      have e : PathGrammar.skipWsp t = [] := by
        have := skipWsp_spaces (' ' :: t)
        rw [hs] at this
        simpa [PathGrammar.skipWsp, List.dropWhile_cons, PathGrammar.wsp] using this
      simp [e]
  | cons x r =>
    rw [hs] at h
    have hx := spaces_head cs x r hs
    by_cases hcomma : x = ','
    · subst hcomma
      simp only at h
      obtain ⟨hd1, hd2⟩ := headFree_drop _ h
      have e2 : (',' :: r).dropWhile isSep = spaces r := by
        simp only [List.dropWhile_cons, isSep, beq_self_eq_true, Bool.true_or, if_true]
        rw [dropSep_spaces, hd1]
      rw [e2]
      have e3 : PathGrammar.skipWsp r = spaces r := by rw [skipWsp_spaces, hd2]
      cases cs with
      | nil => simp [spaces] at hs
      | cons c t =>
        by_cases hc : c = ' '
        · subst hc
          have hs' : PathGrammar.skipWsp t = ',' :: r := by
            have := skipWsp_spaces t
            have hst : spaces t = ',' :: r := by simpa [spaces, List.dropWhile_cons] using hs
            rw [hst] at this
            simpa [PathGrammar.skipWsp, List.dropWhile_cons, PathGrammar.wsp] using this
          simp [PathGrammar.optCommaWsp, PathGrammar.commaWsp, PathGrammar.wsp, hs', e3]
        · have hct : c :: t = ',' :: r := by
            have : spaces (c :: t) = c :: t := by simp [spaces, List.dropWhile_cons, hc]
            rw [this] at hs; exact hs
          injection hct with h1 h2; subst h1 h2
          simp [PathGrammar.optCommaWsp, PathGrammar.commaWsp, PathGrammar.wsp, e3]
    · have hh : headFree (x :: r) = true := by
        have : (match x :: r with | ',' :: r => headFree (spaces r) | r => headFree r) = headFree (x :: r) := by
          split
          · rename_i h'; injection h' with h1 _; exact absurd h1 hcomma
          · rfl
        rw [this] at h; exact h
      obtain ⟨hd1, hd2⟩ := headFree_drop _ hh
      rw [hd1]
      have hw : PathGrammar.wsp x = false ∧ isSep x = false := by
        simp only [headFree, Bool.and_eq_true, Bool.not_eq_true'] at hh; exact ⟨hh.2, hh.1⟩
      cases cs with
      | nil => simp [spaces] at hs
      | cons c t =>
        by_cases hc : c = ' '
        · subst hc
          have hs' : PathGrammar.skipWsp t = x :: r := by
            have := skipWsp_spaces t
            have hst : spaces t = x :: r := by simpa [spaces, List.dropWhile_cons] using hs
            rw [hst, hd2] at this
            exact this
          simp only [PathGrammar.optCommaWsp, PathGrammar.commaWsp, PathGrammar.wsp, beq_self_eq_true, Bool.true_or, if_true, hs']
          split
          · rename_i h'; injection h' with h1 _; exact absurd h1 hcomma
          · rfl
        · have hct : c :: t = x :: r := by
            have : spaces (c :: t) = c :: t := by simp [spaces, List.dropWhile_cons, hc]
            rw [this] at hs; exact hs
          injection hct with h1 h2; subst h1 h2
          have hnc : (c == ',') = false := by simpa using hcomma
          simp [PathGrammar.optCommaWsp, PathGrammar.commaWsp, hw.1, hnc]
end PicoSVG.SepAgree
