/-
  The CSS cascade as picosvg applies it (C05): dictionary lemmas for attribute lists (`setKV` / `getKV`), "the last
  declaration wins" for `_apply_styles`, and the copy / display handlers of `_inherit_attrib`.  Core Lean only.
-/
import PicoSVG.Model.Cleanup
import PicoSVG.Model.Cascade

namespace PicoSVG.CascadeP
open PicoSVG Style

theorem getKV_nil (k : String) : getKV [] k = none := rfl

theorem getKV_cons (a b : String) (m : List (String × String)) (k : String) :
    getKV ((a, b) :: m) k = if a == k then some b else getKV m k := by
  unfold getKV
  simp only [List.find?_cons]
  split <;> simp_all

theorem any_key_iff_get (m : List (String × String)) (k : String) : m.any (·.1 == k) = (getKV m k).isSome := by
  induction m with
  | nil => rfl
  | cons x xs ih =>
    obtain ⟨a, b⟩ := x
    rw [getKV_cons, List.any_cons, ih]
    by_cases h : a == k <;> simp [h]

/-- the in-place update of `setKV` -/
def upd (k v : String) : List (String × String) → List (String × String)
  | [] => []
  | (a, b) :: m => (if a == k then (a, v) else (a, b)) :: upd k v m

theorem map_eq_upd (m : List (String × String)) (k v : String) :
    m.map (fun (a, b) => if a == k then (a, v) else (a, b)) = upd k v m := by
  induction m with
  | nil => rfl
  | cons x xs ih => obtain ⟨a, b⟩ := x; simp only [List.map_cons, upd, ih]

theorem getKV_upd (m : List (String × String)) (k v k' : String) :
    getKV (upd k v m) k' = if k == k' then (if (getKV m k).isSome then some v else none) else getKV m k' := by
  induction m with
  | nil => by_cases h : k == k' <;> simp [upd, getKV_nil, h]
  | cons x xs ih =>
    obtain ⟨a, b⟩ := x
    by_cases hak : a == k
    · have e : a = k := by simpa using hak
      subst e
      by_cases hk : a == k'
      · simp only [upd, beq_self_eq_true, if_true, getKV_cons, hk, Option.isSome_some]
      · simp only [upd, beq_self_eq_true, if_true, getKV_cons, hk, Bool.false_eq_true, if_false, ih]
    · have hka : (k == a) = false := by
        have : ¬ a = k := by simpa using hak
        simpa using fun h : k = a => this h.symm
      by_cases hk : a == k'
      · have e : a = k' := by simpa using hk
        subst e
        simp only [upd, hak, Bool.false_eq_true, if_false, getKV_cons, beq_self_eq_true, if_true, hka]
      · simp only [upd, hak, Bool.false_eq_true, if_false, getKV_cons, hk, ih]

theorem getKV_map_set (m : List (String × String)) (k v k' : String) :
    getKV (m.map (fun (a, b) => if a == k then (a, v) else (a, b))) k'
      = if k == k' then (if (getKV m k).isSome then some v else none) else getKV m k' := by
  rw [map_eq_upd, getKV_upd]

theorem getKV_append_single (m : List (String × String)) (k v k' : String) :
    getKV (m ++ [(k, v)]) k' = match getKV m k' with | some x => some x | none => if k == k' then some v else none := by
  induction m with
  | nil => simp [getKV_cons, getKV_nil]
  | cons x xs ih =>
    obtain ⟨a, b⟩ := x
    simp only [List.cons_append, getKV_cons]
    by_cases h : a == k' <;> simp [h, ih]

/-- reading back what `dict[k] = v` wrote -/
theorem get_set (m : List (String × String)) (k v k' : String) :
    getKV (setKV m k v) k' = if k == k' then some v else getKV m k' := by
  unfold setKV
  by_cases h : m.any (·.1 == k)
  · simp only [h, if_true, getKV_map_set]
    rw [any_key_iff_get] at h
    by_cases hk : k == k' <;> simp [hk, h]
  · simp only [h, Bool.false_eq_true, if_false, getKV_append_single]
    rw [any_key_iff_get] at h
    by_cases hk : k == k'
    · have e : k = k' := by simpa using hk
      subst e
      cases hg : getKV m k with
      | none => simp
      | some x => simp [hg] at h
    · cases hg : getKV m k' <;> simp [hk]

/-- the last declaration of property `k` in a declaration list -/
def lastDecl (k : String) : List (String × String) → Option String
  | [] => none
  | (a, b) :: ds => match lastDecl k ds with
    | some v => some v
    | none => if a == k then some b else none

/-- C05 (cascade): applying a list of style declarations to an attribute list — whatever was there before, the value of
    a property afterwards is the last declaration of that property, and the old attribute only if there is none -/
theorem declarations_win (ds : List (String × String)) (a : List (String × String)) (k : String) :
    getKV (ds.foldl (fun m (d : String × String) => setKV m d.1 d.2) a) k
      = match lastDecl k ds with | some v => some v | none => getKV a k := by
  induction ds generalizing a with
  | nil => rfl
  | cons d ds ih =>
    obtain ⟨dk, dv⟩ := d
    simp only [List.foldl_cons, lastDecl]
    rw [ih, get_set]
    cases lastDecl k ds with
    | some v => rfl
    | none => by_cases h : dk == k <;> simp [h]


/-- C05 (cascade, on the model of `_apply_styles`): after the `style` attribute of an element has been applied, every
    property has the value of its last well-formed declaration; a presentation attribute survives only for properties
    the style does not declare -/
theorem applyStyles_declarations_win (a a' : Attrs) (st : String) (assigned : List (String × String)) (rest : String)
    (hst : Attrs.get a "style" = some st)
    (hp : Style.parseDecls (fun _ => true) Cleanup.validAttrName st = .ok (assigned, rest))
    (h : Cleanup.applyStylesAttrs a = .ok a') (k : String) :
    Attrs.get a' k = match lastDecl k assigned with | some v => some v | none => Attrs.get (Attrs.del a "style") k := by
  unfold Cleanup.applyStylesAttrs at h
  simp only [hst, hp, bind, Except.bind, pure, Except.pure] at h
  injection h with h
  subst h
  have : (fun (m : Attrs) (x : String × String) => match x with | (k, v) => Attrs.set m k v)
      = (fun m d => setKV m d.1 d.2) := by
    funext m d; obtain ⟨x, y⟩ := d; rfl
  unfold Attrs.get
  rw [this]
  exact declarations_win assigned _ k

/-- C05 (inheritance, `_inherit_copy`): an element's own value wins over the inherited one … -/
theorem own_value_wins (attrib child : Attrs) (name : String) (h : Attrs.has child name = true) :
    Cascade.applyHandler "_inherit_copy" attrib child name = .ok child := by
  simp [Cascade.applyHandler, h]

/-- … and the inherited value is taken exactly when the element has none -/
theorem inherited_when_absent (attrib child : Attrs) (name v : String) (h : Attrs.has child name = false)
    (hv : Attrs.get attrib name = some v) :
    ∃ c, Cascade.applyHandler "_inherit_copy" attrib child name = .ok c ∧ Attrs.get c name = some v := by
  refine ⟨Attrs.set child name v, by simp [Cascade.applyHandler, h, hv], ?_⟩
  unfold Attrs.get Attrs.set
  rw [get_set]; simp

/-- `display: none` on an ancestor reaches every descendant, whatever the descendant says -/
theorem display_none_inherits (attrib child : Attrs) (name : String) (h : Attrs.get attrib name = some "none") :
    Cascade.applyHandler "_inherit_nondefault_display" attrib child name = .ok (Attrs.set child name "none") := by
  simp [Cascade.applyHandler, h]

end PicoSVG.CascadeP
