/-
  C10: the tokenizer's number scanner (`_FLOAT_RE.match`) against the `number` production of the SVG path grammar
  (Spec/PathGrammar.lean): same lexeme and remainder except on the grammar's trailing-dot forms.
-/
import PicoSVG.Proofs.PathLex
import PicoSVG.Spec.PathGrammar
namespace PicoSVG.NumAgree
open PicoSVG PathLex
open PicoSVG.Spec

theorem digit_eq (c : Char) : PathGrammar.digit c = isDigit c := rfl

theorem digits_eq (cs : List Char) : PathGrammar.digits cs = spanDigits cs := by
  induction cs with
  | nil => rfl
  | cons c cs ih => simp only [PathGrammar.digits, spanDigits, digit_eq, ih]

theorem exponent_eq (cs : List Char) : PathGrammar.exponent cs = optExp cs := by
  cases cs with
  | nil => rfl
  | cons e r =>
    simp only [PathGrammar.exponent, optExp]
    by_cases he : (e == 'e' || e == 'E') = true
    · simp only [he, if_true]
      split <;> split <;> simp_all [digits_eq]
    · simp [he]

def startsDot (r : List Char) : Bool := match r with | '.' :: _ => true | _ => false

theorem optFrac_noDot (r0 : List Char) (h : startsDot r0 = false) : optFrac r0 = ([], r0) := by
  unfold optFrac
  split
  · simp [startsDot] at h
  · rfl

/-- the lexeme has a fraction or an exponent -/
def hasMark (l : List Char) : Bool := l.any (fun c => c == '.' || c == 'e' || c == 'E')

theorem spanDigits_all (cs : List Char) : (spanDigits cs).1.all isDigit = true := by
  induction cs with
  | nil => rfl
  | cons c cs ih =>
    simp only [spanDigits]
    by_cases h : isDigit c = true
    · simp [h, ih]
    · simp [h]

theorem digit_noMark (c : Char) (h : isDigit c = true) : (c == '.' || c == 'e' || c == 'E') = false := by
  have h' : '0' ≤ c ∧ c ≤ '9' := by simpa [isDigit] using h
  have e1 : c ≠ '.' := by
    rintro rfl; exact absurd h'.1 (by decide)
  have e2 : c ≠ 'e' := by
    rintro rfl; exact absurd h'.2 (by decide)
  have e3 : c ≠ 'E' := by
    rintro rfl; exact absurd h'.2 (by decide)
  simp [e1, e2, e3]

theorem digits_noMark (ds : List Char) (h : ds.all isDigit = true) : hasMark ds = false := by
  induction ds with
  | nil => rfl
  | cons c cs ih =>
    simp only [List.all_cons, Bool.and_eq_true] at h
    simp only [hasMark, List.any_cons, digit_noMark c h.1, Bool.false_or]
    exact ih h.2

/-- unsigned part: the tokenizer's body + exponent against the grammar's nonnegative-number -/
theorem unsigned_agree (t b r1 : List Char) (hb : matchBody t = some (b, r1))
    (hr : startsDot (optExp r1).2 = false ∨ hasMark (b ++ (optExp r1).1) = true) :
    PathGrammar.unsignedNumber t = some (b ++ (optExp r1).1, (optExp r1).2) := by
  cases t with
  | nil => simp [matchBody] at hb
  | cons c t' =>
    simp only [matchBody] at hb
    by_cases hd : isDigit c = true
    · simp only [hd, if_true, Option.some.injEq, Prod.mk.injEq] at hb
      obtain ⟨hb1, hb2⟩ := hb
      unfold PathGrammar.unsignedNumber
      have hdig : PathGrammar.digits (c :: t') = (c :: (spanDigits t').1, (spanDigits t').2) := by
        rw [digits_eq]; simp [spanDigits, hd]
      rw [hdig]
      simp only
      cases hr0 : (spanDigits t').2 with
      | nil =>
        have : optFrac ([] : List Char) = ([], []) := rfl
        rw [hr0, this] at hb1 hb2
        simp only [List.append_nil] at hb1
        subst hb1 hb2
        simp [exponent_eq]
      | cons x r0' =>
        by_cases hx : x = '.'
        · subst hx
          rw [hr0] at hb1 hb2
          simp only [optFrac] at hb1 hb2
          by_cases hfe : (spanDigits r0').1.isEmpty = true
          · -- no fraction digits: the tokenizer stops before the dot, so its remainder starts with it
            simp only [hfe, if_true, List.append_nil] at hb1 hb2
            subst hb1 hb2
            have hoe : optExp ('.' :: r0') = ([], '.' :: r0') := by
              simp [optExp]
            rw [hoe] at hr
            rcases hr with hr | hr
            · simp [startsDot] at hr
            · exfalso
              simp only [List.append_nil] at hr
              have := digits_noMark (c :: (spanDigits t').1) (by simp [hd, spanDigits_all])
              rw [this] at hr; exact absurd hr (by simp)
          · simp only [hfe, Bool.false_eq_true, if_false] at hb1 hb2
            subst hb1 hb2
            simp only [digits_eq, exponent_eq]
            have hne : (spanDigits r0').1.isEmpty = false := by simpa using hfe
            simp [hne]
        · have hnd : startsDot (x :: r0') = false := by
            simp only [startsDot]
            split
            · rename_i h; injection h with h1 _; exact absurd h1 hx
            · rfl
          rw [hr0, optFrac_noDot _ hnd] at hb1 hb2
          simp only [List.append_nil] at hb1
          subst hb1 hb2
          split
          · rename_i h; injection h with h1 _; exact absurd h1 hx
          · simp [exponent_eq]
    · simp only [hd, Bool.false_eq_true, if_false] at hb
      by_cases hc : c = '.'
      · subst hc
        simp only [beq_self_eq_true, if_true] at hb
        by_cases hfe : (spanDigits t').1.isEmpty = true
        · simp [hfe] at hb
        · simp only [hfe, Bool.false_eq_true, if_false, Option.some.injEq, Prod.mk.injEq] at hb
          obtain ⟨hb1, hb2⟩ := hb
          subst hb1 hb2
          unfold PathGrammar.unsignedNumber
          have hdig : PathGrammar.digits ('.' :: t') = ([], '.' :: t') := by
            rw [digits_eq]; simp [spanDigits, hd]
          rw [hdig]
          have hne : (spanDigits t').1.isEmpty = false := by simpa using hfe
          simp [digits_eq, exponent_eq, hne]
      · have : (c == '.') = false := by simpa using hc
        simp [this] at hb

theorem splitSign_noMark (cs : List Char) : hasMark (splitSign cs).1 = false := by
  unfold splitSign
  split <;> simp [hasMark]

theorem hasMark_append (a b : List Char) : hasMark (a ++ b) = (hasMark a || hasMark b) := by
  simp [hasMark]

/-- C10 (tokenizer = grammar, at the level of one number): whatever `_FLOAT_RE.match` takes from the argument text is exactly
    the `number` production of the SVG path grammar under maximal munch — same lexeme, same remainder — unless the match is
    followed by a dot (`1.`, `1.e5`: the grammar's trailing-dot forms, which the tokenizer then rejects with ValueError
    instead of reading a different number) -/
theorem matchFloat_is_grammar_number (cs l r : List Char) (h : matchFloat cs = some (l, r))
    (hr : startsDot r = false ∨ hasMark l = true) : PathGrammar.number cs = some (l, r) := by
  unfold matchFloat at h
  cases hb : matchBody (splitSign cs).2 with
  | none => simp [hb] at h
  | some br =>
    obtain ⟨b, r1⟩ := br
    simp only [hb, Option.some.injEq, Prod.mk.injEq] at h
    obtain ⟨h1, h2⟩ := h
    subst h1 h2
    have hr' : startsDot (optExp r1).2 = false ∨ hasMark (b ++ (optExp r1).1) = true := by
      rcases hr with hr | hr
      · exact Or.inl hr
      · right
        rw [List.append_assoc, hasMark_append, splitSign_noMark, Bool.false_or] at hr
        exact hr
    have hu := unsigned_agree (splitSign cs).2 b r1 hb hr'
    unfold PathGrammar.number
    split
    · rename_i t
      simp only [splitSign] at hu ⊢
      rw [hu]; simp
    · rename_i t
      simp only [splitSign] at hu ⊢
      rw [hu]; simp
    · rename_i hp hm
      have hs : splitSign cs = ([], cs) := by
        unfold splitSign
        split
        · rename_i t; exact absurd rfl (hm t)
        · rename_i t; exact absurd rfl (hp t)
        · rfl
      rw [hs] at hu ⊢
      simpa using hu

theorem unsigned_some_body_some (t : List Char) (h : (PathGrammar.unsignedNumber t).isSome = true) :
    (matchBody t).isSome = true := by
  cases t with
  | nil => simp [PathGrammar.unsignedNumber, PathGrammar.digits] at h
  | cons c t' =>
    simp only [matchBody]
    by_cases hd : isDigit c = true
    · simp [hd]
    · simp only [hd, Bool.false_eq_true, if_false]
      have hdig : PathGrammar.digits (c :: t') = ([], c :: t') := by
        rw [digits_eq]; simp [spanDigits, hd]
      unfold PathGrammar.unsignedNumber at h
      rw [hdig] at h
      simp only at h
      by_cases hc : c = '.'
      · subst hc
        simp only [beq_self_eq_true, if_true]
        by_cases hfe : (spanDigits t').1.isEmpty = true
        · simp [digits_eq, hfe] at h
        · simp [hfe]
      · exfalso
        split at h
        · rename_i hh; injection hh with h1 _; exact hc h1
        · simp at h

/-- … and wherever the grammar reads a number the tokenizer finds a token too (possibly the shorter one of the
    trailing-dot case above): a conforming number is never skipped -/
theorem number_some_matchFloat_some (cs : List Char) (h : (PathGrammar.number cs).isSome = true) :
    (matchFloat cs).isSome = true := by
  have key : (PathGrammar.unsignedNumber (splitSign cs).2).isSome = true := by
    unfold PathGrammar.number at h
    split at h
    · simpa [splitSign] using h
    · simpa [splitSign] using h
    · rename_i hp hm
      have hs : splitSign cs = ([], cs) := by
        unfold splitSign
        split
        · rename_i t; exact absurd rfl (hm t)
        · rename_i t; exact absurd rfl (hp t)
        · rfl
      rw [hs]; exact h
  have := unsigned_some_body_some _ key
  unfold matchFloat
  cases hb : matchBody (splitSign cs).2 with
  | none => rw [hb] at this; simp at this
  | some br => simp

/-- the two differ exactly on the trailing-dot forms -/
example : PathGrammar.number "1.e5".toList = some ("1.e5".toList, []) ∧ matchFloat "1.e5".toList = some (['1'], ".e5".toList) := by
  decide +kernel
example : matchFloat "-12.50e-3,4".toList = some ("-12.50e-3".toList, ",4".toList)
    ∧ PathGrammar.number "-12.50e-3,4".toList = some ("-12.50e-3".toList, ",4".toList) := by decide +kernel

theorem matchBool_eq_flag (cs : List Char) : matchBool cs = PathGrammar.flag cs := by
  cases cs <;> rfl
end PicoSVG.NumAgree
