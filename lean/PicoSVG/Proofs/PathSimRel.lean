/-
  `relative()` (absolute → relative coordinates) as an instance of the sound-callback simulation; per-letter lemmas
  generated mechanically.
-/
import PicoSVG.Proofs.PathSimAbs

set_option linter.unusedSectionVars false
set_option linter.unusedVariables false
set_option linter.unusedSimpArgs false

namespace PicoSVG.PathSim
open PicoSVG Path Spec

variable {α : Type} [Field α] [LinearOrder α] [IsStrictOrderedRing α]

set_option hygiene false in
macro "letter_rel" : tactic => `(tactic| (
  unfold stepSeg at hi
  split at hi <;> simp at *
  all_goals (
    by_cases hidx : idx = 0
    all_goals (
      simp [hidx, rewriteCb, absToRel, rewriteCoords, coords, Gen.cmdCoords, List.lookup, addAt, nextPos, getArg,
        List.zipIdx, pure, Except.pure, bind, Except.bind] at hn
      try split at hn
      all_goals first
        | (rename_i hcnd; have hh := hns _ _ hcnd.1; simp [hh] at hcnd; done)
        | (rename_i hcnd; have hh := hns _ _ hcnd.1.1; simp [hh] at hcnd; done)
        | (simp at hn; subst hn
           first | simp [stepSeg, ← hi, h1, h0 hidx, add_comm] | simp [stepSeg, ← hi, h1, add_comm, sub_eq_add_neg, add_assoc, add_left_comm])))))

theorem rel_sound_lm (tol : α) (hns : ∀ p q : Pt α, (p == q) = false → ptAlmostEq tol p q = false)
    (ws : WalkState α) (is : IState α) (idx : Nat) (a : List α)
    (prev : Option (Pt α × Char × List α)) (news : List (Cmd α)) (r : IState α × List (Seg α))
    (h1 : ws.curr = is.cur) (h2 : ws.start = is.start) (h0 : idx = 0 → is.cur = ⟨0, 0⟩)
    (hn : rewriteCb tol (absToRel (α := α)) ws.start ws.curr (if idx == 0 && 'm' == 'm' then 'M' else 'm') a prev = .ok news)
    (hi : stepSeg is 'm' a = some r) :
    ∃ nc : Cmd α, news = [nc] ∧ nc.1 ∈ letters ∧ stepSeg is nc.1 nc.2 = some r := by
  letter_rel

theorem rel_sound_lz (tol : α) (hns : ∀ p q : Pt α, (p == q) = false → ptAlmostEq tol p q = false)
    (ws : WalkState α) (is : IState α) (idx : Nat) (a : List α)
    (prev : Option (Pt α × Char × List α)) (news : List (Cmd α)) (r : IState α × List (Seg α))
    (h1 : ws.curr = is.cur) (h2 : ws.start = is.start) (h0 : idx = 0 → is.cur = ⟨0, 0⟩)
    (hn : rewriteCb tol (absToRel (α := α)) ws.start ws.curr (if idx == 0 && 'z' == 'm' then 'M' else 'z') a prev = .ok news)
    (hi : stepSeg is 'z' a = some r) :
    ∃ nc : Cmd α, news = [nc] ∧ nc.1 ∈ letters ∧ stepSeg is nc.1 nc.2 = some r := by
  letter_rel

theorem rel_sound_ll (tol : α) (hns : ∀ p q : Pt α, (p == q) = false → ptAlmostEq tol p q = false)
    (ws : WalkState α) (is : IState α) (idx : Nat) (a : List α)
    (prev : Option (Pt α × Char × List α)) (news : List (Cmd α)) (r : IState α × List (Seg α))
    (h1 : ws.curr = is.cur) (h2 : ws.start = is.start) (h0 : idx = 0 → is.cur = ⟨0, 0⟩)
    (hn : rewriteCb tol (absToRel (α := α)) ws.start ws.curr (if idx == 0 && 'l' == 'm' then 'M' else 'l') a prev = .ok news)
    (hi : stepSeg is 'l' a = some r) :
    ∃ nc : Cmd α, news = [nc] ∧ nc.1 ∈ letters ∧ stepSeg is nc.1 nc.2 = some r := by
  letter_rel

theorem rel_sound_lh (tol : α) (hns : ∀ p q : Pt α, (p == q) = false → ptAlmostEq tol p q = false)
    (ws : WalkState α) (is : IState α) (idx : Nat) (a : List α)
    (prev : Option (Pt α × Char × List α)) (news : List (Cmd α)) (r : IState α × List (Seg α))
    (h1 : ws.curr = is.cur) (h2 : ws.start = is.start) (h0 : idx = 0 → is.cur = ⟨0, 0⟩)
    (hn : rewriteCb tol (absToRel (α := α)) ws.start ws.curr (if idx == 0 && 'h' == 'm' then 'M' else 'h') a prev = .ok news)
    (hi : stepSeg is 'h' a = some r) :
    ∃ nc : Cmd α, news = [nc] ∧ nc.1 ∈ letters ∧ stepSeg is nc.1 nc.2 = some r := by
  letter_rel

theorem rel_sound_lv (tol : α) (hns : ∀ p q : Pt α, (p == q) = false → ptAlmostEq tol p q = false)
    (ws : WalkState α) (is : IState α) (idx : Nat) (a : List α)
    (prev : Option (Pt α × Char × List α)) (news : List (Cmd α)) (r : IState α × List (Seg α))
    (h1 : ws.curr = is.cur) (h2 : ws.start = is.start) (h0 : idx = 0 → is.cur = ⟨0, 0⟩)
    (hn : rewriteCb tol (absToRel (α := α)) ws.start ws.curr (if idx == 0 && 'v' == 'm' then 'M' else 'v') a prev = .ok news)
    (hi : stepSeg is 'v' a = some r) :
    ∃ nc : Cmd α, news = [nc] ∧ nc.1 ∈ letters ∧ stepSeg is nc.1 nc.2 = some r := by
  letter_rel

theorem rel_sound_lc (tol : α) (hns : ∀ p q : Pt α, (p == q) = false → ptAlmostEq tol p q = false)
    (ws : WalkState α) (is : IState α) (idx : Nat) (a : List α)
    (prev : Option (Pt α × Char × List α)) (news : List (Cmd α)) (r : IState α × List (Seg α))
    (h1 : ws.curr = is.cur) (h2 : ws.start = is.start) (h0 : idx = 0 → is.cur = ⟨0, 0⟩)
    (hn : rewriteCb tol (absToRel (α := α)) ws.start ws.curr (if idx == 0 && 'c' == 'm' then 'M' else 'c') a prev = .ok news)
    (hi : stepSeg is 'c' a = some r) :
    ∃ nc : Cmd α, news = [nc] ∧ nc.1 ∈ letters ∧ stepSeg is nc.1 nc.2 = some r := by
  letter_rel

theorem rel_sound_ls (tol : α) (hns : ∀ p q : Pt α, (p == q) = false → ptAlmostEq tol p q = false)
    (ws : WalkState α) (is : IState α) (idx : Nat) (a : List α)
    (prev : Option (Pt α × Char × List α)) (news : List (Cmd α)) (r : IState α × List (Seg α))
    (h1 : ws.curr = is.cur) (h2 : ws.start = is.start) (h0 : idx = 0 → is.cur = ⟨0, 0⟩)
    (hn : rewriteCb tol (absToRel (α := α)) ws.start ws.curr (if idx == 0 && 's' == 'm' then 'M' else 's') a prev = .ok news)
    (hi : stepSeg is 's' a = some r) :
    ∃ nc : Cmd α, news = [nc] ∧ nc.1 ∈ letters ∧ stepSeg is nc.1 nc.2 = some r := by
  letter_rel

theorem rel_sound_lq (tol : α) (hns : ∀ p q : Pt α, (p == q) = false → ptAlmostEq tol p q = false)
    (ws : WalkState α) (is : IState α) (idx : Nat) (a : List α)
    (prev : Option (Pt α × Char × List α)) (news : List (Cmd α)) (r : IState α × List (Seg α))
    (h1 : ws.curr = is.cur) (h2 : ws.start = is.start) (h0 : idx = 0 → is.cur = ⟨0, 0⟩)
    (hn : rewriteCb tol (absToRel (α := α)) ws.start ws.curr (if idx == 0 && 'q' == 'm' then 'M' else 'q') a prev = .ok news)
    (hi : stepSeg is 'q' a = some r) :
    ∃ nc : Cmd α, news = [nc] ∧ nc.1 ∈ letters ∧ stepSeg is nc.1 nc.2 = some r := by
  letter_rel

theorem rel_sound_lt (tol : α) (hns : ∀ p q : Pt α, (p == q) = false → ptAlmostEq tol p q = false)
    (ws : WalkState α) (is : IState α) (idx : Nat) (a : List α)
    (prev : Option (Pt α × Char × List α)) (news : List (Cmd α)) (r : IState α × List (Seg α))
    (h1 : ws.curr = is.cur) (h2 : ws.start = is.start) (h0 : idx = 0 → is.cur = ⟨0, 0⟩)
    (hn : rewriteCb tol (absToRel (α := α)) ws.start ws.curr (if idx == 0 && 't' == 'm' then 'M' else 't') a prev = .ok news)
    (hi : stepSeg is 't' a = some r) :
    ∃ nc : Cmd α, news = [nc] ∧ nc.1 ∈ letters ∧ stepSeg is nc.1 nc.2 = some r := by
  letter_rel

theorem rel_sound_la (tol : α) (hns : ∀ p q : Pt α, (p == q) = false → ptAlmostEq tol p q = false)
    (ws : WalkState α) (is : IState α) (idx : Nat) (a : List α)
    (prev : Option (Pt α × Char × List α)) (news : List (Cmd α)) (r : IState α × List (Seg α))
    (h1 : ws.curr = is.cur) (h2 : ws.start = is.start) (h0 : idx = 0 → is.cur = ⟨0, 0⟩)
    (hn : rewriteCb tol (absToRel (α := α)) ws.start ws.curr (if idx == 0 && 'a' == 'm' then 'M' else 'a') a prev = .ok news)
    (hi : stepSeg is 'a' a = some r) :
    ∃ nc : Cmd α, news = [nc] ∧ nc.1 ∈ letters ∧ stepSeg is nc.1 nc.2 = some r := by
  letter_rel

theorem rel_sound_um (tol : α) (hns : ∀ p q : Pt α, (p == q) = false → ptAlmostEq tol p q = false)
    (ws : WalkState α) (is : IState α) (idx : Nat) (a : List α)
    (prev : Option (Pt α × Char × List α)) (news : List (Cmd α)) (r : IState α × List (Seg α))
    (h1 : ws.curr = is.cur) (h2 : ws.start = is.start) (h0 : idx = 0 → is.cur = ⟨0, 0⟩)
    (hn : rewriteCb tol (absToRel (α := α)) ws.start ws.curr (if idx == 0 && 'M' == 'm' then 'M' else 'M') a prev = .ok news)
    (hi : stepSeg is 'M' a = some r) :
    ∃ nc : Cmd α, news = [nc] ∧ nc.1 ∈ letters ∧ stepSeg is nc.1 nc.2 = some r := by
  letter_rel

theorem rel_sound_uz (tol : α) (hns : ∀ p q : Pt α, (p == q) = false → ptAlmostEq tol p q = false)
    (ws : WalkState α) (is : IState α) (idx : Nat) (a : List α)
    (prev : Option (Pt α × Char × List α)) (news : List (Cmd α)) (r : IState α × List (Seg α))
    (h1 : ws.curr = is.cur) (h2 : ws.start = is.start) (h0 : idx = 0 → is.cur = ⟨0, 0⟩)
    (hn : rewriteCb tol (absToRel (α := α)) ws.start ws.curr (if idx == 0 && 'Z' == 'm' then 'M' else 'Z') a prev = .ok news)
    (hi : stepSeg is 'Z' a = some r) :
    ∃ nc : Cmd α, news = [nc] ∧ nc.1 ∈ letters ∧ stepSeg is nc.1 nc.2 = some r := by
  letter_rel

theorem rel_sound_ul (tol : α) (hns : ∀ p q : Pt α, (p == q) = false → ptAlmostEq tol p q = false)
    (ws : WalkState α) (is : IState α) (idx : Nat) (a : List α)
    (prev : Option (Pt α × Char × List α)) (news : List (Cmd α)) (r : IState α × List (Seg α))
    (h1 : ws.curr = is.cur) (h2 : ws.start = is.start) (h0 : idx = 0 → is.cur = ⟨0, 0⟩)
    (hn : rewriteCb tol (absToRel (α := α)) ws.start ws.curr (if idx == 0 && 'L' == 'm' then 'M' else 'L') a prev = .ok news)
    (hi : stepSeg is 'L' a = some r) :
    ∃ nc : Cmd α, news = [nc] ∧ nc.1 ∈ letters ∧ stepSeg is nc.1 nc.2 = some r := by
  letter_rel

theorem rel_sound_uh (tol : α) (hns : ∀ p q : Pt α, (p == q) = false → ptAlmostEq tol p q = false)
    (ws : WalkState α) (is : IState α) (idx : Nat) (a : List α)
    (prev : Option (Pt α × Char × List α)) (news : List (Cmd α)) (r : IState α × List (Seg α))
    (h1 : ws.curr = is.cur) (h2 : ws.start = is.start) (h0 : idx = 0 → is.cur = ⟨0, 0⟩)
    (hn : rewriteCb tol (absToRel (α := α)) ws.start ws.curr (if idx == 0 && 'H' == 'm' then 'M' else 'H') a prev = .ok news)
    (hi : stepSeg is 'H' a = some r) :
    ∃ nc : Cmd α, news = [nc] ∧ nc.1 ∈ letters ∧ stepSeg is nc.1 nc.2 = some r := by
  letter_rel

theorem rel_sound_uv (tol : α) (hns : ∀ p q : Pt α, (p == q) = false → ptAlmostEq tol p q = false)
    (ws : WalkState α) (is : IState α) (idx : Nat) (a : List α)
    (prev : Option (Pt α × Char × List α)) (news : List (Cmd α)) (r : IState α × List (Seg α))
    (h1 : ws.curr = is.cur) (h2 : ws.start = is.start) (h0 : idx = 0 → is.cur = ⟨0, 0⟩)
    (hn : rewriteCb tol (absToRel (α := α)) ws.start ws.curr (if idx == 0 && 'V' == 'm' then 'M' else 'V') a prev = .ok news)
    (hi : stepSeg is 'V' a = some r) :
    ∃ nc : Cmd α, news = [nc] ∧ nc.1 ∈ letters ∧ stepSeg is nc.1 nc.2 = some r := by
  letter_rel

theorem rel_sound_uc (tol : α) (hns : ∀ p q : Pt α, (p == q) = false → ptAlmostEq tol p q = false)
    (ws : WalkState α) (is : IState α) (idx : Nat) (a : List α)
    (prev : Option (Pt α × Char × List α)) (news : List (Cmd α)) (r : IState α × List (Seg α))
    (h1 : ws.curr = is.cur) (h2 : ws.start = is.start) (h0 : idx = 0 → is.cur = ⟨0, 0⟩)
    (hn : rewriteCb tol (absToRel (α := α)) ws.start ws.curr (if idx == 0 && 'C' == 'm' then 'M' else 'C') a prev = .ok news)
    (hi : stepSeg is 'C' a = some r) :
    ∃ nc : Cmd α, news = [nc] ∧ nc.1 ∈ letters ∧ stepSeg is nc.1 nc.2 = some r := by
  letter_rel

theorem rel_sound_us (tol : α) (hns : ∀ p q : Pt α, (p == q) = false → ptAlmostEq tol p q = false)
    (ws : WalkState α) (is : IState α) (idx : Nat) (a : List α)
    (prev : Option (Pt α × Char × List α)) (news : List (Cmd α)) (r : IState α × List (Seg α))
    (h1 : ws.curr = is.cur) (h2 : ws.start = is.start) (h0 : idx = 0 → is.cur = ⟨0, 0⟩)
    (hn : rewriteCb tol (absToRel (α := α)) ws.start ws.curr (if idx == 0 && 'S' == 'm' then 'M' else 'S') a prev = .ok news)
    (hi : stepSeg is 'S' a = some r) :
    ∃ nc : Cmd α, news = [nc] ∧ nc.1 ∈ letters ∧ stepSeg is nc.1 nc.2 = some r := by
  letter_rel

theorem rel_sound_uq (tol : α) (hns : ∀ p q : Pt α, (p == q) = false → ptAlmostEq tol p q = false)
    (ws : WalkState α) (is : IState α) (idx : Nat) (a : List α)
    (prev : Option (Pt α × Char × List α)) (news : List (Cmd α)) (r : IState α × List (Seg α))
    (h1 : ws.curr = is.cur) (h2 : ws.start = is.start) (h0 : idx = 0 → is.cur = ⟨0, 0⟩)
    (hn : rewriteCb tol (absToRel (α := α)) ws.start ws.curr (if idx == 0 && 'Q' == 'm' then 'M' else 'Q') a prev = .ok news)
    (hi : stepSeg is 'Q' a = some r) :
    ∃ nc : Cmd α, news = [nc] ∧ nc.1 ∈ letters ∧ stepSeg is nc.1 nc.2 = some r := by
  letter_rel

theorem rel_sound_ut (tol : α) (hns : ∀ p q : Pt α, (p == q) = false → ptAlmostEq tol p q = false)
    (ws : WalkState α) (is : IState α) (idx : Nat) (a : List α)
    (prev : Option (Pt α × Char × List α)) (news : List (Cmd α)) (r : IState α × List (Seg α))
    (h1 : ws.curr = is.cur) (h2 : ws.start = is.start) (h0 : idx = 0 → is.cur = ⟨0, 0⟩)
    (hn : rewriteCb tol (absToRel (α := α)) ws.start ws.curr (if idx == 0 && 'T' == 'm' then 'M' else 'T') a prev = .ok news)
    (hi : stepSeg is 'T' a = some r) :
    ∃ nc : Cmd α, news = [nc] ∧ nc.1 ∈ letters ∧ stepSeg is nc.1 nc.2 = some r := by
  letter_rel

theorem rel_sound_ua (tol : α) (hns : ∀ p q : Pt α, (p == q) = false → ptAlmostEq tol p q = false)
    (ws : WalkState α) (is : IState α) (idx : Nat) (a : List α)
    (prev : Option (Pt α × Char × List α)) (news : List (Cmd α)) (r : IState α × List (Seg α))
    (h1 : ws.curr = is.cur) (h2 : ws.start = is.start) (h0 : idx = 0 → is.cur = ⟨0, 0⟩)
    (hn : rewriteCb tol (absToRel (α := α)) ws.start ws.curr (if idx == 0 && 'A' == 'm' then 'M' else 'A') a prev = .ok news)
    (hi : stepSeg is 'A' a = some r) :
    ∃ nc : Cmd α, news = [nc] ∧ nc.1 ∈ letters ∧ stepSeg is nc.1 nc.2 = some r := by
  letter_rel

theorem relative_cb_sound (tol : α) (hns : ∀ p q : Pt α, (p == q) = false → ptAlmostEq tol p q = false) :
    CbSound (rewriteCb tol (absToRel (α := α))) := by
  intro ws is idx c a prev news r hc h1 h2 h0 hn hi
  simp only [List.mem_cons, List.mem_nil_iff, or_false] at hc
  rcases hc with rfl | rfl | rfl | rfl | rfl | rfl | rfl | rfl | rfl | rfl | rfl | rfl | rfl | rfl | rfl | rfl | rfl | rfl | rfl | rfl
  · exact rel_sound_lm tol hns ws is idx a prev news r h1 h2 h0 hn hi
  · exact rel_sound_lz tol hns ws is idx a prev news r h1 h2 h0 hn hi
  · exact rel_sound_ll tol hns ws is idx a prev news r h1 h2 h0 hn hi
  · exact rel_sound_lh tol hns ws is idx a prev news r h1 h2 h0 hn hi
  · exact rel_sound_lv tol hns ws is idx a prev news r h1 h2 h0 hn hi
  · exact rel_sound_lc tol hns ws is idx a prev news r h1 h2 h0 hn hi
  · exact rel_sound_ls tol hns ws is idx a prev news r h1 h2 h0 hn hi
  · exact rel_sound_lq tol hns ws is idx a prev news r h1 h2 h0 hn hi
  · exact rel_sound_lt tol hns ws is idx a prev news r h1 h2 h0 hn hi
  · exact rel_sound_la tol hns ws is idx a prev news r h1 h2 h0 hn hi
  · exact rel_sound_um tol hns ws is idx a prev news r h1 h2 h0 hn hi
  · exact rel_sound_uz tol hns ws is idx a prev news r h1 h2 h0 hn hi
  · exact rel_sound_ul tol hns ws is idx a prev news r h1 h2 h0 hn hi
  · exact rel_sound_uh tol hns ws is idx a prev news r h1 h2 h0 hn hi
  · exact rel_sound_uv tol hns ws is idx a prev news r h1 h2 h0 hn hi
  · exact rel_sound_uc tol hns ws is idx a prev news r h1 h2 h0 hn hi
  · exact rel_sound_us tol hns ws is idx a prev news r h1 h2 h0 hn hi
  · exact rel_sound_uq tol hns ws is idx a prev news r h1 h2 h0 hn hi
  · exact rel_sound_ut tol hns ws is idx a prev news r h1 h2 h0 hn hi
  · exact rel_sound_ua tol hns ws is idx a prev news r h1 h2 h0 hn hi

/-- absolute → relative rewriting preserves the curve whenever the end-point snapping does not fire -/
theorem relativeCore_interp (tol : α) (hns : ∀ p q : Pt α, (p == q) = false → ptAlmostEq tol p q = false)
    (cmds out : List (Cmd α)) (segs : List (Seg α))
    (h : relativeCore tol cmds = .ok out) (hi : interp cmds = some segs) : interp out = some segs :=
  walk_sim _ (relative_cb_sound tol hns) cmds out segs h hi

end PicoSVG.PathSim
