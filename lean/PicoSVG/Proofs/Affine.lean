/-
  Helper lemmas for the affine algebra (C11, used by C02/C06/C20).
-/
import PicoSVG.Model.Transform
import PicoSVG.Spec.Transform
import Mathlib.Tactic.Ring
import Mathlib.Tactic.FieldSimp
import Mathlib.Tactic.Linarith
import Mathlib.Algebra.Order.Field.Basic

set_option linter.unusedSectionVars false
namespace PicoSVG

section Field
variable {α : Type} [Field α]

@[ext] theorem Aff.ext' {s o : Aff α} (ha : s.a = o.a) (hb : s.b = o.b) (hc : s.c = o.c)
    (hd : s.d = o.d) (he : s.e = o.e) (hf : s.f = o.f) : s = o := by
  cases s; cases o; simp_all

@[ext] theorem Pt.ext' {p q : Pt α} (hx : p.x = q.x) (hy : p.y = q.y) : p = q := by
  cases p; cases q; simp_all

theorem Aff.mul_assoc (x y z : Aff α) : (x.mul y).mul z = x.mul (y.mul z) := by
  ext <;> simp only [Aff.mul] <;> ring

theorem Aff.mul_id (x : Aff α) : x.mul Aff.id = x := by
  ext <;> simp [Aff.mul, Aff.id]

theorem Aff.id_mul (x : Aff α) : (Aff.id : Aff α).mul x = x := by
  ext <;> simp [Aff.mul, Aff.id]

theorem Aff.mapPt_mul (x y : Aff α) (p : Pt α) : (x.mul y).mapPt p = x.mapPt (y.mapPt p) := by
  ext <;> simp only [Aff.mul, Aff.mapPt] <;> ring

theorem Aff.mapPt_id (p : Pt α) : (Aff.id : Aff α).mapPt p = p := by
  ext <;> simp [Aff.mapPt, Aff.id]

theorem Aff.foldl_mul_mapPt (l : List (Aff α)) (acc : Aff α) (p : Pt α) :
    (l.foldl Aff.mul acc).mapPt p = acc.mapPt (l.foldr (fun A q => A.mapPt q) p) := by
  induction l generalizing acc with
  | nil => rfl
  | cons A l ih => simp only [List.foldl_cons, List.foldr_cons, ih, Aff.mapPt_mul]

end Field
end PicoSVG

namespace PicoSVG
set_option linter.unusedSectionVars false

section Ordered
variable {α : Type} [Field α] [LinearOrder α] [IsStrictOrderedRing α]

theorem Aff.beq_iff (s o : Aff α) : (s == o) = true ↔ s = o := by
  constructor
  · intro h
    simp only [BEq.beq, Bool.and_eq_true, decide_eq_true_eq] at h
    obtain ⟨⟨⟨⟨⟨h1, h2⟩, h3⟩, h4⟩, h5⟩, h6⟩ := h
    exact Aff.ext' h1 h2 h3 h4 h5 h6
  · intro h; subst h
    simp [BEq.beq]

theorem Aff.translate_eq_mul (s : Aff α) (tx ty : α) :
    s.translate tx ty = s.mul ⟨1, 0, 0, 1, tx, ty⟩ := by
  unfold Aff.translate
  split
  · rename_i h
    simp only [Bool.and_eq_true, beq_iff_eq] at h
    obtain ⟨h1, h2⟩ := h
    subst h1 h2
    ext <;> simp [Aff.mul]
  · rfl

theorem Aff.evalOp_eq_mul (T : Trig α) (s : Aff α) (op : TOp α) :
    evalOp T s op = s.mul (Spec.opMatrix T op) := by
  cases op with
  | matrix a b c d e f => rfl
  | translate tx ty => simp only [evalOp, Spec.opMatrix, Aff.translate_eq_mul]
  | scale sx sy => rfl
  | rotate deg cx cy =>
    simp only [evalOp, Spec.opMatrix, Aff.rotateCS, Aff.translate_eq_mul, Aff.matrix]
    ext <;> simp only [Aff.mul] <;> ring
  | skewX deg => rfl
  | skewY deg => rfl


theorem Aff.not_degenerate_det (eps : α) (heps : 0 ≤ eps) (A : Aff α)
    (h : A.isDegenerate eps = false) : A.det ≠ 0 := by
  intro h0
  simp only [Aff.isDegenerate, decide_eq_false_iff_not, absv, h0] at h
  simp at h
  exact absurd heps (not_le.mpr h)

theorem Aff.inverse_left (eps : α) (heps : 0 ≤ eps) (A : Aff α) (h : A.isDegenerate eps = false) :
    (A.inverse eps).mul A = Aff.id := by
  have hd := Aff.not_degenerate_det eps heps A h
  unfold Aff.inverse
  split
  · rename_i hid
    rw [Aff.beq_iff] at hid
    rw [hid]; exact Aff.mul_id _
  · simp only [h, Bool.false_eq_true, if_false]
    unfold Aff.det at hd
    have hd1 : A.d * A.a - A.b * A.c ≠ 0 := by rw [mul_comm A.d A.a]; exact hd
    have hd2 : -(A.b * A.c) + A.d * A.a ≠ 0 := by rw [neg_add_eq_sub]; exact hd1
    ext <;> simp only [Aff.mul, Aff.id, Aff.det] <;> field_simp <;> ring

theorem Aff.inverse_right (eps : α) (heps : 0 ≤ eps) (A : Aff α) (h : A.isDegenerate eps = false) :
    A.mul (A.inverse eps) = Aff.id := by
  have hd := Aff.not_degenerate_det eps heps A h
  unfold Aff.inverse
  split
  · rename_i hid
    rw [Aff.beq_iff] at hid
    rw [hid]; exact Aff.mul_id _
  · simp only [h, Bool.false_eq_true, if_false]
    unfold Aff.det at hd
    have hd1 : A.d * A.a - A.b * A.c ≠ 0 := by rw [mul_comm A.d A.a]; exact hd
    have hd2 : -(A.b * A.c) + A.d * A.a ≠ 0 := by rw [neg_add_eq_sub]; exact hd1
    ext <;> simp only [Aff.mul, Aff.id, Aff.det] <;> field_simp <;> ring

theorem Aff.inverse_degenerate (eps : α) (A : Aff α) (hid : A ≠ Aff.id)
    (h : A.isDegenerate eps = true) : A.inverse eps = Aff.zero := by
  unfold Aff.inverse
  have : (A == (Aff.id : Aff α)) = false := by
    rw [Bool.eq_false_iff]; intro hh; exact hid ((Aff.beq_iff _ _).mp hh)
  simp [this, h]

theorem Aff.tostring_roundtrip (T : Trig α) (A : Aff α) : evalOps T [Aff.tostringOp A] = A := by
  unfold evalOps Aff.tostringOp
  split
  · rename_i h
    rw [Aff.beq_iff] at h
    simp only [List.foldl_cons, List.foldl_nil, evalOp, Option.getD_some]
    exact h.symm
  · simp only [List.foldl_cons, List.foldl_nil, evalOp, Aff.matrix]
    exact Aff.id_mul A


theorem Rect.not_empty (r : Rect α) (h : r.empty = false) : r.w ≠ 0 ∧ r.h ≠ 0 := by
  simp only [Rect.empty, Bool.or_eq_false_iff, beq_eq_false_iff_ne] at h
  exact h

theorem minv_le_left (x y : α) : minv x y ≤ x := by
  unfold minv; split
  · exact le_of_lt ‹_›
  · exact le_refl _
theorem minv_le_right (x y : α) : minv x y ≤ y := by
  unfold minv; split
  · exact le_refl _
  · exact not_lt.mp ‹_›
theorem le_maxv_left (x y : α) : x ≤ maxv x y := by
  unfold maxv; split
  · exact le_of_lt ‹_›
  · exact le_refl _
theorem le_maxv_right (x y : α) : y ≤ maxv x y := by
  unfold maxv; split
  · exact le_refl _
  · exact not_lt.mp ‹_›

theorem Aff.rectToRect_none (src dst : Rect α) (hs : src.empty = false) (hd : dst.empty = false) :
    (rectToRect src dst PAR.none).mapPt ⟨src.x, src.y⟩ = ⟨dst.x, dst.y⟩ ∧
    (rectToRect src dst PAR.none).mapPt ⟨src.x + src.w, src.y + src.h⟩ =
      ⟨dst.x + dst.w, dst.y + dst.h⟩ := by
  obtain ⟨hw, hh⟩ := Rect.not_empty src hs
  simp only [rectToRect, hs, hd, Bool.false_eq_true, if_false, Aff.mapPt]
  constructor <;> ext <;> simp only <;> field_simp <;> ring

/-- the matrix `rect_to_rect` builds for an alignment, in closed form -/
theorem rectToRect_align_form (src dst : Rect α) (ax : AlignX) (ay : AlignY) (slice : Bool)
    (hs : src.empty = false) (hd : dst.empty = false) :
    let s := if slice then maxv (dst.w / src.w) (dst.h / src.h)
             else minv (dst.w / src.w) (dst.h / src.h)
    let ox := match ax with
      | AlignX.min => 0 | AlignX.mid => (dst.w - src.w * s) / two | AlignX.max => dst.w - src.w * s
    let oy := match ay with
      | AlignY.min => 0 | AlignY.mid => (dst.h - src.h * s) / two | AlignY.max => dst.h - src.h * s
    rectToRect src dst (PAR.align ax ay slice) =
      ⟨s, 0, 0, s, dst.x - src.x * s + ox, dst.y - src.y * s + oy⟩ := by
  simp only [rectToRect, hs, hd, Bool.false_eq_true, if_false]
  cases ax <;> cases ay <;> simp

theorem Aff.rectToRect_uniform (src dst : Rect α) (ax : AlignX) (ay : AlignY) (slice : Bool)
    (hs : src.empty = false) (hd : dst.empty = false) :
    let M := rectToRect src dst (PAR.align ax ay slice)
    M.a = M.d ∧ M.b = 0 ∧ M.c = 0 ∧
    M.a = (if slice then maxv (dst.w / src.w) (dst.h / src.h)
           else minv (dst.w / src.w) (dst.h / src.h)) := by
  intro M
  have := rectToRect_align_form src dst ax ay slice hs hd
  simp only at this
  simp only [M, this, and_self]

theorem two_pos' : (0 : α) < two := by unfold two; linarith [one_pos (α := α)]

theorem Aff.rectToRect_meet_inside (src dst : Rect α) (ax : AlignX) (ay : AlignY)
    (hsw : 0 < src.w) (hsh : 0 < src.h) (hdw : 0 < dst.w) (hdh : 0 < dst.h) :
    let M := rectToRect src dst (PAR.align ax ay false)
    let p0 := M.mapPt ⟨src.x, src.y⟩
    let p1 := M.mapPt ⟨src.x + src.w, src.y + src.h⟩
    dst.x ≤ p0.x ∧ p1.x ≤ dst.x + dst.w ∧ dst.y ≤ p0.y ∧ p1.y ≤ dst.y + dst.h := by
  have hs : src.empty = false := by
    simp [Rect.empty, ne_of_gt hsw, ne_of_gt hsh]
  have hd : dst.empty = false := by
    simp [Rect.empty, ne_of_gt hdw, ne_of_gt hdh]
  have hf := rectToRect_align_form src dst ax ay false hs hd
  simp only [Bool.false_eq_true, if_false] at hf
  intro M p0 p1
  simp only [p0, p1, M, hf, Aff.mapPt]
  generalize hsdef : minv (dst.w / src.w) (dst.h / src.h) = s
  have h1 : s ≤ dst.w / src.w := hsdef ▸ minv_le_left _ _
  have h2 : s ≤ dst.h / src.h := hsdef ▸ minv_le_right _ _
  have hw : src.w * s ≤ dst.w := by
    have := mul_le_mul_of_nonneg_left h1 (le_of_lt hsw)
    rwa [mul_div_cancel₀ _ (ne_of_gt hsw)] at this
  have hh : src.h * s ≤ dst.h := by
    have := mul_le_mul_of_nonneg_left h2 (le_of_lt hsh)
    rwa [mul_div_cancel₀ _ (ne_of_gt hsh)] at this
  have h2p := two_pos' (α := α)
  have hxhalf : 0 ≤ (dst.w - src.w * s) / two ∧ (dst.w - src.w * s) / two ≤ dst.w - src.w * s := by
    constructor
    · exact div_nonneg (by linarith) (le_of_lt h2p)
    · rw [div_le_iff₀ h2p]; unfold two; nlinarith
  have hyhalf : 0 ≤ (dst.h - src.h * s) / two ∧ (dst.h - src.h * s) / two ≤ dst.h - src.h * s := by
    constructor
    · exact div_nonneg (by linarith) (le_of_lt h2p)
    · rw [div_le_iff₀ h2p]; unfold two; nlinarith
  cases ax <;> cases ay <;> simp only <;> refine ⟨?_, ?_, ?_, ?_⟩ <;> linarith [hxhalf.1, hxhalf.2, hyhalf.1, hyhalf.2]

theorem Aff.rectToRect_slice_covers (src dst : Rect α) (ax : AlignX) (ay : AlignY)
    (hsw : 0 < src.w) (hsh : 0 < src.h) (hdw : 0 < dst.w) (hdh : 0 < dst.h) :
    let M := rectToRect src dst (PAR.align ax ay true)
    let p0 := M.mapPt ⟨src.x, src.y⟩
    let p1 := M.mapPt ⟨src.x + src.w, src.y + src.h⟩
    p0.x ≤ dst.x ∧ dst.x + dst.w ≤ p1.x ∧ p0.y ≤ dst.y ∧ dst.y + dst.h ≤ p1.y := by
  have hs : src.empty = false := by
    simp [Rect.empty, ne_of_gt hsw, ne_of_gt hsh]
  have hd : dst.empty = false := by
    simp [Rect.empty, ne_of_gt hdw, ne_of_gt hdh]
  have hf := rectToRect_align_form src dst ax ay true hs hd
  simp only [if_true] at hf
  intro M p0 p1
  simp only [p0, p1, M, hf, Aff.mapPt]
  generalize hsdef : maxv (dst.w / src.w) (dst.h / src.h) = s
  have h1 : dst.w / src.w ≤ s := hsdef ▸ le_maxv_left _ _
  have h2 : dst.h / src.h ≤ s := hsdef ▸ le_maxv_right _ _
  have hw : dst.w ≤ src.w * s := by
    have := mul_le_mul_of_nonneg_left h1 (le_of_lt hsw)
    rwa [mul_div_cancel₀ _ (ne_of_gt hsw)] at this
  have hh : dst.h ≤ src.h * s := by
    have := mul_le_mul_of_nonneg_left h2 (le_of_lt hsh)
    rwa [mul_div_cancel₀ _ (ne_of_gt hsh)] at this
  have h2p := two_pos' (α := α)
  have hxhalf : (dst.w - src.w * s) / two ≤ 0 ∧ dst.w - src.w * s ≤ (dst.w - src.w * s) / two := by
    constructor
    · exact div_nonpos_of_nonpos_of_nonneg (by linarith) (le_of_lt h2p)
    · rw [le_div_iff₀ h2p]; unfold two; nlinarith
  have hyhalf : (dst.h - src.h * s) / two ≤ 0 ∧ dst.h - src.h * s ≤ (dst.h - src.h * s) / two := by
    constructor
    · exact div_nonpos_of_nonpos_of_nonneg (by linarith) (le_of_lt h2p)
    · rw [le_div_iff₀ h2p]; unfold two; nlinarith
  cases ax <;> cases ay <;> simp only <;> refine ⟨?_, ?_, ?_, ?_⟩ <;> linarith [hxhalf.1, hxhalf.2, hyhalf.1, hyhalf.2]

theorem Aff.rectToRect_align_x (src dst : Rect α) (ax : AlignX) (ay : AlignY) (slice : Bool)
    (hs : src.empty = false) (hd : dst.empty = false) :
    let M := rectToRect src dst (PAR.align ax ay slice)
    let x0 := (M.mapPt ⟨src.x, src.y⟩).x
    let x1 := (M.mapPt ⟨src.x + src.w, src.y + src.h⟩).x
    match ax with
    | AlignX.min => x0 = dst.x
    | AlignX.mid => x0 + x1 = dst.x + (dst.x + dst.w)
    | AlignX.max => x1 = dst.x + dst.w := by
  have hf := rectToRect_align_form src dst ax ay slice hs hd
  intro M x0 x1
  simp only [x0, x1, M, hf, Aff.mapPt]
  have h2 : (two : α) ≠ 0 := ne_of_gt two_pos'
  cases ax <;> simp only
  · ring
  · field_simp; unfold two; ring
  · ring

theorem Aff.rectToRect_align_y (src dst : Rect α) (ax : AlignX) (ay : AlignY) (slice : Bool)
    (hs : src.empty = false) (hd : dst.empty = false) :
    let M := rectToRect src dst (PAR.align ax ay slice)
    let y0 := (M.mapPt ⟨src.x, src.y⟩).y
    let y1 := (M.mapPt ⟨src.x + src.w, src.y + src.h⟩).y
    match ay with
    | AlignY.min => y0 = dst.y
    | AlignY.mid => y0 + y1 = dst.y + (dst.y + dst.h)
    | AlignY.max => y1 = dst.y + dst.h := by
  have hf := rectToRect_align_form src dst ax ay slice hs hd
  intro M y0 y1
  simp only [y0, y1, M, hf, Aff.mapPt]
  have h2 : (two : α) ≠ 0 := ne_of_gt two_pos'
  cases ay <;> simp only
  · ring
  · field_simp; unfold two; ring
  · ring


theorem Aff.composeLtr_pair (t p : Aff α) : Aff.composeLtr [t, p] = p.mul t := by
  simp [Aff.composeLtr, Aff.id_mul]

theorem absv_zero_le {tol : α} (h : 0 ≤ tol) : absv (0 : α) ≤ tol := by
  unfold absv; simp [h]

theorem Aff.decomposeTranslation_checked (tolEq tolDec : α) (s t p : Aff α)
    (h : decomposeTranslation tolEq tolDec s = some (t, p)) :
    s.almostEq tolDec (Aff.composeLtr [t, p]) = true ∨ (t = Aff.id ∧ s.almostEq tolEq p = true) := by
  unfold decomposeTranslation at h
  by_cases h1 : s.almostEq tolEq (zeroTranslation s) = true
  · simp only [h1, if_true, Option.some.injEq, Prod.mk.injEq] at h
    obtain ⟨rfl, rfl⟩ := h
    exact Or.inr ⟨rfl, h1⟩
  · rw [if_neg h1] at h
    simp only at h
    split at h
    · rename_i h2
      simp only [Option.some.injEq, Prod.mk.injEq] at h
      obtain ⟨rfl, rfl⟩ := h
      exact Or.inl h2
    · exact absurd h (by simp)

theorem Aff.decomposeTranslation_exact (tolEq tolDec : α) (htol : 0 ≤ tolEq) (s t p : Aff α)
    (hdet : s.det ≠ 0) (hband : s.a = 0 ∨ tolEq < absv s.a)
    (h : decomposeTranslation tolEq tolDec s = some (t, p)) :
    (Aff.composeLtr [t, p] = s ∨ (t = Aff.id ∧ absv s.e ≤ tolEq ∧ absv s.f ≤ tolEq)) ∧
      p = zeroTranslation s := by
  unfold decomposeTranslation at h
  by_cases h1 : s.almostEq tolEq (zeroTranslation s) = true
  · simp only [h1, if_true, Option.some.injEq, Prod.mk.injEq] at h
    obtain ⟨rfl, rfl⟩ := h
    refine ⟨Or.inr ⟨rfl, ?_, ?_⟩, rfl⟩
    · simp only [Aff.almostEq, zeroTranslation, Bool.and_eq_true, decide_eq_true_eq, sub_zero] at h1
      exact h1.1.2
    · simp only [Aff.almostEq, zeroTranslation, Bool.and_eq_true, decide_eq_true_eq, sub_zero] at h1
      exact h1.2
  · rw [if_neg h1] at h
    simp only at h
    split at h
    · simp only [Option.some.injEq, Prod.mk.injEq] at h
      obtain ⟨rfl, rfl⟩ := h
      refine ⟨Or.inl ?_, rfl⟩
      rw [Aff.composeLtr_pair, Aff.translate_eq_mul, Aff.id_mul]
      unfold Aff.det at hdet
      rcases hband with ha | ha
      · -- a = 0: the else-branch formulas
        have hcond : (!decide (absv (s.a - 0) ≤ tolEq)) = false := by
          simp [ha, absv_zero_le htol]
        have hb : s.b ≠ 0 := by
          intro hb; apply hdet; rw [ha, hb]; ring
        have hc : s.c ≠ 0 := by
          intro hc; apply hdet; rw [ha, hc]; ring
        simp only [decompPre, hcond, Bool.false_eq_true, if_false, Aff.mapPt, zeroTranslation]
        ext <;> simp only [Aff.mul, ha] <;> field_simp <;> ring
      · have ha0 : s.a ≠ 0 := by
          intro h0; rw [h0] at ha
          have : absv (0 : α) = 0 := by unfold absv; simp
          rw [this] at ha; exact absurd htol (not_le.mpr ha)
        have hcond : (!decide (absv (s.a - 0) ≤ tolEq)) = true := by
          simp [sub_zero, not_le.mpr ha]
        have hd2 : s.d - s.b * s.c / s.a ≠ 0 := by
          intro h0; apply hdet
          field_simp at h0
          linarith
        have hd3 : s.a * s.d - s.b * s.c ≠ 0 := hdet
        simp only [decompPre, hcond, if_true, Aff.mapPt, zeroTranslation]
        ext <;> simp only [Aff.mul] <;> field_simp <;> ring
    · exact absurd h (by simp)

end Ordered
end PicoSVG
