/-
  The four "discard useless content" passes are idempotent (C07): a second application finds nothing left to remove and
  no attribute left to rewrite — by mutual structural induction over the bottom-up rewrite, including the tail-text rule.
-/
import PicoSVG.Model.Cleanup

namespace PicoSVG.IdemP
open PicoSVG Node Cleanup

/-- a local pass whose decisions are stable under its own attribute rewriting -/
structure Stable (P : LocalPass) : Prop where
  drop_amap : ∀ t a, P.drop t a = false → P.drop t (P.amap t a) = false
  amap_idem : ∀ t a, P.amap t (P.amap t a) = P.amap t a

mutual
  theorem rewrite_idem (P : LocalPass) (h : Stable P) (n : Node) :
      rewriteList P.f false (rewrite P.f n) = rewrite P.f n := by
    cases n with
    | elem u t a cs =>
      simp only [rewrite, LocalPass.f]
      by_cases hd : P.drop t a
      · simp [hd, rewriteList]
      · have hd' : P.drop t a = false := by simpa using hd
        simp only [hd', Bool.false_eq_true, if_false, rewriteList, rewrite, LocalPass.f, h.drop_amap t a hd', h.amap_idem,
          List.append_nil]
        rw [rewriteList_idem P h false cs]
    | comment =>
      simp only [rewrite, LocalPass.f]
      by_cases hd : P.dropOther .comment <;> simp [hd, rewriteList, rewrite, LocalPass.f]
    | pi =>
      simp only [rewrite, LocalPass.f]
      by_cases hd : P.dropOther .pi <;> simp [hd, rewriteList, rewrite, LocalPass.f]
    | text s =>
      simp only [rewrite, LocalPass.f]
      by_cases hd : P.dropOther (.text s) <;> simp [hd, rewriteList, rewrite, LocalPass.f]
    | entity =>
      simp only [rewrite, LocalPass.f]
      by_cases hd : P.dropOther .entity <;> simp [hd, rewriteList, rewrite, LocalPass.f]
  theorem rewriteList_idem (P : LocalPass) (h : Stable P) (b : Bool) (cs : List Node) :
      rewriteList P.f false (rewriteList P.f b cs) = rewriteList P.f b cs := by
    cases cs with
    | nil => simp [rewriteList]
    | cons c cs =>
      have key : ∀ b', rewriteList P.f false (rewrite P.f c ++ rewriteList P.f b' cs)
          = rewrite P.f c ++ rewriteList P.f b' cs := by
        intro b'
        have h1 := rewrite_idem P h c
        have ih := rewriteList_idem P h b' cs
        cases hr : rewrite P.f c with
        | nil => simpa using ih
        | cons n' tl =>
          -- a local pass returns at most one node
          have htl : tl = [] := by
            cases c <;> simp only [rewrite, LocalPass.f] at hr <;> split at hr <;> simp_all
          subst htl
          rw [hr] at h1
          simp only [rewriteList, List.append_nil] at h1
          have hn : rewrite P.f n' = [n'] := by
            have := h1
            cases hq : rewrite P.f n' with
            | nil => simp [hq] at this
            | cons q qs => simp [hq] at this; simp [this]
          simp only [List.cons_append, List.nil_append, rewriteList, hn, List.isEmpty_cons, Bool.false_and, ih]
      cases b with
      | false => simp only [rewriteList]; exact key _
      | true =>
        cases c with
        | text s => simp only [rewriteList]; exact rewriteList_idem P h false cs
        | elem u t a k => simp only [rewriteList]; exact key _
        | comment => simp only [rewriteList]; exact key _
        | pi => simp only [rewriteList]; exact key _
        | entity => simp only [rewriteList]; exact key _
end


theorem stable_pi : Stable piPass := ⟨fun _ _ h => h, fun _ _ => rfl⟩
theorem stable_anon : Stable anonSymbolPass := ⟨fun _ _ h => h, fun _ _ => rfl⟩
theorem stable_meta : Stable metaPass := ⟨fun _ _ h => h, fun _ _ => rfl⟩
theorem stable_nonsvg (ng : Bool) : Stable (nonSvgPass ng) :=
  ⟨fun _ _ h => h, fun _ a => by simp [nonSvgPass, List.filter_filter]⟩

/-- a pass that works below the root is idempotent -/
theorem rewriteBelow_idem (P : LocalPass) (h : Stable P) (root : Node) :
    rewriteBelow P.f (rewriteBelow P.f root) = rewriteBelow P.f root := by
  cases root with
  | elem u t a cs => simp only [rewriteBelow, Node.children, Node.setChildren, rewriteList_idem P h false cs]
  | comment => rfl
  | pi => rfl
  | text s => rfl
  | entity => rfl

theorem removePIs_idem (root : Node) : removePIs (removePIs root) = removePIs root :=
  rewriteBelow_idem piPass stable_pi root
theorem removeAnonSymbols_idem (root : Node) : removeAnonSymbols (removeAnonSymbols root) = removeAnonSymbols root :=
  rewriteBelow_idem anonSymbolPass stable_anon root
theorem removeTitleMetaDesc_idem (root : Node) :
    removeTitleMetaDesc (removeTitleMetaDesc root) = removeTitleMetaDesc root :=
  rewriteBelow_idem metaPass stable_meta root

/-- `remove_nonsvg_content` is idempotent on a document whose root it keeps -/
theorem removeNonSvg_idem (ng : Bool) (u : Nat) (t : String) (a : Attrs) (cs : List Node)
    (hroot : (nonSvgPass ng).drop t a = false) :
    removeNonSvg ng (removeNonSvg ng (.elem u t a cs)) = removeNonSvg ng (.elem u t a cs) := by
  have h := stable_nonsvg ng
  have e1 : rewrite (nonSvgPass ng).f (.elem u t a cs)
      = [.elem u t ((nonSvgPass ng).amap t a) (rewriteList (nonSvgPass ng).f false cs)] := by
    simp [rewrite, LocalPass.f, hroot]
  have e2 : removeNonSvg ng (.elem u t a cs)
      = .elem u t ((nonSvgPass ng).amap t a) (rewriteList (nonSvgPass ng).f false cs) := by
    simp [removeNonSvg, e1]
  rw [e2]
  have e3 : rewrite (nonSvgPass ng).f (.elem u t ((nonSvgPass ng).amap t a) (rewriteList (nonSvgPass ng).f false cs))
      = [.elem u t ((nonSvgPass ng).amap t a) (rewriteList (nonSvgPass ng).f false cs)] := by
    simp only [rewrite, LocalPass.f, h.drop_amap t a hroot, Bool.false_eq_true, if_false, h.amap_idem,
      rewriteList_idem (nonSvgPass ng) h false cs]
  simp [removeNonSvg, e3]

end PicoSVG.IdemP
