/-
  Target-form lemmas for the path rewrites (C09 / C01): which command letters can come out.
-/
import PicoSVG.Proofs.Walk
import PicoSVG.Model.SvgPath

set_option linter.unusedSectionVars false
namespace PicoSVG.Path

theorem lookup_some_mem {β : Type} (l : List (Char × β)) (c : Char) (v : β)
    (h : l.lookup c = some v) : c ∈ l.map (·.1) := by
  induction l with
  | nil => simp [List.lookup] at h
  | cons p ps ih =>
    obtain ⟨k, w⟩ := p
    simp only [List.lookup] at h
    split at h
    · rename_i heq
      simp only [beq_iff_eq] at heq
      simp [heq]
    · simp only [List.map_cons, List.mem_cons]
      exact Or.inr (ih h)

def letters : List Char := Gen.cmdCoords.map (·.1)

theorem coords_some_mem (c : Char) (v : List Nat × List Nat) (h : coords c = some v) :
    c ∈ letters := lookup_some_mem _ c v h

theorem letters_upper : ∀ c ∈ letters, isUpper (toUpper c) = true := by decide
theorem letters_lower : ∀ c ∈ letters, isLower (toLower c) = true := by decide
theorem upper_fixed : ∀ c ∈ letters, isUpper c = true → toUpper c = c := by decide

section
variable {α : Type} [Add α] [Sub α] [Mul α] [Div α] [Neg α] [OfNat α 0] [OfNat α 1] [BEq α]
  [LT α] [LE α] [DecidableLT α] [DecidableLE α]

theorem explicitLinesCmd_letter (curr : Pt α) (cmd : Char) (args : List α) (r : Cmd α)
    (h : explicitLinesCmd curr cmd args = .ok r) :
    (r.1 = cmd ∧ cmd ≠ 'v' ∧ cmd ≠ 'V' ∧ cmd ≠ 'h' ∧ cmd ≠ 'H') ∨
    (r.1 = 'l' ∧ (cmd = 'v' ∨ cmd = 'h')) ∨ (r.1 = 'L' ∧ (cmd = 'V' ∨ cmd = 'H')) := by
  unfold explicitLinesCmd at h
  by_cases h1 : cmd = 'v'
  · subst h1
    simp only [beq_self_eq_true, if_true] at h
    cases hg : getArg args 0 with
    | error e => simp [hg, bind, Except.bind] at h
    | ok a =>
      simp only [hg, bind, Except.bind, pure, Except.pure] at h
      injection h with h; subst h; simp
  · by_cases h2 : cmd = 'V'
    · subst h2
      simp only [show (('V' : Char) == 'v') = false by decide, Bool.false_eq_true, if_false,
        beq_self_eq_true, if_true] at h
      cases hg : getArg args 0 with
      | error e => simp [hg, bind, Except.bind] at h
      | ok a =>
        simp only [hg, bind, Except.bind, pure, Except.pure] at h
        injection h with h; subst h; simp
    · by_cases h3 : cmd = 'h'
      · subst h3
        simp only [show (('h' : Char) == 'v') = false by decide,
          show (('h' : Char) == 'V') = false by decide, Bool.false_eq_true, if_false,
          beq_self_eq_true, if_true] at h
        cases hg : getArg args 0 with
        | error e => simp [hg, bind, Except.bind] at h
        | ok a =>
          simp only [hg, bind, Except.bind, pure, Except.pure] at h
          injection h with h; subst h; simp
      · by_cases h4 : cmd = 'H'
        · subst h4
          simp only [show (('H' : Char) == 'v') = false by decide,
            show (('H' : Char) == 'V') = false by decide,
            show (('H' : Char) == 'h') = false by decide, Bool.false_eq_true, if_false,
            beq_self_eq_true, if_true] at h
          cases hg : getArg args 0 with
          | error e => simp [hg, bind, Except.bind] at h
          | ok a =>
            simp only [hg, bind, Except.bind, pure, Except.pure] at h
            injection h with h; subst h; simp
        · have e1 : (cmd == 'v') = false := by simp [h1]
          have e2 : (cmd == 'V') = false := by simp [h2]
          have e3 : (cmd == 'h') = false := by simp [h3]
          have e4 : (cmd == 'H') = false := by simp [h4]
          simp only [e1, e2, e3, e4, Bool.false_eq_true, if_false, pure, Except.pure] at h
          injection h with h; subst h
          exact Or.inl ⟨rfl, h1, h2, h3, h4⟩

/-- explicit_lines: no H/h/V/v in the output -/
theorem explicitLines_noHV (cmds out : List (Cmd α)) (h : explicitLines cmds = .ok out) :
    ∀ x ∈ out, x.1 ≠ 'h' ∧ x.1 ≠ 'H' ∧ x.1 ≠ 'v' ∧ x.1 ≠ 'V' := by
  apply walk_forall (fun x => x.1 ≠ 'h' ∧ x.1 ≠ 'H' ∧ x.1 ≠ 'v' ∧ x.1 ≠ 'V') explicitLinesCb _ cmds out h
  intro s c cmd args prev news hcb x hx
  unfold explicitLinesCb at hcb
  cases he : explicitLinesCmd c cmd args with
  | error e => simp [he, bind, Except.bind] at hcb
  | ok r =>
    simp only [he, bind, Except.bind, pure, Except.pure] at hcb
    injection hcb with hcb; subst hcb
    simp only [List.mem_singleton] at hx; subst hx
    rcases explicitLinesCmd_letter c cmd args x he with ⟨h1, h2, h3, h4, h5⟩ | ⟨h1, _⟩ | ⟨h1, _⟩
    · rw [h1]; exact ⟨h4, h5, h2, h3⟩
    · rw [h1]; decide
    · rw [h1]; decide

theorem rewriteCoords_letter (toRel : Bool) (curr : Pt α) (cmd : Char) (args : List α) (r : Cmd α)
    (h : rewriteCoords toRel curr cmd args = .ok r) :
    cmd ∈ letters ∧ r.1 = (if toRel then toLower cmd else toUpper cmd) := by
  unfold rewriteCoords at h
  cases hc : coords cmd with
  | none => simp [hc] at h
  | some v =>
    obtain ⟨xs, ys⟩ := v
    simp only [hc] at h
    refine ⟨coords_some_mem cmd _ hc, ?_⟩
    generalize hd : (if toRel = true then toLower cmd else toUpper cmd) = desired at h ⊢
    by_cases hne : (cmd != desired) = true
    · rw [if_pos hne] at h
      by_cases hidx : ((xs ++ ys).any fun i => decide (i ≥ args.length)) = true
      · rw [if_pos hidx] at h; exact absurd h (by simp)
      · rw [if_neg hidx] at h
        injection h with h; subst h; rfl
    · rw [if_neg hne] at h
      injection h with h; subst h
      simp only [bne_iff_ne, ne_eq, Decidable.not_not] at hne
      exact hne

theorem moveEndpoint_letter (curr : Pt α) (cmd : Char) (args : List α) (ne : Pt α) (r : Cmd α)
    (h : moveEndpoint curr cmd args ne = .ok r) :
    ∃ r0 : Cmd α, explicitLinesCmd curr cmd args = .ok r0 ∧ r.1 = r0.1 := by
  unfold moveEndpoint at h
  cases he : explicitLinesCmd curr cmd args with
  | error e => simp [he, bind, Except.bind] at h
  | ok r0 =>
    obtain ⟨c0, a0⟩ := r0
    refine ⟨(c0, a0), rfl, ?_⟩
    simp only [he, bind, Except.bind] at h
    cases hc : coords c0 with
    | none => simp [hc] at h
    | some v =>
      obtain ⟨xs, ys⟩ := v
      simp only [hc] at h
      split at h
      · simp only [pure, Except.pure] at h; injection h with h; subst h; rfl
      · split at h
        · split at h
          · simp at h
          · simp only [pure, Except.pure] at h; injection h with h; subst h; rfl
        · simp at h

/-- absolute(): every output command is upper-case -/
theorem absolute_allUpper (tol : α) (cmds out : List (Cmd α)) (h : absolute tol cmds = .ok out) :
    ∀ x ∈ out, isUpper x.1 = true := by
  apply walk_forall (fun x => isUpper x.1 = true) (rewriteCb tol relToAbs) _ cmds out h
  intro s c cmd args prev news hcb x hx
  unfold rewriteCb at hcb
  cases hr : relToAbs c cmd args with
  | error e => simp [hr, bind, Except.bind] at hcb
  | ok r =>
    obtain ⟨nc, na⟩ := r
    obtain ⟨hmem, hlet⟩ := rewriteCoords_letter false c cmd args (nc, na) hr
    simp only [Bool.false_eq_true, if_false] at hlet
    have hup : isUpper nc = true := by rw [hlet]; exact letters_upper cmd hmem
    simp only [hr, bind, Except.bind] at hcb
    cases hn : nextPos c nc na with
    | error e => simp [hn] at hcb
    | ok np =>
      simp only [hn] at hcb
      split at hcb
      · cases hm : moveEndpoint c nc na s with
        | error e => simp [hm] at hcb
        | ok r2 =>
          simp only [hm, pure, Except.pure] at hcb
          injection hcb with hcb; subst hcb
          simp only [List.mem_singleton] at hx; subst hx
          obtain ⟨r0, he, hl⟩ := moveEndpoint_letter c nc na s x hm
          rw [hl]
          rcases explicitLinesCmd_letter c nc na r0 he with ⟨h1, _⟩ | ⟨h1, h2⟩ | ⟨h1, _⟩
          · rw [h1]; exact hup
          · rcases h2 with h2 | h2 <;> (rw [h2] at hup; exact absurd hup (by decide))
          · rw [h1]; decide
      · simp only [pure, Except.pure] at hcb
        injection hcb with hcb; subst hcb
        simp only [List.mem_singleton] at hx; subst hx
        exact hup

/-- expand_shorthand: no S/s/T/t in the output -/
theorem expandShorthand_noST (cmds out : List (Cmd α)) (h : expandShorthand cmds = .ok out) :
    ∀ x ∈ out, toUpper x.1 ≠ 'S' ∧ toUpper x.1 ≠ 'T' := by
  apply walk_forall (fun x => toUpper x.1 ≠ 'S' ∧ toUpper x.1 ≠ 'T') expandShorthandCb _ cmds out h
  intro s c cmd args prev news hcb x hx
  unfold expandShorthandCb at hcb
  by_cases hns : (!(toUpper cmd == 'S' || toUpper cmd == 'T')) = true
  · rw [if_pos hns] at hcb
    injection hcb with hcb; subst hcb
    simp only [List.mem_singleton] at hx; subst hx
    simp only [Bool.not_eq_true', Bool.or_eq_false_iff, beq_eq_false_iff_ne] at hns
    exact hns
  · rw [if_neg hns] at hcb
    rw [bind_eq_ok] at hcb
    obtain ⟨ca, _, hcb⟩ := hcb
    rw [bind_eq_ok] at hcb
    obtain ⟨cp, _, hcb⟩ := hcb
    injection hcb with hcb
    subst hcb
    simp only [List.mem_singleton] at hx; subst hx
    simp only
    split <;> decide

end
end PicoSVG.Path
