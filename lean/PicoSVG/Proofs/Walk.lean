/-
  Helper lemmas about the generic `walk` (C09): what ends up in the output.
-/
import PicoSVG.Model.Path
import PicoSVG.Spec.PathInterp

set_option linter.unusedSectionVars false
namespace PicoSVG

theorem bind_eq_ok {ε α β : Type} {x : Except ε α} {f : α → Except ε β} {r : β} :
    (x >>= f) = .ok r ↔ ∃ a, x = .ok a ∧ f a = .ok r := by
  cases x with
  | error e => simp [bind, Except.bind]
  | ok a => simp [bind, Except.bind]

theorem pure_eq_ok {ε α : Type} {a r : α} : (pure a : Except ε α) = .ok r ↔ a = r := by
  simp [pure, Except.pure]

end PicoSVG

namespace PicoSVG.Path

section
variable {α : Type} [Add α] [Sub α] [Mul α] [Div α] [Neg α] [OfNat α 0] [OfNat α 1] [BEq α]
  [LT α] [LE α] [DecidableLT α] [DecidableLE α]

theorem applyNew_out (st st' : WalkState α) (nc : Cmd α) (h : applyNew st nc = .ok st') :
    st'.out = st.out ++ [(st.curr, nc)] := by
  unfold applyNew at h
  obtain ⟨c, a⟩ := nc
  simp only at h
  split at h
  · -- not z: nextPos may fail
    cases hn : nextPos st.curr c a with
    | error e => simp [hn, bind, Except.bind] at h
    | ok np =>
      simp only [hn, bind, Except.bind, pure, Except.pure] at h
      injection h with h; subst h; rfl
  · simp only [bind, Except.bind, pure, Except.pure] at h
    injection h with h; subst h; rfl

theorem foldlM_applyNew_out (news : List (Cmd α)) (st st' : WalkState α)
    (h : news.foldlM applyNew st = .ok st') :
    st'.out.map (·.2) = st.out.map (·.2) ++ news := by
  induction news generalizing st with
  | nil =>
    simp only [List.foldlM, pure, Except.pure] at h
    injection h with h; subst h; simp
  | cons nc rest ih =>
    simp only [List.foldlM] at h
    cases h1 : applyNew st nc with
    | error e => simp [h1, bind, Except.bind] at h
    | ok st1 =>
      simp only [h1, bind, Except.bind] at h
      have := ih st1 h
      rw [this, applyNew_out st st1 nc h1]
      simp

/-- everything a walk outputs was returned by some callback invocation -/
theorem step_out_forall (P : Cmd α → Prop) (cb : Callback α)
    (hcb : ∀ s c cmd args prev news, cb s c cmd args prev = .ok news → ∀ x ∈ news, P x)
    (st st' : WalkState α) (idx : Nat) (cmd : Cmd α)
    (h : step cb st idx cmd = .ok st') (hst : ∀ x ∈ st.out.map (·.2), P x) :
    ∀ x ∈ st'.out.map (·.2), P x := by
  unfold step at h
  obtain ⟨c, a⟩ := cmd
  simp only at h
  cases hc : PathLex.checkCmd c a.length with
  | error e => simp [hc, bind, Except.bind] at h
  | ok k =>
    simp only [hc, bind, Except.bind] at h
    generalize hc' : (if idx == 0 && c == 'm' then 'M' else c) = c' at h
    generalize hprev : (st.out.getLast?.map fun x => (x.1, x.2.1, x.2.2)) = prev at h
    cases hn : cb st.start st.curr c' a prev with
    | error e =>
      simp only [hn] at h
      exact absurd h (by simp)
    | ok news =>
      simp only [hn] at h
      have hout := foldlM_applyNew_out news st st' h
      intro x hx
      rw [hout, List.mem_append] at hx
      rcases hx with hx | hx
      · exact hst x hx
      · exact hcb _ _ _ _ _ _ hn x hx

theorem walkFrom_out_forall (P : Cmd α → Prop) (cb : Callback α)
    (hcb : ∀ s c cmd args prev news, cb s c cmd args prev = .ok news → ∀ x ∈ news, P x)
    (cmds : List (Cmd α)) (st st' : WalkState α) (idx : Nat)
    (h : walkFrom cb st idx cmds = .ok st') (hst : ∀ x ∈ st.out.map (·.2), P x) :
    ∀ x ∈ st'.out.map (·.2), P x := by
  induction cmds generalizing st idx with
  | nil =>
    simp only [walkFrom] at h
    injection h with h; subst h; exact hst
  | cons c cs ih =>
    simp only [walkFrom, bind, Except.bind] at h
    cases h1 : step cb st idx c with
    | error e => simp [h1] at h
    | ok st1 =>
      simp only [h1] at h
      exact ih st1 (idx + 1) h (step_out_forall P cb hcb st st1 idx c h1 hst)

theorem walk_forall (P : Cmd α → Prop) (cb : Callback α)
    (hcb : ∀ s c cmd args prev news, cb s c cmd args prev = .ok news → ∀ x ∈ news, P x)
    (cmds out : List (Cmd α)) (h : walk cb cmds = .ok out) : ∀ x ∈ out, P x := by
  unfold walk at h
  simp only [bind, Except.bind, pure, Except.pure] at h
  cases h1 : walkFrom cb { curr := ⟨0, 0⟩, start := ⟨0, 0⟩, out := [] } 0 cmds with
  | error e => simp [h1] at h
  | ok st' =>
    simp only [h1] at h
    injection h with h; subst h
    exact walkFrom_out_forall P cb hcb cmds _ st' 0 h1 (by simp)

end
end PicoSVG.Path
