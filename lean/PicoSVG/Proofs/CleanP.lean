/-
  After a discard pass nothing it removes is left in the document, at any depth (C01: no processing instruction, metadata or
  foreign-namespace node survives).  Mutual structural induction over the bottom-up rewrite.
-/
import PicoSVG.Proofs.IdemP
import PicoSVG.Proofs.Noise

namespace PicoSVG.CleanP
open PicoSVG Node Cleanup IdemP

theorem flatList_append (xs ys : List Node) : flatList (xs ++ ys) = flatList xs ++ flatList ys := by
  induction xs with
  | nil => rfl
  | cons x xs ih => simp [flatList, ih]

mutual
  /-- after a stable local pass nothing it would remove is left, at any depth -/
  theorem rewrite_clean (P : LocalPass) (h : Stable P) (n : Node) :
      ∀ m ∈ flatList (rewrite P.f n), P.noise m = false := by
    cases n with
    | elem u t a cs =>
      simp only [rewrite, LocalPass.f]
      by_cases hd : P.drop t a
      · simp [hd, flatList]
      · have hd' : P.drop t a = false := by simpa using hd
        simp only [hd', Bool.false_eq_true, if_false, flatList, flat, List.append_nil, List.mem_cons]
        intro m hm
        rcases hm with rfl | hm
        · simp only [LocalPass.noise]; exact h.drop_amap t a hd'
        · exact rewriteList_clean P h false cs m hm
    | comment =>
      simp only [rewrite, LocalPass.f]
      by_cases hd : P.dropOther .comment
      · simp [hd, flatList]
      · intro m hm; simp [hd, flatList, flat] at hm; subst hm; simpa [LocalPass.noise] using hd
    | pi =>
      simp only [rewrite, LocalPass.f]
      by_cases hd : P.dropOther .pi
      · simp [hd, flatList]
      · intro m hm; simp [hd, flatList, flat] at hm; subst hm; simpa [LocalPass.noise] using hd
    | text s =>
      simp only [rewrite, LocalPass.f]
      by_cases hd : P.dropOther (.text s)
      · simp [hd, flatList]
      · intro m hm; simp [hd, flatList, flat] at hm; subst hm; simpa [LocalPass.noise] using hd
    | entity =>
      simp only [rewrite, LocalPass.f]
      by_cases hd : P.dropOther .entity
      · simp [hd, flatList]
      · intro m hm; simp [hd, flatList, flat] at hm; subst hm; simpa [LocalPass.noise] using hd
  theorem rewriteList_clean (P : LocalPass) (h : Stable P) (b : Bool) (cs : List Node) :
      ∀ m ∈ flatList (rewriteList P.f b cs), P.noise m = false := by
    cases cs with
    | nil => intro m hm; simp [rewriteList, flatList] at hm
    | cons c cs =>
      have key : ∀ b', ∀ m ∈ flatList (rewrite P.f c ++ rewriteList P.f b' cs), P.noise m = false := by
        intro b' m hm
        rw [flatList_append] at hm
        rcases List.mem_append.mp hm with hm | hm
        · exact rewrite_clean P h c m hm
        · exact rewriteList_clean P h b' cs m hm
      cases b with
      | false => simp only [rewriteList]; exact key _
      | true =>
        cases c with
        | text s => simp only [rewriteList]; exact rewriteList_clean P h false cs
        | elem u t a k => simp only [rewriteList]; exact key _
        | comment => simp only [rewriteList]; exact key _
        | pi => simp only [rewriteList]; exact key _
        | entity => simp only [rewriteList]; exact key _
end


/-- C01 (nothing ignorable survives), for the three passes that work below the root: after the pass, no node it removes
    exists anywhere in the document -/
theorem rewriteBelow_clean (P : LocalPass) (h : Stable P) (u : Nat) (t : String) (a : Attrs) (cs : List Node) :
    ∀ m ∈ flatList (rewriteBelow P.f (.elem u t a cs)).children, P.noise m = false := by
  simp only [rewriteBelow, Node.children, Node.setChildren]
  exact rewriteList_clean P h false cs

/-- no processing instruction is left after `remove_processing_instructions` -/
theorem no_pi_left (u : Nat) (t : String) (a : Attrs) (cs : List Node) :
    Node.pi ∉ flatList (removePIs (.elem u t a cs)).children := by
  intro hm
  have := rewriteBelow_clean piPass stable_pi u t a cs Node.pi hm
  simp [LocalPass.noise, piPass] at this

/-- no title / desc / metadata element is left after `remove_title_meta_desc` -/
theorem no_meta_left (u : Nat) (t : String) (a : Attrs) (cs : List Node) (v : Nat) (t' : String) (a' : Attrs)
    (k : List Node) (hm : Node.elem v t' a' k ∈ flatList (removeTitleMetaDesc (.elem u t a cs)).children) :
    metaTags.any (fun m => t' == svgTag m) = false := by
  have := rewriteBelow_clean metaPass stable_meta u t a cs _ hm
  simpa [LocalPass.noise, metaPass] using this

/-- no foreign-namespace element and no foreign-namespace attribute is left after `remove_nonsvg_content` -/
theorem no_foreign_left (ng : Bool) (n : Node) (v : Nat) (t' : String) (a' : Attrs) (k : List Node)
    (hm : Node.elem v t' a' k ∈ flatList (rewrite (nonSvgPass ng).f n)) :
    goodElemNs t' = true := by
  have := rewrite_clean (nonSvgPass ng) (stable_nonsvg ng) n _ hm
  simpa [LocalPass.noise, nonSvgPass] using this

end PicoSVG.CleanP
