/-
  `_id_of_target` on the plain form `url(#id)…`: the id is read whatever follows the closing parenthesis (fix 3210a58).
-/
import PicoSVG.Model.Gradient

set_option linter.unusedSimpArgs false
namespace PicoSVG.SvgObj

/-- a character an id may consist of for `_id_of_target`: not `)`, no quote, no white space -/
def idChar (c : Char) : Bool := !(c == ')' || c == '\'' || c == '"' || isReWs c)

theorem takeWhile_id (p : Char → Bool) (i rest : List Char) (hi : ∀ c ∈ i, p c = true) (hr : p ')' = false) :
    (i ++ ')' :: rest).takeWhile p = i ∧ (i ++ ')' :: rest).dropWhile p = ')' :: rest := by
  induction i with
  | nil => simp [List.takeWhile, List.dropWhile, hr]
  | cons c cs ih =>
    have hc := hi c (by simp)
    have := ih (fun d hd => hi d (by simp [hd]))
    simp [List.takeWhile, List.dropWhile, hc, this.1, this.2]

/-- whatever follows the closing parenthesis — nothing, a fallback after white space, a fallback glued on — the reference is
    read as the id between `#` and `)` -/
theorem idOfTarget_plain (i rest : List Char) (hne : i ≠ []) (hi : ∀ c ∈ i, idChar c = true) :
    idOfTarget (String.ofList ("url(#".toList ++ i ++ ')' :: rest)) = .ok (String.ofList i) := by
  have hp : idChar ')' = false := by decide
  obtain ⟨ht, hd⟩ := takeWhile_id idChar i rest hi hp
  unfold idOfTarget
  simp only [String.toList_ofList]
  have h1 : ("url(#".toList ++ i ++ ')' :: rest) = 'u' :: 'r' :: 'l' :: '(' :: '#' :: (i ++ ')' :: rest) := by
    simp
  rw [h1]
  have hu : isReWs 'u' = false := by decide
  have hh : isReWs '#' = false := by decide
  have hpp : isReWs ')' = false := by decide
  simp only [List.dropWhile, hu]
  have hdrop : List.drop 4 ('u' :: 'r' :: 'l' :: '(' :: '#' :: (i ++ ')' :: rest)) = '#' :: (i ++ ')' :: rest) := rfl
  have hdw : List.dropWhile isReWs ('#' :: (i ++ ')' :: rest)) = '#' :: (i ++ ')' :: rest) := by
    simp [List.dropWhile, hh]
  have hpre : "url(".toList.isPrefixOf ('u' :: 'r' :: 'l' :: '(' :: '#' :: (i ++ ')' :: rest)) = true := by
    simp [List.isPrefixOf]
  have ht' : List.takeWhile (fun c => !(c == ')' || c == '\'' || c == '"' || isReWs c)) (i ++ ')' :: rest) = i := ht
  have hd' : List.dropWhile (fun c => !(c == ')' || c == '\'' || c == '"' || isReWs c)) (i ++ ')' :: rest) = ')' :: rest := hd
  have hie : i.isEmpty = false := by cases i with | nil => exact absurd rfl hne | cons _ _ => rfl
  rw [hdrop, hdw]
  have ht2 := ht'
  have hd2 := hd'
  simp only [Bool.not_or] at ht2 hd2
  simp [hpre, hie, List.dropWhile, hpp, ht2, hd2, hne]
end PicoSVG.SvgObj
