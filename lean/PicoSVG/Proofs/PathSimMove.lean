/-
  `move(dx, dy)`: the walk against two interpreters — of the input and of the output — whose states stay a shift apart.
  Per-letter lemmas generated mechanically.
-/
import PicoSVG.Proofs.PathSimAbs
import Mathlib.Tactic.Ring

set_option linter.unusedSectionVars false
set_option linter.unusedVariables false
set_option linter.unusedSimpArgs false

namespace PicoSVG.PathSim
open PicoSVG Path Spec

variable {α : Type} [Field α] [LinearOrder α] [IsStrictOrderedRing α]

def shiftPt (dx dy : α) (p : Pt α) : Pt α := ⟨p.x + dx, p.y + dy⟩

def shiftSeg (dx dy : α) : Seg α → Seg α
  | .move p => .move (shiftPt dx dy p)
  | .line p q => .line (shiftPt dx dy p) (shiftPt dx dy q)
  | .quad p c q => .quad (shiftPt dx dy p) (shiftPt dx dy c) (shiftPt dx dy q)
  | .cubic p c1 c2 q => .cubic (shiftPt dx dy p) (shiftPt dx dy c1) (shiftPt dx dy c2) (shiftPt dx dy q)
  | .arc p rx ry rot l s q => .arc (shiftPt dx dy p) rx ry rot l s (shiftPt dx dy q)
  | .close p q => .close (shiftPt dx dy p) (shiftPt dx dy q)

def shiftLast (dx dy : α) : LastCtrl α → LastCtrl α
  | .none => .none
  | .cubic c => .cubic (shiftPt dx dy c)
  | .quad c => .quad (shiftPt dx dy c)

def shiftSt (dx dy : α) (s : IState α) : IState α :=
  { cur := shiftPt dx dy s.cur, start := shiftPt dx dy s.start, last := shiftLast dx dy s.last, pending := s.pending }

set_option hygiene false in
macro "letter_move" : tactic => `(tactic| (
  unfold stepSeg at hi
  split at hi <;> simp at *
  all_goals (
    simp [moveCb, coords, Gen.cmdCoords, List.lookup, addAt, List.zipIdx, pure, Except.pure, bind, Except.bind] at hn
    subst hn
    obtain ⟨rfl, rfl⟩ := hi
    cases hl : is.last <;> cases hp : is.pending <;>
      simp [stepSeg, shiftSt, shiftPt, shiftSeg, shiftLast, opened, reflect, twoS, hl, hp] <;>
      (try constructor) <;> (try ring_nf) <;> (try simp [add_comm, add_left_comm, add_assoc]))))

theorem move_step_lm (dx dy : α) (start curr : Pt α) (is : IState α) (a : List α)
    (prev : Option (Pt α × Char × List α)) (news : List (Cmd α)) (is' : IState α) (segs : List (Seg α))
    (hn : moveCb dx dy start curr 'm' a prev = .ok news)
    (hi : stepSeg is 'm' a = some (is', segs)) :
    ∃ nc : Cmd α, news = [nc] ∧ nc.1 ∈ letters ∧
      stepSeg (shiftSt dx dy is) nc.1 nc.2 = some (shiftSt dx dy is', segs.map (shiftSeg dx dy)) := by
  letter_move

theorem move_step_lz (dx dy : α) (start curr : Pt α) (is : IState α) (a : List α)
    (prev : Option (Pt α × Char × List α)) (news : List (Cmd α)) (is' : IState α) (segs : List (Seg α))
    (hn : moveCb dx dy start curr 'z' a prev = .ok news)
    (hi : stepSeg is 'z' a = some (is', segs)) :
    ∃ nc : Cmd α, news = [nc] ∧ nc.1 ∈ letters ∧
      stepSeg (shiftSt dx dy is) nc.1 nc.2 = some (shiftSt dx dy is', segs.map (shiftSeg dx dy)) := by
  letter_move

theorem move_step_ll (dx dy : α) (start curr : Pt α) (is : IState α) (a : List α)
    (prev : Option (Pt α × Char × List α)) (news : List (Cmd α)) (is' : IState α) (segs : List (Seg α))
    (hn : moveCb dx dy start curr 'l' a prev = .ok news)
    (hi : stepSeg is 'l' a = some (is', segs)) :
    ∃ nc : Cmd α, news = [nc] ∧ nc.1 ∈ letters ∧
      stepSeg (shiftSt dx dy is) nc.1 nc.2 = some (shiftSt dx dy is', segs.map (shiftSeg dx dy)) := by
  letter_move

theorem move_step_lh (dx dy : α) (start curr : Pt α) (is : IState α) (a : List α)
    (prev : Option (Pt α × Char × List α)) (news : List (Cmd α)) (is' : IState α) (segs : List (Seg α))
    (hn : moveCb dx dy start curr 'h' a prev = .ok news)
    (hi : stepSeg is 'h' a = some (is', segs)) :
    ∃ nc : Cmd α, news = [nc] ∧ nc.1 ∈ letters ∧
      stepSeg (shiftSt dx dy is) nc.1 nc.2 = some (shiftSt dx dy is', segs.map (shiftSeg dx dy)) := by
  letter_move

theorem move_step_lv (dx dy : α) (start curr : Pt α) (is : IState α) (a : List α)
    (prev : Option (Pt α × Char × List α)) (news : List (Cmd α)) (is' : IState α) (segs : List (Seg α))
    (hn : moveCb dx dy start curr 'v' a prev = .ok news)
    (hi : stepSeg is 'v' a = some (is', segs)) :
    ∃ nc : Cmd α, news = [nc] ∧ nc.1 ∈ letters ∧
      stepSeg (shiftSt dx dy is) nc.1 nc.2 = some (shiftSt dx dy is', segs.map (shiftSeg dx dy)) := by
  letter_move

theorem move_step_lc (dx dy : α) (start curr : Pt α) (is : IState α) (a : List α)
    (prev : Option (Pt α × Char × List α)) (news : List (Cmd α)) (is' : IState α) (segs : List (Seg α))
    (hn : moveCb dx dy start curr 'c' a prev = .ok news)
    (hi : stepSeg is 'c' a = some (is', segs)) :
    ∃ nc : Cmd α, news = [nc] ∧ nc.1 ∈ letters ∧
      stepSeg (shiftSt dx dy is) nc.1 nc.2 = some (shiftSt dx dy is', segs.map (shiftSeg dx dy)) := by
  letter_move

theorem move_step_ls (dx dy : α) (start curr : Pt α) (is : IState α) (a : List α)
    (prev : Option (Pt α × Char × List α)) (news : List (Cmd α)) (is' : IState α) (segs : List (Seg α))
    (hn : moveCb dx dy start curr 's' a prev = .ok news)
    (hi : stepSeg is 's' a = some (is', segs)) :
    ∃ nc : Cmd α, news = [nc] ∧ nc.1 ∈ letters ∧
      stepSeg (shiftSt dx dy is) nc.1 nc.2 = some (shiftSt dx dy is', segs.map (shiftSeg dx dy)) := by
  letter_move

theorem move_step_lq (dx dy : α) (start curr : Pt α) (is : IState α) (a : List α)
    (prev : Option (Pt α × Char × List α)) (news : List (Cmd α)) (is' : IState α) (segs : List (Seg α))
    (hn : moveCb dx dy start curr 'q' a prev = .ok news)
    (hi : stepSeg is 'q' a = some (is', segs)) :
    ∃ nc : Cmd α, news = [nc] ∧ nc.1 ∈ letters ∧
      stepSeg (shiftSt dx dy is) nc.1 nc.2 = some (shiftSt dx dy is', segs.map (shiftSeg dx dy)) := by
  letter_move

theorem move_step_lt (dx dy : α) (start curr : Pt α) (is : IState α) (a : List α)
    (prev : Option (Pt α × Char × List α)) (news : List (Cmd α)) (is' : IState α) (segs : List (Seg α))
    (hn : moveCb dx dy start curr 't' a prev = .ok news)
    (hi : stepSeg is 't' a = some (is', segs)) :
    ∃ nc : Cmd α, news = [nc] ∧ nc.1 ∈ letters ∧
      stepSeg (shiftSt dx dy is) nc.1 nc.2 = some (shiftSt dx dy is', segs.map (shiftSeg dx dy)) := by
  letter_move

theorem move_step_la (dx dy : α) (start curr : Pt α) (is : IState α) (a : List α)
    (prev : Option (Pt α × Char × List α)) (news : List (Cmd α)) (is' : IState α) (segs : List (Seg α))
    (hn : moveCb dx dy start curr 'a' a prev = .ok news)
    (hi : stepSeg is 'a' a = some (is', segs)) :
    ∃ nc : Cmd α, news = [nc] ∧ nc.1 ∈ letters ∧
      stepSeg (shiftSt dx dy is) nc.1 nc.2 = some (shiftSt dx dy is', segs.map (shiftSeg dx dy)) := by
  letter_move

theorem move_step_um (dx dy : α) (start curr : Pt α) (is : IState α) (a : List α)
    (prev : Option (Pt α × Char × List α)) (news : List (Cmd α)) (is' : IState α) (segs : List (Seg α))
    (hn : moveCb dx dy start curr 'M' a prev = .ok news)
    (hi : stepSeg is 'M' a = some (is', segs)) :
    ∃ nc : Cmd α, news = [nc] ∧ nc.1 ∈ letters ∧
      stepSeg (shiftSt dx dy is) nc.1 nc.2 = some (shiftSt dx dy is', segs.map (shiftSeg dx dy)) := by
  letter_move

theorem move_step_uz (dx dy : α) (start curr : Pt α) (is : IState α) (a : List α)
    (prev : Option (Pt α × Char × List α)) (news : List (Cmd α)) (is' : IState α) (segs : List (Seg α))
    (hn : moveCb dx dy start curr 'Z' a prev = .ok news)
    (hi : stepSeg is 'Z' a = some (is', segs)) :
    ∃ nc : Cmd α, news = [nc] ∧ nc.1 ∈ letters ∧
      stepSeg (shiftSt dx dy is) nc.1 nc.2 = some (shiftSt dx dy is', segs.map (shiftSeg dx dy)) := by
  letter_move

theorem move_step_ul (dx dy : α) (start curr : Pt α) (is : IState α) (a : List α)
    (prev : Option (Pt α × Char × List α)) (news : List (Cmd α)) (is' : IState α) (segs : List (Seg α))
    (hn : moveCb dx dy start curr 'L' a prev = .ok news)
    (hi : stepSeg is 'L' a = some (is', segs)) :
    ∃ nc : Cmd α, news = [nc] ∧ nc.1 ∈ letters ∧
      stepSeg (shiftSt dx dy is) nc.1 nc.2 = some (shiftSt dx dy is', segs.map (shiftSeg dx dy)) := by
  letter_move

theorem move_step_uh (dx dy : α) (start curr : Pt α) (is : IState α) (a : List α)
    (prev : Option (Pt α × Char × List α)) (news : List (Cmd α)) (is' : IState α) (segs : List (Seg α))
    (hn : moveCb dx dy start curr 'H' a prev = .ok news)
    (hi : stepSeg is 'H' a = some (is', segs)) :
    ∃ nc : Cmd α, news = [nc] ∧ nc.1 ∈ letters ∧
      stepSeg (shiftSt dx dy is) nc.1 nc.2 = some (shiftSt dx dy is', segs.map (shiftSeg dx dy)) := by
  letter_move

theorem move_step_uv (dx dy : α) (start curr : Pt α) (is : IState α) (a : List α)
    (prev : Option (Pt α × Char × List α)) (news : List (Cmd α)) (is' : IState α) (segs : List (Seg α))
    (hn : moveCb dx dy start curr 'V' a prev = .ok news)
    (hi : stepSeg is 'V' a = some (is', segs)) :
    ∃ nc : Cmd α, news = [nc] ∧ nc.1 ∈ letters ∧
      stepSeg (shiftSt dx dy is) nc.1 nc.2 = some (shiftSt dx dy is', segs.map (shiftSeg dx dy)) := by
  letter_move

theorem move_step_uc (dx dy : α) (start curr : Pt α) (is : IState α) (a : List α)
    (prev : Option (Pt α × Char × List α)) (news : List (Cmd α)) (is' : IState α) (segs : List (Seg α))
    (hn : moveCb dx dy start curr 'C' a prev = .ok news)
    (hi : stepSeg is 'C' a = some (is', segs)) :
    ∃ nc : Cmd α, news = [nc] ∧ nc.1 ∈ letters ∧
      stepSeg (shiftSt dx dy is) nc.1 nc.2 = some (shiftSt dx dy is', segs.map (shiftSeg dx dy)) := by
  letter_move

theorem move_step_us (dx dy : α) (start curr : Pt α) (is : IState α) (a : List α)
    (prev : Option (Pt α × Char × List α)) (news : List (Cmd α)) (is' : IState α) (segs : List (Seg α))
    (hn : moveCb dx dy start curr 'S' a prev = .ok news)
    (hi : stepSeg is 'S' a = some (is', segs)) :
    ∃ nc : Cmd α, news = [nc] ∧ nc.1 ∈ letters ∧
      stepSeg (shiftSt dx dy is) nc.1 nc.2 = some (shiftSt dx dy is', segs.map (shiftSeg dx dy)) := by
  letter_move

theorem move_step_uq (dx dy : α) (start curr : Pt α) (is : IState α) (a : List α)
    (prev : Option (Pt α × Char × List α)) (news : List (Cmd α)) (is' : IState α) (segs : List (Seg α))
    (hn : moveCb dx dy start curr 'Q' a prev = .ok news)
    (hi : stepSeg is 'Q' a = some (is', segs)) :
    ∃ nc : Cmd α, news = [nc] ∧ nc.1 ∈ letters ∧
      stepSeg (shiftSt dx dy is) nc.1 nc.2 = some (shiftSt dx dy is', segs.map (shiftSeg dx dy)) := by
  letter_move

theorem move_step_ut (dx dy : α) (start curr : Pt α) (is : IState α) (a : List α)
    (prev : Option (Pt α × Char × List α)) (news : List (Cmd α)) (is' : IState α) (segs : List (Seg α))
    (hn : moveCb dx dy start curr 'T' a prev = .ok news)
    (hi : stepSeg is 'T' a = some (is', segs)) :
    ∃ nc : Cmd α, news = [nc] ∧ nc.1 ∈ letters ∧
      stepSeg (shiftSt dx dy is) nc.1 nc.2 = some (shiftSt dx dy is', segs.map (shiftSeg dx dy)) := by
  letter_move

theorem move_step_ua (dx dy : α) (start curr : Pt α) (is : IState α) (a : List α)
    (prev : Option (Pt α × Char × List α)) (news : List (Cmd α)) (is' : IState α) (segs : List (Seg α))
    (hn : moveCb dx dy start curr 'A' a prev = .ok news)
    (hi : stepSeg is 'A' a = some (is', segs)) :
    ∃ nc : Cmd α, news = [nc] ∧ nc.1 ∈ letters ∧
      stepSeg (shiftSt dx dy is) nc.1 nc.2 = some (shiftSt dx dy is', segs.map (shiftSeg dx dy)) := by
  letter_move

theorem move_step (dx dy : α) (start curr : Pt α) (is : IState α) (c : Char) (a : List α)
    (prev : Option (Pt α × Char × List α)) (news : List (Cmd α)) (is' : IState α) (segs : List (Seg α))
    (hc : c ∈ letters)
    (hn : moveCb dx dy start curr c a prev = .ok news)
    (hi : stepSeg is c a = some (is', segs)) :
    ∃ nc : Cmd α, news = [nc] ∧ nc.1 ∈ letters ∧
      stepSeg (shiftSt dx dy is) nc.1 nc.2 = some (shiftSt dx dy is', segs.map (shiftSeg dx dy)) := by
  simp only [List.mem_cons, List.mem_nil_iff, or_false] at hc
  rcases hc with rfl | rfl | rfl | rfl | rfl | rfl | rfl | rfl | rfl | rfl | rfl | rfl | rfl | rfl | rfl | rfl | rfl | rfl | rfl | rfl
  · exact move_step_lm dx dy start curr is a prev news is' segs hn hi
  · exact move_step_lz dx dy start curr is a prev news is' segs hn hi
  · exact move_step_ll dx dy start curr is a prev news is' segs hn hi
  · exact move_step_lh dx dy start curr is a prev news is' segs hn hi
  · exact move_step_lv dx dy start curr is a prev news is' segs hn hi
  · exact move_step_lc dx dy start curr is a prev news is' segs hn hi
  · exact move_step_ls dx dy start curr is a prev news is' segs hn hi
  · exact move_step_lq dx dy start curr is a prev news is' segs hn hi
  · exact move_step_lt dx dy start curr is a prev news is' segs hn hi
  · exact move_step_la dx dy start curr is a prev news is' segs hn hi
  · exact move_step_um dx dy start curr is a prev news is' segs hn hi
  · exact move_step_uz dx dy start curr is a prev news is' segs hn hi
  · exact move_step_ul dx dy start curr is a prev news is' segs hn hi
  · exact move_step_uh dx dy start curr is a prev news is' segs hn hi
  · exact move_step_uv dx dy start curr is a prev news is' segs hn hi
  · exact move_step_uc dx dy start curr is a prev news is' segs hn hi
  · exact move_step_us dx dy start curr is a prev news is' segs hn hi
  · exact move_step_uq dx dy start curr is a prev news is' segs hn hi
  · exact move_step_ut dx dy start curr is a prev news is' segs hn hi
  · exact move_step_ua dx dy start curr is a prev news is' segs hn hi

set_option hygiene false in
macro "first_move" : tactic => `(tactic| (
  unfold stepSeg at hi
  split at hi <;> simp at *
  all_goals (
    simp [moveCb, coords, Gen.cmdCoords, List.lookup, addAt, List.zipIdx, pure, Except.pure, bind, Except.bind] at hn
    subst hn
    obtain ⟨rfl, rfl⟩ := hi
    simp [stepSeg, shiftSt, shiftPt, shiftSeg, shiftLast, initState, add_comm])))

/-- the leading moveto (the walker renames a leading `m` to `M`): both interpreters start at the origin, and end up a
    shift apart -/
theorem move_first_uM (dx dy : α) (start curr : Pt α) (a : List α)
    (prev : Option (Pt α × Char × List α)) (news : List (Cmd α)) (is' : IState α) (segs : List (Seg α))
    (hn : moveCb dx dy start curr 'M' a prev = .ok news)
    (hi : stepSeg (initState : IState α) 'M' a = some (is', segs)) :
    ∃ nc : Cmd α, news = [nc] ∧ nc.1 ∈ letters ∧
      stepSeg (initState : IState α) nc.1 nc.2 = some (shiftSt dx dy is', segs.map (shiftSeg dx dy)) := by
  first_move

theorem move_first_lm (dx dy : α) (start curr : Pt α) (a : List α)
    (prev : Option (Pt α × Char × List α)) (news : List (Cmd α)) (is' : IState α) (segs : List (Seg α))
    (hn : moveCb dx dy start curr 'M' a prev = .ok news)
    (hi : stepSeg (initState : IState α) 'm' a = some (is', segs)) :
    ∃ nc : Cmd α, news = [nc] ∧ nc.1 ∈ letters ∧
      stepSeg (initState : IState α) nc.1 nc.2 = some (shiftSt dx dy is', segs.map (shiftSeg dx dy)) := by
  first_move

/-- a step of the `move` walk, against the interpreter of the input (`is`) and the interpreter of the output
    (`shiftSt is`), once a subpath has been opened -/
theorem step_sim_move (dx dy : α) (ws : WalkState α) (is : IState α) (idx : Nat) (c : Char) (a : List α)
    (ws' : WalkState α) (is' : IState α) (segs : List (Seg α)) (hidx : idx ≠ 0)
    (h1 : ws.curr = (shiftSt dx dy is).cur) (h2 : ws.start = (shiftSt dx dy is).start)
    (hw : step (moveCb dx dy) ws idx (c, a) = .ok ws') (hi : stepSeg is c a = some (is', segs)) :
    ∃ nc : Cmd α, ws'.out = ws.out ++ [(ws.curr, nc)] ∧
      stepSeg (shiftSt dx dy is) nc.1 nc.2 = some (shiftSt dx dy is', segs.map (shiftSeg dx dy)) ∧
      ws'.curr = (shiftSt dx dy is').cur ∧ ws'.start = (shiftSt dx dy is').start := by
  simp only [step] at hw
  obtain ⟨k0, hk, hw⟩ := bind_eq_ok.mp hw
  obtain ⟨news, hn, hw⟩ := bind_eq_ok.mp hw
  have hk' : ∃ k, PathLex.numArgs c = some k := by
    unfold PathLex.checkCmd at hk
    cases hnum : PathLex.numArgs c with
    | none => simp [hnum] at hk
    | some k => exact ⟨k, rfl⟩
  obtain ⟨k, hk'⟩ := hk'
  have hc := numArgs_letters c k hk'
  have hcc : (if (idx == 0 && c == 'm') = true then 'M' else c) = c := by simp [hidx]
  rw [hcc] at hn
  obtain ⟨nc, rfl, hl, hs⟩ := move_step dx dy ws.start ws.curr is c a _ news is' segs hc hn hi
  simp only [List.foldlM] at hw
  obtain ⟨st1, happ, hp⟩ := bind_eq_ok.mp hw
  have : st1 = ws' := pure_eq_ok.mp hp
  subst this
  obtain ⟨r1, r2, r3⟩ := applyNew_sim ws (shiftSt dx dy is) nc.1 nc.2 st1 _ _ hl h1 h2 (by simpa using happ) hs
  exact ⟨nc, by simpa using r3, hs, r1, r2⟩

theorem walkFrom_sim_move (dx dy : α) (cmds : List (Cmd α)) (ws : WalkState α) (is : IState α) (idx : Nat)
    (ws' : WalkState α) (segs : List (Seg α)) (hidx : idx ≠ 0)
    (h1 : ws.curr = (shiftSt dx dy is).cur) (h2 : ws.start = (shiftSt dx dy is).start)
    (hw : walkFrom (moveCb dx dy) ws idx cmds = .ok ws') (hi : interpFrom is cmds = some segs) :
    ∃ news : List (Pt α × Cmd α), ws'.out = ws.out ++ news ∧
      interpFrom (shiftSt dx dy is) (news.map (·.2)) = some (segs.map (shiftSeg dx dy)) := by
  induction cmds generalizing ws is idx segs with
  | nil =>
    simp only [walkFrom] at hw
    injection hw with hw; subst hw
    simp only [interpFrom, Option.some.injEq] at hi
    subst hi
    exact ⟨[], by simp, by simp [interpFrom]⟩
  | cons cmd rest ih =>
    obtain ⟨c, a⟩ := cmd
    simp only [walkFrom] at hw
    obtain ⟨ws1, hs1, hw⟩ := bind_eq_ok.mp hw
    simp only [interpFrom] at hi
    cases hstep : stepSeg is c a with
    | none => simp [hstep] at hi
    | some r =>
      obtain ⟨is1, s1⟩ := r
      simp only [hstep] at hi
      cases hrest : interpFrom is1 rest with
      | none => simp [hrest] at hi
      | some l =>
        simp only [hrest, Option.some.injEq] at hi
        obtain ⟨nc, hout, hnc, r1, r2⟩ := step_sim_move dx dy ws is idx c a ws1 is1 s1 hidx h1 h2 hs1 hstep
        obtain ⟨news', hout', hint'⟩ := ih ws1 is1 (idx + 1) l (by omega) r1 r2 hw hrest
        refine ⟨(ws.curr, nc) :: news', by rw [hout', hout]; simp, ?_⟩
        simp only [List.map_cons, interpFrom, hnc, hint', ← hi, List.map_append]

/-- `move(dx, dy)` translates the curve: for a path that starts with a moveto (as every path picosvg emits does), the
    drawn segments of the result are the drawn segments of the input, each shifted by (dx, dy) -/
theorem move_interp (dx dy : α) (c0 : Char) (a0 : List α) (rest out : List (Cmd α)) (segs : List (Seg α))
    (hc0 : c0 = 'M' ∨ c0 = 'm')
    (h : move dx dy ((c0, a0) :: rest) = .ok out) (hi : interp ((c0, a0) :: rest) = some segs) :
    interp out = some (segs.map (shiftSeg dx dy)) := by
  simp only [move, walk, walkFrom] at h
  obtain ⟨st, hst, h⟩ := bind_eq_ok.mp h
  have : st.out.map (·.2) = out := pure_eq_ok.mp h
  subst this
  obtain ⟨ws1, hs1, hw⟩ := bind_eq_ok.mp hst
  simp only [interp, interpFrom] at hi
  cases hstep : stepSeg (initState : IState α) c0 a0 with
  | none => simp [hstep] at hi
  | some r =>
    obtain ⟨is1, s1⟩ := r
    simp only [hstep] at hi
    cases hrest : interpFrom is1 rest with
    | none => simp [hrest] at hi
    | some l =>
      simp only [hrest, Option.some.injEq] at hi
      -- the first step
      simp only [step] at hs1
      obtain ⟨k0, hk, hs1⟩ := bind_eq_ok.mp hs1
      obtain ⟨news, hn, hs1⟩ := bind_eq_ok.mp hs1
      have hfirst : ∃ nc : Cmd α, news = [nc] ∧ nc.1 ∈ letters ∧
          stepSeg (initState : IState α) nc.1 nc.2 = some (shiftSt dx dy is1, s1.map (shiftSeg dx dy)) := by
        rcases hc0 with rfl | rfl
        · exact move_first_uM dx dy _ _ a0 _ news is1 s1 (by simpa using hn) hstep
        · exact move_first_lm dx dy _ _ a0 _ news is1 s1 (by simpa using hn) hstep
      obtain ⟨nc, rfl, hl, hs⟩ := hfirst
      simp only [List.foldlM] at hs1
      obtain ⟨st1, happ, hp⟩ := bind_eq_ok.mp hs1
      have : st1 = ws1 := pure_eq_ok.mp hp
      subst this
      obtain ⟨r1, r2, r3⟩ := applyNew_sim _ (initState : IState α) nc.1 nc.2 st1 _ _ hl rfl rfl (by simpa using happ) hs
      obtain ⟨news', hout', hint'⟩ := walkFrom_sim_move dx dy rest st1 is1 1 st l (by omega) r1 r2 hw hrest
      rw [hout', r3]
      simp only [List.nil_append, List.map_append, List.map_cons, List.map_nil, List.singleton_append, interp, interpFrom, hs,
        hint', ← hi, List.map_append]

end PicoSVG.PathSim
