/-
  C08: `_remove_orphaned_gradients` leaves no unused gradient — the tree surgery (`Node.removeUid` folded over the
  gradients that are not in use) by mutual structural induction over the rewrite.
-/
import PicoSVG.Model.Simplify
namespace PicoSVG.OrphanP
open PicoSVG Node SvgObj

abbrev Sig := Nat × String × Attrs

mutual
  /-- (uid, tag, attributes) of the elements of a subtree in document order -/
  def sigs : Node → List Sig
    | .elem u t a cs => (u, t, a) :: sigsL cs
    | _ => []
  def sigsL : List Node → List Sig
    | [] => []
    | c :: cs => sigs c ++ sigsL cs
end

theorem sigsL_append (xs ys : List Node) : sigsL (xs ++ ys) = sigsL xs ++ sigsL ys := by
  induction xs with
  | nil => rfl
  | cons x xs ih => simp [sigsL, ih]

def sigOf (n : Node) : Sig := (n.uid, n.tag, n.attrs)

mutual
  theorem elems_sigs (n : Node) : (n.flat.filter isElem).map sigOf = sigs n := by
    cases n with
    | elem u t a cs =>
      simp only [flat, List.filter_cons, isElem, if_true, List.map_cons, sigOf, Node.uid, Node.tag, Node.attrs, sigs]
      rw [elemsL_sigs cs]
    | comment => rfl
    | pi => rfl
    | text s => rfl
    | entity => rfl
  theorem elemsL_sigs (cs : List Node) : ((flatList cs).filter isElem).map sigOf = sigsL cs := by
    cases cs with
    | nil => rfl
    | cons c cs =>
      simp only [flatList, List.filter_append, List.map_append, sigsL]
      rw [elems_sigs c, elemsL_sigs cs]
end

def rm (u : Nat) : Node → List Node := fun n => if n.isElem && n.uid == u then [] else [n]

mutual
  theorem sigs_rewrite_rm (u : Nat) (n : Node) : ∀ x ∈ sigsL (rewrite (rm u) n), x ∈ sigs n ∧ x.1 ≠ u := by
    cases n with
    | elem v t a cs =>
      intro x hx
      simp only [rewrite, rm, Node.isElem, Node.uid, Bool.true_and] at hx
      by_cases h : (v == u) = true
      · simp [h, sigsL] at hx
      · simp only [h, Bool.false_eq_true, if_false, sigsL, sigs, List.append_nil, List.mem_cons] at hx
        rcases hx with rfl | hx
        · exact ⟨by simp [sigs], by simpa using h⟩
        · obtain ⟨h1, h2⟩ := sigsL_rewriteList_rm u false cs x hx
          exact ⟨by simp [sigs, h1], h2⟩
    | comment => intro x hx; simp [rewrite, rm, Node.isElem, sigsL, sigs] at hx
    | pi => intro x hx; simp [rewrite, rm, Node.isElem, sigsL, sigs] at hx
    | text s => intro x hx; simp [rewrite, rm, Node.isElem, sigsL, sigs] at hx
    | entity => intro x hx; simp [rewrite, rm, Node.isElem, sigsL, sigs] at hx
  theorem sigsL_rewriteList_rm (u : Nat) (b : Bool) (cs : List Node) :
      ∀ x ∈ sigsL (rewriteList (rm u) b cs), x ∈ sigsL cs ∧ x.1 ≠ u := by
    cases cs with
    | nil => intro x hx; simp [rewriteList, sigsL] at hx
    | cons c cs =>
      intro x hx
      unfold rewriteList at hx
      split at hx
      · obtain ⟨h1, h2⟩ := sigsL_rewriteList_rm u false cs x hx
        exact ⟨by simp [sigsL, h1], h2⟩
      · simp only [sigsL_append, List.mem_append] at hx
        rcases hx with hx | hx
        · obtain ⟨h1, h2⟩ := sigs_rewrite_rm u c x hx
          exact ⟨by simp [sigsL, h1], h2⟩
        · obtain ⟨h1, h2⟩ := sigsL_rewriteList_rm u _ cs x hx
          exact ⟨by simp [sigsL, h1], h2⟩
end

/-- `Node.removeUid` on an element tree: what is left was there before, and below the root nothing carries the removed uid -/
theorem sigs_removeUid (root : Node) (u : Nat) :
    ∀ x ∈ sigs (removeUid root u), x ∈ sigs root ∧ (x.1 ≠ u ∨ x = sigOf root) := by
  cases root with
  | elem v t a cs =>
    intro x hx
    simp only [removeUid, replaceUid, rewriteBelow, Node.setChildren, Node.children, sigs, List.mem_cons] at hx
    rcases hx with rfl | hx
    · exact ⟨by simp [sigs], Or.inr rfl⟩
    · have : (fun n : Node => if (n.isElem && n.uid == u) = true then ([] : List Node) else [n]) = rm u := rfl
      rw [this] at hx
      obtain ⟨h1, h2⟩ := sigsL_rewriteList_rm u false cs x hx
      exact ⟨by simp [sigs, h1], Or.inl h2⟩
  | comment => intro x hx; simp [removeUid, replaceUid, rewriteBelow, Node.setChildren, sigs] at hx
  | pi => intro x hx; simp [removeUid, replaceUid, rewriteBelow, Node.setChildren, sigs] at hx
  | text s => intro x hx; simp [removeUid, replaceUid, rewriteBelow, Node.setChildren, sigs] at hx
  | entity => intro x hx; simp [removeUid, replaceUid, rewriteBelow, Node.setChildren, sigs] at hx
theorem sigOf_removeUid (root : Node) (u : Nat) : sigOf (removeUid root u) = sigOf root := by
  cases root <;> rfl

def step (used : List String) (r g : Node) : Node := if gradKept used g.attrs then r else removeUid r g.uid

theorem sigOf_fold (used : List String) (gs : List Node) (r : Node) : sigOf (gs.foldl (step used) r) = sigOf r := by
  induction gs generalizing r with
  | nil => rfl
  | cons g gs ih =>
    simp only [List.foldl_cons]
    rw [ih]
    unfold step
    split
    · rfl
    · exact sigOf_removeUid r g.uid

/-- after the loop, whatever is left was there before, and is neither a processed orphan nor anything but the root -/
theorem sigs_fold (used : List String) (gs : List Node) (r : Node) :
    ∀ x ∈ sigs (gs.foldl (step used) r), x ∈ sigs r ∧
      (x = sigOf r ∨ ∀ g ∈ gs, gradKept used g.attrs = false → x.1 ≠ g.uid) := by
  induction gs generalizing r with
  | nil => intro x hx; exact ⟨hx, Or.inr (by simp)⟩
  | cons g gs ih =>
    intro x hx
    simp only [List.foldl_cons] at hx
    obtain ⟨h1, h2⟩ := ih (step used r g) x hx
    by_cases hk : gradKept used g.attrs = true
    · have hs : step used r g = r := by simp [step, hk]
      rw [hs] at h1 h2
      refine ⟨h1, ?_⟩
      rcases h2 with h2 | h2
      · exact Or.inl h2
      · right
        intro g' hg' hk'
        rcases List.mem_cons.mp hg' with rfl | hg'
        · rw [hk] at hk'; exact absurd hk' (by simp)
        · exact h2 g' hg' hk'
    · have hs : step used r g = removeUid r g.uid := by simp [step, hk]
      rw [hs] at h1 h2
      obtain ⟨h3, h4⟩ := sigs_removeUid r g.uid x h1
      refine ⟨h3, ?_⟩
      rw [sigOf_removeUid] at h2
      rcases h2 with h2 | h2
      · exact Or.inl h2
      · rcases h4 with h4 | h4
        · right
          intro g' hg' hk'
          rcases List.mem_cons.mp hg' with rfl | hg'
          · exact h4
          · exact h2 g' hg' hk'
        · exact Or.inl h4

theorem mem_sigs_elems (n : Node) (x : Sig) (h : x ∈ sigs n) : ∃ m ∈ n.elems, sigOf m = x := by
  rw [← elems_sigs] at h
  obtain ⟨m, hm, e⟩ := List.mem_map.mp h
  exact ⟨m, hm, e⟩

/-- C08 (no orphan): after `_remove_orphaned_gradients` every gradient element left in the document (anything the
    gradient selector matches, below the root) has an id that is in use -/
theorem pruneGrads_no_orphan (used : List String) (root : Node) :
    ∀ m ∈ (pruneGrads used root).elems, isGradElem m = true → sigOf m ≠ sigOf root → gradKept used m.attrs = true := by
  intro m hm hg hroot
  have hx : sigOf m ∈ sigs (pruneGrads used root) := by
    rw [← elems_sigs]; exact List.mem_map_of_mem hm
  have hfold : pruneGrads used root = (root.elems.filter isGradElem).foldl (step used) root := rfl
  rw [hfold] at hx
  obtain ⟨h1, h2⟩ := sigs_fold used _ root _ hx
  rcases h2 with h2 | h2
  · exact absurd h2 hroot
  · obtain ⟨g, hg1, hg2⟩ := mem_sigs_elems root _ h1
    -- g is an element of the source tree with m's uid, tag and attributes: it is a gradient, so it was processed
    have htag : g.tag = m.tag := by
      have := congrArg (fun s : Sig => s.2.1) hg2; simpa [sigOf] using this
    have hattrs : g.attrs = m.attrs := by
      have := congrArg (fun s : Sig => s.2.2) hg2; simpa [sigOf] using this
    have huid : g.uid = m.uid := by
      have := congrArg (fun s : Sig => s.1) hg2; simpa [sigOf] using this
    have hgg : isGradElem g = true := by
      unfold isGradElem Node.localTag at hg ⊢
      rw [htag]; exact hg
    have hmem : g ∈ root.elems.filter isGradElem := List.mem_filter.mpr ⟨hg1, hgg⟩
    cases hk : gradKept used m.attrs with
    | true => rfl
    | false =>
      exfalso
      have := h2 g hmem (by rw [hattrs]; exact hk)
      exact this (by simp [sigOf, huid])
end PicoSVG.OrphanP
