/-
  Generic form of the walk simulation (any callback that is sound command by command), and its instance for
  `absolute()`: twenty per-letter lemmas (generated mechanically), each closed by the same tactic.
-/
import PicoSVG.Proofs.PathSim
import Mathlib.Tactic.Linarith

set_option linter.unusedSectionVars false
set_option linter.unusedVariables false
set_option linter.unusedSimpArgs false

namespace PicoSVG.PathSim
open PicoSVG Path Spec

variable {α : Type} [Field α] [LinearOrder α] [IsStrictOrderedRing α]

abbrev letters : List Char := ['m', 'z', 'l', 'h', 'v', 'c', 's', 'q', 't', 'a', 'M', 'Z', 'L', 'H', 'V', 'C', 'S', 'Q', 'T', 'A']

/-- a callback that looks only at the current command: what it emits is a single command, one of the twenty letters,
    that draws exactly what the original command draws from the same interpreter state -/
def CbSound (cb : Callback α) : Prop :=
  ∀ (ws : WalkState α) (is : IState α) (idx : Nat) (c : Char) (a : List α)
    (prev : Option (Pt α × Char × List α)) (news : List (Cmd α)) (r : IState α × List (Seg α)),
    c ∈ letters → ws.curr = is.cur → ws.start = is.start → (idx = 0 → is.cur = ⟨0, 0⟩) →
    cb ws.start ws.curr (if idx == 0 && c == 'm' then 'M' else c) a prev = .ok news →
    stepSeg is c a = some r →
    ∃ nc : Cmd α, news = [nc] ∧ nc.1 ∈ letters ∧ stepSeg is nc.1 nc.2 = some r

theorem step_sim' (cb : Callback α) (hcb : CbSound cb) (ws : WalkState α) (is : IState α) (idx : Nat) (c : Char)
    (a : List α) (ws' : WalkState α) (is' : IState α) (segs : List (Seg α)) (h1 : ws.curr = is.cur)
    (h2 : ws.start = is.start) (h0 : idx = 0 → is.cur = ⟨0, 0⟩)
    (hw : step cb ws idx (c, a) = .ok ws') (hi : stepSeg is c a = some (is', segs)) :
    ∃ nc : Cmd α, ws'.out = ws.out ++ [(ws.curr, nc)] ∧ stepSeg is nc.1 nc.2 = some (is', segs) ∧
      ws'.curr = is'.cur ∧ ws'.start = is'.start := by
  simp only [step] at hw
  obtain ⟨k0, hk, hw⟩ := bind_eq_ok.mp hw
  obtain ⟨news, hn, hw⟩ := bind_eq_ok.mp hw
  have hk' : ∃ k, PathLex.numArgs c = some k := by
    unfold PathLex.checkCmd at hk
    cases hnum : PathLex.numArgs c with
    | none => simp [hnum] at hk
    | some k => exact ⟨k, rfl⟩
  obtain ⟨k, hk'⟩ := hk'
  have hc := numArgs_letters c k hk'
  obtain ⟨nc, rfl, hl, hs⟩ := hcb ws is idx c a _ news (is', segs) hc h1 h2 h0 hn hi
  simp only [List.foldlM] at hw
  obtain ⟨st1, happ, hp⟩ := bind_eq_ok.mp hw
  have : st1 = ws' := pure_eq_ok.mp hp
  subst this
  obtain ⟨r1, r2, r3⟩ := applyNew_sim ws is nc.1 nc.2 st1 is' segs hl h1 h2 (by simpa using happ) hs
  exact ⟨nc, by simpa using r3, hs, r1, r2⟩

theorem walkFrom_sim' (cb : Callback α) (hcb : CbSound cb) (cmds : List (Cmd α)) (ws : WalkState α) (is : IState α)
    (idx : Nat) (ws' : WalkState α) (segs : List (Seg α)) (h1 : ws.curr = is.cur) (h2 : ws.start = is.start)
    (h0 : idx = 0 → is.cur = ⟨0, 0⟩)
    (hw : walkFrom cb ws idx cmds = .ok ws') (hi : interpFrom is cmds = some segs) :
    ∃ news : List (Pt α × Cmd α), ws'.out = ws.out ++ news ∧ interpFrom is (news.map (·.2)) = some segs := by
  induction cmds generalizing ws is idx segs with
  | nil =>
    simp only [walkFrom] at hw
    injection hw with hw; subst hw
    exact ⟨[], by simp, by simpa [interpFrom] using hi⟩
  | cons cmd rest ih =>
    obtain ⟨c, a⟩ := cmd
    simp only [walkFrom] at hw
    obtain ⟨ws1, hs1, hw⟩ := bind_eq_ok.mp hw
    simp only [interpFrom] at hi
    cases hstep : stepSeg is c a with
    | none => simp [hstep] at hi
    | some r =>
      obtain ⟨is1, s1⟩ := r
      simp only [hstep] at hi
      cases hrest : interpFrom is1 rest with
      | none => simp [hrest] at hi
      | some l =>
        simp only [hrest, Option.some.injEq] at hi
        obtain ⟨nc, hout, hnc, r1, r2⟩ := step_sim' cb hcb ws is idx c a ws1 is1 s1 h1 h2 h0 hs1 hstep
        obtain ⟨news', hout', hint'⟩ := ih ws1 is1 (idx + 1) l r1 r2 (by omega) hw hrest
        refine ⟨(ws.curr, nc) :: news', by rw [hout', hout]; simp, ?_⟩
        simp only [List.map_cons, interpFrom, hnc, hint', hi]

/-- any walk whose callback is sound preserves the interpretation -/
theorem walk_sim (cb : Callback α) (hcb : CbSound cb) (cmds out : List (Cmd α)) (segs : List (Seg α))
    (h : walk cb cmds = .ok out) (hi : interp cmds = some segs) : interp out = some segs := by
  simp only [walk] at h
  obtain ⟨st, hst, h⟩ := bind_eq_ok.mp h
  have : st.out.map (·.2) = out := pure_eq_ok.mp h
  subst this
  obtain ⟨news, hout, hint⟩ := walkFrom_sim' cb hcb cmds _ initState 0 st segs rfl rfl (fun _ => rfl) hst hi
  simp only [List.nil_append] at hout
  rw [hout]; exact hint


set_option hygiene false in
macro "letter_abs" : tactic => `(tactic| (
  unfold stepSeg at hi
  split at hi <;> simp at *
  all_goals (
    by_cases hidx : idx = 0
    all_goals (
      simp [hidx, rewriteCb, relToAbs, rewriteCoords, coords, Gen.cmdCoords, List.lookup, addAt, nextPos, getArg,
        List.zipIdx, pure, Except.pure, bind, Except.bind] at hn
      try split at hn
      all_goals first
        | (rename_i hcnd; have hh := hns _ _ hcnd.1; simp [hh] at hcnd; done)
        | (rename_i hcnd; have hh := hns _ _ hcnd.1.1; simp [hh] at hcnd; done)
        | (simp at hn; subst hn
           first | simp [stepSeg, ← hi, h1, h0 hidx, add_comm] | simp [stepSeg, ← hi, h1, add_comm])))))

theorem abs_sound_lm (tol : α) (hns : ∀ p q : Pt α, (p == q) = false → ptAlmostEq tol p q = false)
    (ws : WalkState α) (is : IState α) (idx : Nat) (a : List α)
    (prev : Option (Pt α × Char × List α)) (news : List (Cmd α)) (r : IState α × List (Seg α))
    (h1 : ws.curr = is.cur) (h2 : ws.start = is.start) (h0 : idx = 0 → is.cur = ⟨0, 0⟩)
    (hn : rewriteCb tol (relToAbs (α := α)) ws.start ws.curr (if idx == 0 && 'm' == 'm' then 'M' else 'm') a prev = .ok news)
    (hi : stepSeg is 'm' a = some r) :
    ∃ nc : Cmd α, news = [nc] ∧ nc.1 ∈ letters ∧ stepSeg is nc.1 nc.2 = some r := by
  letter_abs

theorem abs_sound_lz (tol : α) (hns : ∀ p q : Pt α, (p == q) = false → ptAlmostEq tol p q = false)
    (ws : WalkState α) (is : IState α) (idx : Nat) (a : List α)
    (prev : Option (Pt α × Char × List α)) (news : List (Cmd α)) (r : IState α × List (Seg α))
    (h1 : ws.curr = is.cur) (h2 : ws.start = is.start) (h0 : idx = 0 → is.cur = ⟨0, 0⟩)
    (hn : rewriteCb tol (relToAbs (α := α)) ws.start ws.curr (if idx == 0 && 'z' == 'm' then 'M' else 'z') a prev = .ok news)
    (hi : stepSeg is 'z' a = some r) :
    ∃ nc : Cmd α, news = [nc] ∧ nc.1 ∈ letters ∧ stepSeg is nc.1 nc.2 = some r := by
  letter_abs

theorem abs_sound_ll (tol : α) (hns : ∀ p q : Pt α, (p == q) = false → ptAlmostEq tol p q = false)
    (ws : WalkState α) (is : IState α) (idx : Nat) (a : List α)
    (prev : Option (Pt α × Char × List α)) (news : List (Cmd α)) (r : IState α × List (Seg α))
    (h1 : ws.curr = is.cur) (h2 : ws.start = is.start) (h0 : idx = 0 → is.cur = ⟨0, 0⟩)
    (hn : rewriteCb tol (relToAbs (α := α)) ws.start ws.curr (if idx == 0 && 'l' == 'm' then 'M' else 'l') a prev = .ok news)
    (hi : stepSeg is 'l' a = some r) :
    ∃ nc : Cmd α, news = [nc] ∧ nc.1 ∈ letters ∧ stepSeg is nc.1 nc.2 = some r := by
  letter_abs

theorem abs_sound_lh (tol : α) (hns : ∀ p q : Pt α, (p == q) = false → ptAlmostEq tol p q = false)
    (ws : WalkState α) (is : IState α) (idx : Nat) (a : List α)
    (prev : Option (Pt α × Char × List α)) (news : List (Cmd α)) (r : IState α × List (Seg α))
    (h1 : ws.curr = is.cur) (h2 : ws.start = is.start) (h0 : idx = 0 → is.cur = ⟨0, 0⟩)
    (hn : rewriteCb tol (relToAbs (α := α)) ws.start ws.curr (if idx == 0 && 'h' == 'm' then 'M' else 'h') a prev = .ok news)
    (hi : stepSeg is 'h' a = some r) :
    ∃ nc : Cmd α, news = [nc] ∧ nc.1 ∈ letters ∧ stepSeg is nc.1 nc.2 = some r := by
  letter_abs

theorem abs_sound_lv (tol : α) (hns : ∀ p q : Pt α, (p == q) = false → ptAlmostEq tol p q = false)
    (ws : WalkState α) (is : IState α) (idx : Nat) (a : List α)
    (prev : Option (Pt α × Char × List α)) (news : List (Cmd α)) (r : IState α × List (Seg α))
    (h1 : ws.curr = is.cur) (h2 : ws.start = is.start) (h0 : idx = 0 → is.cur = ⟨0, 0⟩)
    (hn : rewriteCb tol (relToAbs (α := α)) ws.start ws.curr (if idx == 0 && 'v' == 'm' then 'M' else 'v') a prev = .ok news)
    (hi : stepSeg is 'v' a = some r) :
    ∃ nc : Cmd α, news = [nc] ∧ nc.1 ∈ letters ∧ stepSeg is nc.1 nc.2 = some r := by
  letter_abs

theorem abs_sound_lc (tol : α) (hns : ∀ p q : Pt α, (p == q) = false → ptAlmostEq tol p q = false)
    (ws : WalkState α) (is : IState α) (idx : Nat) (a : List α)
    (prev : Option (Pt α × Char × List α)) (news : List (Cmd α)) (r : IState α × List (Seg α))
    (h1 : ws.curr = is.cur) (h2 : ws.start = is.start) (h0 : idx = 0 → is.cur = ⟨0, 0⟩)
    (hn : rewriteCb tol (relToAbs (α := α)) ws.start ws.curr (if idx == 0 && 'c' == 'm' then 'M' else 'c') a prev = .ok news)
    (hi : stepSeg is 'c' a = some r) :
    ∃ nc : Cmd α, news = [nc] ∧ nc.1 ∈ letters ∧ stepSeg is nc.1 nc.2 = some r := by
  letter_abs

theorem abs_sound_ls (tol : α) (hns : ∀ p q : Pt α, (p == q) = false → ptAlmostEq tol p q = false)
    (ws : WalkState α) (is : IState α) (idx : Nat) (a : List α)
    (prev : Option (Pt α × Char × List α)) (news : List (Cmd α)) (r : IState α × List (Seg α))
    (h1 : ws.curr = is.cur) (h2 : ws.start = is.start) (h0 : idx = 0 → is.cur = ⟨0, 0⟩)
    (hn : rewriteCb tol (relToAbs (α := α)) ws.start ws.curr (if idx == 0 && 's' == 'm' then 'M' else 's') a prev = .ok news)
    (hi : stepSeg is 's' a = some r) :
    ∃ nc : Cmd α, news = [nc] ∧ nc.1 ∈ letters ∧ stepSeg is nc.1 nc.2 = some r := by
  letter_abs

theorem abs_sound_lq (tol : α) (hns : ∀ p q : Pt α, (p == q) = false → ptAlmostEq tol p q = false)
    (ws : WalkState α) (is : IState α) (idx : Nat) (a : List α)
    (prev : Option (Pt α × Char × List α)) (news : List (Cmd α)) (r : IState α × List (Seg α))
    (h1 : ws.curr = is.cur) (h2 : ws.start = is.start) (h0 : idx = 0 → is.cur = ⟨0, 0⟩)
    (hn : rewriteCb tol (relToAbs (α := α)) ws.start ws.curr (if idx == 0 && 'q' == 'm' then 'M' else 'q') a prev = .ok news)
    (hi : stepSeg is 'q' a = some r) :
    ∃ nc : Cmd α, news = [nc] ∧ nc.1 ∈ letters ∧ stepSeg is nc.1 nc.2 = some r := by
  letter_abs

theorem abs_sound_lt (tol : α) (hns : ∀ p q : Pt α, (p == q) = false → ptAlmostEq tol p q = false)
    (ws : WalkState α) (is : IState α) (idx : Nat) (a : List α)
    (prev : Option (Pt α × Char × List α)) (news : List (Cmd α)) (r : IState α × List (Seg α))
    (h1 : ws.curr = is.cur) (h2 : ws.start = is.start) (h0 : idx = 0 → is.cur = ⟨0, 0⟩)
    (hn : rewriteCb tol (relToAbs (α := α)) ws.start ws.curr (if idx == 0 && 't' == 'm' then 'M' else 't') a prev = .ok news)
    (hi : stepSeg is 't' a = some r) :
    ∃ nc : Cmd α, news = [nc] ∧ nc.1 ∈ letters ∧ stepSeg is nc.1 nc.2 = some r := by
  letter_abs

theorem abs_sound_la (tol : α) (hns : ∀ p q : Pt α, (p == q) = false → ptAlmostEq tol p q = false)
    (ws : WalkState α) (is : IState α) (idx : Nat) (a : List α)
    (prev : Option (Pt α × Char × List α)) (news : List (Cmd α)) (r : IState α × List (Seg α))
    (h1 : ws.curr = is.cur) (h2 : ws.start = is.start) (h0 : idx = 0 → is.cur = ⟨0, 0⟩)
    (hn : rewriteCb tol (relToAbs (α := α)) ws.start ws.curr (if idx == 0 && 'a' == 'm' then 'M' else 'a') a prev = .ok news)
    (hi : stepSeg is 'a' a = some r) :
    ∃ nc : Cmd α, news = [nc] ∧ nc.1 ∈ letters ∧ stepSeg is nc.1 nc.2 = some r := by
  letter_abs

theorem abs_sound_um (tol : α) (hns : ∀ p q : Pt α, (p == q) = false → ptAlmostEq tol p q = false)
    (ws : WalkState α) (is : IState α) (idx : Nat) (a : List α)
    (prev : Option (Pt α × Char × List α)) (news : List (Cmd α)) (r : IState α × List (Seg α))
    (h1 : ws.curr = is.cur) (h2 : ws.start = is.start) (h0 : idx = 0 → is.cur = ⟨0, 0⟩)
    (hn : rewriteCb tol (relToAbs (α := α)) ws.start ws.curr (if idx == 0 && 'M' == 'm' then 'M' else 'M') a prev = .ok news)
    (hi : stepSeg is 'M' a = some r) :
    ∃ nc : Cmd α, news = [nc] ∧ nc.1 ∈ letters ∧ stepSeg is nc.1 nc.2 = some r := by
  letter_abs

theorem abs_sound_uz (tol : α) (hns : ∀ p q : Pt α, (p == q) = false → ptAlmostEq tol p q = false)
    (ws : WalkState α) (is : IState α) (idx : Nat) (a : List α)
    (prev : Option (Pt α × Char × List α)) (news : List (Cmd α)) (r : IState α × List (Seg α))
    (h1 : ws.curr = is.cur) (h2 : ws.start = is.start) (h0 : idx = 0 → is.cur = ⟨0, 0⟩)
    (hn : rewriteCb tol (relToAbs (α := α)) ws.start ws.curr (if idx == 0 && 'Z' == 'm' then 'M' else 'Z') a prev = .ok news)
    (hi : stepSeg is 'Z' a = some r) :
    ∃ nc : Cmd α, news = [nc] ∧ nc.1 ∈ letters ∧ stepSeg is nc.1 nc.2 = some r := by
  letter_abs

theorem abs_sound_ul (tol : α) (hns : ∀ p q : Pt α, (p == q) = false → ptAlmostEq tol p q = false)
    (ws : WalkState α) (is : IState α) (idx : Nat) (a : List α)
    (prev : Option (Pt α × Char × List α)) (news : List (Cmd α)) (r : IState α × List (Seg α))
    (h1 : ws.curr = is.cur) (h2 : ws.start = is.start) (h0 : idx = 0 → is.cur = ⟨0, 0⟩)
    (hn : rewriteCb tol (relToAbs (α := α)) ws.start ws.curr (if idx == 0 && 'L' == 'm' then 'M' else 'L') a prev = .ok news)
    (hi : stepSeg is 'L' a = some r) :
    ∃ nc : Cmd α, news = [nc] ∧ nc.1 ∈ letters ∧ stepSeg is nc.1 nc.2 = some r := by
  letter_abs

theorem abs_sound_uh (tol : α) (hns : ∀ p q : Pt α, (p == q) = false → ptAlmostEq tol p q = false)
    (ws : WalkState α) (is : IState α) (idx : Nat) (a : List α)
    (prev : Option (Pt α × Char × List α)) (news : List (Cmd α)) (r : IState α × List (Seg α))
    (h1 : ws.curr = is.cur) (h2 : ws.start = is.start) (h0 : idx = 0 → is.cur = ⟨0, 0⟩)
    (hn : rewriteCb tol (relToAbs (α := α)) ws.start ws.curr (if idx == 0 && 'H' == 'm' then 'M' else 'H') a prev = .ok news)
    (hi : stepSeg is 'H' a = some r) :
    ∃ nc : Cmd α, news = [nc] ∧ nc.1 ∈ letters ∧ stepSeg is nc.1 nc.2 = some r := by
  letter_abs

theorem abs_sound_uv (tol : α) (hns : ∀ p q : Pt α, (p == q) = false → ptAlmostEq tol p q = false)
    (ws : WalkState α) (is : IState α) (idx : Nat) (a : List α)
    (prev : Option (Pt α × Char × List α)) (news : List (Cmd α)) (r : IState α × List (Seg α))
    (h1 : ws.curr = is.cur) (h2 : ws.start = is.start) (h0 : idx = 0 → is.cur = ⟨0, 0⟩)
    (hn : rewriteCb tol (relToAbs (α := α)) ws.start ws.curr (if idx == 0 && 'V' == 'm' then 'M' else 'V') a prev = .ok news)
    (hi : stepSeg is 'V' a = some r) :
    ∃ nc : Cmd α, news = [nc] ∧ nc.1 ∈ letters ∧ stepSeg is nc.1 nc.2 = some r := by
  letter_abs

theorem abs_sound_uc (tol : α) (hns : ∀ p q : Pt α, (p == q) = false → ptAlmostEq tol p q = false)
    (ws : WalkState α) (is : IState α) (idx : Nat) (a : List α)
    (prev : Option (Pt α × Char × List α)) (news : List (Cmd α)) (r : IState α × List (Seg α))
    (h1 : ws.curr = is.cur) (h2 : ws.start = is.start) (h0 : idx = 0 → is.cur = ⟨0, 0⟩)
    (hn : rewriteCb tol (relToAbs (α := α)) ws.start ws.curr (if idx == 0 && 'C' == 'm' then 'M' else 'C') a prev = .ok news)
    (hi : stepSeg is 'C' a = some r) :
    ∃ nc : Cmd α, news = [nc] ∧ nc.1 ∈ letters ∧ stepSeg is nc.1 nc.2 = some r := by
  letter_abs

theorem abs_sound_us (tol : α) (hns : ∀ p q : Pt α, (p == q) = false → ptAlmostEq tol p q = false)
    (ws : WalkState α) (is : IState α) (idx : Nat) (a : List α)
    (prev : Option (Pt α × Char × List α)) (news : List (Cmd α)) (r : IState α × List (Seg α))
    (h1 : ws.curr = is.cur) (h2 : ws.start = is.start) (h0 : idx = 0 → is.cur = ⟨0, 0⟩)
    (hn : rewriteCb tol (relToAbs (α := α)) ws.start ws.curr (if idx == 0 && 'S' == 'm' then 'M' else 'S') a prev = .ok news)
    (hi : stepSeg is 'S' a = some r) :
    ∃ nc : Cmd α, news = [nc] ∧ nc.1 ∈ letters ∧ stepSeg is nc.1 nc.2 = some r := by
  letter_abs

theorem abs_sound_uq (tol : α) (hns : ∀ p q : Pt α, (p == q) = false → ptAlmostEq tol p q = false)
    (ws : WalkState α) (is : IState α) (idx : Nat) (a : List α)
    (prev : Option (Pt α × Char × List α)) (news : List (Cmd α)) (r : IState α × List (Seg α))
    (h1 : ws.curr = is.cur) (h2 : ws.start = is.start) (h0 : idx = 0 → is.cur = ⟨0, 0⟩)
    (hn : rewriteCb tol (relToAbs (α := α)) ws.start ws.curr (if idx == 0 && 'Q' == 'm' then 'M' else 'Q') a prev = .ok news)
    (hi : stepSeg is 'Q' a = some r) :
    ∃ nc : Cmd α, news = [nc] ∧ nc.1 ∈ letters ∧ stepSeg is nc.1 nc.2 = some r := by
  letter_abs

theorem abs_sound_ut (tol : α) (hns : ∀ p q : Pt α, (p == q) = false → ptAlmostEq tol p q = false)
    (ws : WalkState α) (is : IState α) (idx : Nat) (a : List α)
    (prev : Option (Pt α × Char × List α)) (news : List (Cmd α)) (r : IState α × List (Seg α))
    (h1 : ws.curr = is.cur) (h2 : ws.start = is.start) (h0 : idx = 0 → is.cur = ⟨0, 0⟩)
    (hn : rewriteCb tol (relToAbs (α := α)) ws.start ws.curr (if idx == 0 && 'T' == 'm' then 'M' else 'T') a prev = .ok news)
    (hi : stepSeg is 'T' a = some r) :
    ∃ nc : Cmd α, news = [nc] ∧ nc.1 ∈ letters ∧ stepSeg is nc.1 nc.2 = some r := by
  letter_abs

theorem abs_sound_ua (tol : α) (hns : ∀ p q : Pt α, (p == q) = false → ptAlmostEq tol p q = false)
    (ws : WalkState α) (is : IState α) (idx : Nat) (a : List α)
    (prev : Option (Pt α × Char × List α)) (news : List (Cmd α)) (r : IState α × List (Seg α))
    (h1 : ws.curr = is.cur) (h2 : ws.start = is.start) (h0 : idx = 0 → is.cur = ⟨0, 0⟩)
    (hn : rewriteCb tol (relToAbs (α := α)) ws.start ws.curr (if idx == 0 && 'A' == 'm' then 'M' else 'A') a prev = .ok news)
    (hi : stepSeg is 'A' a = some r) :
    ∃ nc : Cmd α, news = [nc] ∧ nc.1 ∈ letters ∧ stepSeg is nc.1 nc.2 = some r := by
  letter_abs

theorem absolute_cb_sound (tol : α) (hns : ∀ p q : Pt α, (p == q) = false → ptAlmostEq tol p q = false) :
    CbSound (rewriteCb tol (relToAbs (α := α))) := by
  intro ws is idx c a prev news r hc h1 h2 h0 hn hi
  simp only [List.mem_cons, List.mem_nil_iff, or_false] at hc
  rcases hc with rfl | rfl | rfl | rfl | rfl | rfl | rfl | rfl | rfl | rfl | rfl | rfl | rfl | rfl | rfl | rfl | rfl | rfl | rfl | rfl
  · exact abs_sound_lm tol hns ws is idx a prev news r h1 h2 h0 hn hi
  · exact abs_sound_lz tol hns ws is idx a prev news r h1 h2 h0 hn hi
  · exact abs_sound_ll tol hns ws is idx a prev news r h1 h2 h0 hn hi
  · exact abs_sound_lh tol hns ws is idx a prev news r h1 h2 h0 hn hi
  · exact abs_sound_lv tol hns ws is idx a prev news r h1 h2 h0 hn hi
  · exact abs_sound_lc tol hns ws is idx a prev news r h1 h2 h0 hn hi
  · exact abs_sound_ls tol hns ws is idx a prev news r h1 h2 h0 hn hi
  · exact abs_sound_lq tol hns ws is idx a prev news r h1 h2 h0 hn hi
  · exact abs_sound_lt tol hns ws is idx a prev news r h1 h2 h0 hn hi
  · exact abs_sound_la tol hns ws is idx a prev news r h1 h2 h0 hn hi
  · exact abs_sound_um tol hns ws is idx a prev news r h1 h2 h0 hn hi
  · exact abs_sound_uz tol hns ws is idx a prev news r h1 h2 h0 hn hi
  · exact abs_sound_ul tol hns ws is idx a prev news r h1 h2 h0 hn hi
  · exact abs_sound_uh tol hns ws is idx a prev news r h1 h2 h0 hn hi
  · exact abs_sound_uv tol hns ws is idx a prev news r h1 h2 h0 hn hi
  · exact abs_sound_uc tol hns ws is idx a prev news r h1 h2 h0 hn hi
  · exact abs_sound_us tol hns ws is idx a prev news r h1 h2 h0 hn hi
  · exact abs_sound_uq tol hns ws is idx a prev news r h1 h2 h0 hn hi
  · exact abs_sound_ut tol hns ws is idx a prev news r h1 h2 h0 hn hi
  · exact abs_sound_ua tol hns ws is idx a prev news r h1 h2 h0 hn hi

/-- `absolute()` preserves the curve whenever the end-point snapping of `_rewrite_path` does not fire -/
theorem absolute_interp (tol : α) (hns : ∀ p q : Pt α, (p == q) = false → ptAlmostEq tol p q = false)
    (cmds out : List (Cmd α)) (segs : List (Seg α))
    (h : absolute tol cmds = .ok out) (hi : interp cmds = some segs) : interp out = some segs :=
  walk_sim _ (absolute_cb_sound tol hns) cmds out segs h hi

theorem absv_le_zero (x : α) (h : absv x ≤ 0) : x = 0 := by
  unfold absv at h
  split at h <;> linarith

/-- with tolerance 0 the snapping never fires -/
theorem no_snap_zero (p q : Pt α) (h : (p == q) = false) : ptAlmostEq (0 : α) p q = false := by
  by_contra hc
  simp only [ptAlmostEq, Bool.not_eq_false, Bool.and_eq_true, decide_eq_true_eq] at hc
  have hx := absv_le_zero _ hc.1
  have hy := absv_le_zero _ hc.2
  have : p = q := by
    cases p; cases q; simp only [Pt.mk.injEq]; constructor <;> linarith
  subst this
  have : (p == p) = true := by
    show (p.x == p.x && p.y == p.y) = true
    simp
  rw [this] at h
  exact absurd h (by simp)

end PicoSVG.PathSim
