/-
  C10: the peel loop of `_parse_args` against the grammar's `number` production, token after token.
-/
import PicoSVG.Proofs.NumAgree
namespace PicoSVG.TokAgree
open PicoSVG PathLex NumAgree
open PicoSVG.Spec

/-- the peel loop of `_parse_args` for a command without flags, on lexemes: one `_FLOAT_RE` match at a time from the first
    token, the unmatched rest of a token is put back -/
def scanAll : Nat → List (List Char) → Option (List (List Char))
  | 0, _ => some []
  | _, [] => some []
  | fuel + 1, arg :: rest =>
    match matchFloat arg with
    | none => none
    | some (lex, rem) =>
      match scanAll fuel (if rem.isEmpty then rest else rem :: rest) with
      | some l => some (lex :: l)
      | none => none

/-- the same loop with the grammar's `number` production in place of the regular expression -/
def gscanAll : Nat → List (List Char) → Option (List (List Char))
  | 0, _ => some []
  | _, [] => some []
  | fuel + 1, arg :: rest =>
    match PathGrammar.number arg with
    | none => none
    | some (lex, rem) =>
      match gscanAll fuel (if rem.isEmpty then rest else rem :: rest) with
      | some l => some (lex :: l)
      | none => none

theorem peel_eq_scanAll (fuel i : Nat) (toks : List (List Char)) :
    peel false fuel i toks = match scanAll fuel toks with
      | some ls => .ok (ls.map (fun l => Arg.num (String.ofList l)))
      | none => .error .valueError := by
  induction fuel generalizing i toks with
  | zero => simp [peel, scanAll]
  | succ fuel ih =>
    cases toks with
    | nil => simp [peel, scanAll]
    | cons arg rest =>
      simp only [peel, scanAll, Bool.false_and, Bool.false_eq_true, if_false]
      cases hm : matchFloat arg with
      | none => simp
      | some p =>
        obtain ⟨lex, rem⟩ := p
        simp only
        rw [ih]
        cases scanAll fuel (if rem.isEmpty = true then rest else rem :: rest) with
        | none => simp
        | some l => simp

theorem optExp_fst_head (cs : List Char) (e : Char) (t : List Char) (h : (optExp cs).1 = e :: t) :
    (e == 'e' || e == 'E') = true := by
  cases cs with
  | nil => simp [optExp] at h
  | cons x xs =>
    unfold optExp at h
    by_cases hx : (x == 'e' || x == 'E') = true
    · simp only [hx, if_true] at h
      split at h <;> split at h <;> simp_all
    · simp [hx] at h

theorem optFrac_fst_head (cs : List Char) (y : Char) (ys : List Char) (h : (optFrac cs).1 = y :: ys) : y = '.' := by
  cases cs with
  | nil => simp [optFrac] at h
  | cons c t =>
    by_cases hc : c = '.'
    · subst hc
      simp only [optFrac] at h
      by_cases he : (spanDigits t).1.isEmpty = true
      · simp [he] at h
      · simp only [he, Bool.false_eq_true, if_false, List.cons.injEq] at h
        exact h.1.symm
    · have : optFrac (c :: t) = ([], c :: t) := by
        unfold optFrac
        split
        · rename_i hh; injection hh with h1 _; exact absurd h1 hc
        · rfl
      rw [this] at h; simp at h

theorem optFrac_nil_dot (x : List Char) (h : (optFrac ('.' :: x)).1 = []) : (spanDigits x).1.isEmpty = true := by
  simp only [optFrac] at h
  by_cases he : (spanDigits x).1.isEmpty = true
  · exact he
  · simp [he] at h

theorem hasMark_head (e : Char) (t : List Char) (h : (e == '.' || e == 'e' || e == 'E') = true) : hasMark (e :: t) = true := by
  simp only [hasMark, List.any_cons, h, Bool.true_or]

/-- a bare integer (no fraction, no exponent) that stops in front of a dot: the dot is not followed by a digit, so the next
    match fails — the code raises ValueError rather than read `1.` as `1` -/
theorem bare_then_dot_fails (cs l r : List Char) (h : matchFloat cs = some (l, r))
    (hd : startsDot r = true) (hm : hasMark l = false) : matchFloat r = none := by
  unfold matchFloat at h
  cases hb : matchBody (splitSign cs).2 with
  | none => simp [hb] at h
  | some br =>
    obtain ⟨b, r1⟩ := br
    simp only [hb, Option.some.injEq, Prod.mk.injEq] at h
    obtain ⟨h1, h2⟩ := h
    subst h1 h2
    rw [List.append_assoc, hasMark_append, hasMark_append] at hm
    simp only [Bool.or_eq_false_iff] at hm
    obtain ⟨_, hmb, hme⟩ := hm
    -- no exponent was matched
    have hexp1 : (optExp r1).1 = [] := by
      cases he : (optExp r1).1 with
      | nil => rfl
      | cons e t =>
        exfalso
        have hh := optExp_fst_head r1 e t he
        have : hasMark (e :: t) = true := hasMark_head e t (by
          simp only [Bool.or_eq_true] at hh ⊢
          rcases hh with hh | hh
          · exact Or.inl (Or.inr hh)
          · exact Or.inr hh)
        rw [he, this] at hme; exact absurd hme (by simp)
    have hexp2 : (optExp r1).2 = r1 := by
      have hs := PathLex.optExp_split r1
      rw [hexp1] at hs; simpa using hs.symm
    rw [hexp2] at hd ⊢
    cases ht : (splitSign cs).2 with
    | nil => rw [ht] at hb; simp [matchBody] at hb
    | cons c t' =>
      rw [ht] at hb
      simp only [matchBody] at hb
      by_cases hdg : isDigit c = true
      · simp only [hdg, if_true, Option.some.injEq, Prod.mk.injEq] at hb
        obtain ⟨hb1, hb2⟩ := hb
        have hfr : (optFrac (spanDigits t').2).1 = [] := by
          cases hf : (optFrac (spanDigits t').2).1 with
          | nil => rfl
          | cons y ys =>
            exfalso
            have hy := optFrac_fst_head _ y ys hf
            have : hasMark b = true := by
              rw [← hb1, hf, hasMark_append, hasMark_head y ys (by simp [hy])]
              simp
            rw [this] at hmb; exact absurd hmb (by simp)
        have hr0 : (spanDigits t').2 = r1 := by
          have hs := PathLex.optFrac_split (spanDigits t').2
          rw [hfr, hb2] at hs; simpa using hs
        cases hr1 : r1 with
        | nil => rw [hr1] at hd; simp [startsDot] at hd
        | cons x xs =>
          rw [hr1] at hd
          have hx : x = '.' := by
            simp only [startsDot] at hd
            split at hd
            · rename_i hh; injection hh with hh1 _
            · simp at hd
          subst hx
          have hnod : (spanDigits xs).1.isEmpty = true := by
            rw [hr0, hr1] at hfr
            exact optFrac_nil_dot xs hfr
          simp [matchFloat, splitSign, matchBody, isDigit, hnod]
      · simp only [hdg, Bool.false_eq_true, if_false] at hb
        by_cases hc : c = '.'
        · subst hc
          simp only [beq_self_eq_true, if_true] at hb
          split at hb
          · simp at hb
          · simp only [Option.some.injEq, Prod.mk.injEq] at hb
            exfalso
            have : hasMark b = true := by rw [← hb.1]; exact hasMark_head '.' _ (by simp)
            rw [this] at hmb; exact absurd hmb (by simp)
        · have : (c == '.') = false := by simpa using hc
          simp [this] at hb

theorem startsDot_false_or (r : List Char) : startsDot r = false ∨ startsDot r = true := by
  cases h : startsDot r <;> simp

/-- C10 (tokenizer = grammar, one separator-free run after the other): whenever the peel loop gets through its tokens (with
    the fuel `_parse_args` gives it: more than the number of characters) it has read them exactly as the grammar's `number`
    production applied over and over — same lexemes, same order, same places.  (A bare integer in front of a dot is the one
    place where the two scanners differ, and there the next regular-expression match fails: `bare_then_dot_fails`.) -/
theorem scanAll_is_grammar (fuel : Nat) (toks ls : List (List Char)) (h : scanAll fuel toks = some ls)
    (hf : (toks.map List.length).sum < fuel) : gscanAll fuel toks = some ls := by
  induction fuel generalizing toks ls with
  | zero => omega
  | succ fuel ih =>
    cases toks with
    | nil => simpa [scanAll, gscanAll] using h
    | cons arg rest =>
      simp only [scanAll] at h
      cases hm : matchFloat arg with
      | none => simp [hm] at h
      | some p =>
        obtain ⟨lex, rem⟩ := p
        simp only [hm] at h
        obtain ⟨hsplit, hne⟩ := PathLex.matchFloat_split arg lex rem hm
        have hlex : 0 < lex.length := List.length_pos_iff.mpr hne
        have hlen : arg.length = lex.length + rem.length := by rw [hsplit]; simp
        simp only [List.map_cons, List.sum_cons] at hf
        cases rem with
        | nil =>
          simp only [List.isEmpty_nil, if_true] at h
          cases hs : scanAll fuel rest with
          | none => simp [hs] at h
          | some l =>
            simp only [hs, Option.some.injEq] at h
            subst h
            have hnum : PathGrammar.number arg = some (lex, []) :=
              matchFloat_is_grammar_number arg lex [] hm (Or.inl rfl)
            have hf' : (rest.map List.length).sum < fuel := by omega
            simp only [gscanAll, hnum, List.isEmpty_nil, if_true]
            rw [ih _ _ hs hf']
        | cons x xs =>
          simp only [List.isEmpty_cons, Bool.false_eq_true, if_false] at h
          cases hs : scanAll fuel ((x :: xs) :: rest) with
          | none => simp [hs] at h
          | some l =>
            simp only [hs, Option.some.injEq] at h
            subst h
            have hf' : (((x :: xs) :: rest).map List.length).sum < fuel := by
              simp only [List.map_cons, List.sum_cons]
              simp only [List.length_cons] at hlen ⊢
              omega
            have hnum : PathGrammar.number arg = some (lex, x :: xs) := by
              apply matchFloat_is_grammar_number arg lex (x :: xs) hm
              rcases startsDot_false_or (x :: xs) with hd | hd
              · exact Or.inl hd
              · right
                cases hmk : hasMark lex with
                | true => rfl
                | false =>
                  exfalso
                  have hfail := bare_then_dot_fails arg lex (x :: xs) hm hd hmk
                  cases fuel with
                  | zero => omega
                  | succ f => simp [scanAll, hfail] at hs
            simp only [gscanAll, hnum, List.isEmpty_cons, Bool.false_eq_true, if_false]
            rw [ih _ _ hs hf']

theorem foldl_len (toks : List (List Char)) (a : Nat) :
    toks.foldl (fun a t => a + t.length) a = a + (toks.map List.length).sum := by
  induction toks generalizing a with
  | nil => simp
  | cons t ts ih => simp only [List.foldl_cons, List.map_cons, List.sum_cons, ih]; omega

/-- C10 (`_parse_args` of a command without flags): when it returns, its arguments are, in order, the lexemes the grammar's
    `number` production reads off the separator-free runs of the argument text -/
theorem parseArgs_is_grammar (cmd : Char) (raw : List Char) (args : List Arg)
    (hc : (cmd == 'a' || cmd == 'A') = false) (h : parseArgs cmd raw = .ok args) :
    ∃ ls, gscanAll ((splitSep raw).foldl (fun a t => a + t.length) 0 + 1) (splitSep raw) = some ls ∧
      args = ls.map (fun l => Arg.num (String.ofList l)) := by
  unfold parseArgs at h
  simp only [hc] at h
  rw [peel_eq_scanAll] at h
  cases hs : scanAll ((splitSep raw).foldl (fun a t => a + t.length) 0 + 1) (splitSep raw) with
  | none => simp [hs] at h
  | some ls =>
    simp only [hs, Except.ok.injEq] at h
    refine ⟨ls, ?_, h.symm⟩
    apply scanAll_is_grammar _ _ _ hs
    rw [foldl_len]; omega
end PicoSVG.TokAgree
