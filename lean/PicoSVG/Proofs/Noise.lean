/-
  Noise insertion vs. a local filter pass (C14): a pass that removes nodes by looking only at their
  own tag/attributes (or node kind) and rewrites attributes locally is blind to the insertion, at
  any position and with any subtree, of nodes it removes and to attribute changes it normalises.
-/
import PicoSVG.Model.Cleanup

set_option linter.unusedSectionVars false
namespace PicoSVG.Noise
open Node Cleanup

/-- the node is removed by the pass, whatever its subtree -/
def _root_.PicoSVG.Cleanup.LocalPass.noise (P : LocalPass) : Node → Bool
  | .elem _ t a _ => P.drop t a
  | n => P.dropOther n

def headNotText : List Node → Bool
  | .text _ :: _ => false
  | _ => true

mutual
  /-- `n'` extends `n` by inserted noise below it and by attribute changes the pass cannot see -/
  inductive Ext (P : LocalPass) : Node → Node → Prop
    | elem {u t a a' cs cs'} : P.drop t a = P.drop t a' → P.amap t a = P.amap t a' → ExtL P cs cs' →
        Ext P (.elem u t a cs) (.elem u t a' cs')
    | comment : Ext P .comment .comment
    | pi : Ext P .pi .pi
    | text {s} : Ext P (.text s) (.text s)
    | entity : Ext P .entity .entity
  inductive ExtL (P : LocalPass) : List Node → List Node → Prop
    | nil : ExtL P [] []
    | cons {c c' cs cs'} : Ext P c c' → ExtL P cs cs' → ExtL P (c :: cs) (c' :: cs')
    /-- a node the pass removes is inserted (not directly before a text node: lxml would make that
        text its tail) -/
    | ins {n cs cs'} : P.noise n = true → headNotText cs' = true → ExtL P cs cs' → ExtL P cs (n :: cs')
end

theorem rewrite_noise (P : LocalPass) (n : Node) (h : P.noise n = true) : rewrite P.f n = [] := by
  cases n with
  | elem u t a cs => simp only [rewrite, LocalPass.f]; simp only [LocalPass.noise] at h; simp [h]
  | comment => simp only [rewrite, LocalPass.f]; simp only [LocalPass.noise] at h; simp [h]
  | pi => simp only [rewrite, LocalPass.f]; simp only [LocalPass.noise] at h; simp [h]
  | text s => simp only [rewrite, LocalPass.f]; simp only [LocalPass.noise] at h; simp [h]
  | entity => simp only [rewrite, LocalPass.f]; simp only [LocalPass.noise] at h; simp [h]

theorem rewriteList_flag (f : Node → List Node) (cs : List Node) (h : headNotText cs = true) (b : Bool) :
    rewriteList f b cs = rewriteList f false cs := by
  cases cs with
  | nil => simp [rewriteList]
  | cons c cs =>
    cases b with
    | false => rfl
    | true =>
      cases c with
      | text s => simp [headNotText] at h
      | elem u t a k => simp [rewriteList]
      | comment => simp [rewriteList]
      | pi => simp [rewriteList]
      | entity => simp [rewriteList]

theorem Ext.isElem_eq {P : LocalPass} {n n' : Node} (h : Ext P n n') : n.isElem = n'.isElem := by
  cases h <;> rfl

theorem Ext.text_iff {P : LocalPass} {n n' : Node} (h : Ext P n n') :
    (∃ s, n = .text s) ↔ (∃ s, n' = .text s) := by
  cases h <;> simp

mutual
  theorem ext_head (P : LocalPass) : ∀ {cs cs' : List Node}, ExtL P cs cs' → headNotText cs' = true →
      headNotText cs = true
    | _, _, .nil, _ => rfl
    | _, _, .cons hc _, h => by
      cases hc <;> simp_all [headNotText]
    | _, _, .ins _ hh ht, _ => ext_head P ht hh
end

mutual
  theorem rewrite_ext (P : LocalPass) : ∀ {n n' : Node}, Ext P n n' → rewrite P.f n' = rewrite P.f n
    | _, _, .elem hd ha hl => by
      simp only [rewrite, LocalPass.f, rewriteList_ext P hl false, hd, ha]
    | _, _, .comment => rfl
    | _, _, .pi => rfl
    | _, _, .text => rfl
    | _, _, .entity => rfl
  theorem rewriteList_ext (P : LocalPass) : ∀ {cs cs' : List Node}, ExtL P cs cs' → ∀ b,
      rewriteList P.f b cs' = rewriteList P.f b cs
    | _, _, .nil, _ => rfl
    | c :: cs, c' :: cs', .cons hc hl, b => by
      have h1 := rewrite_ext P hc
      have h2 := hc.isElem_eq
      cases hc with
      | text =>
        cases b with
        | true => simp only [rewriteList]; exact rewriteList_ext P hl false
        | false => simp only [rewriteList, rewrite] at h1 ⊢; rw [rewriteList_ext P hl _]
      | comment => cases b <;> simp only [rewriteList, rewrite] <;> rw [rewriteList_ext P hl _]
      | pi => cases b <;> simp only [rewriteList, rewrite] <;> rw [rewriteList_ext P hl _]
      | entity => cases b <;> simp only [rewriteList, rewrite] <;> rw [rewriteList_ext P hl _]
      | elem hd ha hk =>
        cases b <;> simp only [rewriteList] <;> rw [h1, rewriteList_ext P hl _] <;> simp [isElem]
    | cs, n :: cs', .ins hn hh hl, b => by
      have hr := rewrite_noise P n hn
      have hcs := ext_head P hl hh
      have step : rewriteList P.f b (n :: cs') = rewriteList P.f false cs' := by
        cases b with
        | false =>
          simp only [rewriteList, hr, List.nil_append, List.isEmpty_nil, Bool.true_and]
          exact rewriteList_flag _ _ hh _
        | true =>
          cases n with
          | text s =>
            -- a text node is never noise for these passes … but the definition allows it: it is dropped either way
            simp only [rewriteList]
          | elem u t a k =>
            simp only [rewriteList, hr, List.nil_append, List.isEmpty_nil, Bool.true_and]
            exact rewriteList_flag _ _ hh _
          | comment =>
            simp only [rewriteList, hr, List.nil_append, List.isEmpty_nil, Bool.true_and]
            exact rewriteList_flag _ _ hh _
          | pi =>
            simp only [rewriteList, hr, List.nil_append, List.isEmpty_nil, Bool.true_and]
            exact rewriteList_flag _ _ hh _
          | entity =>
            simp only [rewriteList, hr, List.nil_append, List.isEmpty_nil, Bool.true_and]
            exact rewriteList_flag _ _ hh _
      rw [step, rewriteList_ext P hl false, rewriteList_flag _ _ hcs b]
end

end PicoSVG.Noise
