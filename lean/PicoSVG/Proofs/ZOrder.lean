/-
  Document order under tree surgery (C02, z-order): the uids of the elements of the document in document order, and what
  `Node.replaceUid` (the model of `_replace_el`, `_swap_elements` and of flattening a group) does to that list — by
  mutual structural induction over the bottom-up rewrite, at any depth, including lxml's tail-text rule.
-/
import PicoSVG.Model.TreeOps
import PicoSVG.Model.Cleanup

namespace PicoSVG.ZOrder
open PicoSVG Node Cleanup

mutual
  /-- uids of the elements of a subtree in document order -/
  def euids : Node → List Nat
    | .elem u _ _ cs => u :: euidsL cs
    | _ => []
  def euidsL : List Node → List Nat
    | [] => []
    | c :: cs => euids c ++ euidsL cs
end

mutual
  /-- the document-order uid list with the subtree(s) rooted at `u` replaced by `r` -/
  def subst (u : Nat) (r : List Nat) : Node → List Nat
    | .elem v _ _ cs => if v == u then r else v :: substL u r cs
    | _ => []
  def substL (u : Nat) (r : List Nat) : List Node → List Nat
    | [] => []
    | c :: cs => subst u r c ++ substL u r cs
end

theorem euidsL_append (xs ys : List Node) : euidsL (xs ++ ys) = euidsL xs ++ euidsL ys := by
  induction xs with
  | nil => rfl
  | cons x xs ih => simp [euidsL, ih]

def repl (u : Nat) (news : List Node) : Node → List Node :=
  fun n => if n.isElem && n.uid == u then news else [n]

mutual
  theorem euids_rewrite (u : Nat) (news : List Node) (n : Node) :
      euidsL (rewrite (repl u news) n) = subst u (euidsL news) n := by
    cases n with
    | elem v t a cs =>
      simp only [rewrite, repl, subst]
      by_cases h : v == u
      · simp [h, Node.isElem, Node.uid]
      · simp [h, Node.isElem, Node.uid, euidsL, euids, euidsL_rewriteList u news false cs]
    | comment => simp [rewrite, repl, subst, Node.isElem, euidsL, euids]
    | pi => simp [rewrite, repl, subst, Node.isElem, euidsL, euids]
    | text s => simp [rewrite, repl, subst, Node.isElem, euidsL, euids]
    | entity => simp [rewrite, repl, subst, Node.isElem, euidsL, euids]
  theorem euidsL_rewriteList (u : Nat) (news : List Node) (b : Bool) (cs : List Node) :
      euidsL (rewriteList (repl u news) b cs) = substL u (euidsL news) cs := by
    cases cs with
    | nil => simp [rewriteList, euidsL, substL]
    | cons c cs =>
      cases b with
      | false =>
        simp only [rewriteList, substL, euidsL_append]
        rw [euids_rewrite u news c, euidsL_rewriteList u news _ cs]
      | true =>
        cases c with
        | text s =>
          simp only [rewriteList, substL, subst, List.nil_append]
          exact euidsL_rewriteList u news false cs
        | elem v t a k =>
          simp only [rewriteList, substL, euidsL_append]
          rw [euids_rewrite u news _, euidsL_rewriteList u news _ cs]
        | comment =>
          simp only [rewriteList, substL, euidsL_append]
          rw [euids_rewrite u news _, euidsL_rewriteList u news _ cs]
        | pi =>
          simp only [rewriteList, substL, euidsL_append]
          rw [euids_rewrite u news _, euidsL_rewriteList u news _ cs]
        | entity =>
          simp only [rewriteList, substL, euidsL_append]
          rw [euids_rewrite u news _, euidsL_rewriteList u news _ cs]
end


mutual
  theorem subst_of_not_mem (u : Nat) (r : List Nat) (n : Node) (h : u ∉ euids n) : subst u r n = euids n := by
    cases n with
    | elem v t a cs =>
      simp only [euids, List.mem_cons, not_or] at h
      have hv : (v == u) = false := by simpa using fun e : v = u => h.1 e.symm
      simp only [subst, hv, euids]
      rw [substL_of_not_mem u r cs h.2]; rfl
    | comment => rfl
    | pi => rfl
    | text s => rfl
    | entity => rfl
  theorem substL_of_not_mem (u : Nat) (r : List Nat) (cs : List Node) (h : u ∉ euidsL cs) : substL u r cs = euidsL cs := by
    cases cs with
    | nil => rfl
    | cons c cs =>
      simp only [euidsL, List.mem_append, not_or] at h
      simp only [substL, euidsL]
      rw [subst_of_not_mem u r c h.1, substL_of_not_mem u r cs h.2]
end

theorem substL_append (u : Nat) (r : List Nat) (xs ys : List Node) :
    substL u r (xs ++ ys) = substL u r xs ++ substL u r ys := by
  induction xs with
  | nil => rfl
  | cons x xs ih => simp [substL, ih]

/-- `_replace_el` / `_swap_elements` / group flattening on the tree: the uids of the document in document order
    after replacing the element `u` (anywhere below the root, at any depth) by the nodes `news` -/
theorem replaceUid_order (ru : Nat) (t : String) (a : Attrs) (cs : List Node) (u : Nat) (news : List Node) :
    euids (replaceUid (.elem ru t a cs) u news) = ru :: substL u (euidsL news) cs := by
  show euids (rewriteBelow (repl u news) (.elem ru t a cs)) = _
  simp only [rewriteBelow, Node.children, Node.setChildren, euids]
  rw [euidsL_rewriteList]

/-- C02 (z-order, tree level): if `u` is the uid of one element `e` among the children of some element and occurs
    nowhere else, then after the replacement every element before `e` in document order is still before, every element
    after is still after, all in their original order, and the replacement sits exactly where `e` (with its subtree) was -/
theorem replace_keeps_document_order (ru : Nat) (t : String) (a : Attrs) (pre post : List Node) (e : Node)
    (u : Nat) (news : List Node) (he : e.isElem = true) (hu : e.uid = u)
    (h1 : u ∉ euidsL pre) (h2 : u ∉ euidsL post) :
    euids (replaceUid (.elem ru t a (pre ++ e :: post)) u news)
      = ru :: (euidsL pre ++ euidsL news ++ euidsL post) := by
  rw [replaceUid_order, substL_append, substL_of_not_mem u _ pre h1]
  cases e with
  | elem v t' a' k =>
    simp only [Node.uid] at hu
    subst hu
    simp only [substL, subst, beq_self_eq_true, if_true, substL_of_not_mem v _ post h2, List.append_assoc]
  | comment => simp [Node.isElem] at he
  | pi => simp [Node.isElem] at he
  | text s => simp [Node.isElem] at he
  | entity => simp [Node.isElem] at he

mutual
  theorem euids_pass_sublist (P : LocalPass) (n : Node) : (euidsL (rewrite P.f n)).Sublist (euids n) := by
    cases n with
    | elem u t a cs =>
      simp only [rewrite, LocalPass.f]
      by_cases hd : P.drop t a
      · simp [hd, euidsL, euids]
      · simp only [hd, Bool.false_eq_true, if_false, euidsL, euids, List.append_nil]
        exact (euidsL_pass_sublist P false cs).cons_cons u
    | comment => simp only [rewrite, LocalPass.f]; split <;> simp [euidsL, euids]
    | pi => simp only [rewrite, LocalPass.f]; split <;> simp [euidsL, euids]
    | text s => simp only [rewrite, LocalPass.f]; split <;> simp [euidsL, euids]
    | entity => simp only [rewrite, LocalPass.f]; split <;> simp [euidsL, euids]
  theorem euidsL_pass_sublist (P : LocalPass) (b : Bool) (cs : List Node) :
      (euidsL (rewriteList P.f b cs)).Sublist (euidsL cs) := by
    cases cs with
    | nil => simp [rewriteList, euidsL]
    | cons c cs =>
      have key : ∀ b', (euidsL (rewrite P.f c ++ rewriteList P.f b' cs)).Sublist (euids c ++ euidsL cs) := by
        intro b'
        rw [euidsL_append]
        exact (euids_pass_sublist P c).append (euidsL_pass_sublist P b' cs)
      cases b with
      | false => simp only [rewriteList, euidsL]; exact key _
      | true =>
        cases c with
        | text s => simp only [rewriteList, euidsL, euids, List.nil_append]; exact euidsL_pass_sublist P false cs
        | elem u t a k => simp only [rewriteList, euidsL]; exact key _
        | comment => simp only [rewriteList, euidsL]; exact key _
        | pi => simp only [rewriteList, euidsL]; exact key _
        | entity => simp only [rewriteList, euidsL]; exact key _
end

/-- the discard passes only remove: what remains keeps its document order -/
theorem pass_keeps_order (P : LocalPass) (u : Nat) (t : String) (a : Attrs) (cs : List Node) :
    (euids (rewriteBelow P.f (.elem u t a cs))).Sublist (euids (.elem u t a cs)) := by
  simp only [rewriteBelow, Node.children, Node.setChildren, euids]
  exact (euidsL_pass_sublist P false cs).cons_cons u


end PicoSVG.ZOrder
