/-
  Simulation of `SVGPath.walk` by the path interpretation `Spec.interp`.
  `applyNew_sim`: appending a command to the walker's output and interpreting that command keep
  (current point, subpath start) of walker and interpreter equal — `_next_pos` is the interpreter's current point.
  `explicitLines_sim`: hence `explicit_lines()` preserves the interpretation of every command sequence the
  specification gives a meaning to.
  (The per-letter facts below are generated mechanically: 20 letters, evaluated by `decide`.)
-/
import PicoSVG.Spec.PathInterp
import PicoSVG.Proofs.Walk
import Mathlib.Algebra.Order.Field.Basic

set_option linter.unusedSectionVars false
set_option linter.unusedVariables false
set_option linter.unusedSimpArgs false

namespace PicoSVG.PathSim
open PicoSVG Path Spec

theorem lookup_mem {β γ : Type} [BEq β] [LawfulBEq β] {l : List (β × γ)} {c : β} {k : γ}
    (h : l.lookup c = some k) : (c, k) ∈ l := by
  induction l with
  | nil => simp at h
  | cons x xs ih =>
    obtain ⟨a, b⟩ := x
    simp only [List.lookup_cons] at h
    split at h
    · rename_i hc
      have : c = a := by simpa using hc
      subst this; injection h with h; subst h; exact List.mem_cons_self ..
    · exact List.mem_cons_of_mem _ (ih h)

/-- the letters `check_cmd` accepts -/
theorem numArgs_letters (c : Char) (k : Nat) (h : PathLex.numArgs c = some k) :
    c ∈ ['m', 'z', 'l', 'h', 'v', 'c', 's', 'q', 't', 'a', 'M', 'Z', 'L', 'H', 'V', 'C', 'S', 'Q', 'T', 'A'] := by
  have := lookup_mem h
  simp only [Gen.cmdArgs, List.mem_cons, Prod.mk.injEq, List.mem_nil_iff, or_false] at this
  simp only [List.mem_cons, List.mem_nil_iff, or_false]
  rcases this with h | h | h | h | h | h | h | h | h | h | h | h | h | h | h | h | h | h | h | h <;> simp [h.1]

@[simp] theorem toUpper_lm : Path.toUpper 'm' = 'M' := by decide
@[simp] theorem toLower_lm : Path.toLower 'm' = 'm' := by decide
@[simp] theorem isLower_lm : Path.isLower 'm' = true := by decide
@[simp] theorem isUpper_lm : Path.isUpper 'm' = false := by decide
@[simp] theorem toUpper_lz : Path.toUpper 'z' = 'Z' := by decide
@[simp] theorem toLower_lz : Path.toLower 'z' = 'z' := by decide
@[simp] theorem isLower_lz : Path.isLower 'z' = true := by decide
@[simp] theorem isUpper_lz : Path.isUpper 'z' = false := by decide
@[simp] theorem toUpper_ll : Path.toUpper 'l' = 'L' := by decide
@[simp] theorem toLower_ll : Path.toLower 'l' = 'l' := by decide
@[simp] theorem isLower_ll : Path.isLower 'l' = true := by decide
@[simp] theorem isUpper_ll : Path.isUpper 'l' = false := by decide
@[simp] theorem toUpper_lh : Path.toUpper 'h' = 'H' := by decide
@[simp] theorem toLower_lh : Path.toLower 'h' = 'h' := by decide
@[simp] theorem isLower_lh : Path.isLower 'h' = true := by decide
@[simp] theorem isUpper_lh : Path.isUpper 'h' = false := by decide
@[simp] theorem toUpper_lv : Path.toUpper 'v' = 'V' := by decide
@[simp] theorem toLower_lv : Path.toLower 'v' = 'v' := by decide
@[simp] theorem isLower_lv : Path.isLower 'v' = true := by decide
@[simp] theorem isUpper_lv : Path.isUpper 'v' = false := by decide
@[simp] theorem toUpper_lc : Path.toUpper 'c' = 'C' := by decide
@[simp] theorem toLower_lc : Path.toLower 'c' = 'c' := by decide
@[simp] theorem isLower_lc : Path.isLower 'c' = true := by decide
@[simp] theorem isUpper_lc : Path.isUpper 'c' = false := by decide
@[simp] theorem toUpper_ls : Path.toUpper 's' = 'S' := by decide
@[simp] theorem toLower_ls : Path.toLower 's' = 's' := by decide
@[simp] theorem isLower_ls : Path.isLower 's' = true := by decide
@[simp] theorem isUpper_ls : Path.isUpper 's' = false := by decide
@[simp] theorem toUpper_lq : Path.toUpper 'q' = 'Q' := by decide
@[simp] theorem toLower_lq : Path.toLower 'q' = 'q' := by decide
@[simp] theorem isLower_lq : Path.isLower 'q' = true := by decide
@[simp] theorem isUpper_lq : Path.isUpper 'q' = false := by decide
@[simp] theorem toUpper_lt : Path.toUpper 't' = 'T' := by decide
@[simp] theorem toLower_lt : Path.toLower 't' = 't' := by decide
@[simp] theorem isLower_lt : Path.isLower 't' = true := by decide
@[simp] theorem isUpper_lt : Path.isUpper 't' = false := by decide
@[simp] theorem toUpper_la : Path.toUpper 'a' = 'A' := by decide
@[simp] theorem toLower_la : Path.toLower 'a' = 'a' := by decide
@[simp] theorem isLower_la : Path.isLower 'a' = true := by decide
@[simp] theorem isUpper_la : Path.isUpper 'a' = false := by decide
@[simp] theorem toUpper_um : Path.toUpper 'M' = 'M' := by decide
@[simp] theorem toLower_um : Path.toLower 'M' = 'm' := by decide
@[simp] theorem isLower_um : Path.isLower 'M' = false := by decide
@[simp] theorem isUpper_um : Path.isUpper 'M' = true := by decide
@[simp] theorem toUpper_uz : Path.toUpper 'Z' = 'Z' := by decide
@[simp] theorem toLower_uz : Path.toLower 'Z' = 'z' := by decide
@[simp] theorem isLower_uz : Path.isLower 'Z' = false := by decide
@[simp] theorem isUpper_uz : Path.isUpper 'Z' = true := by decide
@[simp] theorem toUpper_ul : Path.toUpper 'L' = 'L' := by decide
@[simp] theorem toLower_ul : Path.toLower 'L' = 'l' := by decide
@[simp] theorem isLower_ul : Path.isLower 'L' = false := by decide
@[simp] theorem isUpper_ul : Path.isUpper 'L' = true := by decide
@[simp] theorem toUpper_uh : Path.toUpper 'H' = 'H' := by decide
@[simp] theorem toLower_uh : Path.toLower 'H' = 'h' := by decide
@[simp] theorem isLower_uh : Path.isLower 'H' = false := by decide
@[simp] theorem isUpper_uh : Path.isUpper 'H' = true := by decide
@[simp] theorem toUpper_uv : Path.toUpper 'V' = 'V' := by decide
@[simp] theorem toLower_uv : Path.toLower 'V' = 'v' := by decide
@[simp] theorem isLower_uv : Path.isLower 'V' = false := by decide
@[simp] theorem isUpper_uv : Path.isUpper 'V' = true := by decide
@[simp] theorem toUpper_uc : Path.toUpper 'C' = 'C' := by decide
@[simp] theorem toLower_uc : Path.toLower 'C' = 'c' := by decide
@[simp] theorem isLower_uc : Path.isLower 'C' = false := by decide
@[simp] theorem isUpper_uc : Path.isUpper 'C' = true := by decide
@[simp] theorem toUpper_us : Path.toUpper 'S' = 'S' := by decide
@[simp] theorem toLower_us : Path.toLower 'S' = 's' := by decide
@[simp] theorem isLower_us : Path.isLower 'S' = false := by decide
@[simp] theorem isUpper_us : Path.isUpper 'S' = true := by decide
@[simp] theorem toUpper_uq : Path.toUpper 'Q' = 'Q' := by decide
@[simp] theorem toLower_uq : Path.toLower 'Q' = 'q' := by decide
@[simp] theorem isLower_uq : Path.isLower 'Q' = false := by decide
@[simp] theorem isUpper_uq : Path.isUpper 'Q' = true := by decide
@[simp] theorem toUpper_ut : Path.toUpper 'T' = 'T' := by decide
@[simp] theorem toLower_ut : Path.toLower 'T' = 't' := by decide
@[simp] theorem isLower_ut : Path.isLower 'T' = false := by decide
@[simp] theorem isUpper_ut : Path.isUpper 'T' = true := by decide
@[simp] theorem toUpper_ua : Path.toUpper 'A' = 'A' := by decide
@[simp] theorem toLower_ua : Path.toLower 'A' = 'a' := by decide
@[simp] theorem isLower_ua : Path.isLower 'A' = false := by decide
@[simp] theorem isUpper_ua : Path.isUpper 'A' = true := by decide

variable {α : Type} [Field α] [LinearOrder α] [IsStrictOrderedRing α]

set_option hygiene false in
/-- the uniform proof for one concrete letter -/
macro "letter_sim" : tactic => `(tactic| (
  unfold stepSeg at hi
  split at hi <;> simp at *
  all_goals (
    obtain ⟨rfl, rfl⟩ := hi
    simp [applyNew, nextPos, coords, Gen.cmdCoords, List.lookup, getArg, bind, Except.bind, pure, Except.pure] at hw
    subst hw
    simp [h1, h2])))

/-- `_next_pos` is the interpreter's current point: appending a command to the walker's output and interpreting that
    command keep (current point, subpath start) equal -/
theorem applyNew_sim (ws : WalkState α) (is : IState α) (c : Char) (a : List α) (ws' : WalkState α) (is' : IState α)
    (segs : List (Seg α))
    (hc : c ∈ ['m', 'z', 'l', 'h', 'v', 'c', 's', 'q', 't', 'a', 'M', 'Z', 'L', 'H', 'V', 'C', 'S', 'Q', 'T', 'A'])
    (h1 : ws.curr = is.cur) (h2 : ws.start = is.start)
    (hw : applyNew ws (c, a) = .ok ws') (hi : stepSeg is c a = some (is', segs)) :
    ws'.curr = is'.cur ∧ ws'.start = is'.start ∧ ws'.out = ws.out ++ [(ws.curr, (c, a))] := by
  simp only [List.mem_cons, List.mem_nil_iff, or_false] at hc
  rcases hc with rfl | rfl | rfl | rfl | rfl | rfl | rfl | rfl | rfl | rfl | rfl | rfl | rfl | rfl | rfl | rfl | rfl | rfl | rfl | rfl
  all_goals letter_sim

/-- what one step of the `explicit_lines` walk does -/
theorem step_explicit (ws ws' : WalkState α) (idx : Nat) (c : Char) (a : List α)
    (hw : step explicitLinesCb ws idx (c, a) = .ok ws') :
    ∃ k nc, PathLex.numArgs c = some k ∧
      explicitLinesCmd ws.curr (if idx == 0 && c == 'm' then 'M' else c) a = .ok nc ∧ applyNew ws nc = .ok ws' := by
  simp only [step] at hw
  obtain ⟨k0, hk, hw⟩ := bind_eq_ok.mp hw
  obtain ⟨news, hn, hw⟩ := bind_eq_ok.mp hw
  simp only [explicitLinesCb] at hn
  obtain ⟨nc, hnc, hn⟩ := bind_eq_ok.mp hn
  have : [nc] = news := pure_eq_ok.mp hn
  subst this
  simp only [List.foldlM] at hw
  obtain ⟨st1, h1, h2⟩ := bind_eq_ok.mp hw
  have : st1 = ws' := pure_eq_ok.mp h2
  subst this
  have hk' : ∃ k, PathLex.numArgs c = some k := by
    unfold PathLex.checkCmd at hk
    cases hnum : PathLex.numArgs c with
    | none => simp [hnum] at hk
    | some k => exact ⟨k, rfl⟩
  obtain ⟨k, hk'⟩ := hk'
  exact ⟨k, nc, hk', hnc, h1⟩

set_option hygiene false in
/-- one letter of `explicit_cmd_same` -/
macro "letter_same" : tactic => `(tactic| (
  unfold stepSeg at hi
  split at hi <;> simp at *
  all_goals (
    by_cases hidx : idx = 0
    all_goals (
      simp [hidx, explicitLinesCmd, getArg, pure, Except.pure, bind, Except.bind] at hn
      subst hn
      first | simp [stepSeg, ← hi, h1, h0 hidx] | simp [stepSeg, ← hi, h1]))))

/-- the command `explicit_lines` emits is one of the twenty letters and draws exactly what the original draws -/
theorem explicit_cmd_same (ws : WalkState α) (is : IState α) (idx : Nat) (c : Char) (a : List α) (nc : Cmd α)
    (r : IState α × List (Seg α))
    (hc : c ∈ ['m', 'z', 'l', 'h', 'v', 'c', 's', 'q', 't', 'a', 'M', 'Z', 'L', 'H', 'V', 'C', 'S', 'Q', 'T', 'A'])
    (h1 : ws.curr = is.cur) (h0 : idx = 0 → is.cur = ⟨0, 0⟩)
    (hn : explicitLinesCmd ws.curr (if idx == 0 && c == 'm' then 'M' else c) a = .ok nc)
    (hi : stepSeg is c a = some r) :
    nc.1 ∈ ['m', 'z', 'l', 'h', 'v', 'c', 's', 'q', 't', 'a', 'M', 'Z', 'L', 'H', 'V', 'C', 'S', 'Q', 'T', 'A']
      ∧ stepSeg is nc.1 nc.2 = some r := by
  simp only [List.mem_cons, List.mem_nil_iff, or_false] at hc
  rcases hc with rfl | rfl | rfl | rfl | rfl | rfl | rfl | rfl | rfl | rfl | rfl | rfl | rfl | rfl | rfl | rfl | rfl | rfl | rfl | rfl
  all_goals letter_same

/-- one step of the `explicit_lines` walk against one step of the interpreter -/
theorem step_sim (ws : WalkState α) (is : IState α) (idx : Nat) (c : Char) (a : List α) (ws' : WalkState α)
    (is' : IState α) (segs : List (Seg α)) (h1 : ws.curr = is.cur) (h2 : ws.start = is.start)
    (h0 : idx = 0 → is.cur = ⟨0, 0⟩)
    (hw : step explicitLinesCb ws idx (c, a) = .ok ws') (hi : stepSeg is c a = some (is', segs)) :
    ∃ nc : Cmd α, ws'.out = ws.out ++ [(ws.curr, nc)] ∧ stepSeg is nc.1 nc.2 = some (is', segs) ∧
      ws'.curr = is'.cur ∧ ws'.start = is'.start := by
  obtain ⟨k, nc, hk, hnc, happ⟩ := step_explicit ws ws' idx c a hw
  have hc := numArgs_letters c k hk
  obtain ⟨hl, hs⟩ := explicit_cmd_same ws is idx c a nc (is', segs) hc h1 h0 hnc hi
  obtain ⟨r1, r2, r3⟩ := applyNew_sim ws is nc.1 nc.2 ws' is' segs hl h1 h2 (by simpa using happ) hs
  exact ⟨nc, by simpa using r3, hs, r1, r2⟩

theorem walkFrom_sim (cmds : List (Cmd α)) (ws : WalkState α) (is : IState α) (idx : Nat) (ws' : WalkState α)
    (segs : List (Seg α)) (h1 : ws.curr = is.cur) (h2 : ws.start = is.start) (h0 : idx = 0 → is.cur = ⟨0, 0⟩)
    (hw : walkFrom explicitLinesCb ws idx cmds = .ok ws') (hi : interpFrom is cmds = some segs) :
    ∃ news : List (Pt α × Cmd α), ws'.out = ws.out ++ news ∧ interpFrom is (news.map (·.2)) = some segs := by
  induction cmds generalizing ws is idx segs with
  | nil =>
    simp only [walkFrom] at hw
    injection hw with hw; subst hw
    exact ⟨[], by simp, by simpa [interpFrom] using hi⟩
  | cons cmd rest ih =>
    obtain ⟨c, a⟩ := cmd
    simp only [walkFrom] at hw
    obtain ⟨ws1, hs1, hw⟩ := bind_eq_ok.mp hw
    simp only [interpFrom] at hi
    cases hstep : stepSeg is c a with
    | none => simp [hstep] at hi
    | some r =>
      obtain ⟨is1, s1⟩ := r
      simp only [hstep] at hi
      cases hrest : interpFrom is1 rest with
      | none => simp [hrest] at hi
      | some l =>
        simp only [hrest, Option.some.injEq] at hi
        obtain ⟨nc, hout, hnc, r1, r2⟩ := step_sim ws is idx c a ws1 is1 s1 h1 h2 h0 hs1 hstep
        obtain ⟨news', hout', hint'⟩ := ih ws1 is1 (idx + 1) l r1 r2 (by omega) hw hrest
        refine ⟨(ws.curr, nc) :: news', by rw [hout', hout]; simp, ?_⟩
        simp only [List.map_cons, interpFrom, hnc, hint', hi]

/-- `explicit_lines()` preserves the curve: every command sequence the specification gives a meaning to has the same
    interpretation after the rewrite -/
theorem explicitLines_interp (cmds out : List (Cmd α)) (segs : List (Seg α))
    (h : explicitLines cmds = .ok out) (hi : interp cmds = some segs) : interp out = some segs := by
  simp only [explicitLines, walk] at h
  obtain ⟨st, hst, h⟩ := bind_eq_ok.mp h
  have : st.out.map (·.2) = out := pure_eq_ok.mp h
  subst this
  obtain ⟨news, hout, hint⟩ := walkFrom_sim cmds _ initState 0 st segs rfl rfl (fun _ => rfl) hst hi
  simp only [List.nil_append] at hout
  rw [hout]; exact hint

end PicoSVG.PathSim
