/-
  C18: a shape `might_paint` reports as unable to paint contributes the transparent colour at every point of the canvas
  (compositing specification Spec/Composite.lean + Spec/ShapePaint.lean), so removing it changes no stack of layers; and a
  command sequence made of movetos only draws no segment (path interpreter Spec/PathInterp.lean).
-/
import PicoSVG.Spec.ShapePaint
import PicoSVG.Spec.PathInterp
import PicoSVG.Props.C05
import Mathlib.Tactic.Ring
import Mathlib.Tactic.LinearCombination

namespace PicoSVG.PruneP
open PicoSVG PicoSVG.Spec.Composite PicoSVG.Props.C05

section
variable {α : Type} [CommRing α] [DecidableEq α] [LT α] [DecidableLT α]

theorem unpainted_paints_nothing (s : PaintAttrs α) (fr fg fb sr sg sb : α) (moveOnly : Bool) (area : Except PyErr α)
    (inFill inStroke : Bool)
    (hm : moveOnly = true → inFill = false ∧ inStroke = false)
    (ha : ∀ a, area = .ok a → ¬ (0 < a) → inFill = false)
    (h : mightPaint s moveOnly area = false) :
    onto clear (shapeAt s fr fg fb sr sg sb inFill inStroke) = clear := by
  unfold mightPaint at h
  unfold shapeAt
  by_cases hd : (s.display == "none") = true
  · simp [hd, onto]
  · rw [if_neg hd] at h ⊢
    simp only [onto, paint, over_clear]
    by_cases hmo : moveOnly = true
    · obtain ⟨h1, h2⟩ := hm hmo
      subst h1 h2
      apply RGBA.ext' <;> simp [onto, scale, clear]
    · rw [if_neg hmo] at h
      by_cases hs : strokeVisible s = true
      · rw [if_pos hs] at h; exact absurd h (by simp)
      · rw [if_neg hs] at h
        have hs' : (s.stroke != "none" && s.strokeWidth != 0 && inStroke) = true → s.opacity * s.strokeOpacity = 0 := by
          intro hh
          simp only [strokeVisible, paintVisible, Bool.and_eq_true, bne_iff_ne, ne_eq, Bool.not_eq_true] at hs hh
          by_contra hne
          have := hs
          simp [hh.1.1, hh.1.2, hne] at this
        have hf' : (s.fill != "none" && inFill) = true → s.opacity * s.fillOpacity = 0 := by
          intro hh
          simp only [Bool.and_eq_true, bne_iff_ne, ne_eq] at hh
          by_cases hf : fillVisible s = true
          · simp only [hf, Bool.not_true, Bool.false_eq_true, if_false] at h
            cases area with
            | error e => simp at h
            | ok a =>
              have := ha a rfl (by simpa using h)
              simp [this] at hh
          · by_contra hne
            simp [fillVisible, paintVisible, hh.1, hne] at hf
        by_cases c1 : (s.fill != "none" && inFill) = true <;> by_cases c2 : (s.stroke != "none" && s.strokeWidth != 0 && inStroke) = true
        · have e1 := hf' c1; have e2 := hs' c2
          rw [if_pos c1, if_pos c2]
          refine RGBA.ext' ?_ ?_ ?_ ?_ <;> simp only [List.cons_append, List.nil_append, onto, paint, over, scale, clear]
          · linear_combination sr * e2 - fr * s.fillOpacity * e2 + fr * e1
          · linear_combination sg * e2 - fg * s.fillOpacity * e2 + fg * e1
          · linear_combination sb * e2 - fb * s.fillOpacity * e2 + fb * e1
          · linear_combination e2 + e1 - s.fillOpacity * e2
        · have e1 := hf' c1
          rw [if_pos c1, if_neg c2]
          refine RGBA.ext' ?_ ?_ ?_ ?_ <;> simp only [List.append_nil, onto, paint, over, scale, clear]
          · linear_combination fr * e1
          · linear_combination fg * e1
          · linear_combination fb * e1
          · linear_combination e1
        · have e2 := hs' c2
          rw [if_neg c1, if_pos c2]
          refine RGBA.ext' ?_ ?_ ?_ ?_ <;> simp only [List.nil_append, onto, paint, over, scale, clear]
          · linear_combination sr * e2
          · linear_combination sg * e2
          · linear_combination sb * e2
          · linear_combination e2
        · rw [if_neg c1, if_neg c2]
          apply RGBA.ext' <;> simp [onto, scale, clear]

/-- C18 (consequence): removing a shape that is reported as unable to paint leaves every stack of layers — whatever is
    below, above or around it — unchanged at every point of the canvas -/
theorem prune_preserves_render (s : PaintAttrs α) (fr fg fb sr sg sb : α) (moveOnly : Bool) (area : Except PyErr α)
    (inFill inStroke : Bool) (bg : RGBA α) (pre post : List (Layer α))
    (hm : moveOnly = true → inFill = false ∧ inStroke = false)
    (ha : ∀ a, area = .ok a → ¬ (0 < a) → inFill = false)
    (h : mightPaint s moveOnly area = false) :
    onto bg (pre ++ shapeAt s fr fg fb sr sg sb inFill inStroke ++ post) = onto bg (pre ++ post) := by
  rw [onto_append, onto_append, onto_append, onto_eq_over (onto bg pre),
    unpainted_paints_nothing s fr fg fb sr sg sb moveOnly area inFill inStroke hm ha h, clear_over]

/-- … and the converse direction of the report: a displayed shape whose fill or stroke is visible where the point is
    covered is never reported as unable to paint (so nothing that shows is pruned) -/
theorem painted_is_kept (s : PaintAttrs α) (area : Except PyErr α) (hd : s.display ≠ "none")
    (h : strokeVisible s = true ∨ (fillVisible s = true ∧ ∀ a, area = .ok a → 0 < a)) :
    mightPaint s false area = true := by
  unfold mightPaint
  have hd' : ¬ ((s.display == "none") = true) := by simpa using hd
  rw [if_neg hd']
  simp only [Bool.false_eq_true, if_false]
  by_cases hs : strokeVisible s = true
  · rw [if_pos hs]
  · rw [if_neg hs]
    rcases h with h | ⟨hf, hpos⟩
    · exact absurd h hs
    · cases area with
      | error e => simp [hf]
      | ok a => simp [hf, hpos a rfl]
end

section
open PicoSVG.Spec
variable {α : Type} [Add α] [Sub α] [Mul α] [OfNat α 0] [OfNat α 1]

theorem stepSeg_move (st : IState α) (c : Char) (a : List α) (hc : Path.toUpper c = 'M') (st' : IState α) (segs : List (Seg α))
    (h : stepSeg st c a = some (st', segs)) : ∃ p, segs = [Seg.move p] := by
  unfold stepSeg at h
  simp only [hc] at h
  split at h <;> simp_all
  all_goals first | exact ⟨_, h.2.symm⟩ | skip

theorem interpFrom_moveOnly (cmds : List (Cmd α)) (st : IState α) (segs : List (Seg α))
    (hm : cmds.all (fun c => Path.toUpper c.1 == 'M') = true) (h : interpFrom st cmds = some segs) :
    ∀ sg ∈ segs, ∃ p, sg = Seg.move p := by
  induction cmds generalizing st segs with
  | nil => simp [interpFrom] at h; subst h; simp
  | cons c rest ih =>
    obtain ⟨ch, a⟩ := c
    simp only [List.all_cons, Bool.and_eq_true, beq_iff_eq] at hm
    simp only [interpFrom] at h
    cases hs : stepSeg st ch a with
    | none => simp [hs] at h
    | some r =>
      obtain ⟨st', s1⟩ := r
      simp only [hs] at h
      cases hr : interpFrom st' rest with
      | none => simp [hr] at h
      | some l =>
        simp only [hr, Option.some.injEq] at h
        subst h
        obtain ⟨p, rfl⟩ := stepSeg_move st ch a hm.1 st' s1 hs
        intro sg hsg
        simp only [List.cons_append, List.nil_append, List.mem_cons] at hsg
        rcases hsg with rfl | hsg
        · exact ⟨p, rfl⟩
        · exact ih st' l hm.2 hr sg hsg
end
end PicoSVG.PruneP
