/-
  Helper lemmas for the arc conversion (C12).
-/
import PicoSVG.Model.Arc
import PicoSVG.Proofs.Affine

set_option linter.unusedSectionVars false
namespace PicoSVG

section
variable {α : Type} [Field α] [LinearOrder α] [IsStrictOrderedRing α]

/-- what the proofs assume of the `math` primitives (true of ℝ with the real functions) -/
structure GoodMath (M : ArcMath α) : Prop where
  sqrt_sq : ∀ x, 0 ≤ x → M.sqrt x * M.sqrt x = x
  half_eq : M.half * (1 + 1) = 1
  quarter_eq : M.quarter * (1 + 1 + 1 + 1) = 1

theorem absv_eq_zero_iff (x : α) : absv x = 0 ↔ x = 0 := by
  unfold absv
  split
  · constructor
    · intro h; exact neg_eq_zero.mp h
    · intro h; rw [h]; simp
  · rfl

theorem Pt.beq_iff (p q : Pt α) : (p == q) = true ↔ p = q := by
  constructor
  · intro h
    simp only [BEq.beq, Bool.and_eq_true, decide_eq_true_eq] at h
    exact Pt.ext' h.1 h.2
  · intro h; subst h; simp [BEq.beq]

theorem arc_zero_radius_line (M : ArcMath α) (eps : α) (a : EllArc α)
    (hne : a.end_ ≠ a.start) (hr : a.rx = 0 ∨ a.ry = 0) :
    ∃ p, arcToCubic M eps a = .ok (.line p) ∧ p = a.end_ := by
  refine ⟨a.end_, ?_, rfl⟩
  unfold arcToCubic
  have h1 : ({ a with rx := absv a.rx, ry := absv a.ry } : EllArc α).isZeroLength = false := by
    unfold EllArc.isZeroLength
    rw [Bool.eq_false_iff]; intro h; exact hne ((Pt.beq_iff _ _).mp h)
  have h2 : ({ a with rx := absv a.rx, ry := absv a.ry } : EllArc α).isStraightLine = true := by
    unfold EllArc.isStraightLine
    have z : absv (absv (0 : α)) = 0 := by
      rw [(absv_eq_zero_iff (0 : α)).mpr rfl]; exact (absv_eq_zero_iff (0 : α)).mpr rfl
    rcases hr with h | h
    · simp [h, z]
    · simp [h, z]
  simp only [h1, h2, Bool.false_eq_true, if_false, if_true]

theorem arc_coincident_empty (M : ArcMath α) (eps : α) (a : EllArc α) (h : a.end_ = a.start) :
    arcToCubic M eps a = .ok .empty := by
  unfold arcToCubic
  have h1 : ({ a with rx := absv a.rx, ry := absv a.ry } : EllArc α).isZeroLength = true := by
    unfold EllArc.isZeroLength; simp only; rw [h]; exact (Pt.beq_iff _ _).mpr rfl
  simp only [h1, if_true]

/-- every segment the loop emits at index `n-1` ends exactly at the arc's end point -/
theorem arcSegment_last (M : ArcMath α) (a : EllArc α) (cp : CenterParam α) (pt : Aff α) (n : Nat)
    (c : Cubic α) (h : arcSegment M a cp pt n (n - 1) = some c) : c.p = a.end_ := by
  unfold arcSegment at h
  simp only at h
  split at h
  · exact absurd h (by simp)
  · injection h with h; subst h; simp

theorem arcSegGo_length_le (M : ArcMath α) (a : EllArc α) (cp : CenterParam α) (pt : Aff α) (n i fuel : Nat) :
    (arcSegGo M a cp pt n i fuel).length ≤ n - i := by
  induction fuel generalizing i with
  | zero => simp [arcSegGo]
  | succ fuel ih =>
    unfold arcSegGo
    split
    · simp
    · split
      · simp
      · simp only [List.length_cons]
        have := ih (i + 1)
        omega

/-- if the loop from index `i` emits all `n - i` segments then its last one ends at `a.end_` -/
theorem arcSegGo_last (M : ArcMath α) (a : EllArc α) (cp : CenterParam α) (pt : Aff α) (n i fuel : Nat)
    (hi : i < n) (hlen : (arcSegGo M a cp pt n i fuel).length = n - i) :
    ∃ c, (arcSegGo M a cp pt n i fuel).getLast? = some c ∧ c.p = a.end_ := by
  induction fuel generalizing i with
  | zero => simp [arcSegGo] at hlen; omega
  | succ fuel ih =>
    unfold arcSegGo at hlen ⊢
    have hge : ¬ i ≥ n := by omega
    simp only [hge, if_false] at hlen ⊢
    cases hs : arcSegment M a cp pt n i with
    | none => simp [hs] at hlen; omega
    | some c =>
      simp only [hs] at hlen ⊢
      simp only [List.length_cons] at hlen
      by_cases hlast : i + 1 = n
      · -- this is the last index: the recursive call is empty
        have hnil : arcSegGo M a cp pt n (i + 1) fuel = [] := by
          have := arcSegGo_length_le M a cp pt n (i + 1) fuel
          apply List.eq_nil_of_length_eq_zero; omega
        refine ⟨c, by simp [hnil], ?_⟩
        have : i = n - 1 := by omega
        rw [this] at hs
        exact arcSegment_last M a cp pt n c hs
      · have hi' : i + 1 < n := by omega
        have hlen' : (arcSegGo M a cp pt n (i + 1) fuel).length = n - (i + 1) := by omega
        obtain ⟨c', hc', hp⟩ := ih (i + 1) hi' hlen'
        refine ⟨c', ?_, hp⟩
        rw [List.getLast?_cons]
        simp [hc']

/-! #### the unit-circle frame -/

theorem unit_chord (M : ArcMath α) (G : GoodMath M) (a : EllArc α) (hrx : a.rx ≠ 0) (hry : a.ry ≠ 0) :
    EllArc.unitDistSq ((EllArc.unitFrame M a).mapPt a.start) ((EllArc.unitFrame M a).mapPt a.end_) =
      (1 + 1 + 1 + 1) * EllArc.radiiScale M a := by
  have hh := G.half_eq
  have hhalf : M.half = 1 / (1 + 1) := by
    field_simp; linarith
  unfold EllArc.unitDistSq EllArc.unitFrame EllArc.radiiScale EllArc.rot
  simp only [Aff.rotateCS, Aff.translate_eq_mul, Aff.matrix, Aff.scale, Aff.mul, Aff.id, Aff.mapPt,
    Aff.mapVec, hhalf]
  field_simp
  ring

theorem center_equidistant (M : ArcMath α) (G : GoodMath M) (a : EllArc α) (p1 p2 : Pt α)
    (hd : 0 < EllArc.unitDistSq p1 p2) (hfit : EllArc.unitDistSq p1 p2 ≤ 1 + 1 + 1 + 1) :
    let c := EllArc.unitCenter M a p1 p2
    (p1.x - c.x) * (p1.x - c.x) + (p1.y - c.y) * (p1.y - c.y) = 1 ∧
    (p2.x - c.x) * (p2.x - c.x) + (p2.y - c.y) * (p2.y - c.y) = 1 := by
  intro c
  have hq : M.quarter = 1 / (1 + 1 + 1 + 1) := by
    have := G.quarter_eq; field_simp; linarith
  have hhalf : M.half = 1 / (1 + 1) := by
    have := G.half_eq; field_simp; linarith
  set d := EllArc.unitDistSq p1 p2 with hddef
  have hdne : d ≠ 0 := ne_of_gt hd
  -- no clamping: 1/d - 1/4 ≥ 0
  have hv : 0 ≤ 1 / d - M.quarter := by
    rw [hq]
    have h4 : (0 : α) < 1 + 1 + 1 + 1 := by positivity
    rw [sub_nonneg, div_le_div_iff₀ h4 hd]
    linarith
  -- sf² = 1/d - 1/4
  have hsf : EllArc.scaleFactor M a d * EllArc.scaleFactor M a d = 1 / d - M.quarter := by
    unfold EllArc.scaleFactor
    simp only [not_lt.mpr hv, if_false]
    split
    · rw [neg_mul_neg]; exact G.sqrt_sq _ hv
    · exact G.sqrt_sq _ hv
  have hdx : (p2.x - p1.x) * (p2.x - p1.x) + (p2.y - p1.y) * (p2.y - p1.y) = d := by
    rw [hddef]; rfl
  simp only [c, EllArc.unitCenter, ← hddef]
  generalize EllArc.scaleFactor M a d = sf at hsf
  rw [hhalf]
  rw [hq] at hsf
  constructor
  · have : (p1.x - (p1.x + (p2.x - p1.x) * (1 / (1 + 1)) + -((p2.y - p1.y) * sf))) *
        (p1.x - (p1.x + (p2.x - p1.x) * (1 / (1 + 1)) + -((p2.y - p1.y) * sf))) +
        (p1.y - (p1.y + (p2.y - p1.y) * (1 / (1 + 1)) + (p2.x - p1.x) * sf)) *
        (p1.y - (p1.y + (p2.y - p1.y) * (1 / (1 + 1)) + (p2.x - p1.x) * sf)) =
        ((p2.x - p1.x) * (p2.x - p1.x) + (p2.y - p1.y) * (p2.y - p1.y)) * (1 / (1 + 1 + 1 + 1) + sf * sf) := by
      field_simp; ring
    rw [this, hdx, hsf]
    field_simp
    ring
  · have : (p2.x - (p1.x + (p2.x - p1.x) * (1 / (1 + 1)) + -((p2.y - p1.y) * sf))) *
        (p2.x - (p1.x + (p2.x - p1.x) * (1 / (1 + 1)) + -((p2.y - p1.y) * sf))) +
        (p2.y - (p1.y + (p2.y - p1.y) * (1 / (1 + 1)) + (p2.x - p1.x) * sf)) *
        (p2.y - (p1.y + (p2.y - p1.y) * (1 / (1 + 1)) + (p2.x - p1.x) * sf)) =
        ((p2.x - p1.x) * (p2.x - p1.x) + (p2.y - p1.y) * (p2.y - p1.y)) * (1 / (1 + 1 + 1 + 1) + sf * sf) := by
      field_simp; ring
    rw [this, hdx, hsf]
    field_simp
    ring

/-- after `correct_out_of_range_radii` the radii fit the chord: x'²/rx² + y'²/ry² ≤ 1 -/
theorem corrected_radii_fit (M : ArcMath α) (G : GoodMath M) (a a' : EllArc α)
    (hrx : a.rx ≠ 0) (hry : a.ry ≠ 0) (h : EllArc.correctRadii M a = .ok a') :
    a' = a ∨ (1 < EllArc.radiiScale M a ∧ EllArc.radiiScale M a' = 1 ∧
      a'.rx = a.rx * M.sqrt (EllArc.radiiScale M a) ∧ a'.ry = a.ry * M.sqrt (EllArc.radiiScale M a)) := by
  unfold EllArc.correctRadii at h
  split at h
  · injection h with h; exact Or.inl h.symm
  · split at h
    · exact absurd h (by simp)
    · split at h
      · rename_i hgt
        injection h with h
        right
        subst h
        refine ⟨hgt, ?_, rfl, rfl⟩
        set s := EllArc.radiiScale M a with hs
        have hs0 : 0 ≤ s := le_of_lt (lt_trans one_pos hgt)
        have hsq := G.sqrt_sq s hs0
        have hsne : s ≠ 0 := ne_of_gt (lt_trans one_pos hgt)
        have hsqne : M.sqrt s ≠ 0 := by
          intro h0; rw [h0] at hsq; simp at hsq; exact hsne hsq.symm
        -- radiiScale only depends on start/end/rotation through the same numerators
        have key : EllArc.radiiScale M { a with rx := a.rx * M.sqrt s, ry := a.ry * M.sqrt s } =
            EllArc.radiiScale M a / (M.sqrt s * M.sqrt s) := by
          unfold EllArc.radiiScale
          simp only
          field_simp
        rw [key, hsq, ← hs]
        exact div_self hsne
      · injection h with h; exact Or.inl h.symm

end
end PicoSVG
