/-
  Completeness of the number scanner of the path-data tokenizer (C10): the regular expression `_FLOAT_RE`, as modelled by
  `PathLex.matchFloat`, matches every well-formed decimal number in full when the text after it cannot continue it.
  Core Lean only.
-/
import PicoSVG.Model.PathLex

namespace PicoSVG.LexP
open PicoSVG PathLex

/-- the text after a number does not continue it -/
def restOK : List Char → Bool
  | [] => true
  | c :: _ => !isDigit c && c != '.' && c != 'e' && c != 'E'

def noDigit : List Char → Bool
  | [] => true
  | c :: _ => !isDigit c

theorem spanDigits_append (ds r : List Char) (hd : ds.all isDigit = true) (hr : noDigit r = true) :
    spanDigits (ds ++ r) = (ds, r) := by
  induction ds with
  | nil =>
    cases r with
    | nil => rfl
    | cons c t =>
      have hc : isDigit c = false := by simpa [noDigit] using hr
      simp only [List.nil_append, spanDigits, hc]; simp
  | cons d ds ih =>
    simp only [List.all_cons, Bool.and_eq_true] at hd
    simp only [List.cons_append, spanDigits, hd.1, if_true, ih hd.2]

theorem restOK_noDigit (r : List Char) (h : restOK r = true) : noDigit r = true := by
  cases r with
  | nil => rfl
  | cons c t => simp only [restOK, Bool.and_eq_true, Bool.not_eq_true'] at h; simp [noDigit, h.1.1.1]

/-- a decimal number as the printer writes it: sign, integer digits, optional fraction, optional exponent -/
structure NumLex where
  sign : List Char          -- [] , ['-'] or ['+']
  int : List Char           -- at least one digit
  frac : List Char          -- [] or '.' followed by at least one digit
  exp : List Char           -- [] or e/E, optional sign, at least one digit

def NumLex.chars (n : NumLex) : List Char := n.sign ++ n.int ++ n.frac ++ n.exp

def fracOK (f : List Char) : Bool :=
  match f with
  | [] => true
  | c :: ds => c == '.' && !ds.isEmpty && ds.all isDigit

def expOK (e : List Char) : Bool :=
  match e with
  | [] => true
  | c :: r => (c == 'e' || c == 'E') &&
      (match r with
       | '-' :: ds => !ds.isEmpty && ds.all isDigit
       | '+' :: ds => !ds.isEmpty && ds.all isDigit
       | ds => !ds.isEmpty && ds.all isDigit)

def NumLex.ok (n : NumLex) : Bool :=
  (n.sign == [] || n.sign == ['-'] || n.sign == ['+']) && !n.int.isEmpty && n.int.all isDigit && fracOK n.frac && expOK n.exp


/-- what may follow a complete fraction / exponent-free part: not a digit, not a dot -/
def noDigitDot : List Char → Bool
  | [] => true
  | c :: _ => !isDigit c && c != '.'

theorem optFrac_spec (f r : List Char) (hf : fracOK f = true) (hr : noDigitDot r = true) :
    optFrac (f ++ r) = (f, r) := by
  cases f with
  | nil =>
    cases r with
    | nil => rfl
    | cons c t =>
      simp only [noDigitDot, Bool.and_eq_true, Bool.not_eq_true', bne_iff_ne, ne_eq] at hr
      simp only [List.nil_append, optFrac]
      split
      · rename_i heq
        injection heq with h1 h2
        exact absurd h1 hr.2
      · rfl
  | cons c ds =>
    simp only [fracOK, Bool.and_eq_true, beq_iff_eq, Bool.not_eq_true'] at hf
    obtain ⟨⟨rfl, hne⟩, hall⟩ := hf
    have hr' : noDigit r = true := by
      cases r with
      | nil => rfl
      | cons c t => simp only [noDigitDot, Bool.and_eq_true, Bool.not_eq_true'] at hr; simp [noDigit, hr.1]
    simp only [List.cons_append, optFrac, spanDigits_append ds r hall hr']
    cases ds with
    | nil => simp at hne
    | cons d t => simp

def noE : List Char → Bool
  | [] => true
  | c :: _ => c != 'e' && c != 'E'

theorem digit_not_sign (c : Char) (h : isDigit c = true) : c ≠ '-' ∧ c ≠ '+' := by
  constructor <;> (intro e; subst e; revert h; decide)

theorem optExp_spec (e r : List Char) (he : expOK e = true) (hr1 : noDigit r = true) (hr2 : e = [] → noE r = true) :
    optExp (e ++ r) = (e, r) := by
  have hr' : noDigit r = true := hr1
  cases e with
  | nil =>
    have := hr2 rfl
    cases r with
    | nil => rfl
    | cons c t =>
      simp only [noE, Bool.and_eq_true, bne_iff_ne, ne_eq] at this
      simp only [List.nil_append, optExp]
      have h1 : (c == 'e') = false := by simpa using this.1
      have h2 : (c == 'E') = false := by simpa using this.2
      simp [h1, h2]
  | cons c q =>
    simp only [expOK, Bool.and_eq_true, Bool.or_eq_true, beq_iff_eq] at he
    obtain ⟨hc, hq⟩ := he
    simp only [List.cons_append, optExp]
    have hce : (c == 'e' || c == 'E') = true := by simpa using hc
    simp only [hce, if_true]
    cases q with
    | nil => simp at hq
    | cons s ds =>
      by_cases hm : s = '-'
      · subst hm
        simp only [Bool.and_eq_true, Bool.not_eq_true'] at hq
        simp only [List.cons_append, spanDigits_append ds r hq.2 hr']
        cases ds with
        | nil => simp at hq
        | cons d t => simp
      · by_cases hp : s = '+'
        · subst hp
          simp only [Bool.and_eq_true, Bool.not_eq_true'] at hq
          simp only [List.cons_append, spanDigits_append ds r hq.2 hr']
          cases ds with
          | nil => simp at hq
          | cons d t => simp
        · have hq' : (s :: ds).all isDigit = true := by
            have : (match s :: ds with
              | '-' :: ds => !ds.isEmpty && ds.all isDigit
              | '+' :: ds => !ds.isEmpty && ds.all isDigit
              | ds => !ds.isEmpty && ds.all isDigit) = (!(s :: ds).isEmpty && (s :: ds).all isDigit) := by
              split
              · rename_i heq; injection heq with h1 _; exact absurd h1 hm
              · rename_i heq; injection heq with h1 _; exact absurd h1 hp
              · rfl
            rw [this] at hq
            simpa using hq
          have hsp : spanDigits (s :: ds ++ r) = (s :: ds, r) := by
            have := spanDigits_append (s :: ds) r hq' hr'
            simpa using this
          have hsp' : spanDigits (s :: (ds ++ r)) = (s :: ds, r) := by simpa using hsp
          simp only [List.cons_append]
          split
          · rename_i heq; injection heq with h1 _; exact absurd h1 hm
          · rename_i heq; injection heq with h1 _; exact absurd h1 hp
          · simp [hsp']


theorem noDigitDot_of (e rest : List Char) (he : expOK e = true) (hr : restOK rest = true) :
    noDigitDot (e ++ rest) = true := by
  cases e with
  | nil =>
    cases rest with
    | nil => rfl
    | cons c t =>
      simp only [restOK, Bool.and_eq_true, Bool.not_eq_true', bne_iff_ne, ne_eq] at hr
      simp [noDigitDot, hr.1.1.1, hr.1.1.2]
  | cons c q =>
    simp only [expOK, Bool.and_eq_true, Bool.or_eq_true, beq_iff_eq] at he
    rcases he.1 with rfl | rfl <;> simp [noDigitDot] <;> decide

theorem noDigit_of_frac (f x : List Char) (hf : fracOK f = true) (hx : noDigitDot x = true) :
    noDigit (f ++ x) = true := by
  cases f with
  | nil =>
    cases x with
    | nil => rfl
    | cons c t =>
      simp only [noDigitDot, Bool.and_eq_true, Bool.not_eq_true'] at hx
      simp [noDigit, hx.1]
  | cons c ds =>
    simp only [fracOK, Bool.and_eq_true, beq_iff_eq] at hf
    obtain ⟨⟨rfl, _⟩, _⟩ := hf
    simp [noDigit]; decide

/-- C10 (completeness of the number scanner): a well-formed decimal number followed by text that cannot continue it is
    matched as exactly that number — every number the printer writes is read back as one token -/
theorem matchFloat_complete (n : NumLex) (rest : List Char) (hn : n.ok = true) (hr : restOK rest = true) :
    matchFloat (n.chars ++ rest) = some (n.chars, rest) := by
  simp only [NumLex.ok, Bool.and_eq_true, Bool.or_eq_true, beq_iff_eq, Bool.not_eq_true'] at hn
  obtain ⟨⟨⟨⟨hs, hne⟩, hint⟩, hfrac⟩, hexp⟩ := hn
  cases hi : n.int with
  | nil => simp [hi] at hne
  | cons c t =>
    rw [hi] at hint
    simp only [List.all_cons, Bool.and_eq_true] at hint
    have hcs := digit_not_sign c hint.1
    have hx : noDigitDot (n.exp ++ rest) = true := noDigitDot_of n.exp rest hexp hr
    have hnd : noDigit (n.frac ++ (n.exp ++ rest)) = true := noDigit_of_frac n.frac _ hfrac hx
    have hsd : spanDigits (t ++ (n.frac ++ (n.exp ++ rest))) = (t, n.frac ++ (n.exp ++ rest)) :=
      spanDigits_append t _ hint.2 hnd
    have hof : optFrac (n.frac ++ (n.exp ++ rest)) = (n.frac, n.exp ++ rest) := optFrac_spec n.frac _ hfrac hx
    have hoe : optExp (n.exp ++ rest) = (n.exp, rest) :=
      optExp_spec n.exp rest hexp (restOK_noDigit rest hr) (by
        intro _
        cases rest with
        | nil => rfl
        | cons d q =>
          simp only [restOK, Bool.and_eq_true, bne_iff_ne, ne_eq] at hr
          simp [noE, hr.1.2, hr.2])
    have hbody : matchBody (c :: t ++ n.frac ++ n.exp ++ rest) = some (c :: t ++ n.frac, n.exp ++ rest) := by
      simp only [List.cons_append, List.append_assoc, matchBody, hint.1, if_true, hsd, hof]
    have hsplit : splitSign (n.sign ++ (c :: t ++ n.frac ++ n.exp ++ rest)) = (n.sign, c :: t ++ n.frac ++ n.exp ++ rest) := by
      rcases hs with (h | h) | h <;> rw [h]
      · simp only [List.nil_append, List.cons_append, splitSign]
        split
        · rename_i heq; injection heq with h1 _; exact absurd h1 hcs.1
        · rename_i heq; injection heq with h1 _; exact absurd h1 hcs.2
        · rfl
      · rfl
      · rfl
    have hchars : n.chars ++ rest = n.sign ++ (c :: t ++ n.frac ++ n.exp ++ rest) := by
      simp [NumLex.chars, hi, List.append_assoc]
    rw [hchars]
    unfold matchFloat
    rw [hsplit]
    simp only [hbody, hoe]
    simp [NumLex.chars, hi, List.append_assoc]

/-- non-vacuity: -12.5e-3 followed by a comma -/
example : matchFloat ("-12.5e-3,7".toList) = some ("-12.5e-3".toList, ",7".toList) := by decide

end PicoSVG.LexP
