/-
  Template (href) inheritance of gradients (C06): which attributes an inlined gradient ends up with.
-/
import PicoSVG.Proofs.CascadeP
import PicoSVG.Model.Gradient

namespace PicoSVG.TmplP
open PicoSVG Style CascadeP SvgObj

theorem has_iff_get (a : Attrs) (k : String) : Attrs.has a k = (Attrs.get a k).isSome := by
  unfold Attrs.has Attrs.get
  exact any_key_iff_get a k

/-- C06 (template inheritance): after inlining a template, every attribute the gradient had keeps its value; a field of
    the gradient's dataclass that it lacked has the template's value (if the template has one); nothing else appears -/
theorem inheritFields_get (fields : List String) (tmpl a : Attrs) (k : String) :
    Attrs.get (inheritFields fields tmpl a) k
      = match Attrs.get a k with
        | some v => some v
        | none => if fields.contains k then Attrs.get tmpl k else none := by
  unfold inheritFields
  induction fields generalizing a with
  | nil => simp; cases Attrs.get a k <;> rfl
  | cons f fs ih =>
    simp only [List.foldl_cons]
    rw [ih]
    cases ht : Attrs.get tmpl f with
    | none =>
      simp only
      cases hak : Attrs.get a k with
      | some v => rfl
      | none =>
        simp only [List.contains_cons]
        by_cases hfk : k == f
        · have e : k = f := by simpa using hfk
          subst e
          simp [ht]
        · simp [hfk]
    | some v =>
      simp only
      by_cases hh : Attrs.has a f
      · simp only [hh, Bool.not_true, Bool.false_eq_true, if_false]
        cases hak : Attrs.get a k with
        | some w => rfl
        | none =>
          simp only [List.contains_cons]
          by_cases hfk : k == f
          · have e : k = f := by simpa using hfk
            subst e
            rw [has_iff_get, hak] at hh
            simp at hh
          · simp [hfk]
      · simp only [hh, Bool.not_false, if_true]
        have hnone : Attrs.get a f = none := by
          rw [has_iff_get] at hh
          cases h : Attrs.get a f with
          | none => rfl
          | some x => simp [h] at hh
        have hset : Attrs.get (Attrs.set a f v) k = if f == k then some v else Attrs.get a k := by
          unfold Attrs.get Attrs.set; exact get_set a f v k
        rw [hset]
        by_cases hfk : f == k
        · have e : f = k := by simpa using hfk
          subst e
          simp [hnone, ht]
        · have hkf : (k == f) = false := by
            have : ¬ f = k := by simpa using hfk
            simpa using fun h : k = f => this h.symm
          simp only [hfk, Bool.false_eq_true, if_false, List.contains_cons, hkf, Bool.false_or]

end PicoSVG.TmplP
