/-
  Composition of the discard passes (C14): on text-free documents two local passes in sequence are one local pass, so the
  whole clean-up is a single bottom-up pass and is blind to any mix of the noise kinds at once.  (With text nodes the
  tail-text rule of lxml makes sequential and combined removal differ in a corner — text after a removed processing
  instruction after a removed element — which is why the statement is for text-free trees.)
-/
import PicoSVG.Proofs.Noise

namespace PicoSVG.CompP
open PicoSVG Node Cleanup

/-- two local passes in sequence, as one local pass -/
def comp (P1 P2 : LocalPass) : LocalPass :=
  { drop := fun t a => P1.drop t a || P2.drop t (P1.amap t a)
    amap := fun t a => P2.amap t (P1.amap t a)
    dropOther := fun n => P1.dropOther n || P2.dropOther n }

mutual
  /-- no text node anywhere in the subtree -/
  def noText : Node → Bool
    | .elem _ _ _ cs => noTextL cs
    | .text _ => false
    | _ => true
  def noTextL : List Node → Bool
    | [] => true
    | c :: cs => noText c && noTextL cs
end

/-- without text nodes the tail-text flag is irrelevant -/
theorem flag_irrelevant (f : Node → List Node) (b : Bool) (cs : List Node) (h : noTextL cs = true) :
    rewriteList f b cs = rewriteList f false cs := by
  cases cs with
  | nil => simp [rewriteList]
  | cons c cs =>
    cases b with
    | false => rfl
    | true =>
      cases c with
      | text s => simp [noTextL, noText] at h
      | elem u t a k => simp [rewriteList]
      | comment => simp [rewriteList]
      | pi => simp [rewriteList]
      | entity => simp [rewriteList]


theorem noTextL_append (xs ys : List Node) : noTextL (xs ++ ys) = (noTextL xs && noTextL ys) := by
  induction xs with
  | nil => simp [noTextL]
  | cons x xs ih => simp [noTextL, ih, Bool.and_assoc]

theorem rewriteList_append (f : Node → List Node) (xs ys : List Node) (hy : noTextL ys = true) :
    rewriteList f false (xs ++ ys) = rewriteList f false xs ++ rewriteList f false ys := by
  suffices h : ∀ b, rewriteList f b (xs ++ ys) = rewriteList f b xs ++ rewriteList f false ys from h false
  induction xs with
  | nil => intro b; simp [rewriteList, flag_irrelevant f b ys hy]
  | cons x xs ih =>
    intro b
    cases b with
    | false => simp only [List.cons_append, rewriteList, ih, List.append_assoc]
    | true =>
      cases x with
      | text s => simp only [List.cons_append, rewriteList, ih]
      | elem u t a k => simp only [List.cons_append, rewriteList, ih, List.append_assoc]
      | comment => simp only [List.cons_append, rewriteList, ih, List.append_assoc]
      | pi => simp only [List.cons_append, rewriteList, ih, List.append_assoc]
      | entity => simp only [List.cons_append, rewriteList, ih, List.append_assoc]

mutual
  theorem noText_rewrite (P : LocalPass) (n : Node) (h : noText n = true) : noTextL (rewrite P.f n) = true := by
    cases n with
    | elem u t a cs =>
      simp only [rewrite, LocalPass.f]
      split
      · rfl
      · simp only [noTextL, noText, Bool.and_true]
        exact noTextL_rewriteList P false cs (by simpa [noText] using h)
    | comment => simp only [rewrite, LocalPass.f]; split <;> simp [noTextL, noText]
    | pi => simp only [rewrite, LocalPass.f]; split <;> simp [noTextL, noText]
    | text s => simp [noText] at h
    | entity => simp only [rewrite, LocalPass.f]; split <;> simp [noTextL, noText]
  theorem noTextL_rewriteList (P : LocalPass) (b : Bool) (cs : List Node) (h : noTextL cs = true) :
      noTextL (rewriteList P.f b cs) = true := by
    cases cs with
    | nil => simp [rewriteList, noTextL]
    | cons c cs =>
      simp only [noTextL, Bool.and_eq_true] at h
      rw [flag_irrelevant P.f b (c :: cs) (by simp [noTextL, h.1, h.2])]
      simp only [rewriteList]
      rw [noTextL_append, noText_rewrite P c h.1, noTextL_rewriteList P _ cs h.2]
      rfl
end

mutual
  /-- on a text-free tree, pass P1 followed by pass P2 is the single pass `comp P1 P2` -/
  theorem rewrite_comp (P1 P2 : LocalPass) (n : Node) (h : noText n = true) :
      rewriteList P2.f false (rewrite P1.f n) = rewrite (comp P1 P2).f n := by
    cases n with
    | elem u t a cs =>
      have hcs : noTextL cs = true := by simpa [noText] using h
      simp only [rewrite, LocalPass.f, comp]
      by_cases h1 : P1.drop t a
      · simp [h1, rewriteList]
      · simp only [h1, Bool.false_eq_true, if_false, rewriteList, rewrite, LocalPass.f, Bool.false_or, List.append_nil]
        by_cases h2 : P2.drop t (P1.amap t a)
        · simp [h2]
        · simp only [h2, Bool.false_eq_true, if_false]
          rw [rewriteList_comp P1 P2 cs hcs]
          rfl
    | comment =>
      simp only [rewrite, LocalPass.f, comp]
      by_cases h1 : P1.dropOther .comment <;> by_cases h2 : P2.dropOther .comment <;>
        simp [h1, h2, rewriteList, rewrite, LocalPass.f]
    | pi =>
      simp only [rewrite, LocalPass.f, comp]
      by_cases h1 : P1.dropOther .pi <;> by_cases h2 : P2.dropOther .pi <;>
        simp [h1, h2, rewriteList, rewrite, LocalPass.f]
    | text s => simp [noText] at h
    | entity =>
      simp only [rewrite, LocalPass.f, comp]
      by_cases h1 : P1.dropOther .entity <;> by_cases h2 : P2.dropOther .entity <;>
        simp [h1, h2, rewriteList, rewrite, LocalPass.f]
  theorem rewriteList_comp (P1 P2 : LocalPass) (cs : List Node) (h : noTextL cs = true) :
      rewriteList P2.f false (rewriteList P1.f false cs) = rewriteList (comp P1 P2).f false cs := by
    cases cs with
    | nil => simp [rewriteList]
    | cons c cs =>
      simp only [noTextL, Bool.and_eq_true] at h
      simp only [rewriteList]
      rw [flag_irrelevant P1.f _ cs h.2, flag_irrelevant (comp P1 P2).f _ cs h.2,
        rewriteList_append P2.f _ _ (noTextL_rewriteList P1 false cs h.2),
        rewrite_comp P1 P2 c h.1, rewriteList_comp P1 P2 cs h.2]
end


/-- the four discard passes, in the order `topicosvg` runs them, as one local pass -/
def allPass (ng : Bool) : LocalPass := comp (comp (comp (nonSvgPass ng) piPass) anonSymbolPass) metaPass

/-- on a text-free document whose root `remove_nonsvg_content` keeps, the whole clean-up is one bottom-up pass -/
theorem cleanup_single_pass (ng : Bool) (u : Nat) (t : String) (a : Attrs) (cs : List Node)
    (hroot : (nonSvgPass ng).drop t a = false) (hcs : noTextL cs = true) :
    cleanup ng (.elem u t a cs)
      = .elem u t ((nonSvgPass ng).amap t a) (rewriteList (allPass ng).f false cs) := by
  have e1 : removeNonSvg ng (.elem u t a cs)
      = .elem u t ((nonSvgPass ng).amap t a) (rewriteList (nonSvgPass ng).f false cs) := by
    simp [removeNonSvg, rewrite, LocalPass.f, hroot]
  have n1 := noTextL_rewriteList (nonSvgPass ng) false cs hcs
  have c1 := rewriteList_comp (nonSvgPass ng) piPass cs hcs
  have n2 : noTextL (rewriteList (comp (nonSvgPass ng) piPass).f false cs) = true :=
    noTextL_rewriteList _ false cs hcs
  have c2 := rewriteList_comp (comp (nonSvgPass ng) piPass) anonSymbolPass cs hcs
  have c3 := rewriteList_comp (comp (comp (nonSvgPass ng) piPass) anonSymbolPass) metaPass cs hcs
  simp only [cleanup, e1, removePIs, removeAnonSymbols, removeTitleMetaDesc, rewriteBelow, Node.children,
    Node.setChildren, c1, c2, c3, allPass]

/-- C14 (mixed noise): on text-free documents the clean-up is blind to any mix of the four kinds of noise — foreign
    elements and attributes, processing instructions, id-less symbols, title / desc / metadata — inserted anywhere,
    at any depth, with any (text-free) subtree, in one go -/
theorem cleanup_blind_mixed (ng : Bool) (u : Nat) (t : String) (a : Attrs) (cs cs' : List Node)
    (hroot : (nonSvgPass ng).drop t a = false) (hcs : noTextL cs = true) (hcs' : noTextL cs' = true)
    (h : Noise.ExtL (allPass ng) cs cs') :
    cleanup ng (.elem u t a cs') = cleanup ng (.elem u t a cs) := by
  rw [cleanup_single_pass ng u t a cs' hroot hcs', cleanup_single_pass ng u t a cs hroot hcs,
    Noise.rewriteList_ext (allPass ng) h false]

/-- every kind of noise is noise for the combined pass -/
theorem allPass_noise_kinds :
    (allPass true).noise (.elem 7 "{http://example.org/x}blob" [] []) = true ∧
    (allPass true).noise .pi = true ∧
    (allPass true).noise (.elem 7 (svgTag "symbol") [("viewBox", "0 0 1 1")] []) = true ∧
    (allPass true).noise (.elem 7 (svgTag "metadata") [] []) = true := by
  refine ⟨by decide, rfl, by decide, by decide⟩

end PicoSVG.CompP
