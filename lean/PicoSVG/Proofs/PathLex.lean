/-
  Helper lemmas about the tokenizer (C10).
-/
import PicoSVG.Model.PathLex
import PicoSVG.Spec.PathGrammar

set_option linter.unusedSectionVars false
namespace PicoSVG.PathLex

theorem spanDigits_split (cs : List Char) : cs = (spanDigits cs).1 ++ (spanDigits cs).2 := by
  induction cs with
  | nil => simp [spanDigits]
  | cons c cs ih =>
    unfold spanDigits
    split
    · simp only [List.cons_append, List.cons.injEq, true_and]; exact ih
    · simp

theorem optFrac_split (cs : List Char) : cs = (optFrac cs).1 ++ (optFrac cs).2 := by
  unfold optFrac
  split
  · rename_i r
    simp only
    split
    · simp
    · simp only [List.cons_append, List.cons.injEq, true_and]
      exact spanDigits_split r
  · simp

theorem optExp_split (cs : List Char) : cs = (optExp cs).1 ++ (optExp cs).2 := by
  unfold optExp
  split
  · rename_i e r
    split
    · simp only
      split
      · rename_i t
        simp only
        split
        · simp
        · simp only [List.cons_append, List.append_assoc, List.cons.injEq, true_and, List.nil_append]
          exact spanDigits_split t
      · rename_i t
        simp only
        split
        · simp
        · simp only [List.cons_append, List.append_assoc, List.cons.injEq, true_and, List.nil_append]
          exact spanDigits_split t
      · simp only
        split
        · simp
        · simp only [List.cons_append, List.nil_append, List.cons.injEq, true_and]
          exact spanDigits_split r
    · simp
  · simp

theorem splitSign_split (cs : List Char) : cs = (splitSign cs).1 ++ (splitSign cs).2 := by
  unfold splitSign
  split <;> simp

theorem matchBody_split (cs b r : List Char) (h : matchBody cs = some (b, r)) :
    cs = b ++ r ∧ b ≠ [] := by
  unfold matchBody at h
  cases cs with
  | nil => simp at h
  | cons c t =>
    simp only at h
    split at h
    · injection h with h; injection h with h1 h2; subst h1 h2
      refine ⟨?_, by simp⟩
      simp only [List.cons_append, List.append_assoc, List.cons.injEq, true_and]
      rw [← optFrac_split, ← spanDigits_split]
    · split at h
      · rename_i hdot
        simp only [beq_iff_eq] at hdot
        subst hdot
        split at h
        · simp at h
        · injection h with h; injection h with h1 h2; subst h1 h2
          refine ⟨?_, by simp⟩
          simp only [List.cons_append, List.cons.injEq, true_and]
          exact spanDigits_split t
      · simp at h

theorem matchFloat_split (cs lex rest : List Char) (h : matchFloat cs = some (lex, rest)) :
    cs = lex ++ rest ∧ lex ≠ [] := by
  unfold matchFloat at h
  cases hb : matchBody (splitSign cs).2 with
  | none => simp [hb] at h
  | some br =>
    obtain ⟨b, r⟩ := br
    simp only [hb] at h
    injection h with h; injection h with h1 h2; subst h1 h2
    obtain ⟨hsplit, hne⟩ := matchBody_split _ b r hb
    constructor
    · conv => lhs; rw [splitSign_split cs, hsplit, optExp_split r]
      simp only [List.append_assoc]
    · intro hnil
      simp only [List.append_eq_nil_iff] at hnil
      exact hne hnil.1.2

theorem matchBool_split (cs lex rest : List Char) (h : matchBool cs = some (lex, rest)) :
    cs = lex ++ rest ∧ (lex = ['0'] ∨ lex = ['1']) := by
  unfold matchBool at h
  cases cs with
  | nil => simp at h
  | cons c r =>
    simp only at h
    split at h
    · rename_i hc
      injection h with h; injection h with h1 h2; subst h1 h2
      simp only [Bool.or_eq_true, beq_iff_eq] at hc
      refine ⟨by simp, ?_⟩
      rcases hc with hc | hc <;> simp [hc]
    · simp at h

theorem peel_covers (isArc : Bool) (fuel i : Nat) (toks : List (List Char)) (args : List Arg)
    (h : peel isArc fuel i toks = .ok args) (hf : (toks.map List.length).sum < fuel) :
    (args.map argText).flatten = toks.flatten := by
  induction fuel generalizing i toks args with
  | zero => omega
  | succ fuel ih =>
    cases toks with
    | nil =>
      simp only [peel] at h
      injection h with h; subst h; simp
    | cons arg rest =>
      simp only [peel] at h
      generalize hflag : (isArc && arcSlotIsFlag i) = flagSlot at h
      cases hm : (if flagSlot = true then matchBool arg else matchFloat arg) with
      | none => simp [hm] at h
      | some lr =>
        obtain ⟨lex, rem⟩ := lr
        simp only [hm] at h
        -- facts about the token
        have hsplit : arg = lex ++ rem ∧ lex ≠ [] ∧
            argText (if flagSlot = true then Arg.flag (lex == ['1']) else Arg.num (String.ofList lex)) = lex := by
          cases flagSlot with
          | true =>
            simp only [if_true] at hm
            obtain ⟨h1, h2⟩ := matchBool_split arg lex rem hm
            refine ⟨h1, ?_, ?_⟩
            · rcases h2 with h2 | h2 <;> simp [h2]
            · rcases h2 with h2 | h2 <;> subst h2 <;> simp [argText]
          | false =>
            simp only [Bool.false_eq_true, if_false] at hm
            obtain ⟨h1, h2⟩ := matchFloat_split arg lex rem hm
            refine ⟨h1, h2, ?_⟩
            simp [argText]
        obtain ⟨harg, hne, htext⟩ := hsplit
        cases hrec : peel isArc fuel (i + 1) (if rem = [] then rest else rem :: rest) with
        | error e =>
          have hh : (if rem.isEmpty = true then rest else rem :: rest) = (if rem = [] then rest else rem :: rest) := by
            cases rem <;> simp
          rw [hh, hrec] at h
          exact absurd h (by simp)
        | ok l =>
          have hh : (if rem.isEmpty = true then rest else rem :: rest) = (if rem = [] then rest else rem :: rest) := by
            cases rem <;> simp
          rw [hh, hrec] at h
          simp only at h
          injection h with h; subst h
          have hlen : lex.length ≥ 1 := by
            cases lex with
            | nil => exact absurd rfl hne
            | cons _ _ => simp
          have hfuel : ((if rem = [] then rest else rem :: rest).map List.length).sum < fuel := by
            simp only [List.map_cons, List.sum_cons] at hf
            rw [harg] at hf
            simp only [List.length_append] at hf
            split
            · omega
            · simp only [List.map_cons, List.sum_cons]; omega
          have := ih (i + 1) _ l hrec hfuel
          simp only [List.map_cons, List.flatten_cons, htext, this]
          rw [harg]
          split
          · rename_i hemp
            simp [hemp]
          · simp

theorem chunks_spec {β : Type} (k : Nat) (hk : 0 < k) (fuel : Nat) (l : List β)
    (hf : l.length < fuel) (hm : l.length % k = 0) :
    (chunks k fuel l).flatten = l ∧ ∀ g ∈ chunks k fuel l, g.length = k := by
  induction fuel generalizing l with
  | zero => omega
  | succ fuel ih =>
    cases l with
    | nil => simp [chunks]
    | cons x xs =>
      have hk0 : (k == 0) = false := by simp; omega
      simp only [chunks, hk0, Bool.false_eq_true, if_false]
      have hlen : k ≤ (x :: xs).length := by
        rcases Nat.lt_or_ge (x :: xs).length k with hlt | hge
        · have : (x :: xs).length % k = (x :: xs).length := Nat.mod_eq_of_lt hlt
          simp only [List.length_cons] at this hm
          omega
        · exact hge
      have hdrop : ((x :: xs).drop k).length < fuel := by
        simp only [List.length_drop, List.length_cons] at *; omega
      have hmod : ((x :: xs).drop k).length % k = 0 := by
        simp only [List.length_drop]
        obtain ⟨q, hq⟩ : ∃ q, (x :: xs).length = k * q := by
          refine ⟨(x :: xs).length / k, ?_⟩
          have := Nat.div_add_mod (x :: xs).length k
          rw [hm] at this
          omega
        rw [hq]
        cases q with
        | zero => simp
        | succ q =>
          have : k * (q + 1) - k = k * q := by rw [Nat.mul_succ]; omega
          rw [this]; exact Nat.mul_mod_right k q
      obtain ⟨h1, h2⟩ := ih _ hdrop hmod
      constructor
      · simp only [List.flatten_cons, h1, List.take_append_drop]
      · intro g hg
        simp only [List.mem_cons] at hg
        rcases hg with hg | hg
        · subst hg; simp only [List.length_take]; omega
        · exact h2 g hg

theorem explode_flatten (k : Nat) (hk : 0 < k) (cmd : Char) (args : List Arg)
    (h : args.length % k = 0) :
    ((explode k cmd args).map (·.2)).flatten = args ∧
    ∀ e ∈ explode k cmd args, e.2.length = k ∧ (e.1 = cmd ∨ e.1 = implicitRepeat cmd) := by
  obtain ⟨h1, h2⟩ := chunks_spec k hk (args.length + 1) args (by omega) h
  have hfilt : (chunks k (args.length + 1) args).filter (fun g => g.length == k) =
      chunks k (args.length + 1) args := by
    apply List.filter_eq_self.mpr
    intro g hg; simp [h2 g hg]
  unfold explode
  rw [hfilt]
  cases hc : chunks k (args.length + 1) args with
  | nil =>
    rw [hc] at h1
    simp only [List.flatten_nil] at h1
    subst h1
    simp
  | cons g gs =>
    rw [hc] at h1 h2
    simp only
    constructor
    · simp only [List.map_cons, List.map_map, List.flatten_cons]
      have : ∀ (l : List (List Arg)), (List.map ((fun x => x.snd) ∘ fun g' => (implicitRepeat cmd, g')) l) = l := by
        intro l
        induction l with
        | nil => rfl
        | cons a as ih => simp only [List.map_cons, Function.comp_apply, ih]
      simpa [this gs] using h1
    · intro e he
      simp only [List.mem_cons, List.mem_map] at he
      rcases he with he | ⟨g', hg', he⟩
      · subst he; exact ⟨h2 g (by simp), Or.inl rfl⟩
      · subst he; exact ⟨h2 g' (by simp [hg']), Or.inr rfl⟩

/-! typing of the arguments by slot: `_ARC_ARGUMENT_TYPES[i % 7]` -/

def Arg.isFlag : Arg → Bool
  | .flag _ => true
  | .num _ => false

theorem arcSlotIsFlag_small : ∀ m, m < 7 → arcSlotIsFlag m = (m == 3 || m == 4) := by decide

theorem arcSlotIsFlag_eq (n : Nat) : arcSlotIsFlag n = (n % 7 == 3 || n % 7 == 4) := by
  have h7 : Gen.arcArgTypes.length = 7 := by decide
  have h1 : arcSlotIsFlag n = arcSlotIsFlag (n % 7) := by
    unfold arcSlotIsFlag; rw [h7, Nat.mod_mod]
  rw [h1, arcSlotIsFlag_small _ (Nat.mod_lt _ (by decide))]

theorem peel_typing (isArc : Bool) (fuel i : Nat) (toks : List (List Char)) (args : List Arg)
    (h : peel isArc fuel i toks = .ok args) :
    ∀ k (hk : k < args.length), (args[k]).isFlag = (isArc && arcSlotIsFlag (i + k)) := by
  induction fuel generalizing i toks args with
  | zero => simp [peel] at h; subst h; intro k hk; simp at hk
  | succ f ih =>
    cases toks with
    | nil => simp [peel] at h; subst h; intro k hk; simp at hk
    | cons arg rest =>
      simp only [peel] at h
      split at h
      · cases h
      · rename_i lex rem hm
        split at h
        · rename_i l hl
          injection h with h; subst h
          intro k hk
          cases k with
          | zero =>
            simp only [List.getElem_cons_zero, Nat.add_zero]
            by_cases hf : (isArc && arcSlotIsFlag i) = true <;> simp [hf, Arg.isFlag]
          | succ k =>
            simp only [List.getElem_cons_succ]
            have := ih (i + 1) _ l hl k (by simpa using hk)
            rw [this]; congr 2; omega
        · cases h

theorem parseArgs_typing (cmd : Char) (raw : List Char) (args : List Arg) (h : parseArgs cmd raw = .ok args) :
    ∀ k (hk : k < args.length),
      (args[k]).isFlag = ((cmd == 'a' || cmd == 'A') && (k % 7 == 3 || k % 7 == 4)) := by
  intro k hk
  have := peel_typing _ _ 0 _ args h k hk
  rw [this, arcSlotIsFlag_eq, Nat.zero_add]

/-! arity of every command `parse_svg_path(s, exploded=True)` yields -/

theorem numArgs_implicitRepeat (c : Char) : numArgs (implicitRepeat c) = numArgs c := by
  unfold implicitRepeat
  have h : Gen.implicitRepeat = [('m', 'l'), ('M', 'L')] := by decide
  rw [h]
  by_cases h1 : c = 'm'
  · subst h1; decide
  · by_cases h2 : c = 'M'
    · subst h2; decide
    · have e1 : (c == 'm') = false := by simp [h1]
      have e2 : (c == 'M') = false := by simp [h2]
      simp [List.lookup, e1, e2]

/-- the per-command body of the loop in `parse` -/
def parseOne (exploded : Bool) (cmd : Char) (raw : List Char) : Except PyErr (List (Char × List Arg)) := do
  let args ← parseArgs cmd (Str.strip raw)
  let k ← checkCmd cmd args.length
  if k == 0 || !exploded then pure [(cmd, args)] else pure (explode k cmd args)

theorem checkCmd_ok (cmd : Char) (n k : Nat) (h : checkCmd cmd n = .ok k) :
    numArgs cmd = some k ∧ (k = 0 → n = 0) ∧ (0 < k → n % k = 0) := by
  unfold checkCmd at h
  cases hn : numArgs cmd with
  | none => rw [hn] at h; cases h
  | some k' =>
    rw [hn] at h
    cases k' with
    | zero =>
      simp only at h
      split at h
      · cases h
      · injection h with h; subst h; rename_i hz
        exact ⟨rfl, fun _ => by simpa using hz, by omega⟩
    | succ j =>
      simp only at h
      split at h
      · cases h
      · injection h with h; subst h; rename_i hz
        exact ⟨rfl, by omega, fun _ => by simpa using hz⟩

theorem parseOne_arity (cmd : Char) (raw : List Char) (out : List (Char × List Arg))
    (h : parseOne true cmd raw = .ok out) : ∀ e ∈ out, numArgs e.1 = some e.2.length := by
  unfold parseOne at h
  simp only [bind, Except.bind] at h
  split at h
  · cases h
  · rename_i args ha
    split at h
    · cases h
    · rename_i k hk
      obtain ⟨hn, h0, hpos⟩ := checkCmd_ok _ _ _ hk
      by_cases hk0 : k = 0
      · subst hk0
        simp [pure, Except.pure] at h; subst h
        intro e he; simp at he; subst he; simp [hn, h0 rfl]
      · have : (k == 0 || !true) = false := by simp [hk0]
        rw [this] at h; simp [pure, Except.pure] at h; subst h
        intro e he
        have := (explode_flatten k (by omega) cmd args (hpos (by omega))).2 e he
        rcases this with ⟨hl, hc | hc⟩
        · rw [hc, hl]; exact hn
        · rw [hc, hl, numArgs_implicitRepeat]; exact hn
theorem forIn_inv {α β : Type} (P : β → Prop) (f : α → List β → Except PyErr (ForInStep (List β)))
    (hf : ∀ x r s, f x r = .ok s → ∃ l, s = ForInStep.yield (r ++ l) ∧ ∀ e ∈ l, P e)
    (parts : List α) (acc out : List β) (hacc : ∀ e ∈ acc, P e)
    (h : forIn parts acc f = .ok out) : ∀ e ∈ out, P e := by
  induction parts generalizing acc with
  | nil => simp [pure, Except.pure] at h; subst h; exact hacc
  | cons x xs ih =>
    rw [List.forIn_cons] at h
    simp only [bind, Except.bind] at h
    split at h
    · cases h
    · rename_i s hs
      obtain ⟨l, hl, hP⟩ := hf x acc s hs
      subst hl
      simp only at h
      exact ih (acc ++ l) (by intro e he; rcases List.mem_append.mp he with h | h; exact hacc e h; exact hP e h) h

theorem parse_arity (cs : List Char) (out : List (Char × List Arg)) (h : parse true cs = .ok out) :
    ∀ e ∈ out, numArgs e.1 = some e.2.length := by
  unfold parse at h
  simp only [] at h
  simp only [bind, Except.bind] at h
  split at h
  · cases h
  · rename_i o ho
    simp [pure, Except.pure] at h; subst h
    refine forIn_inv (fun e => numArgs e.1 = some e.2.length) _ ?_ _ [] o (by simp) ho
    intro x r s hs
    have hone : ∀ l, parseOne true x.1 x.2 = .ok l → ∀ e ∈ l, numArgs e.1 = some e.2.length :=
      fun l hl => parseOne_arity x.1 x.2 l hl
    unfold parseOne at hone
    simp only [bind, Except.bind] at hone hs
    split at hs
    · cases hs
    · rename_i args ha
      rw [ha] at hone; simp only at hone
      split at hs
      · cases hs
      · rename_i k hk
        rw [hk] at hone; simp only at hone
        split at hs
        · rename_i hc
          simp [pure, Except.pure] at hs; subst hs
          refine ⟨_, rfl, hone _ ?_⟩
          rw [if_pos hc]; rfl
        · rename_i hc
          simp [pure, Except.pure] at hs; subst hs
          refine ⟨_, rfl, hone _ ?_⟩
          rw [if_neg hc]; rfl


/-- what `check_cmd` lets through: the letter is known, and the argument count is a multiple of its arity (zero for `z`/`Z`) -/
def arityOK (e : Char × List Arg) : Prop :=
  ∃ k, numArgs e.1 = some k ∧ (k = 0 → e.2.length = 0) ∧ (0 < k → e.2.length % k = 0)

theorem parse_unexploded_arity (cs : List Char) (out : List (Char × List Arg)) (h : parse false cs = .ok out) :
    ∀ e ∈ out, arityOK e := by
  unfold parse at h
  simp only [] at h
  simp only [bind, Except.bind] at h
  split at h
  · cases h
  · rename_i o ho
    simp [pure, Except.pure] at h; subst h
    refine forIn_inv arityOK _ ?_ _ [] o (by simp) ho
    intro x r s hs
    split at hs
    · cases hs
    · rename_i args ha
      split at hs
      · cases hs
      · rename_i k hk
        simp [pure, Except.pure] at hs; subst hs
        refine ⟨_, rfl, ?_⟩
        intro e he; simp at he; subst he
        exact ⟨k, checkCmd_ok _ _ _ hk⟩

end PicoSVG.PathLex
