/-
  Decimal rounding on ℚ (the exact half of Python's `round(x, n)`, see Model/F64.lean):
  idempotence and the half-unit error bound.  Used by C01 (numbers are rounded), C07 (rounding is
  stable under re-conversion) and C09 (rounding moves no coordinate by more than half a unit).
-/
import PicoSVG.Model.F64
import Mathlib.Tactic.Ring
import Mathlib.Tactic.FieldSimp
import Mathlib.Tactic.Linarith
import Mathlib.Algebra.Order.Field.Rat
import Mathlib.Algebra.Order.Floor.Defs
import Mathlib.Data.Rat.Floor

namespace PicoSVG.F64

theorem pow10_pos (n : Nat) : (0 : Rat) < ((pow10 n : Nat) : Rat) := by
  unfold pow10
  exact_mod_cast Nat.pow_pos (n := n) (by norm_num : 0 < 10)

theorem scale10_inv (q : Rat) (e : Int) : scale10 (scale10 q e) (-e) = q := by
  unfold scale10
  have hp : ∀ n : Nat, ((pow10 n : Nat) : Rat) ≠ 0 := fun n => ne_of_gt (pow10_pos n)
  rcases lt_trichotomy e 0 with h | h | h
  · have h1 : ¬ e ≥ 0 := by omega
    have h2 : -e ≥ 0 := by omega
    simp only [h1, h2, if_true, if_false]
    exact div_mul_cancel₀ q (hp _)
  · subst h
    simp [pow10]
  · have h1 : e ≥ 0 := by omega
    have h2 : ¬ (-e ≥ 0) := by omega
    simp only [h1, h2, if_true, if_false, neg_neg]
    exact mul_div_cancel_right₀ q (hp _)

theorem roundHalfEvenInt_int (k : Int) : roundHalfEvenInt (k : Rat) = k := by
  unfold roundHalfEvenInt
  have hf : (k : Rat).floor = k := Rat.floor_intCast k
  simp only [hf, sub_self]
  have : (0 : Rat) < mkRat 1 2 := by
    rw [Rat.mkRat_eq_div]; norm_num
  simp [this]

/-- rounding to `n` decimals is idempotent -/
theorem roundDec_idem (q : Rat) (n : Int) : roundDec (roundDec q n) n = roundDec q n := by
  unfold roundDec
  have h := scale10_inv ((roundHalfEvenInt (scale10 q n) : Int) : Rat) (-n)
  rw [neg_neg] at h
  rw [h, roundHalfEvenInt_int]

theorem roundHalfEvenInt_err (q : Rat) : |((roundHalfEvenInt q : Int) : Rat) - q| ≤ 1 / 2 := by
  unfold roundHalfEvenInt
  have h1 : ((q.floor : Int) : Rat) ≤ q := Rat.floor_le q    -- floor ≤ q
  have h2 : q < ((q.floor : Int) : Rat) + 1 := by
    have := Rat.lt_floor_add_one q
    push_cast at this; exact this
  have hhalf : mkRat 1 2 = (1 / 2 : Rat) := by rw [Rat.mkRat_eq_div]; norm_num
  rw [hhalf]
  simp only
  split
  · rename_i hlt
    rw [abs_le]; constructor <;> linarith
  · split
    · rename_i hnl hgt
      push_cast
      rw [abs_le]; constructor <;> linarith
    · rename_i hnl hng
      have heq : q - (q.floor : Rat) = 1 / 2 := le_antisymm (not_lt.mp hng) (not_lt.mp hnl)
      split
      · rw [abs_le]; constructor <;> linarith
      · push_cast
        rw [abs_le]; constructor <;> linarith

/-- rounding to `n ≥ 0` decimals moves a number by at most half a unit in the last place -/
theorem roundDec_err (q : Rat) (n : Nat) : |roundDec q (n : Int) - q| ≤ 1 / 2 / ((pow10 n : Nat) : Rat) := by
  unfold roundDec
  have hp := pow10_pos n
  have hpne : ((pow10 n : Nat) : Rat) ≠ 0 := ne_of_gt hp
  have hs : scale10 q (n : Int) = q * ((pow10 n : Nat) : Rat) := by
    unfold scale10; simp
  have hback : ∀ k : Rat, scale10 k (-(n : Int)) = k / ((pow10 n : Nat) : Rat) := by
    intro k
    unfold scale10
    rcases Nat.eq_zero_or_pos n with h0 | hpos
    · subst h0; simp [pow10]
    · have : ¬ (-(n : Int) ≥ 0) := by omega
      simp only [this, if_false, neg_neg, Int.toNat_natCast]
  rw [hback, hs]
  have e := roundHalfEvenInt_err (q * ((pow10 n : Nat) : Rat))
  have : ((roundHalfEvenInt (q * ((pow10 n : Nat) : Rat)) : Int) : Rat) / ((pow10 n : Nat) : Rat) - q =
      (((roundHalfEvenInt (q * ((pow10 n : Nat) : Rat)) : Int) : Rat) - q * ((pow10 n : Nat) : Rat)) / ((pow10 n : Nat) : Rat) := by
    field_simp
  rw [this, abs_div, abs_of_pos hp]
  exact div_le_div_of_nonneg_right e (le_of_lt hp)

end PicoSVG.F64
