/-
  Bookkeeping of `SVG._stroke` on the model (C04): which opacity, paint and fill-opacity the two pieces carry.
-/
import PicoSVG.Model.Simplify

namespace PicoSVG.StrokeP
open PicoSVG SvgObj

/-- in-place update of one key of an association list -/
def updF (k : String) (v : FVal) : List (String × FVal) → List (String × FVal)
  | [] => []
  | (a, b) :: m => (if a == k then (a, v) else (a, b)) :: updF k v m

theorem set_fields (r : ShapeRec) (k : String) (v : FVal) : (r.set k v).fields = updF k v r.fields := by
  unfold ShapeRec.set
  simp only
  induction r.fields with
  | nil => rfl
  | cons x xs ih => obtain ⟨a, b⟩ := x; simp only [List.map_cons, updF, ih]

def getL (m : List (String × FVal)) (k : String) : Option FVal := (m.find? (·.1 == k)).map (·.2)

theorem getL_cons (a : String) (b : FVal) (m : List (String × FVal)) (k : String) :
    getL ((a, b) :: m) k = if a == k then some b else getL m k := by
  unfold getL
  simp only [List.find?_cons]
  split <;> simp_all

theorem getL_updF (m : List (String × FVal)) (k : String) (v : FVal) (k' : String) :
    getL (updF k v m) k' = if k == k' then (if (getL m k).isSome then some v else none) else getL m k' := by
  induction m with
  | nil => by_cases h : k == k' <;> simp [updF, getL, h]
  | cons x xs ih =>
    obtain ⟨a, b⟩ := x
    by_cases hak : a == k
    · have e : a = k := by simpa using hak
      subst e
      by_cases hk : a == k'
      · simp only [updF, beq_self_eq_true, if_true, getL_cons, hk, Option.isSome_some]
      · simp only [updF, beq_self_eq_true, if_true, getL_cons, hk, Bool.false_eq_true, if_false, ih]
    · have hka : (k == a) = false := by
        have : ¬ a = k := by simpa using hak
        simpa using fun h : k = a => this h.symm
      by_cases hk : a == k'
      · have e : a = k' := by simpa using hk
        subst e
        simp only [updF, hak, Bool.false_eq_true, if_false, getL_cons, beq_self_eq_true, if_true, hka]
      · simp only [updF, hak, Bool.false_eq_true, if_false, getL_cons, hk, ih]

/-- reading a field back after `set` -/
theorem get_set (r : ShapeRec) (k : String) (v : FVal) (k' : String) :
    (r.set k v).get k' = if k == k' then (if (r.get k).isSome then some v else none) else r.get k' := by
  unfold ShapeRec.get
  rw [set_fields]
  exact getL_updF r.fields k v k'


theorem get_set_ne (r : ShapeRec) (k : String) (v : FVal) (k' : String) (h : (k == k') = false) :
    (r.set k v).get k' = r.get k' := by
  rw [get_set]; simp [h]

theorem get_set_same (r : ShapeRec) (k : String) (v : FVal) (h : (r.get k).isSome = true) :
    (r.set k v).get k = some v := by
  rw [get_set]; simp [h]

theorem isSome_set (r : ShapeRec) (k : String) (v : FVal) (k' : String) :
    ((r.set k v).get k').isSome = (r.get k').isSome := by
  rw [get_set]
  by_cases h : k == k'
  · have e : k = k' := by simpa using h
    subst e
    cases hg : r.get k <;> simp [hg]
  · simp [h]

theorem set_tag (r : ShapeRec) (k : String) (v : FVal) : (r.set k v).tag = r.tag := rfl

/-- `_reset_attrs(piece, lambda field: field.name.startswith("stroke"))` leaves every other field alone -/
theorem reset_keeps (sh : ShapeRec) (k : String) (hk : k.startsWith "stroke" = false) :
    (resetStrokeFields sh).get k = sh.get k := by
  unfold resetStrokeFields
  generalize ShapeRec.fieldTable sh.tag = tbl
  induction tbl generalizing sh with
  | nil => rfl
  | cons x xs ih =>
    obtain ⟨n, ty, d⟩ := x
    simp only [List.foldl_cons]
    by_cases hn : n.startsWith "stroke"
    · simp only [hn, if_true]
      rw [ih]
      apply get_set_ne
      cases hh : (n == k) with
      | false => rfl
      | true =>
        have e : n = k := by simpa using hh
        subst e
        rw [hk] at hn
        exact absurd hn (by simp)
    · have hn' : n.startsWith "stroke" = false := by simpa using hn
      simp only [hn', Bool.false_eq_true, if_false]
      exact ih sh

theorem not_stroke_opacity : ("opacity".startsWith "stroke") = false := by decide +kernel
theorem not_stroke_fill_opacity : ("fill_opacity".startsWith "stroke") = false := by decide +kernel
theorem not_stroke_fill : ("fill".startsWith "stroke") = false := by decide +kernel

/-- C04 (bookkeeping, fill piece): opacity = opacity × fill-opacity, fill-opacity = 1 -/
theorem fill_piece (shape : ShapeRec) (d : String)
    (h1 : (shape.get "opacity").isSome = true) (h2 : (shape.get "fill_opacity").isSome = true) :
    (strokePieces shape d).1.get "opacity" = some (.f (clampOpacity (shape.getF "opacity") * clampOpacity (shape.getF "fill_opacity")))
    ∧ (strokePieces shape d).1.get "fill_opacity" = some (.f 1.0) := by
  unfold strokePieces
  simp only
  constructor
  · rw [reset_keeps _ _ not_stroke_opacity, get_set_ne _ _ _ _ (by decide), get_set_same _ _ _ h1]
  · rw [reset_keeps _ _ not_stroke_fill_opacity, get_set_same]
    rw [isSome_set]; exact h2

/-- C04 (bookkeeping, outline piece): painted with the stroke paint, opacity = opacity × stroke-opacity, fill-opacity = 1 -/
theorem stroke_piece (shape : ShapeRec) (d : String)
    (h1 : (shape.get "opacity").isSome = true) (h2 : (shape.get "fill_opacity").isSome = true)
    (h3 : (shape.get "fill").isSome = true) :
    (strokePieces shape d).2.get "opacity" = some (.f (clampOpacity (shape.getF "opacity") * clampOpacity (shape.getF "stroke_opacity")))
    ∧ (strokePieces shape d).2.get "fill" = some (.s (shape.getS "stroke"))
    ∧ (strokePieces shape d).2.get "fill_opacity" = some (.f 1.0) := by
  unfold strokePieces
  simp only
  have getF_set_ne : ∀ (r : ShapeRec) (k : String) (v : FVal) (k' : String), (k == k') = false →
      (r.set k v).getF k' = r.getF k' := by
    intro r k v k' h; unfold ShapeRec.getF; rw [get_set_ne _ _ _ _ h]
  have getS_set_ne : ∀ (r : ShapeRec) (k : String) (v : FVal) (k' : String), (k == k') = false →
      (r.set k v).getS k' = r.getS k' := by
    intro r k v k' h; unfold ShapeRec.getS; rw [get_set_ne _ _ _ _ h]
  refine ⟨?_, ?_, ?_⟩
  · rw [reset_keeps _ _ not_stroke_opacity, get_set_ne _ _ _ _ (by decide), get_set_ne _ _ _ _ (by decide), get_set_same]
    · simp only [getF_set_ne _ _ _ _ (show ("clip_rule" == "opacity") = false by decide),
        getF_set_ne _ _ _ _ (show ("fill_rule" == "opacity") = false by decide),
        getF_set_ne _ _ _ _ (show ("d" == "opacity") = false by decide),
        getF_set_ne _ _ _ _ (show ("clip_rule" == "stroke_opacity") = false by decide),
        getF_set_ne _ _ _ _ (show ("fill_rule" == "stroke_opacity") = false by decide),
        getF_set_ne _ _ _ _ (show ("d" == "stroke_opacity") = false by decide)]
    · simp only [isSome_set]; exact h1
  · rw [reset_keeps _ _ not_stroke_fill, get_set_ne _ _ _ _ (by decide), get_set_same]
    · simp only [getS_set_ne _ _ _ _ (show ("opacity" == "stroke") = false by decide),
        getS_set_ne _ _ _ _ (show ("clip_rule" == "stroke") = false by decide),
        getS_set_ne _ _ _ _ (show ("fill_rule" == "stroke") = false by decide),
        getS_set_ne _ _ _ _ (show ("d" == "stroke") = false by decide)]
    · simp only [isSome_set]; exact h3
  · rw [reset_keeps _ _ not_stroke_fill_opacity, get_set_same]
    simp only [isSome_set]; exact h2

end PicoSVG.StrokeP
