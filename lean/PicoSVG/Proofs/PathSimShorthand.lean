/-
  Simulation of `expand_shorthand()` by the path interpretation.  Beyond positions, the invariant relates the control
  point the interpreter remembers to the last command the walker has emitted (`lastAfter`), so that `prevCtrl` — which
  looks at that command only — returns exactly the reflection SVG 8.3 prescribes (`prevCtrl_spec`), after a curve of the
  same family and only then.  Per-letter lemmas are generated mechanically and closed by one tactic each.
-/
import PicoSVG.Proofs.PathSimAbs

set_option linter.unusedSectionVars false
set_option linter.unusedVariables false
set_option linter.unusedSimpArgs false

namespace PicoSVG.PathSim
open PicoSVG Path Spec

variable {α : Type} [Field α] [LinearOrder α] [IsStrictOrderedRing α]

/-- the interpreter state "just arrived at p, nothing remembered" -/
def fresh (p : Pt α) : IState α := { cur := p, start := p, last := .none, pending := false }

/-- the control point the interpreter remembers after the command `prev` issued at its recorded position -/
def lastAfter (prev : Option (Pt α × Char × List α)) : LastCtrl α :=
  match prev with
  | none => .none
  | some (p, c, a) =>
    match stepSeg (fresh p) c a with
    | some (st, _) => st.last
    | none => .none

/-- what `prevCtrl` must return for the family of S (`'C'`) -/
def wantC (curr : Pt α) (l : LastCtrl α) : List α :=
  match l with
  | .cubic c => [two * curr.x - c.x, two * curr.y - c.y]
  | _ => [curr.x, curr.y]

def wantQ (curr : Pt α) (l : LastCtrl α) : List α :=
  match l with
  | .quad c => [two * curr.x - c.x, two * curr.y - c.y]
  | _ => [curr.x, curr.y]

set_option hygiene false in
macro "letter_prev" : tactic => `(tactic| (
  unfold stepSeg at hv
  split at hv <;> simp at *
  all_goals (
    simp [prevCtrl, absIfLower, relToAbs, rewriteCoords, coords, Gen.cmdCoords, List.lookup, addAt, getArg,
      List.zipIdx, pure, Except.pure, bind, Except.bind, lastAfter, stepSeg, fresh, wantC, wantQ, add_comm])))


theorem prevCtrl_lm (curr p : Pt α) (pa : List α) (r : IState α × List (Seg α))
    (hv : stepSeg (fresh p) 'm' pa = some r) :
    prevCtrl 'C' curr (some (p, 'm', pa)) = .ok (wantC curr (lastAfter (some (p, 'm', pa)))) ∧
    prevCtrl 'Q' curr (some (p, 'm', pa)) = .ok (wantQ curr (lastAfter (some (p, 'm', pa)))) := by
  letter_prev

theorem prevCtrl_lz (curr p : Pt α) (pa : List α) (r : IState α × List (Seg α))
    (hv : stepSeg (fresh p) 'z' pa = some r) :
    prevCtrl 'C' curr (some (p, 'z', pa)) = .ok (wantC curr (lastAfter (some (p, 'z', pa)))) ∧
    prevCtrl 'Q' curr (some (p, 'z', pa)) = .ok (wantQ curr (lastAfter (some (p, 'z', pa)))) := by
  letter_prev

theorem prevCtrl_ll (curr p : Pt α) (pa : List α) (r : IState α × List (Seg α))
    (hv : stepSeg (fresh p) 'l' pa = some r) :
    prevCtrl 'C' curr (some (p, 'l', pa)) = .ok (wantC curr (lastAfter (some (p, 'l', pa)))) ∧
    prevCtrl 'Q' curr (some (p, 'l', pa)) = .ok (wantQ curr (lastAfter (some (p, 'l', pa)))) := by
  letter_prev

theorem prevCtrl_lh (curr p : Pt α) (pa : List α) (r : IState α × List (Seg α))
    (hv : stepSeg (fresh p) 'h' pa = some r) :
    prevCtrl 'C' curr (some (p, 'h', pa)) = .ok (wantC curr (lastAfter (some (p, 'h', pa)))) ∧
    prevCtrl 'Q' curr (some (p, 'h', pa)) = .ok (wantQ curr (lastAfter (some (p, 'h', pa)))) := by
  letter_prev

theorem prevCtrl_lv (curr p : Pt α) (pa : List α) (r : IState α × List (Seg α))
    (hv : stepSeg (fresh p) 'v' pa = some r) :
    prevCtrl 'C' curr (some (p, 'v', pa)) = .ok (wantC curr (lastAfter (some (p, 'v', pa)))) ∧
    prevCtrl 'Q' curr (some (p, 'v', pa)) = .ok (wantQ curr (lastAfter (some (p, 'v', pa)))) := by
  letter_prev

theorem prevCtrl_lc (curr p : Pt α) (pa : List α) (r : IState α × List (Seg α))
    (hv : stepSeg (fresh p) 'c' pa = some r) :
    prevCtrl 'C' curr (some (p, 'c', pa)) = .ok (wantC curr (lastAfter (some (p, 'c', pa)))) ∧
    prevCtrl 'Q' curr (some (p, 'c', pa)) = .ok (wantQ curr (lastAfter (some (p, 'c', pa)))) := by
  letter_prev

theorem prevCtrl_lq (curr p : Pt α) (pa : List α) (r : IState α × List (Seg α))
    (hv : stepSeg (fresh p) 'q' pa = some r) :
    prevCtrl 'C' curr (some (p, 'q', pa)) = .ok (wantC curr (lastAfter (some (p, 'q', pa)))) ∧
    prevCtrl 'Q' curr (some (p, 'q', pa)) = .ok (wantQ curr (lastAfter (some (p, 'q', pa)))) := by
  letter_prev

theorem prevCtrl_la (curr p : Pt α) (pa : List α) (r : IState α × List (Seg α))
    (hv : stepSeg (fresh p) 'a' pa = some r) :
    prevCtrl 'C' curr (some (p, 'a', pa)) = .ok (wantC curr (lastAfter (some (p, 'a', pa)))) ∧
    prevCtrl 'Q' curr (some (p, 'a', pa)) = .ok (wantQ curr (lastAfter (some (p, 'a', pa)))) := by
  letter_prev

theorem prevCtrl_um (curr p : Pt α) (pa : List α) (r : IState α × List (Seg α))
    (hv : stepSeg (fresh p) 'M' pa = some r) :
    prevCtrl 'C' curr (some (p, 'M', pa)) = .ok (wantC curr (lastAfter (some (p, 'M', pa)))) ∧
    prevCtrl 'Q' curr (some (p, 'M', pa)) = .ok (wantQ curr (lastAfter (some (p, 'M', pa)))) := by
  letter_prev

theorem prevCtrl_uz (curr p : Pt α) (pa : List α) (r : IState α × List (Seg α))
    (hv : stepSeg (fresh p) 'Z' pa = some r) :
    prevCtrl 'C' curr (some (p, 'Z', pa)) = .ok (wantC curr (lastAfter (some (p, 'Z', pa)))) ∧
    prevCtrl 'Q' curr (some (p, 'Z', pa)) = .ok (wantQ curr (lastAfter (some (p, 'Z', pa)))) := by
  letter_prev

theorem prevCtrl_ul (curr p : Pt α) (pa : List α) (r : IState α × List (Seg α))
    (hv : stepSeg (fresh p) 'L' pa = some r) :
    prevCtrl 'C' curr (some (p, 'L', pa)) = .ok (wantC curr (lastAfter (some (p, 'L', pa)))) ∧
    prevCtrl 'Q' curr (some (p, 'L', pa)) = .ok (wantQ curr (lastAfter (some (p, 'L', pa)))) := by
  letter_prev

theorem prevCtrl_uh (curr p : Pt α) (pa : List α) (r : IState α × List (Seg α))
    (hv : stepSeg (fresh p) 'H' pa = some r) :
    prevCtrl 'C' curr (some (p, 'H', pa)) = .ok (wantC curr (lastAfter (some (p, 'H', pa)))) ∧
    prevCtrl 'Q' curr (some (p, 'H', pa)) = .ok (wantQ curr (lastAfter (some (p, 'H', pa)))) := by
  letter_prev

theorem prevCtrl_uv (curr p : Pt α) (pa : List α) (r : IState α × List (Seg α))
    (hv : stepSeg (fresh p) 'V' pa = some r) :
    prevCtrl 'C' curr (some (p, 'V', pa)) = .ok (wantC curr (lastAfter (some (p, 'V', pa)))) ∧
    prevCtrl 'Q' curr (some (p, 'V', pa)) = .ok (wantQ curr (lastAfter (some (p, 'V', pa)))) := by
  letter_prev

theorem prevCtrl_uc (curr p : Pt α) (pa : List α) (r : IState α × List (Seg α))
    (hv : stepSeg (fresh p) 'C' pa = some r) :
    prevCtrl 'C' curr (some (p, 'C', pa)) = .ok (wantC curr (lastAfter (some (p, 'C', pa)))) ∧
    prevCtrl 'Q' curr (some (p, 'C', pa)) = .ok (wantQ curr (lastAfter (some (p, 'C', pa)))) := by
  letter_prev

theorem prevCtrl_uq (curr p : Pt α) (pa : List α) (r : IState α × List (Seg α))
    (hv : stepSeg (fresh p) 'Q' pa = some r) :
    prevCtrl 'C' curr (some (p, 'Q', pa)) = .ok (wantC curr (lastAfter (some (p, 'Q', pa)))) ∧
    prevCtrl 'Q' curr (some (p, 'Q', pa)) = .ok (wantQ curr (lastAfter (some (p, 'Q', pa)))) := by
  letter_prev

theorem prevCtrl_ua (curr p : Pt α) (pa : List α) (r : IState α × List (Seg α))
    (hv : stepSeg (fresh p) 'A' pa = some r) :
    prevCtrl 'C' curr (some (p, 'A', pa)) = .ok (wantC curr (lastAfter (some (p, 'A', pa)))) ∧
    prevCtrl 'Q' curr (some (p, 'A', pa)) = .ok (wantQ curr (lastAfter (some (p, 'A', pa)))) := by
  letter_prev

abbrev nonST : List Char := ['m', 'z', 'l', 'h', 'v', 'c', 'q', 'a', 'M', 'Z', 'L', 'H', 'V', 'C', 'Q', 'A']

/-- `prevCtrl` computes the reflection the interpreter would use, from the last emitted command alone -/
theorem prevCtrl_spec (curr p : Pt α) (pc : Char) (pa : List α) (r : IState α × List (Seg α))
    (hc : pc ∈ nonST) (hv : stepSeg (fresh p) pc pa = some r) :
    prevCtrl 'C' curr (some (p, pc, pa)) = .ok (wantC curr (lastAfter (some (p, pc, pa)))) ∧
    prevCtrl 'Q' curr (some (p, pc, pa)) = .ok (wantQ curr (lastAfter (some (p, pc, pa)))) := by
  simp only [List.mem_cons, List.mem_nil_iff, or_false] at hc
  rcases hc with rfl | rfl | rfl | rfl | rfl | rfl | rfl | rfl | rfl | rfl | rfl | rfl | rfl | rfl | rfl | rfl
  · exact prevCtrl_lm curr p pa r hv
  · exact prevCtrl_lz curr p pa r hv
  · exact prevCtrl_ll curr p pa r hv
  · exact prevCtrl_lh curr p pa r hv
  · exact prevCtrl_lv curr p pa r hv
  · exact prevCtrl_lc curr p pa r hv
  · exact prevCtrl_lq curr p pa r hv
  · exact prevCtrl_la curr p pa r hv
  · exact prevCtrl_um curr p pa r hv
  · exact prevCtrl_uz curr p pa r hv
  · exact prevCtrl_ul curr p pa r hv
  · exact prevCtrl_uh curr p pa r hv
  · exact prevCtrl_uv curr p pa r hv
  · exact prevCtrl_uc curr p pa r hv
  · exact prevCtrl_uq curr p pa r hv
  · exact prevCtrl_ua curr p pa r hv


set_option hygiene false in
macro "letter_sh" : tactic => `(tactic| (
  unfold stepSeg at hi
  split at hi <;> simp at *
  all_goals (
    by_cases hidx : idx = 0
    all_goals (
      simp [hidx, expandShorthandCb, absIfLower, relToAbs, rewriteCoords, coords, Gen.cmdCoords, List.lookup, addAt, getArg,
        List.zipIdx, pure, Except.pure, bind, Except.bind, hpc, hpq] at hn
      subst hn
      cases hl : is.last <;>
        first
          | simp [stepSeg, ← hi, h1, h0 hidx, hl, wantC, wantQ, reflect, two, twoS, add_comm]
          | simp [stepSeg, ← hi, h1, hl, wantC, wantQ, reflect, two, twoS, add_comm]))))


theorem sh_sound_lm (ws : WalkState α) (is : IState α) (idx : Nat) (a : List α)
    (prev : Option (Pt α × Char × List α)) (news : List (Cmd α)) (r : IState α × List (Seg α))
    (h1 : ws.curr = is.cur) (h2 : ws.start = is.start) (h0 : idx = 0 → is.cur = ⟨0, 0⟩)
    (hpc : prevCtrl 'C' ws.curr prev = .ok (wantC ws.curr is.last))
    (hpq : prevCtrl 'Q' ws.curr prev = .ok (wantQ ws.curr is.last))
    (hn : expandShorthandCb ws.start ws.curr (if idx == 0 && 'm' == 'm' then 'M' else 'm') a prev = .ok news)
    (hi : stepSeg is 'm' a = some r) :
    ∃ nc : Cmd α, news = [nc] ∧ nc.1 ∈ nonST ∧ stepSeg is nc.1 nc.2 = some r := by
  letter_sh

theorem sh_sound_lz (ws : WalkState α) (is : IState α) (idx : Nat) (a : List α)
    (prev : Option (Pt α × Char × List α)) (news : List (Cmd α)) (r : IState α × List (Seg α))
    (h1 : ws.curr = is.cur) (h2 : ws.start = is.start) (h0 : idx = 0 → is.cur = ⟨0, 0⟩)
    (hpc : prevCtrl 'C' ws.curr prev = .ok (wantC ws.curr is.last))
    (hpq : prevCtrl 'Q' ws.curr prev = .ok (wantQ ws.curr is.last))
    (hn : expandShorthandCb ws.start ws.curr (if idx == 0 && 'z' == 'm' then 'M' else 'z') a prev = .ok news)
    (hi : stepSeg is 'z' a = some r) :
    ∃ nc : Cmd α, news = [nc] ∧ nc.1 ∈ nonST ∧ stepSeg is nc.1 nc.2 = some r := by
  letter_sh

theorem sh_sound_ll (ws : WalkState α) (is : IState α) (idx : Nat) (a : List α)
    (prev : Option (Pt α × Char × List α)) (news : List (Cmd α)) (r : IState α × List (Seg α))
    (h1 : ws.curr = is.cur) (h2 : ws.start = is.start) (h0 : idx = 0 → is.cur = ⟨0, 0⟩)
    (hpc : prevCtrl 'C' ws.curr prev = .ok (wantC ws.curr is.last))
    (hpq : prevCtrl 'Q' ws.curr prev = .ok (wantQ ws.curr is.last))
    (hn : expandShorthandCb ws.start ws.curr (if idx == 0 && 'l' == 'm' then 'M' else 'l') a prev = .ok news)
    (hi : stepSeg is 'l' a = some r) :
    ∃ nc : Cmd α, news = [nc] ∧ nc.1 ∈ nonST ∧ stepSeg is nc.1 nc.2 = some r := by
  letter_sh

theorem sh_sound_lh (ws : WalkState α) (is : IState α) (idx : Nat) (a : List α)
    (prev : Option (Pt α × Char × List α)) (news : List (Cmd α)) (r : IState α × List (Seg α))
    (h1 : ws.curr = is.cur) (h2 : ws.start = is.start) (h0 : idx = 0 → is.cur = ⟨0, 0⟩)
    (hpc : prevCtrl 'C' ws.curr prev = .ok (wantC ws.curr is.last))
    (hpq : prevCtrl 'Q' ws.curr prev = .ok (wantQ ws.curr is.last))
    (hn : expandShorthandCb ws.start ws.curr (if idx == 0 && 'h' == 'm' then 'M' else 'h') a prev = .ok news)
    (hi : stepSeg is 'h' a = some r) :
    ∃ nc : Cmd α, news = [nc] ∧ nc.1 ∈ nonST ∧ stepSeg is nc.1 nc.2 = some r := by
  letter_sh

theorem sh_sound_lv (ws : WalkState α) (is : IState α) (idx : Nat) (a : List α)
    (prev : Option (Pt α × Char × List α)) (news : List (Cmd α)) (r : IState α × List (Seg α))
    (h1 : ws.curr = is.cur) (h2 : ws.start = is.start) (h0 : idx = 0 → is.cur = ⟨0, 0⟩)
    (hpc : prevCtrl 'C' ws.curr prev = .ok (wantC ws.curr is.last))
    (hpq : prevCtrl 'Q' ws.curr prev = .ok (wantQ ws.curr is.last))
    (hn : expandShorthandCb ws.start ws.curr (if idx == 0 && 'v' == 'm' then 'M' else 'v') a prev = .ok news)
    (hi : stepSeg is 'v' a = some r) :
    ∃ nc : Cmd α, news = [nc] ∧ nc.1 ∈ nonST ∧ stepSeg is nc.1 nc.2 = some r := by
  letter_sh

theorem sh_sound_lc (ws : WalkState α) (is : IState α) (idx : Nat) (a : List α)
    (prev : Option (Pt α × Char × List α)) (news : List (Cmd α)) (r : IState α × List (Seg α))
    (h1 : ws.curr = is.cur) (h2 : ws.start = is.start) (h0 : idx = 0 → is.cur = ⟨0, 0⟩)
    (hpc : prevCtrl 'C' ws.curr prev = .ok (wantC ws.curr is.last))
    (hpq : prevCtrl 'Q' ws.curr prev = .ok (wantQ ws.curr is.last))
    (hn : expandShorthandCb ws.start ws.curr (if idx == 0 && 'c' == 'm' then 'M' else 'c') a prev = .ok news)
    (hi : stepSeg is 'c' a = some r) :
    ∃ nc : Cmd α, news = [nc] ∧ nc.1 ∈ nonST ∧ stepSeg is nc.1 nc.2 = some r := by
  letter_sh

theorem sh_sound_ls (ws : WalkState α) (is : IState α) (idx : Nat) (a : List α)
    (prev : Option (Pt α × Char × List α)) (news : List (Cmd α)) (r : IState α × List (Seg α))
    (h1 : ws.curr = is.cur) (h2 : ws.start = is.start) (h0 : idx = 0 → is.cur = ⟨0, 0⟩)
    (hpc : prevCtrl 'C' ws.curr prev = .ok (wantC ws.curr is.last))
    (hpq : prevCtrl 'Q' ws.curr prev = .ok (wantQ ws.curr is.last))
    (hn : expandShorthandCb ws.start ws.curr (if idx == 0 && 's' == 'm' then 'M' else 's') a prev = .ok news)
    (hi : stepSeg is 's' a = some r) :
    ∃ nc : Cmd α, news = [nc] ∧ nc.1 ∈ nonST ∧ stepSeg is nc.1 nc.2 = some r := by
  letter_sh

theorem sh_sound_lq (ws : WalkState α) (is : IState α) (idx : Nat) (a : List α)
    (prev : Option (Pt α × Char × List α)) (news : List (Cmd α)) (r : IState α × List (Seg α))
    (h1 : ws.curr = is.cur) (h2 : ws.start = is.start) (h0 : idx = 0 → is.cur = ⟨0, 0⟩)
    (hpc : prevCtrl 'C' ws.curr prev = .ok (wantC ws.curr is.last))
    (hpq : prevCtrl 'Q' ws.curr prev = .ok (wantQ ws.curr is.last))
    (hn : expandShorthandCb ws.start ws.curr (if idx == 0 && 'q' == 'm' then 'M' else 'q') a prev = .ok news)
    (hi : stepSeg is 'q' a = some r) :
    ∃ nc : Cmd α, news = [nc] ∧ nc.1 ∈ nonST ∧ stepSeg is nc.1 nc.2 = some r := by
  letter_sh

theorem sh_sound_lt (ws : WalkState α) (is : IState α) (idx : Nat) (a : List α)
    (prev : Option (Pt α × Char × List α)) (news : List (Cmd α)) (r : IState α × List (Seg α))
    (h1 : ws.curr = is.cur) (h2 : ws.start = is.start) (h0 : idx = 0 → is.cur = ⟨0, 0⟩)
    (hpc : prevCtrl 'C' ws.curr prev = .ok (wantC ws.curr is.last))
    (hpq : prevCtrl 'Q' ws.curr prev = .ok (wantQ ws.curr is.last))
    (hn : expandShorthandCb ws.start ws.curr (if idx == 0 && 't' == 'm' then 'M' else 't') a prev = .ok news)
    (hi : stepSeg is 't' a = some r) :
    ∃ nc : Cmd α, news = [nc] ∧ nc.1 ∈ nonST ∧ stepSeg is nc.1 nc.2 = some r := by
  letter_sh

theorem sh_sound_la (ws : WalkState α) (is : IState α) (idx : Nat) (a : List α)
    (prev : Option (Pt α × Char × List α)) (news : List (Cmd α)) (r : IState α × List (Seg α))
    (h1 : ws.curr = is.cur) (h2 : ws.start = is.start) (h0 : idx = 0 → is.cur = ⟨0, 0⟩)
    (hpc : prevCtrl 'C' ws.curr prev = .ok (wantC ws.curr is.last))
    (hpq : prevCtrl 'Q' ws.curr prev = .ok (wantQ ws.curr is.last))
    (hn : expandShorthandCb ws.start ws.curr (if idx == 0 && 'a' == 'm' then 'M' else 'a') a prev = .ok news)
    (hi : stepSeg is 'a' a = some r) :
    ∃ nc : Cmd α, news = [nc] ∧ nc.1 ∈ nonST ∧ stepSeg is nc.1 nc.2 = some r := by
  letter_sh

theorem sh_sound_um (ws : WalkState α) (is : IState α) (idx : Nat) (a : List α)
    (prev : Option (Pt α × Char × List α)) (news : List (Cmd α)) (r : IState α × List (Seg α))
    (h1 : ws.curr = is.cur) (h2 : ws.start = is.start) (h0 : idx = 0 → is.cur = ⟨0, 0⟩)
    (hpc : prevCtrl 'C' ws.curr prev = .ok (wantC ws.curr is.last))
    (hpq : prevCtrl 'Q' ws.curr prev = .ok (wantQ ws.curr is.last))
    (hn : expandShorthandCb ws.start ws.curr (if idx == 0 && 'M' == 'm' then 'M' else 'M') a prev = .ok news)
    (hi : stepSeg is 'M' a = some r) :
    ∃ nc : Cmd α, news = [nc] ∧ nc.1 ∈ nonST ∧ stepSeg is nc.1 nc.2 = some r := by
  letter_sh

theorem sh_sound_uz (ws : WalkState α) (is : IState α) (idx : Nat) (a : List α)
    (prev : Option (Pt α × Char × List α)) (news : List (Cmd α)) (r : IState α × List (Seg α))
    (h1 : ws.curr = is.cur) (h2 : ws.start = is.start) (h0 : idx = 0 → is.cur = ⟨0, 0⟩)
    (hpc : prevCtrl 'C' ws.curr prev = .ok (wantC ws.curr is.last))
    (hpq : prevCtrl 'Q' ws.curr prev = .ok (wantQ ws.curr is.last))
    (hn : expandShorthandCb ws.start ws.curr (if idx == 0 && 'Z' == 'm' then 'M' else 'Z') a prev = .ok news)
    (hi : stepSeg is 'Z' a = some r) :
    ∃ nc : Cmd α, news = [nc] ∧ nc.1 ∈ nonST ∧ stepSeg is nc.1 nc.2 = some r := by
  letter_sh

theorem sh_sound_ul (ws : WalkState α) (is : IState α) (idx : Nat) (a : List α)
    (prev : Option (Pt α × Char × List α)) (news : List (Cmd α)) (r : IState α × List (Seg α))
    (h1 : ws.curr = is.cur) (h2 : ws.start = is.start) (h0 : idx = 0 → is.cur = ⟨0, 0⟩)
    (hpc : prevCtrl 'C' ws.curr prev = .ok (wantC ws.curr is.last))
    (hpq : prevCtrl 'Q' ws.curr prev = .ok (wantQ ws.curr is.last))
    (hn : expandShorthandCb ws.start ws.curr (if idx == 0 && 'L' == 'm' then 'M' else 'L') a prev = .ok news)
    (hi : stepSeg is 'L' a = some r) :
    ∃ nc : Cmd α, news = [nc] ∧ nc.1 ∈ nonST ∧ stepSeg is nc.1 nc.2 = some r := by
  letter_sh

theorem sh_sound_uh (ws : WalkState α) (is : IState α) (idx : Nat) (a : List α)
    (prev : Option (Pt α × Char × List α)) (news : List (Cmd α)) (r : IState α × List (Seg α))
    (h1 : ws.curr = is.cur) (h2 : ws.start = is.start) (h0 : idx = 0 → is.cur = ⟨0, 0⟩)
    (hpc : prevCtrl 'C' ws.curr prev = .ok (wantC ws.curr is.last))
    (hpq : prevCtrl 'Q' ws.curr prev = .ok (wantQ ws.curr is.last))
    (hn : expandShorthandCb ws.start ws.curr (if idx == 0 && 'H' == 'm' then 'M' else 'H') a prev = .ok news)
    (hi : stepSeg is 'H' a = some r) :
    ∃ nc : Cmd α, news = [nc] ∧ nc.1 ∈ nonST ∧ stepSeg is nc.1 nc.2 = some r := by
  letter_sh

theorem sh_sound_uv (ws : WalkState α) (is : IState α) (idx : Nat) (a : List α)
    (prev : Option (Pt α × Char × List α)) (news : List (Cmd α)) (r : IState α × List (Seg α))
    (h1 : ws.curr = is.cur) (h2 : ws.start = is.start) (h0 : idx = 0 → is.cur = ⟨0, 0⟩)
    (hpc : prevCtrl 'C' ws.curr prev = .ok (wantC ws.curr is.last))
    (hpq : prevCtrl 'Q' ws.curr prev = .ok (wantQ ws.curr is.last))
    (hn : expandShorthandCb ws.start ws.curr (if idx == 0 && 'V' == 'm' then 'M' else 'V') a prev = .ok news)
    (hi : stepSeg is 'V' a = some r) :
    ∃ nc : Cmd α, news = [nc] ∧ nc.1 ∈ nonST ∧ stepSeg is nc.1 nc.2 = some r := by
  letter_sh

theorem sh_sound_uc (ws : WalkState α) (is : IState α) (idx : Nat) (a : List α)
    (prev : Option (Pt α × Char × List α)) (news : List (Cmd α)) (r : IState α × List (Seg α))
    (h1 : ws.curr = is.cur) (h2 : ws.start = is.start) (h0 : idx = 0 → is.cur = ⟨0, 0⟩)
    (hpc : prevCtrl 'C' ws.curr prev = .ok (wantC ws.curr is.last))
    (hpq : prevCtrl 'Q' ws.curr prev = .ok (wantQ ws.curr is.last))
    (hn : expandShorthandCb ws.start ws.curr (if idx == 0 && 'C' == 'm' then 'M' else 'C') a prev = .ok news)
    (hi : stepSeg is 'C' a = some r) :
    ∃ nc : Cmd α, news = [nc] ∧ nc.1 ∈ nonST ∧ stepSeg is nc.1 nc.2 = some r := by
  letter_sh

theorem sh_sound_us (ws : WalkState α) (is : IState α) (idx : Nat) (a : List α)
    (prev : Option (Pt α × Char × List α)) (news : List (Cmd α)) (r : IState α × List (Seg α))
    (h1 : ws.curr = is.cur) (h2 : ws.start = is.start) (h0 : idx = 0 → is.cur = ⟨0, 0⟩)
    (hpc : prevCtrl 'C' ws.curr prev = .ok (wantC ws.curr is.last))
    (hpq : prevCtrl 'Q' ws.curr prev = .ok (wantQ ws.curr is.last))
    (hn : expandShorthandCb ws.start ws.curr (if idx == 0 && 'S' == 'm' then 'M' else 'S') a prev = .ok news)
    (hi : stepSeg is 'S' a = some r) :
    ∃ nc : Cmd α, news = [nc] ∧ nc.1 ∈ nonST ∧ stepSeg is nc.1 nc.2 = some r := by
  letter_sh

theorem sh_sound_uq (ws : WalkState α) (is : IState α) (idx : Nat) (a : List α)
    (prev : Option (Pt α × Char × List α)) (news : List (Cmd α)) (r : IState α × List (Seg α))
    (h1 : ws.curr = is.cur) (h2 : ws.start = is.start) (h0 : idx = 0 → is.cur = ⟨0, 0⟩)
    (hpc : prevCtrl 'C' ws.curr prev = .ok (wantC ws.curr is.last))
    (hpq : prevCtrl 'Q' ws.curr prev = .ok (wantQ ws.curr is.last))
    (hn : expandShorthandCb ws.start ws.curr (if idx == 0 && 'Q' == 'm' then 'M' else 'Q') a prev = .ok news)
    (hi : stepSeg is 'Q' a = some r) :
    ∃ nc : Cmd α, news = [nc] ∧ nc.1 ∈ nonST ∧ stepSeg is nc.1 nc.2 = some r := by
  letter_sh

theorem sh_sound_ut (ws : WalkState α) (is : IState α) (idx : Nat) (a : List α)
    (prev : Option (Pt α × Char × List α)) (news : List (Cmd α)) (r : IState α × List (Seg α))
    (h1 : ws.curr = is.cur) (h2 : ws.start = is.start) (h0 : idx = 0 → is.cur = ⟨0, 0⟩)
    (hpc : prevCtrl 'C' ws.curr prev = .ok (wantC ws.curr is.last))
    (hpq : prevCtrl 'Q' ws.curr prev = .ok (wantQ ws.curr is.last))
    (hn : expandShorthandCb ws.start ws.curr (if idx == 0 && 'T' == 'm' then 'M' else 'T') a prev = .ok news)
    (hi : stepSeg is 'T' a = some r) :
    ∃ nc : Cmd α, news = [nc] ∧ nc.1 ∈ nonST ∧ stepSeg is nc.1 nc.2 = some r := by
  letter_sh

theorem sh_sound_ua (ws : WalkState α) (is : IState α) (idx : Nat) (a : List α)
    (prev : Option (Pt α × Char × List α)) (news : List (Cmd α)) (r : IState α × List (Seg α))
    (h1 : ws.curr = is.cur) (h2 : ws.start = is.start) (h0 : idx = 0 → is.cur = ⟨0, 0⟩)
    (hpc : prevCtrl 'C' ws.curr prev = .ok (wantC ws.curr is.last))
    (hpq : prevCtrl 'Q' ws.curr prev = .ok (wantQ ws.curr is.last))
    (hn : expandShorthandCb ws.start ws.curr (if idx == 0 && 'A' == 'm' then 'M' else 'A') a prev = .ok news)
    (hi : stepSeg is 'A' a = some r) :
    ∃ nc : Cmd α, news = [nc] ∧ nc.1 ∈ nonST ∧ stepSeg is nc.1 nc.2 = some r := by
  letter_sh

/-- the command `expand_shorthand` emits is never S/T and draws exactly what the original draws, provided `prevCtrl`
    returns the reflection the interpreter remembers -/
theorem sh_sound (ws : WalkState α) (is : IState α) (idx : Nat) (c : Char) (a : List α)
    (prev : Option (Pt α × Char × List α)) (news : List (Cmd α)) (r : IState α × List (Seg α))
    (hc : c ∈ letters)
    (h1 : ws.curr = is.cur) (h2 : ws.start = is.start) (h0 : idx = 0 → is.cur = ⟨0, 0⟩)
    (hpc : prevCtrl 'C' ws.curr prev = .ok (wantC ws.curr is.last))
    (hpq : prevCtrl 'Q' ws.curr prev = .ok (wantQ ws.curr is.last))
    (hn : expandShorthandCb ws.start ws.curr (if idx == 0 && c == 'm' then 'M' else c) a prev = .ok news)
    (hi : stepSeg is c a = some r) :
    ∃ nc : Cmd α, news = [nc] ∧ nc.1 ∈ nonST ∧ stepSeg is nc.1 nc.2 = some r := by
  simp only [List.mem_cons, List.mem_nil_iff, or_false] at hc
  rcases hc with rfl | rfl | rfl | rfl | rfl | rfl | rfl | rfl | rfl | rfl | rfl | rfl | rfl | rfl | rfl | rfl | rfl | rfl | rfl | rfl
  · exact sh_sound_lm ws is idx a prev news r h1 h2 h0 hpc hpq hn hi
  · exact sh_sound_lz ws is idx a prev news r h1 h2 h0 hpc hpq hn hi
  · exact sh_sound_ll ws is idx a prev news r h1 h2 h0 hpc hpq hn hi
  · exact sh_sound_lh ws is idx a prev news r h1 h2 h0 hpc hpq hn hi
  · exact sh_sound_lv ws is idx a prev news r h1 h2 h0 hpc hpq hn hi
  · exact sh_sound_lc ws is idx a prev news r h1 h2 h0 hpc hpq hn hi
  · exact sh_sound_ls ws is idx a prev news r h1 h2 h0 hpc hpq hn hi
  · exact sh_sound_lq ws is idx a prev news r h1 h2 h0 hpc hpq hn hi
  · exact sh_sound_lt ws is idx a prev news r h1 h2 h0 hpc hpq hn hi
  · exact sh_sound_la ws is idx a prev news r h1 h2 h0 hpc hpq hn hi
  · exact sh_sound_um ws is idx a prev news r h1 h2 h0 hpc hpq hn hi
  · exact sh_sound_uz ws is idx a prev news r h1 h2 h0 hpc hpq hn hi
  · exact sh_sound_ul ws is idx a prev news r h1 h2 h0 hpc hpq hn hi
  · exact sh_sound_uh ws is idx a prev news r h1 h2 h0 hpc hpq hn hi
  · exact sh_sound_uv ws is idx a prev news r h1 h2 h0 hpc hpq hn hi
  · exact sh_sound_uc ws is idx a prev news r h1 h2 h0 hpc hpq hn hi
  · exact sh_sound_us ws is idx a prev news r h1 h2 h0 hpc hpq hn hi
  · exact sh_sound_uq ws is idx a prev news r h1 h2 h0 hpc hpq hn hi
  · exact sh_sound_ut ws is idx a prev news r h1 h2 h0 hpc hpq hn hi
  · exact sh_sound_ua ws is idx a prev news r h1 h2 h0 hpc hpq hn hi

set_option hygiene false in
macro "letter_last" : tactic => `(tactic| (
  unfold stepSeg at hi
  split at hi <;> simp at *
  all_goals (
    obtain ⟨rfl, rfl⟩ := hi
    simp [lastAfter, stepSeg, fresh, h1])))

theorem last_lm (p : Pt α) (is : IState α) (a : List α) (is' : IState α) (segs : List (Seg α)) (h1 : p = is.cur)
    (hi : stepSeg is 'm' a = some (is', segs)) :
    lastAfter (some (p, 'm', a)) = is'.last ∧ ∃ r, stepSeg (fresh p) 'm' a = some r := by
  letter_last

theorem last_lz (p : Pt α) (is : IState α) (a : List α) (is' : IState α) (segs : List (Seg α)) (h1 : p = is.cur)
    (hi : stepSeg is 'z' a = some (is', segs)) :
    lastAfter (some (p, 'z', a)) = is'.last ∧ ∃ r, stepSeg (fresh p) 'z' a = some r := by
  letter_last

theorem last_ll (p : Pt α) (is : IState α) (a : List α) (is' : IState α) (segs : List (Seg α)) (h1 : p = is.cur)
    (hi : stepSeg is 'l' a = some (is', segs)) :
    lastAfter (some (p, 'l', a)) = is'.last ∧ ∃ r, stepSeg (fresh p) 'l' a = some r := by
  letter_last

theorem last_lh (p : Pt α) (is : IState α) (a : List α) (is' : IState α) (segs : List (Seg α)) (h1 : p = is.cur)
    (hi : stepSeg is 'h' a = some (is', segs)) :
    lastAfter (some (p, 'h', a)) = is'.last ∧ ∃ r, stepSeg (fresh p) 'h' a = some r := by
  letter_last

theorem last_lv (p : Pt α) (is : IState α) (a : List α) (is' : IState α) (segs : List (Seg α)) (h1 : p = is.cur)
    (hi : stepSeg is 'v' a = some (is', segs)) :
    lastAfter (some (p, 'v', a)) = is'.last ∧ ∃ r, stepSeg (fresh p) 'v' a = some r := by
  letter_last

theorem last_lc (p : Pt α) (is : IState α) (a : List α) (is' : IState α) (segs : List (Seg α)) (h1 : p = is.cur)
    (hi : stepSeg is 'c' a = some (is', segs)) :
    lastAfter (some (p, 'c', a)) = is'.last ∧ ∃ r, stepSeg (fresh p) 'c' a = some r := by
  letter_last

theorem last_lq (p : Pt α) (is : IState α) (a : List α) (is' : IState α) (segs : List (Seg α)) (h1 : p = is.cur)
    (hi : stepSeg is 'q' a = some (is', segs)) :
    lastAfter (some (p, 'q', a)) = is'.last ∧ ∃ r, stepSeg (fresh p) 'q' a = some r := by
  letter_last

theorem last_la (p : Pt α) (is : IState α) (a : List α) (is' : IState α) (segs : List (Seg α)) (h1 : p = is.cur)
    (hi : stepSeg is 'a' a = some (is', segs)) :
    lastAfter (some (p, 'a', a)) = is'.last ∧ ∃ r, stepSeg (fresh p) 'a' a = some r := by
  letter_last

theorem last_um (p : Pt α) (is : IState α) (a : List α) (is' : IState α) (segs : List (Seg α)) (h1 : p = is.cur)
    (hi : stepSeg is 'M' a = some (is', segs)) :
    lastAfter (some (p, 'M', a)) = is'.last ∧ ∃ r, stepSeg (fresh p) 'M' a = some r := by
  letter_last

theorem last_uz (p : Pt α) (is : IState α) (a : List α) (is' : IState α) (segs : List (Seg α)) (h1 : p = is.cur)
    (hi : stepSeg is 'Z' a = some (is', segs)) :
    lastAfter (some (p, 'Z', a)) = is'.last ∧ ∃ r, stepSeg (fresh p) 'Z' a = some r := by
  letter_last

theorem last_ul (p : Pt α) (is : IState α) (a : List α) (is' : IState α) (segs : List (Seg α)) (h1 : p = is.cur)
    (hi : stepSeg is 'L' a = some (is', segs)) :
    lastAfter (some (p, 'L', a)) = is'.last ∧ ∃ r, stepSeg (fresh p) 'L' a = some r := by
  letter_last

theorem last_uh (p : Pt α) (is : IState α) (a : List α) (is' : IState α) (segs : List (Seg α)) (h1 : p = is.cur)
    (hi : stepSeg is 'H' a = some (is', segs)) :
    lastAfter (some (p, 'H', a)) = is'.last ∧ ∃ r, stepSeg (fresh p) 'H' a = some r := by
  letter_last

theorem last_uv (p : Pt α) (is : IState α) (a : List α) (is' : IState α) (segs : List (Seg α)) (h1 : p = is.cur)
    (hi : stepSeg is 'V' a = some (is', segs)) :
    lastAfter (some (p, 'V', a)) = is'.last ∧ ∃ r, stepSeg (fresh p) 'V' a = some r := by
  letter_last

theorem last_uc (p : Pt α) (is : IState α) (a : List α) (is' : IState α) (segs : List (Seg α)) (h1 : p = is.cur)
    (hi : stepSeg is 'C' a = some (is', segs)) :
    lastAfter (some (p, 'C', a)) = is'.last ∧ ∃ r, stepSeg (fresh p) 'C' a = some r := by
  letter_last

theorem last_uq (p : Pt α) (is : IState α) (a : List α) (is' : IState α) (segs : List (Seg α)) (h1 : p = is.cur)
    (hi : stepSeg is 'Q' a = some (is', segs)) :
    lastAfter (some (p, 'Q', a)) = is'.last ∧ ∃ r, stepSeg (fresh p) 'Q' a = some r := by
  letter_last

theorem last_ua (p : Pt α) (is : IState α) (a : List α) (is' : IState α) (segs : List (Seg α)) (h1 : p = is.cur)
    (hi : stepSeg is 'A' a = some (is', segs)) :
    lastAfter (some (p, 'A', a)) = is'.last ∧ ∃ r, stepSeg (fresh p) 'A' a = some r := by
  letter_last

/-- after a command that is not S/T the interpreter remembers exactly what `lastAfter` reads off that command -/
theorem last_spec (p : Pt α) (is : IState α) (c : Char) (a : List α) (is' : IState α) (segs : List (Seg α))
    (hc : c ∈ nonST) (h1 : p = is.cur) (hi : stepSeg is c a = some (is', segs)) :
    lastAfter (some (p, c, a)) = is'.last ∧ ∃ r, stepSeg (fresh p) c a = some r := by
  simp only [List.mem_cons, List.mem_nil_iff, or_false] at hc
  rcases hc with rfl | rfl | rfl | rfl | rfl | rfl | rfl | rfl | rfl | rfl | rfl | rfl | rfl | rfl | rfl | rfl
  · exact last_lm p is a is' segs h1 hi
  · exact last_lz p is a is' segs h1 hi
  · exact last_ll p is a is' segs h1 hi
  · exact last_lh p is a is' segs h1 hi
  · exact last_lv p is a is' segs h1 hi
  · exact last_lc p is a is' segs h1 hi
  · exact last_lq p is a is' segs h1 hi
  · exact last_la p is a is' segs h1 hi
  · exact last_um p is a is' segs h1 hi
  · exact last_uz p is a is' segs h1 hi
  · exact last_ul p is a is' segs h1 hi
  · exact last_uh p is a is' segs h1 hi
  · exact last_uv p is a is' segs h1 hi
  · exact last_uc p is a is' segs h1 hi
  · exact last_uq p is a is' segs h1 hi
  · exact last_ua p is a is' segs h1 hi


/-- what the walker hands to the callback as `prev` -/
def prevOf (ws : WalkState α) : Option (Pt α × Char × List α) :=
  ws.out.getLast?.map (fun (p, (pc, pa)) => (p, pc, pa))

/-- the simulation invariant of `expand_shorthand`: positions agree, the interpreter's remembered control point is
    what the last emitted command determines, and that command is a well-formed non-shorthand command -/
structure Inv (ws : WalkState α) (is : IState α) : Prop where
  cur : ws.curr = is.cur
  start : ws.start = is.start
  last : is.last = lastAfter (prevOf ws)
  valid : ∀ p c a, prevOf ws = some (p, c, a) → c ∈ nonST ∧ ∃ r, stepSeg (fresh p) c a = some r

theorem prev_ctrl_of_inv (ws : WalkState α) (is : IState α) (h : Inv ws is) :
    prevCtrl 'C' ws.curr (prevOf ws) = .ok (wantC ws.curr is.last) ∧
    prevCtrl 'Q' ws.curr (prevOf ws) = .ok (wantQ ws.curr is.last) := by
  cases hp : prevOf ws with
  | none =>
    have hl : is.last = .none := by rw [h.last, hp]; rfl
    simp [prevCtrl, wantC, wantQ, hl, pure, Except.pure]
  | some t =>
    obtain ⟨p, c, a⟩ := t
    obtain ⟨hc, r, hr⟩ := h.valid p c a hp
    have := prevCtrl_spec ws.curr p c a r hc hr
    rw [h.last, hp]
    exact this

theorem step_sim_sh (ws : WalkState α) (is : IState α) (idx : Nat) (c : Char) (a : List α) (ws' : WalkState α)
    (is' : IState α) (segs : List (Seg α)) (hinv : Inv ws is) (h0 : idx = 0 → is.cur = ⟨0, 0⟩)
    (hw : step expandShorthandCb ws idx (c, a) = .ok ws') (hi : stepSeg is c a = some (is', segs)) :
    ∃ nc : Cmd α, ws'.out = ws.out ++ [(ws.curr, nc)] ∧ stepSeg is nc.1 nc.2 = some (is', segs) ∧ Inv ws' is' := by
  simp only [step] at hw
  obtain ⟨k0, hk, hw⟩ := bind_eq_ok.mp hw
  obtain ⟨news, hn, hw⟩ := bind_eq_ok.mp hw
  have hk' : ∃ k, PathLex.numArgs c = some k := by
    unfold PathLex.checkCmd at hk
    cases hnum : PathLex.numArgs c with
    | none => simp [hnum] at hk
    | some k => exact ⟨k, rfl⟩
  obtain ⟨k, hk'⟩ := hk'
  have hc := numArgs_letters c k hk'
  obtain ⟨hpc, hpq⟩ := prev_ctrl_of_inv ws is hinv
  obtain ⟨nc, rfl, hl, hs⟩ := sh_sound ws is idx c a (prevOf ws) news (is', segs) hc hinv.cur hinv.start h0 hpc hpq hn hi
  simp only [List.foldlM] at hw
  obtain ⟨st1, happ, hp⟩ := bind_eq_ok.mp hw
  have : st1 = ws' := pure_eq_ok.mp hp
  subst this
  have hl20 : nc.1 ∈ letters := by
    simp only [List.mem_cons, List.mem_nil_iff, or_false] at hl ⊢
    rcases hl with h | h | h | h | h | h | h | h | h | h | h | h | h | h | h | h <;> simp [h]
  obtain ⟨r1, r2, r3⟩ := applyNew_sim ws is nc.1 nc.2 st1 is' segs hl20 hinv.cur hinv.start (by simpa using happ) hs
  obtain ⟨l1, l2⟩ := last_spec ws.curr is nc.1 nc.2 is' segs hl hinv.cur hs
  have hprev : prevOf st1 = some (ws.curr, nc.1, nc.2) := by
    simp [prevOf, r3]
  refine ⟨nc, by simpa using r3, hs, ⟨r1, r2, ?_, ?_⟩⟩
  · rw [hprev]; exact l1.symm
  · intro p c' a' hpe
    rw [hprev] at hpe
    simp only [Option.some.injEq, Prod.mk.injEq] at hpe
    obtain ⟨rfl, rfl, rfl⟩ := hpe
    exact ⟨hl, l2⟩

theorem walkFrom_sim_sh (cmds : List (Cmd α)) (ws : WalkState α) (is : IState α) (idx : Nat) (ws' : WalkState α)
    (segs : List (Seg α)) (hinv : Inv ws is) (h0 : idx = 0 → is.cur = ⟨0, 0⟩)
    (hw : walkFrom expandShorthandCb ws idx cmds = .ok ws') (hi : interpFrom is cmds = some segs) :
    ∃ news : List (Pt α × Cmd α), ws'.out = ws.out ++ news ∧ interpFrom is (news.map (·.2)) = some segs := by
  induction cmds generalizing ws is idx segs with
  | nil =>
    simp only [walkFrom] at hw
    injection hw with hw; subst hw
    exact ⟨[], by simp, by simpa [interpFrom] using hi⟩
  | cons cmd rest ih =>
    obtain ⟨c, a⟩ := cmd
    simp only [walkFrom] at hw
    obtain ⟨ws1, hs1, hw⟩ := bind_eq_ok.mp hw
    simp only [interpFrom] at hi
    cases hstep : stepSeg is c a with
    | none => simp [hstep] at hi
    | some r =>
      obtain ⟨is1, s1⟩ := r
      simp only [hstep] at hi
      cases hrest : interpFrom is1 rest with
      | none => simp [hrest] at hi
      | some l =>
        simp only [hrest, Option.some.injEq] at hi
        obtain ⟨nc, hout, hnc, hinv1⟩ := step_sim_sh ws is idx c a ws1 is1 s1 hinv h0 hs1 hstep
        obtain ⟨news', hout', hint'⟩ := ih ws1 is1 (idx + 1) l hinv1 (by omega) hw hrest
        refine ⟨(ws.curr, nc) :: news', by rw [hout', hout]; simp, ?_⟩
        simp only [List.map_cons, interpFrom, hnc, hint', hi]

/-- `expand_shorthand()` preserves the curve: S/s/T/t are replaced by C/Q whose first control point is the reflection
    the specification prescribes — after a curve of the same family — or the current point -/
theorem expandShorthand_interp (cmds out : List (Cmd α)) (segs : List (Seg α))
    (h : expandShorthand cmds = .ok out) (hi : interp cmds = some segs) : interp out = some segs := by
  simp only [expandShorthand, walk] at h
  obtain ⟨st, hst, h⟩ := bind_eq_ok.mp h
  have : st.out.map (·.2) = out := pure_eq_ok.mp h
  subst this
  have hinv : Inv ({ curr := ⟨0, 0⟩, start := ⟨0, 0⟩, out := [] } : WalkState α) initState :=
    ⟨rfl, rfl, rfl, by intro p c a hp; simp [prevOf] at hp⟩
  obtain ⟨news, hout, hint⟩ := walkFrom_sim_sh cmds _ initState 0 st segs hinv (fun _ => rfl) hst hi
  simp only [List.nil_append] at hout
  rw [hout]; exact hint

end PicoSVG.PathSim
