/-
  Separator splitting undoes the printer's joins (C10).  Core Lean only.
-/
import PicoSVG.Model.PathLex

namespace PicoSVG.SepP
open PicoSVG PathLex

theorem go_token (t buf rest : List Char) (acc : List (List Char)) (ht : t.all (fun c => !isSep c) = true) :
    splitSep.go buf (t ++ rest) acc = splitSep.go (t.reverse ++ buf) rest acc := by
  induction t generalizing buf with
  | nil => rfl
  | cons c t ih =>
    simp only [List.all_cons, Bool.and_eq_true, Bool.not_eq_true'] at ht
    simp only [List.cons_append, splitSep.go, ht.1, Bool.false_eq_true, if_false]
    rw [ih (c :: buf) ht.2]
    simp [List.reverse_cons, List.append_assoc]

theorem go_sep (s : Char) (buf rest : List Char) (acc : List (List Char)) (hs : isSep s = true) :
    splitSep.go buf (s :: rest) acc = splitSep.go [] rest (if buf.isEmpty then acc else buf.reverse :: acc) := by
  simp only [splitSep.go, hs, if_true]

/-- tokens, each followed by one separator character -/
def joinToks (ts : List (List Char × Char)) : List Char := ts.flatMap (fun p => p.1 ++ [p.2])

theorem go_join (ts : List (List Char × Char)) (acc : List (List Char))
    (h : ∀ p ∈ ts, p.1 ≠ [] ∧ p.1.all (fun c => !isSep c) = true ∧ isSep p.2 = true) :
    splitSep.go [] (joinToks ts) acc = acc.reverse ++ ts.map (·.1) := by
  induction ts generalizing acc with
  | nil => simp [joinToks, splitSep.go]
  | cons p ts ih =>
    obtain ⟨t, s⟩ := p
    obtain ⟨hne, hall, hsep⟩ := h (t, s) (List.mem_cons_self ..)
    have hrest := fun q hq => h q (List.mem_cons_of_mem _ hq)
    simp only [joinToks, List.flatMap_cons, List.append_assoc, List.singleton_append]
    rw [go_token t [] _ acc hall, List.append_nil, go_sep s _ _ acc hsep]
    have : (t.reverse.isEmpty) = false := by
      cases t with
      | nil => exact absurd rfl hne
      | cons a b => simp
    simp only [this, Bool.false_eq_true, if_false, List.reverse_reverse]
    have := ih (t :: acc) hrest
    simp only [joinToks] at this
    rw [this]
    simp

/-- C10 (separators): argument tokens that contain no separator, each followed by a comma or a space, are split back into
    exactly those tokens — the printer's `,` / ` ` joins are undone by `_SEPARATOR_RE.split` -/
theorem splitSep_join (ts : List (List Char × Char))
    (h : ∀ p ∈ ts, p.1 ≠ [] ∧ p.1.all (fun c => !isSep c) = true ∧ isSep p.2 = true) :
    splitSep (joinToks ts) = ts.map (·.1) := by
  unfold splitSep
  rw [go_join ts [] h]; rfl

end PicoSVG.SepP
