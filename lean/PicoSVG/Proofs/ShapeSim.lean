/-
  The basic shapes' command sequences draw the outlines SVG 1.1 §9 prescribes (Spec/Shapes.lean).
-/
import PicoSVG.Model.ShapeCmds
import PicoSVG.Spec.Shapes
import PicoSVG.Proofs.PathSim

set_option linter.unusedSectionVars false

namespace PicoSVG.ShapeCmds

section
open Spec PathSim
variable {α : Type} [Field α] [LinearOrder α] [IsStrictOrderedRing α]

theorem line_interp (x1 y1 x2 y2 : α) : interp (lineCmds x1 y1 x2 y2) = some (lineOutline x1 y1 x2 y2) := by
  simp [lineCmds, interp, interpFrom, stepSeg, initState, lineOutline, opened]

theorem ellipse_interp (rx ry cx cy : α) : interp (ellipseCmds rx ry cx cy) = some (ellipseOutline rx ry cx cy) := by
  simp [ellipseCmds, interp, interpFrom, stepSeg, initState, ellipseOutline, opened]

theorem rect_interp (x y w h rx0 ry0 : α) :
    interp (rectCmds x y w h (resolveRadii w h rx0 ry0).1 (resolveRadii w h rx0 ry0).2)
      = some (rectOutline x y w h rx0 ry0) := by
  unfold rectOutline
  generalize (resolveRadii w h rx0 ry0) = r
  obtain ⟨rx, ry⟩ := r
  by_cases hr : 0 < rx
  · simp [rectCmds, hr, interp, interpFrom, stepSeg, initState, opened]
  · simp [rectCmds, hr, interp, interpFrom, stepSeg, initState, opened]

end
end PicoSVG.ShapeCmds
