/-
  The basic shapes' command sequences draw the outlines SVG 1.1 §9 prescribes (Spec/Shapes.lean).
-/
import PicoSVG.Model.ShapeCmds
import PicoSVG.Spec.Shapes
import PicoSVG.Proofs.PathSim

set_option linter.unusedSectionVars false

namespace PicoSVG.ShapeCmds

section
open Spec PathSim
variable {α : Type} [Field α] [LinearOrder α] [IsStrictOrderedRing α]

theorem line_interp (x1 y1 x2 y2 : α) : interp (lineCmds x1 y1 x2 y2) = some (lineOutline x1 y1 x2 y2) := by
  simp [lineCmds, interp, interpFrom, stepSeg, initState, lineOutline, opened]

theorem ellipse_interp (rx ry cx cy : α) : interp (ellipseCmds rx ry cx cy) = some (ellipseOutline rx ry cx cy) := by
  simp [ellipseCmds, interp, interpFrom, stepSeg, initState, ellipseOutline, opened]

theorem rect_interp (x y w h rx0 ry0 : α) :
    interp (rectCmds x y w h (resolveRadii w h rx0 ry0).1 (resolveRadii w h rx0 ry0).2)
      = some (rectOutline x y w h rx0 ry0) := by
  unfold rectOutline
  generalize (resolveRadii w h rx0 ry0) = r
  obtain ⟨rx, ry⟩ := r
  by_cases hr : 0 < rx
  · simp [rectCmds, hr, interp, interpFrom, stepSeg, initState, opened]
  · simp [rectCmds, hr, interp, interpFrom, stepSeg, initState, opened]

theorem resolveRadii_lone (w h a : α) : resolveRadii w h a 0 = resolveRadii w h a a := by
  unfold resolveRadii
  by_cases ha : a = 0 <;> simp [ha]

theorem resolveRadii_lone' (w h b : α) : resolveRadii w h 0 b = resolveRadii w h b b := by
  unfold resolveRadii
  by_cases hb : b = 0 <;> simp [hb]

theorem rectOutline_lone (x y w h a : α) : rectOutline x y w h a 0 = rectOutline x y w h a a := by
  simp only [rectOutline, resolveRadii_lone]

theorem rectOutline_lone' (x y w h b : α) : rectOutline x y w h 0 b = rectOutline x y w h b b := by
  simp only [rectOutline, resolveRadii_lone']

/-- the radii `from_element` hands to the dataclass make `rectOutline` (0 = copy the other one) draw what SVG 1.1 §9.2
    prescribes for the attributes as written (`rectOutlineAttr`: not given ≠ given as zero) -/
theorem rect_from_attributes (x y w h : α) (rx? ry? : Option α) :
    rectOutline x y w h (explicitZeroRadii rx?.isSome ry?.isSome (rx?.getD 0) (ry?.getD 0)).1
        (explicitZeroRadii rx?.isSome ry?.isSome (rx?.getD 0) (ry?.getD 0)).2
      = rectOutlineAttr x y w h rx? ry? := by
  cases rx? with
  | none =>
    cases ry? with
    | none => simp [explicitZeroRadii, rectOutlineAttr, givenRadii]
    | some b =>
      by_cases hb : b = 0
      · simp [explicitZeroRadii, rectOutlineAttr, givenRadii, hb]
      · simp [explicitZeroRadii, rectOutlineAttr, givenRadii, hb, rectOutline_lone']
  | some a =>
    cases ry? with
    | none =>
      by_cases ha : a = 0
      · simp [explicitZeroRadii, rectOutlineAttr, givenRadii, ha]
      · simp [explicitZeroRadii, rectOutlineAttr, givenRadii, ha, rectOutline_lone]
    | some b =>
      by_cases ha : a = 0
      · simp [explicitZeroRadii, rectOutlineAttr, givenRadii, ha]
      · by_cases hb : b = 0
        · simp [explicitZeroRadii, rectOutlineAttr, givenRadii, hb]
        · simp [explicitZeroRadii, rectOutlineAttr, givenRadii, ha, hb]

end
end PicoSVG.ShapeCmds
