/-
  C08: where identifiers can be duplicated — the copy `_resolve_use` instances carries no id at all (mutual structural
  induction over the id-stripping rewrite and the renumbering), and of the two pieces of a stroked shape at most one
  keeps the id.
-/
import PicoSVG.Proofs.StrokeP
import PicoSVG.Model.Passes

namespace PicoSVG.IdsP
open PicoSVG Node SvgObj StrokeP

theorem getS_set_id (r : ShapeRec) : (r.set "id" (.s "")).getS "id" = "" := by
  unfold ShapeRec.getS
  rw [get_set]
  cases h : r.get "id" <;> simp

/-- splitting a stroked shape never yields two pieces carrying an id: at most one piece keeps the id -/
theorem strokeOut_ids (mp : Bool) (sh2 st4 : ShapeRec) :
    ((strokeOut mp sh2 st4).filter (fun p => p.getS "id" != "")).length ≤ 1 := by
  unfold strokeOut
  cases mp
  · simp only [Bool.not_false, if_true]
    exact Nat.le_trans (List.length_filter_le _ _) (by simp)
  · simp [getS_set_id]
theorem getKV_del (a : Attrs) (k : String) : Style.getKV (Attrs.del a k) k = none := by
  unfold Style.getKV Attrs.del
  have : (List.filter (fun x => x.1 != k) a).find? (fun x => x.1 == k) = none := by
    rw [List.find?_eq_none]
    intro x hx
    have := (List.mem_filter.mp hx).2
    simpa using this
  rw [this]; rfl

theorem flatList_append (xs ys : List Node) : flatList (xs ++ ys) = flatList xs ++ flatList ys := by
  induction xs with
  | nil => rfl
  | cons x xs ih => simp [flatList, ih]

mutual
  theorem strip_noId (n : Node) : ∀ m ∈ flatList (rewrite stripId n), m.getAttr "id" = none := by
    cases n with
    | elem u t a cs =>
      intro m hm
      simp only [rewrite, stripId, flatList, flat, List.append_nil, List.mem_cons] at hm
      rcases hm with rfl | hm
      · simp only [Node.getAttr, Node.attrs]; exact getKV_del a "id"
      · exact stripL_noId false cs m hm
    | comment => intro m hm; simp [rewrite, stripId, flatList, flat] at hm; subst hm; rfl
    | pi => intro m hm; simp [rewrite, stripId, flatList, flat] at hm; subst hm; rfl
    | text s => intro m hm; simp [rewrite, stripId, flatList, flat] at hm; subst hm; rfl
    | entity => intro m hm; simp [rewrite, stripId, flatList, flat] at hm; subst hm; rfl
  theorem stripL_noId (b : Bool) (cs : List Node) : ∀ m ∈ flatList (rewriteList stripId b cs), m.getAttr "id" = none := by
    cases cs with
    | nil => intro m hm; simp [rewriteList, flatList] at hm
    | cons c cs =>
      intro m hm
      unfold rewriteList at hm
      split at hm
      · exact stripL_noId false cs m hm
      · simp only [flatList_append, List.mem_append] at hm
        rcases hm with hm | hm
        · exact strip_noId c m hm
        · exact stripL_noId _ cs m hm
end

/-- attributes seen in document order -/
def attrsOf (n : Node) : List Attrs := n.flat.map Node.attrs
def attrsOfL (ns : List Node) : List Attrs := (flatList ns).map Node.attrs

mutual
  theorem number_attrs (k : Nat) (n : Node) : attrsOf (number k n).1 = attrsOf n := by
    cases n with
    | elem u t a cs =>
      simp only [number, attrsOf, flat, List.map_cons, Node.attrs]
      have := numberList_attrs (k + 1) cs
      simp only [attrsOfL] at this
      rw [this]
    | comment => rfl
    | pi => rfl
    | text s => rfl
    | entity => rfl
  theorem numberList_attrs (k : Nat) (cs : List Node) : attrsOfL (numberList k cs).1 = attrsOfL cs := by
    cases cs with
    | nil => rfl
    | cons c cs =>
      simp only [numberList, attrsOfL, flatList, List.map_append]
      have h1 := number_attrs k c
      have h2 := numberList_attrs (number k c).2 cs
      simp only [attrsOf, attrsOfL] at h1 h2
      rw [h1, h2]
end

theorem idsOf_nil_of_noId (n : Node) (h : ∀ m ∈ n.flat, m.getAttr "id" = none) : idsOf n = [] := by
  unfold idsOf Node.elems
  rw [List.filterMap_eq_nil_iff]
  intro m hm
  have := h m (List.mem_filter.mp hm).1
  simp [this]

theorem rewrite_stripId_single (n : Node) : ∃ r, rewrite stripId n = [r] := by
  cases n <;> simp [rewrite, stripId]

/-- C08 (instancing): the copy of a `use` target that `_resolve_use` swaps in carries no id anywhere — whatever the
    target looks like — so instancing the same content any number of times cannot duplicate an id -/
theorem use_copy_has_no_ids (n : Node) (s : SvgObj) (c : Node) (s' : SvgObj)
    (h : copyStripIds n s = .ok (c, s')) : idsOf c = [] := by
  obtain ⟨r, hr⟩ := rewrite_stripId_single n
  have hc : c = (Node.number s.nextUid r).1 := by
    unfold copyStripIds at h
    simp only [bind, StateT.bind, get, getThe, MonadStateOf.get, StateT.get, pure, Except.pure, Except.bind, set,
      StateT.set, StateT.pure] at h
    rw [hr] at h
    simp only [Except.ok.injEq, Prod.mk.injEq] at h
    exact h.1.symm
  apply idsOf_nil_of_noId
  intro m hm
  have hno := strip_noId n
  rw [hr] at hno
  simp only [flatList, List.append_nil] at hno
  have ha := number_attrs s.nextUid r
  rw [← hc] at ha
  unfold attrsOf at ha
  have : m.attrs ∈ (flat r).map Node.attrs := by rw [← ha]; exact List.mem_map_of_mem hm
  obtain ⟨m0, hm0, e0⟩ := List.mem_map.mp this
  have := hno m0 hm0
  simp only [Node.getAttr] at this ⊢
  rw [← e0]; exact this
end PicoSVG.IdsP
