/-
  `remove_anonymous_symbols` keeps the gradients of an id-less symbol (fix de121e8): element by element it decides like the
  per-element pass `anonSymbolPass` the C14 theorems are about, except on an anonymous symbol that has gradients below it.
-/
import PicoSVG.Model.Cleanup
namespace PicoSVG.Cleanup
open Node

/-- no anonymous symbol of the forest has a gradient below it -/
def isAnonSymbol : Node → Bool
  | .elem _ t a _ => t == svgTag "symbol" && !(a.has "id")
  | _ => false

/-- on an element that is not an anonymous symbol with gradients the two agree -/
theorem hoist_eq_pass (n : Node) (h : isAnonSymbol n = true → gradsOfList n.children = []) :
    anonSymbolHoist n = anonSymbolPass.f n := by
  cases n with
  | elem u t a cs =>
    simp only [anonSymbolHoist, LocalPass.f, anonSymbolPass]
    by_cases hc : (t == svgTag "symbol" && !(a.has "id")) = true
    · have := h (by simpa [isAnonSymbol] using hc)
      simp only [Node.children] at this
      simp [hc, this]
    · simp [hc]
  | text s => simp [anonSymbolHoist, LocalPass.f, anonSymbolPass]
  | comment => simp [anonSymbolHoist, LocalPass.f, anonSymbolPass]
  | pi => simp [anonSymbolHoist, LocalPass.f, anonSymbolPass]
  | entity => simp [anonSymbolHoist, LocalPass.f, anonSymbolPass]

mutual
  /-- no gradient element anywhere in the subtree -/
  def gradFree : Node → Bool
    | .elem _ t _ cs => !isGradientTag t && gradFreeList cs
    | _ => true
  def gradFreeList : List Node → Bool
    | [] => true
    | c :: cs => gradFree c && gradFreeList cs
end

mutual
  theorem gradsOf_of_free : ∀ n : Node, gradFree n = true → gradsOf n = []
    | .elem u t a cs, h => by
      simp only [gradFree, Bool.and_eq_true, Bool.not_eq_true'] at h
      simp only [gradsOf, h.1]
      exact gradsOfList_of_free cs h.2
    | .text _, _ => rfl
    | .comment, _ => rfl
    | .pi, _ => rfl
    | .entity, _ => rfl
  theorem gradsOfList_of_free : ∀ cs : List Node, gradFreeList cs = true → gradsOfList cs = []
    | [], _ => rfl
    | c :: cs, h => by
      simp only [gradFreeList, Bool.and_eq_true] at h
      simp only [gradsOfList, gradsOf_of_free c h.1, gradsOfList_of_free cs h.2, List.append_nil]
end

theorem gradFreeList_append (xs ys : List Node) : gradFreeList (xs ++ ys) = (gradFreeList xs && gradFreeList ys) := by
  induction xs with
  | nil => simp [gradFreeList]
  | cons x xs ih => simp [gradFreeList, ih, Bool.and_assoc]

mutual
  /-- the per-element pass keeps a gradient-free tree gradient-free -/
  theorem free_rewrite : ∀ n : Node, gradFree n = true → gradFreeList (rewrite anonSymbolPass.f n) = true
    | .elem u t a cs, h => by
      simp only [gradFree, Bool.and_eq_true, Bool.not_eq_true'] at h
      have ih := free_rewriteList cs false h.2
      simp only [rewrite, LocalPass.f]
      split
      · rfl
      · simp only [gradFreeList, gradFree, h.1, Bool.not_false, Bool.true_and, Bool.and_true]
        exact ih
    | .text _, _ => by simp [rewrite, LocalPass.f, anonSymbolPass, gradFreeList, gradFree]
    | .comment, _ => by simp [rewrite, LocalPass.f, anonSymbolPass, gradFreeList, gradFree]
    | .pi, _ => by simp [rewrite, LocalPass.f, anonSymbolPass, gradFreeList, gradFree]
    | .entity, _ => by simp [rewrite, LocalPass.f, anonSymbolPass, gradFreeList, gradFree]
  theorem free_rewriteList : ∀ (cs : List Node) (b : Bool), gradFreeList cs = true →
      gradFreeList (rewriteList anonSymbolPass.f b cs) = true
    | [], _, _ => by simp [rewriteList, gradFreeList]
    | c :: cs, b, h => by
      simp only [gradFreeList, Bool.and_eq_true] at h
      have h1 := free_rewrite c h.1
      cases b with
      | false =>
        simp only [rewriteList, gradFreeList_append, h1, Bool.true_and]
        exact free_rewriteList cs _ h.2
      | true =>
        cases c with
        | text s => simp only [rewriteList]; exact free_rewriteList cs false h.2
        | elem u t a k => simp only [rewriteList, gradFreeList_append, h1, Bool.true_and]; exact free_rewriteList cs _ h.2
        | comment => simp only [rewriteList, gradFreeList_append, h1, Bool.true_and]; exact free_rewriteList cs _ h.2
        | pi => simp only [rewriteList, gradFreeList_append, h1, Bool.true_and]; exact free_rewriteList cs _ h.2
        | entity => simp only [rewriteList, gradFreeList_append, h1, Bool.true_and]; exact free_rewriteList cs _ h.2
end

mutual
  /-- no anonymous symbol of the subtree has a gradient below it -/
  def symbolsGradFree : Node → Bool
    | .elem u t a cs => (!isAnonSymbol (.elem u t a cs) || gradFreeList cs) && symbolsGradFreeList cs
    | _ => true
  def symbolsGradFreeList : List Node → Bool
    | [] => true
    | c :: cs => symbolsGradFree c && symbolsGradFreeList cs
end

mutual
  theorem rewrite_hoist_eq : ∀ n : Node, symbolsGradFree n = true → rewrite anonSymbolHoist n = rewrite anonSymbolPass.f n
    | .elem u t a cs, h => by
      simp only [symbolsGradFree, Bool.and_eq_true, Bool.or_eq_true, Bool.not_eq_true'] at h
      have ih := rewriteList_hoist_eq cs false h.2
      simp only [rewrite, ih]
      apply hoist_eq_pass
      intro hs
      have hs' : isAnonSymbol (.elem u t a cs) = true := by simpa [isAnonSymbol] using hs
      rcases h.1 with h1 | h1
      · rw [hs'] at h1; exact absurd h1 (by simp)
      · exact gradsOfList_of_free _ (by simpa [Node.children] using free_rewriteList cs false h1)
    | .text _, _ => by simp [rewrite, anonSymbolHoist, LocalPass.f, anonSymbolPass]
    | .comment, _ => by simp [rewrite, anonSymbolHoist, LocalPass.f, anonSymbolPass]
    | .pi, _ => by simp [rewrite, anonSymbolHoist, LocalPass.f, anonSymbolPass]
    | .entity, _ => by simp [rewrite, anonSymbolHoist, LocalPass.f, anonSymbolPass]
  theorem rewriteList_hoist_eq : ∀ (cs : List Node) (b : Bool), symbolsGradFreeList cs = true →
      rewriteList anonSymbolHoist b cs = rewriteList anonSymbolPass.f b cs
    | [], _, _ => by simp [rewriteList]
    | c :: cs, b, h => by
      simp only [symbolsGradFreeList, Bool.and_eq_true] at h
      have h1 := rewrite_hoist_eq c h.1
      cases b with
      | false => simp only [rewriteList, h1]; rw [rewriteList_hoist_eq cs _ h.2]
      | true =>
        cases c with
        | text s => simp only [rewriteList]; exact rewriteList_hoist_eq cs false h.2
        | elem u t a k => simp only [rewriteList, h1]; rw [rewriteList_hoist_eq cs _ h.2]
        | comment => simp only [rewriteList, h1]; rw [rewriteList_hoist_eq cs _ h.2]
        | pi => simp only [rewriteList, h1]; rw [rewriteList_hoist_eq cs _ h.2]
        | entity => simp only [rewriteList, h1]; rw [rewriteList_hoist_eq cs _ h.2]
end

/-- `remove_anonymous_symbols` as the code does it is the per-element pass on every document in which no anonymous symbol
    has a gradient below it -/
theorem removeAnonSymbolsH_eq (root : Node) (h : symbolsGradFreeList root.children = true) :
    removeAnonSymbolsH root = removeAnonSymbols root := by
  unfold removeAnonSymbolsH removeAnonSymbols rewriteBelow
  rw [rewriteList_hoist_eq _ false h]
end PicoSVG.Cleanup
