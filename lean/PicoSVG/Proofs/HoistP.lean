/-
  `remove_anonymous_symbols` keeps the gradients of an id-less symbol (fix de121e8): element by element it decides like the
  per-element pass `anonSymbolPass` the C14 theorems are about, except on an anonymous symbol that has gradients below it.
-/
import PicoSVG.Model.Cleanup
namespace PicoSVG.Cleanup
open Node

/-- no anonymous symbol of the forest has a gradient below it -/
def isAnonSymbol : Node → Bool
  | .elem _ t a _ => t == svgTag "symbol" && !(a.has "id")
  | _ => false

/-- on an element that is not an anonymous symbol with gradients the two agree -/
theorem hoist_eq_pass (n : Node) (h : isAnonSymbol n = true → gradsOfList n.children = []) :
    anonSymbolHoist n = anonSymbolPass.f n := by
  cases n with
  | elem u t a cs =>
    simp only [anonSymbolHoist, LocalPass.f, anonSymbolPass]
    by_cases hc : (t == svgTag "symbol" && !(a.has "id")) = true
    · have := h (by simpa [isAnonSymbol] using hc)
      simp only [Node.children] at this
      simp [hc, this]
    · simp [hc]
  | text s => simp [anonSymbolHoist, LocalPass.f, anonSymbolPass]
  | comment => simp [anonSymbolHoist, LocalPass.f, anonSymbolPass]
  | pi => simp [anonSymbolHoist, LocalPass.f, anonSymbolPass]
  | entity => simp [anonSymbolHoist, LocalPass.f, anonSymbolPass]
end PicoSVG.Cleanup
