/-
  SPEC (trusted, to be read): SVG 1.1 §9 "Basic shapes" — the outline each basic shape stands
  for, as a list of drawn segments (same vocabulary as Spec/PathInterp).
  * rect §9.2: start at (x+rx, y), clockwise; corner arcs (sweep = 1, small) when the resolved
    corner radius is positive.  Radii resolution as picosvg's dataclass sees it (0 = unspecified):
    rx := ry if rx = 0, ry := rx if ry = 0, then clamped to half the width / height.  `rectOutlineAttr` is the same
    paragraph at the level of the attributes, where "not given" and "given as zero" differ.
  * ellipse/circle §9.3-9.4: start at (cx+rx, cy), clockwise (sweep = 1), as two half arcs.
  * line §9.5.
-/
import PicoSVG.Spec.PathInterp

namespace PicoSVG.Spec

section
variable {α : Type} [Add α] [Sub α] [Mul α] [Div α] [OfNat α 0] [OfNat α 1] [BEq α] [LT α]
  [DecidableLT α]

def resolveRadii (w h rx0 ry0 : α) : α × α :=
  let rx := if rx0 == 0 then ry0 else rx0
  let ry := if ry0 == 0 then rx else ry0
  let rx := if w / twoS < rx then w / twoS else rx
  let ry := if h / twoS < ry then h / twoS else ry
  (rx, ry)

def rectOutline (x y w h rx0 ry0 : α) : List (Seg α) :=
  let (rx, ry) := resolveRadii w h rx0 ry0
  let p0 : Pt α := ⟨x + rx, y⟩
  let p1 : Pt α := ⟨x + w - rx, y⟩
  let p2 : Pt α := ⟨x + w, y + ry⟩
  let p3 : Pt α := ⟨x + w, y + h - ry⟩
  let p4 : Pt α := ⟨x + w - rx, y + h⟩
  let p5 : Pt α := ⟨x + rx, y + h⟩
  let p6 : Pt α := ⟨x, y + h - ry⟩
  let p7 : Pt α := ⟨x, y + ry⟩
  if 0 < rx then
    [Seg.move p0, Seg.line p0 p1, Seg.arc p1 rx ry 0 0 1 p2, Seg.line p2 p3, Seg.arc p3 rx ry 0 0 1 p4,
     Seg.line p4 p5, Seg.arc p5 rx ry 0 0 1 p6, Seg.line p6 p7, Seg.arc p7 rx ry 0 0 1 p0,
     Seg.close p0 p0]
  else
    -- square corners: with rx = 0 the points p1..p7 collapse pairwise onto the four corners
    [Seg.move p0, Seg.line p0 p1, Seg.line p1 ⟨p1.x, p3.y⟩, Seg.line ⟨p1.x, p3.y⟩ ⟨p5.x, p3.y⟩,
     Seg.line ⟨p5.x, p3.y⟩ ⟨p5.x, p7.y⟩, Seg.close ⟨p5.x, p7.y⟩ p0]

/-- SVG 1.1 §9.2 at the level of the attributes (`none` = not given or blank): a lone radius is copied to the other one,
    two given radii are taken as they are, -/
def givenRadii (rx? ry? : Option α) : α × α :=
  match rx?, ry? with
  | some a, some b => (a, b)
  | some a, none => (a, a)
  | none, some b => (b, b)
  | none, none => (0, 0)

/-- and the corners are square as soon as one of the two is zero ("if rx or ry has a value of zero, no rounding");
    otherwise the radii are clamped and the corners rounded as in `rectOutline`. -/
def rectOutlineAttr (x y w h : α) (rx? ry? : Option α) : List (Seg α) :=
  let (a, b) := givenRadii rx? ry?
  if a == 0 || b == 0 then rectOutline x y w h 0 0 else rectOutline x y w h a b

def ellipseOutline (rx ry cx cy : α) : List (Seg α) :=
  let a : Pt α := ⟨cx + rx, cy⟩
  let b : Pt α := ⟨cx - rx, cy⟩
  [Seg.move a, Seg.arc a rx ry 0 1 1 b, Seg.arc b rx ry 0 1 1 a, Seg.close a a]

def circleOutline (r cx cy : α) : List (Seg α) := ellipseOutline r r cx cy

def lineOutline (x1 y1 x2 y2 : α) : List (Seg α) :=
  [Seg.move ⟨x1, y1⟩, Seg.line ⟨x1, y1⟩ ⟨x2, y2⟩]

end
end PicoSVG.Spec
