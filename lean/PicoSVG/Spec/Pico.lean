/-
  SPEC (trusted, to be read): the picosvg output grammar (README + property C01), as an
  executable checker on the document tree.  `violations nd allowText root = []` iff:
  * the root is `svg`; its first element child is the document's only `defs`;
  * `defs` holds nothing but linear/radialGradient elements with an `id`, numeric coordinates, no
    href, and only `stop` children;
  * everything after `defs` is `g` or `path` (text subtrees only with `allowText`);
  * a `g` has at least two element children and exactly one attribute, `opacity`, with 0 < v < 1;
  * a `path` has no `stroke*`, `transform`, `clip-path` attribute and no evenodd fill rule; its `d`
    uses only absolute M L C Q A Z and every number is a fixed point of rounding to `nd` digits;
  * no comment, processing instruction, foreign-namespace node, xlink attribute, use, clipPath, nested
    svg or basic shape anywhere; no inheritable presentation attribute on the root.
-/
import PicoSVG.Model.Traverse
import PicoSVG.Model.SvgPath

namespace PicoSVG.Spec.Pico
open PicoSVG Node

def elemKids (n : Node) : List Node := n.children.filter isElem

def isSvgElem (n : Node) (l : String) : Bool := n.isElem && n.tag == svgTag l

def numeric (s : String) : Bool := (F64.pyFloat? s).isSome

def foreignAttr (k : String) : Bool :=
  match (splitNs k).1 with
  | some _ => true      -- any namespaced attribute (xlink:href, foreign) is forbidden in the output
  | none => false

def pathDataViolations (nd : Int) (d : String) : List String :=
  match PathLex.parseFloat true d with
  | .error _ => ["path data does not parse: " ++ d]
  | .ok cmds =>
    (if cmds.all (fun (c, _) => "MLCQAZ".toList.contains c) then [] else ["path data uses a command outside absolute M L C Q A Z: " ++ d]) ++
    (if cmds.all (fun (_, as) => as.all (fun x => F64.pyRound x nd == x)) then [] else ["path data has a number not rounded to " ++ toString nd ++ " digits: " ++ d])

def gradientViolations (g : Node) : List String :=
  let coords := if g.tag == svgTag "linearGradient" then ["x1", "y1", "x2", "y2"] else ["cx", "cy", "r", "fx", "fy", "fr"]
  (if g.attrs.has "id" then [] else ["gradient without id"]) ++
  (if g.attrs.any (fun (k, _) => foreignAttr k || k == "href") then ["gradient with href / foreign attribute"] else []) ++
  (coords.filterMap (fun k => match g.getAttr k with
    | some v => if numeric v then none else some ("gradient coordinate " ++ k ++ " is not a plain number: " ++ v)
    | none => none)) ++
  (if (g.children.filter isLxmlNode).all (fun c => isSvgElem c "stop") then [] else ["gradient child that is not a stop"]) ++
  (if (g.children.filter isLxmlNode).all (fun c => (c.children.filter isLxmlNode).isEmpty) then [] else ["stop with child nodes"])

def textTags : List String := ["text", "tspan", "textPath"]

mutual
  def bodyViolations (nd : Int) (allowText : Bool) : Node → List String
    | .comment => ["comment survives"]
    | .pi => ["processing instruction survives"]
    | .text _ => []
    | .entity => ["entity reference survives"]
    | .elem _ t a cs =>
      if t == svgTag "g" then
        (if (cs.filter isElem).length ≥ 2 then [] else ["g with fewer than two children"]) ++
        (match a with
         | [("opacity", v)] =>
           (match F64.pyFloat? v with
            | some o => if 0 < o && o < 1 then [] else ["g opacity not strictly between 0 and 1: " ++ v]
            | none => ["g opacity is not a number: " ++ v])
         | _ => ["g carries attributes other than a single opacity: " ++ ", ".intercalate (a.map (·.1))]) ++
        bodyViolationsList nd allowText cs
      else if t == svgTag "path" then
        (a.filterMap (fun (k, v) =>
          if k.startsWith "stroke" then some ("path has " ++ k)
          else if k == "transform" || k == "clip-path" then some ("path has " ++ k)
          else if k == "fill-rule" && v != "nonzero" then some "path has an evenodd fill rule"
          else if foreignAttr k then some ("path has foreign/xlink attribute " ++ k)
          else none)) ++
        pathDataViolations nd ((a.get "d").getD "") ++
        (if (cs.filter isLxmlNode).isEmpty then [] else ["path with child nodes"])
      else if allowText && textTags.any (fun l => t == svgTag l) then []
      else ["element not allowed after defs: " ++ t]
  def bodyViolationsList (nd : Int) (allowText : Bool) : List Node → List String
    | [] => []
    | c :: cs => bodyViolations nd allowText c ++ bodyViolationsList nd allowText cs
end

def violations (nd : Int) (allowText : Bool) (root : Node) : List String :=
  if !(isSvgElem root "svg") then ["root is not svg"] else
  (root.attrs.filterMap (fun (k, _) =>
    if Gen.inheritableAttrib.contains k then some ("inheritable presentation attribute on the root: " ++ k)
    else if foreignAttr k then some ("foreign/xlink attribute on the root: " ++ k) else none)) ++
  (match root.children.filter isLxmlNode with
   | [] => ["no defs"]
   | d :: rest =>
     (if isSvgElem d "defs" then
        (if (d.attrs.isEmpty) then [] else ["defs carries attributes"]) ++
        (d.children.filter isLxmlNode).flatMap (fun g =>
          if isSvgElem g "linearGradient" || isSvgElem g "radialGradient" then gradientViolations g
          else ["defs holds something other than a gradient: " ++ g.tag])
      else ["first child is not defs"]) ++
     rest.flatMap (fun n =>
       if isSvgElem n "defs" then ["a second defs"] else bodyViolations nd allowText n))

end PicoSVG.Spec.Pico
