/-
  Specification of SVG compositing at one point of the canvas: what the paint servers of the elements covering the point
  produce there, bottom first, as a tree of layers (SVG 1.1 §14: simple alpha compositing, group opacity).
  Colours are premultiplied; `α` is any commutative ring (ℚ in the examples, an ordered field in the theorems).
-/
namespace PicoSVG.Spec.Composite

structure RGBA (α : Type) where
  r : α
  g : α
  b : α
  a : α
deriving DecidableEq, Repr

variable {α : Type} [Add α] [Sub α] [Mul α] [OfNat α 0] [OfNat α 1]

def clear : RGBA α := ⟨0, 0, 0, 0⟩

/-- source-over of premultiplied colours -/
def over (src dst : RGBA α) : RGBA α :=
  ⟨src.r + dst.r * (1 - src.a), src.g + dst.g * (1 - src.a), src.b + dst.b * (1 - src.a), src.a + dst.a * (1 - src.a)⟩

def scale (k : α) (c : RGBA α) : RGBA α := ⟨k * c.r, k * c.g, k * c.b, k * c.a⟩

/-- what covers the point: a painted shape (colour, effective alpha) or a group with its opacity -/
inductive Layer (α : Type) where
  | leaf (r g b : α) (alpha : α)
  | group (alpha : α) (kids : List (Layer α))

mutual
  /-- a layer rendered on its own (onto transparent black) -/
  def paint : Layer α → RGBA α
    | .leaf r g b a => ⟨r * a, g * a, b * a, a⟩
    | .group ga kids => scale ga (onto clear kids)
  /-- layers painted in order onto a backdrop -/
  def onto (bg : RGBA α) : List (Layer α) → RGBA α
    | [] => bg
    | l :: ls => onto (over (paint l) bg) ls
end

/-- `_inherit_attrib({"opacity": o}, child)`: the opacity of a flattened group multiplied into a child -/
def pushDown (o : α) : Layer α → Layer α
  | .leaf r g b a => .leaf r g b (o * a)
  | .group a ks => .group (o * a) ks

end PicoSVG.Spec.Composite
