/-
  SPEC (trusted, to be read): the SVG 1.1 path-data grammar (§8.3.9 BNF), as an executable
  deterministic recognizer.  "The processing of the BNF must consume as much of a given BNF
  production as possible" — maximal munch on numbers; `wsp` = {#x20,#x9,#xD,#xA}; at most one
  comma per `comma-wsp`; flags are single characters; arc radii are nonnegative (unsigned)
  numbers; path data starts with a moveto; additional coordinate pairs after a moveto are
  implicit linetos (same case); every command repeats implicitly on further argument groups.

  `parse s = some cmds` iff `s` conforms to the grammar; `cmds` is the command/argument sequence
  the grammar defines, one entry per argument group, numbers as their lexemes.
-/
namespace PicoSVG.Spec.PathGrammar

def wsp (c : Char) : Bool := c == ' ' || c == '\t' || c == '\r' || c == '\n'
def digit (c : Char) : Bool := '0' ≤ c && c ≤ '9'

def skipWsp (cs : List Char) : List Char := cs.dropWhile wsp

def digits : List Char → List Char × List Char
  | c :: cs => if digit c then let (d, r) := digits cs; (c :: d, r) else ([], c :: cs)
  | [] => ([], [])

/-- exponent: ("e"|"E") sign? digit-sequence — only if complete -/
def exponent (cs : List Char) : List Char × List Char :=
  match cs with
  | e :: r =>
    if e == 'e' || e == 'E' then
      let (s, r1) := match r with
        | '+' :: t => (['+'], t)
        | '-' :: t => (['-'], t)
        | _ => ([], r)
      let (d, r2) := digits r1
      if d.isEmpty then ([], cs) else (e :: s ++ d, r2)
    else ([], cs)
  | [] => ([], [])

/-- nonnegative-number: integer-constant | floating-point-constant, maximal munch.
    fractional-constant: digit-sequence? "." digit-sequence | digit-sequence "." -/
def unsignedNumber (cs : List Char) : Option (List Char × List Char) :=
  let (ip, r0) := digits cs
  match r0 with
  | '.' :: r1 =>
    let (fp, r2) := digits r1
    if ip.isEmpty && fp.isEmpty then none
    else
      let (ex, r3) := exponent r2
      some (ip ++ '.' :: fp ++ ex, r3)
  | _ =>
    if ip.isEmpty then none
    else
      let (ex, r3) := exponent r0
      some (ip ++ ex, r3)

/-- number: sign? (integer-constant | floating-point-constant) -/
def number (cs : List Char) : Option (List Char × List Char) :=
  match cs with
  | '+' :: r => (unsignedNumber r).map (fun (l, t) => ('+' :: l, t))
  | '-' :: r => (unsignedNumber r).map (fun (l, t) => ('-' :: l, t))
  | _ => unsignedNumber cs

def flag (cs : List Char) : Option (List Char × List Char) :=
  match cs with
  | c :: r => if c == '0' || c == '1' then some ([c], r) else none
  | [] => none

/-- comma-wsp: (wsp+ comma? wsp*) | (comma wsp*); returns none if nothing matches -/
def commaWsp (cs : List Char) : Option (List Char) :=
  match cs with
  | c :: r =>
    if wsp c then
      let r1 := skipWsp r
      match r1 with
      | ',' :: r2 => some (skipWsp r2)
      | _ => some r1
    else if c == ',' then some (skipWsp r)
    else none
  | [] => none

def optCommaWsp (cs : List Char) : List Char := (commaWsp cs).getD cs

inductive Kind | num | nonneg | flag
deriving DecidableEq

/-- argument signature of one group -/
def signature (c : Char) : Option (List Kind) :=
  match c.toLower with
  | 'm' | 'l' | 't' => some [.num, .num]
  | 'h' | 'v' => some [.num]
  | 'c' => some [.num, .num, .num, .num, .num, .num]
  | 's' | 'q' => some [.num, .num, .num, .num]
  | 'a' => some [.nonneg, .nonneg, .num, .flag, .flag, .num, .num]
  | 'z' => some []
  | _ => none

def one (k : Kind) (cs : List Char) : Option (List Char × List Char) :=
  match k with
  | .num => number cs
  | .nonneg => unsignedNumber cs
  | .flag => flag cs

/-- one argument group; `comma-wsp?` between members, except the arc's mandatory `comma-wsp`
    between x-axis-rotation and the large-arc flag -/
def group (isArc : Bool) : (idx : Nat) → List Kind → List Char → Option (List String × List Char)
  | _, [], cs => some ([], cs)
  | idx, k :: ks, cs =>
    let cs? : Option (List Char) :=
      if idx == 0 then some cs
      else if isArc && idx == 3 then commaWsp cs
      else some (optCommaWsp cs)
    match cs? with
    | none => none
    | some cs1 =>
      match one k cs1 with
      | none => none
      | some (lex, r) =>
        match group isArc (idx + 1) ks r with
        | none => none
        | some (ls, r') => some (String.ofList lex :: ls, r')

/-- argument-sequence: group (comma-wsp? group)* — greedy with backtracking to before the separator -/
def groups (isArc : Bool) (sig : List Kind) : (fuel : Nat) → List Char → List (List String) × List Char
  | 0, cs => ([], cs)
  | fuel + 1, cs =>
    match group isArc 0 sig (optCommaWsp cs) with
    | none => ([], cs)
    | some (g, r) =>
      let (gs, r') := groups isArc sig fuel r
      (g :: gs, r')

/-- one command (letter already checked): returns exploded entries -/
def command (c : Char) (cs : List Char) : Option (List (Char × List String) × List Char) :=
  match signature c with
  | none => none
  | some [] => some ([(c, [])], cs)
  | some sig =>
    let isArc := c.toLower == 'a'
    match group isArc 0 sig (skipWsp cs) with
    | none => none
    | some (g, r) =>
      let (gs, r') := groups isArc sig r.length r
      let rep := if c == 'M' then 'L' else if c == 'm' then 'l' else c
      some ((c, g) :: gs.map (fun g' => (rep, g')), r')

/-- commands until the input is exhausted; `needMove`: a group must begin with a moveto -/
def commands : (fuel : Nat) → (first : Bool) → List Char → Option (List (Char × List String))
  | 0, _, _ => none
  | fuel + 1, first, cs =>
    match skipWsp cs with
    | [] => some []
    | c :: r =>
      if first && !(c == 'M' || c == 'm') then none
      else match command c r with
        | none => none
        | some (es, r') =>
          match commands fuel false r' with
          | none => none
          | some l => some (es ++ l)

def parse (cs : List Char) : Option (List (Char × List String)) := commands (cs.length + 1) true cs

end PicoSVG.Spec.PathGrammar
