/-
  SPEC (trusted, to be read): what one shape contributes to the layer stack at a canvas point.
-/
import PicoSVG.Model.Paint
import PicoSVG.Spec.Composite

namespace PicoSVG.Spec.Composite
variable {α : Type} [Add α] [Sub α] [Mul α] [OfNat α 0] [OfNat α 1] [BEq α]
/-- SPEC: what one shape contributes at a canvas point (SVG 1.1 §11, §14.5): the fill, where the point is inside the
    fill region, then the stroke, where it is inside the stroke outline, each with its own opacity, the two composited
    as a group under the shape's `opacity`; nothing when `display` is `none`, the paint is `none` or the stroke width is 0 -/
def shapeAt (s : PicoSVG.PaintAttrs α) (fr fg fb sr sg sb : α) (inFill inStroke : Bool) : List (Layer α) :=
  if s.display == "none" then []
  else [.group s.opacity
    ((if s.fill != "none" && inFill then [Layer.leaf fr fg fb s.fillOpacity] else []) ++
     (if s.stroke != "none" && s.strokeWidth != 0 && inStroke then [Layer.leaf sr sg sb s.strokeOpacity] else []))]
end PicoSVG.Spec.Composite
