/-
  SPEC (trusted, to be read): SVG 1.1 §8.3 "Path data" — what a command sequence draws.
  An independent single-pass interpreter (own current point, subpath start and last control
  point) producing the list of drawn segments in absolute coordinates.  Two command
  sequences "describe the same curve" iff their interpretations are equal.

  Conventions (all from §8.3):
  * lower-case commands are relative to the current point (a leading `m` is therefore absolute);
  * `Z/z` draws the closing line to the subpath start and makes it the current point; if a
    closepath is followed by a command other than moveto, the next subpath starts at that same
    point (recorded here as an explicit `move`);
  * commands before any moveto are interpreted from (0,0) (picosvg accepts such data);
  * S reflects the previous second control point only after C/c/S/s, T reflects the previous
    control point only after Q/q/T/t; otherwise the control point coincides with the current point.
-/
import PicoSVG.Model.Path

namespace PicoSVG.Spec

inductive Seg (α : Type)
  | move (p : Pt α)
  | line (p0 p1 : Pt α)
  | quad (p0 c p1 : Pt α)
  | cubic (p0 c1 c2 p1 : Pt α)
  | arc (p0 : Pt α) (rx ry rot large sweep : α) (p1 : Pt α)
  | close (p0 p1 : Pt α)
deriving Repr, DecidableEq

inductive LastCtrl (α : Type)
  | none
  | cubic (c : Pt α)
  | quad (c : Pt α)
deriving Repr, DecidableEq

structure IState (α : Type) where
  cur : Pt α
  start : Pt α
  last : LastCtrl α
  /-- a subpath must be (re)opened before the next drawing command -/
  pending : Bool
deriving Repr, DecidableEq

section
variable {α : Type} [Add α] [Sub α] [Mul α] [OfNat α 0] [OfNat α 1]

def twoS : α := (1 : α) + 1

def reflect (cur c : Pt α) : Pt α := ⟨twoS * cur.x - c.x, twoS * cur.y - c.y⟩

/-- open the pending subpath (if any) at the current point -/
def opened (st : IState α) : List (Seg α) := if st.pending then [Seg.move st.cur] else []

/-- one command; `none` = wrong number of arguments or unknown letter -/
def stepSeg (st : IState α) (cmd : Char) (args : List α) : Option (IState α × List (Seg α)) :=
  let rel := Path.isLower cmd
  let ox := if rel then st.cur.x else 0
  let oy := if rel then st.cur.y else 0
  match Path.toUpper cmd, args with
  | 'M', [x, y] =>
    let p : Pt α := ⟨ox + x, oy + y⟩
    some ({ cur := p, start := p, last := .none, pending := false }, [Seg.move p])
  | 'Z', [] =>
    some ({ cur := st.start, start := st.start, last := .none, pending := true },
          opened st ++ [Seg.close st.cur st.start])
  | 'L', [x, y] =>
    let p : Pt α := ⟨ox + x, oy + y⟩
    some ({ st with cur := p, last := .none, pending := false }, opened st ++ [Seg.line st.cur p])
  | 'H', [x] =>
    let p : Pt α := ⟨ox + x, st.cur.y⟩
    some ({ st with cur := p, last := .none, pending := false }, opened st ++ [Seg.line st.cur p])
  | 'V', [y] =>
    let p : Pt α := ⟨st.cur.x, oy + y⟩
    some ({ st with cur := p, last := .none, pending := false }, opened st ++ [Seg.line st.cur p])
  | 'C', [x1, y1, x2, y2, x, y] =>
    let c1 : Pt α := ⟨ox + x1, oy + y1⟩
    let c2 : Pt α := ⟨ox + x2, oy + y2⟩
    let p : Pt α := ⟨ox + x, oy + y⟩
    some ({ st with cur := p, last := .cubic c2, pending := false },
          opened st ++ [Seg.cubic st.cur c1 c2 p])
  | 'S', [x2, y2, x, y] =>
    let c1 : Pt α := match st.last with
      | .cubic c => reflect st.cur c
      | _ => st.cur
    let c2 : Pt α := ⟨ox + x2, oy + y2⟩
    let p : Pt α := ⟨ox + x, oy + y⟩
    some ({ st with cur := p, last := .cubic c2, pending := false },
          opened st ++ [Seg.cubic st.cur c1 c2 p])
  | 'Q', [x1, y1, x, y] =>
    let c : Pt α := ⟨ox + x1, oy + y1⟩
    let p : Pt α := ⟨ox + x, oy + y⟩
    some ({ st with cur := p, last := .quad c, pending := false },
          opened st ++ [Seg.quad st.cur c p])
  | 'T', [x, y] =>
    let c : Pt α := match st.last with
      | .quad c => reflect st.cur c
      | _ => st.cur
    let p : Pt α := ⟨ox + x, oy + y⟩
    some ({ st with cur := p, last := .quad c, pending := false },
          opened st ++ [Seg.quad st.cur c p])
  | 'A', [rx, ry, rot, large, sweep, x, y] =>
    let p : Pt α := ⟨ox + x, oy + y⟩
    some ({ st with cur := p, last := .none, pending := false },
          opened st ++ [Seg.arc st.cur rx ry rot large sweep p])
  | _, _ => none

def initState : IState α := { cur := ⟨0, 0⟩, start := ⟨0, 0⟩, last := .none, pending := true }

def interpFrom : IState α → List (Cmd α) → Option (List (Seg α))
  | _, [] => some []
  | st, (c, a) :: rest =>
    match stepSeg st c a with
    | none => none
    | some (st', segs) =>
      match interpFrom st' rest with
      | none => none
      | some l => some (segs ++ l)

/-- the curve a command sequence describes -/
def interp (cmds : List (Cmd α)) : Option (List (Seg α)) := interpFrom initState cmds

end
end PicoSVG.Spec
