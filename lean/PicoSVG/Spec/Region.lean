/-
  SPEC (trusted, to be read): what the boolean path operations are supposed to compute.
  `Region` = a set of points of the plane; the interior of an engine path under its own fill
  type is a `Region`.  The set combinators below are the *meaning* of union / intersection /
  difference for any number of operands (left fold, so difference is a₀ \ a₁ \ a₂ …).
-/
import PicoSVG.Model.PathOps

namespace PicoSVG.Spec

abbrev Region (α : Type) := Pt α → Prop

def combine {α : Type} (o : BoolOp) (a b : Region α) : Region α :=
  match o with
  | .union => fun p => a p ∨ b p
  | .intersection => fun p => a p ∧ b p
  | .difference => fun p => a p ∧ ¬ b p

def combineAll {α : Type} (o : BoolOp) (a : Region α) (bs : List (Region α)) : Region α :=
  bs.foldl (combine o) a

/-- The assumed behaviour of the engine (HYPOTHESES, validated by sampling on every run — not
    proved): `interior` of an engine path under its own fill type, on the generic points `G`
    (points off the edges of every operand and result). -/
structure EngineSpec {P α : Type} (E : Engine P α) (interior : P → Region α)
    (interiorAs : FillRule → P → Region α) (G : Pt α → Prop) : Prop where
  op2_spec : ∀ o a b r, E.op2 o a b = .ok r → ∀ p, G p → (interior r p ↔ combine o (interior a) (interior b) p)
  simplify_spec : ∀ a r, E.simplify a = .ok r → ∀ p, G p → (interior r p ↔ interior a p)
  /-- after `simplify(fix_winding=True)` the contours are oriented so that both fill rules agree -/
  simplify_rule_free : ∀ a r, E.simplify a = .ok r → ∀ p, G p →
    (interiorAs .nonzero r p ↔ interior r p) ∧ (interiorAs .evenodd r p ↔ interior r p)

end PicoSVG.Spec
