/-
  SPEC (trusted, to be read): SVG 1.1 §7.6 "The transform attribute" — the matrix each
  transform definition stands for, written out independently of the implementation's
  method chaining, and §7.4 the meaning of a transform list.
-/
import PicoSVG.Model.Transform

namespace PicoSVG.Spec
open PicoSVG

variable {α : Type} [Add α] [Sub α] [Mul α] [Div α] [Neg α] [OfNat α 0] [OfNat α 1] [BEq α]
  [LT α] [LE α] [DecidableLT α] [DecidableLE α]

/-- §7.6: matrix(a b c d e f) = [a b c d e f]; translate(tx [ty]) = [1 0 0 1 tx ty], ty = 0 if
    omitted; scale(sx [sy]) = [sx 0 0 sy 0 0], sy = sx if omitted; rotate(a) = [cos a, sin a,
    −sin a, cos a, 0, 0]; rotate(a cx cy) = translate(cx,cy) rotate(a) translate(−cx,−cy);
    skewX(a) = [1 0 tan a 1 0 0]; skewY(a) = [1 tan a 0 1 0 0]; angles in degrees. -/
def opMatrix (T : Trig α) : TOp α → Aff α
  | .matrix a b c d e f => ⟨a, b, c, d, e, f⟩
  | .translate tx ty => ⟨1, 0, 0, 1, tx, ty.getD 0⟩
  | .scale sx sy => ⟨sx, 0, 0, sy.getD sx, 0, 0⟩
  | .rotate deg cx cy =>
      let c := T.cos (T.rad deg)
      let s := T.sin (T.rad deg)
      let cx := cx.getD 0
      let cy := cy.getD 0
      -- T(cx,cy) · R · T(−cx,−cy) multiplied out
      ⟨c, s, -s, c, cx - c * cx + s * cy, cy - s * cx - c * cy⟩
  | .skewX deg => ⟨1, 0, T.tan (T.rad deg), 1, 0, 0⟩
  | .skewY deg => ⟨1, T.tan (T.rad deg), 0, 1, 0, 0⟩

/-- §7.5/7.6: a list "t1 t2 … tn" is the matrix product M1·M2·…·Mn; applied to a point this
    means the *rightmost* transform acts on the point first. -/
def listPoint (T : Trig α) (ops : List (TOp α)) (p : Pt α) : Pt α :=
  ops.foldr (fun op q => (opMatrix T op).mapPt q) p

end PicoSVG.Spec
