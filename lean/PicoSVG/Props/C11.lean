/-
  C11 — Transform strings and affine algebra follow the SVG specification.
  Property theorems only (helpers live in Proofs/).  All statements are over an arbitrary
  (linearly ordered) field: exact arithmetic; IEEE rounding is outside (see DESIGN §2.2).
-/
import PicoSVG.Proofs.Affine
import PicoSVG.Spec.Transform
import PicoSVG.Gen.Tables

set_option linter.unusedSectionVars false
set_option linter.unusedVariables false

namespace PicoSVG.C11
open PicoSVG

section OrderedField
variable {α : Type} [Field α] [LinearOrder α] [IsStrictOrderedRing α]

/-- C11-1a: matrix product is associative with identity `id` (so lists compose unambiguously). -/
theorem mul_assoc (x y z : Aff α) : (x.mul y).mul z = x.mul (y.mul z) := Aff.mul_assoc x y z
theorem mul_id (x : Aff α) : x.mul Aff.id = x := Aff.mul_id x
theorem id_mul (x : Aff α) : (Aff.id : Aff α).mul x = x := Aff.id_mul x

/-- C11-1b: `self @ other` maps by `other` first. -/
theorem mapPt_mul (x y : Aff α) (p : Pt α) : (x.mul y).mapPt p = x.mapPt (y.mapPt p) :=
  Aff.mapPt_mul x y p

/-- C11-1c: left-to-right composition maps a point through the FIRST transform first,
    for transform lists of any length. -/
theorem composeLtr_mapPt (l : List (Aff α)) (p : Pt α) :
    (Aff.composeLtr l).mapPt p = l.foldl (fun q A => A.mapPt q) p := by
  unfold Aff.composeLtr
  rw [Aff.foldl_mul_mapPt, Aff.mapPt_id, List.foldr_reverse]

/-- C11-2a: every op method multiplies the §7.6 matrix on the right of the accumulator
    (incl. the `translate(0,0)` shortcut, optional-argument defaults, rotate about a centre). -/
theorem evalOp_eq_mul (T : Trig α) (s : Aff α) (op : TOp α) :
    evalOp T s op = s.mul (Spec.opMatrix T op) := Aff.evalOp_eq_mul T s op

/-- C11-2b: a parsed transform list evaluates to the product of its §7.6 matrices in the
    listed order … -/
theorem evalOps_spec (T : Trig α) (ops : List (TOp α)) :
    evalOps T ops = (ops.map (Spec.opMatrix T)).foldl Aff.mul Aff.id := by
  unfold evalOps
  generalize (Aff.id : Aff α) = acc
  induction ops generalizing acc with
  | nil => rfl
  | cons op ops ih => simp only [List.foldl_cons, List.map_cons, ih, evalOp_eq_mul]

/-- … C11-2c: hence the RIGHTMOST operation of the list acts on the point first (SVG §7.5). -/
theorem evalOps_mapPt (T : Trig α) (ops : List (TOp α)) (p : Pt α) :
    (evalOps T ops).mapPt p = Spec.listPoint T ops p := by
  rw [evalOps_spec, Aff.foldl_mul_mapPt, Aff.mapPt_id]
  unfold Spec.listPoint
  induction ops with
  | nil => rfl
  | cons op ops ih => simp only [List.map_cons, List.foldr_cons, ih]

/-- C11-3: inversion undoes every non-degenerate transform (both sides), for any threshold
    ε ≥ 0 of the degeneracy test. -/
theorem inverse_left (eps : α) (heps : 0 ≤ eps) (A : Aff α) (h : A.isDegenerate eps = false) :
    (A.inverse eps).mul A = Aff.id := Aff.inverse_left eps heps A h
theorem inverse_right (eps : α) (heps : 0 ≤ eps) (A : Aff α) (h : A.isDegenerate eps = false) :
    A.mul (A.inverse eps) = Aff.id := Aff.inverse_right eps heps A h
/-- the inverse of a degenerate (non-identity) transform is the zero matrix, as documented -/
theorem inverse_degenerate (eps : α) (A : Aff α) (hid : A ≠ Aff.id)
    (h : A.isDegenerate eps = true) : A.inverse eps = Aff.zero := Aff.inverse_degenerate eps A hid h

/-- C11-4: `tostring` emits either `translate(e, f)` or `matrix(a b c d e f)`; evaluating the
    emitted operation returns the same matrix (numbers print/re-parse losslessly: trusted
    `float(repr(x)) = x`, sampled). -/
theorem tostring_roundtrip (T : Trig α) (A : Aff α) : evalOps T [Aff.tostringOp A] = A :=
  Aff.tostring_roundtrip T A

/-! #### viewport mapping (preserveAspectRatio) -/

/-- C11-5a `none`: corners go to corners (non-uniform scaling fills the destination). -/
theorem rectToRect_none (src dst : Rect α) (hs : src.empty = false) (hd : dst.empty = false) :
    (rectToRect src dst PAR.none).mapPt ⟨src.x, src.y⟩ = ⟨dst.x, dst.y⟩ ∧
    (rectToRect src dst PAR.none).mapPt ⟨src.x + src.w, src.y + src.h⟩ =
      ⟨dst.x + dst.w, dst.y + dst.h⟩ := Aff.rectToRect_none src dst hs hd

/-- C11-5b meet/slice: uniform scale `s = min/max (dst.w/src.w, dst.h/src.h)`, no rotation/skew -/
theorem rectToRect_uniform (src dst : Rect α) (ax : AlignX) (ay : AlignY) (slice : Bool)
    (hs : src.empty = false) (hd : dst.empty = false) :
    let M := rectToRect src dst (PAR.align ax ay slice)
    M.a = M.d ∧ M.b = 0 ∧ M.c = 0 ∧
    M.a = (if slice then maxv (dst.w / src.w) (dst.h / src.h)
           else minv (dst.w / src.w) (dst.h / src.h)) :=
  Aff.rectToRect_uniform src dst ax ay slice hs hd

/-- C11-5c meet: the image of the source box lies inside the destination box. -/
theorem rectToRect_meet_inside (src dst : Rect α) (ax : AlignX) (ay : AlignY)
    (hsw : 0 < src.w) (hsh : 0 < src.h) (hdw : 0 < dst.w) (hdh : 0 < dst.h) :
    let M := rectToRect src dst (PAR.align ax ay false)
    let p0 := M.mapPt ⟨src.x, src.y⟩
    let p1 := M.mapPt ⟨src.x + src.w, src.y + src.h⟩
    dst.x ≤ p0.x ∧ p1.x ≤ dst.x + dst.w ∧ dst.y ≤ p0.y ∧ p1.y ≤ dst.y + dst.h :=
  Aff.rectToRect_meet_inside src dst ax ay hsw hsh hdw hdh

/-- C11-5d slice: the image of the source box covers the destination box. -/
theorem rectToRect_slice_covers (src dst : Rect α) (ax : AlignX) (ay : AlignY)
    (hsw : 0 < src.w) (hsh : 0 < src.h) (hdw : 0 < dst.w) (hdh : 0 < dst.h) :
    let M := rectToRect src dst (PAR.align ax ay true)
    let p0 := M.mapPt ⟨src.x, src.y⟩
    let p1 := M.mapPt ⟨src.x + src.w, src.y + src.h⟩
    p0.x ≤ dst.x ∧ dst.x + dst.w ≤ p1.x ∧ p0.y ≤ dst.y ∧ dst.y + dst.h ≤ p1.y :=
  Aff.rectToRect_slice_covers src dst ax ay hsw hsh hdw hdh

/-- C11-5e alignment in x: xMin flush left, xMid centred, xMax flush right
    (for meet and slice alike); the y statement is symmetric. -/
theorem rectToRect_align_x (src dst : Rect α) (ax : AlignX) (ay : AlignY) (slice : Bool)
    (hs : src.empty = false) (hd : dst.empty = false) :
    let M := rectToRect src dst (PAR.align ax ay slice)
    let x0 := (M.mapPt ⟨src.x, src.y⟩).x
    let x1 := (M.mapPt ⟨src.x + src.w, src.y + src.h⟩).x
    match ax with
    | AlignX.min => x0 = dst.x
    | AlignX.mid => x0 + x1 = dst.x + (dst.x + dst.w)
    | AlignX.max => x1 = dst.x + dst.w :=
  Aff.rectToRect_align_x src dst ax ay slice hs hd

theorem rectToRect_align_y (src dst : Rect α) (ax : AlignX) (ay : AlignY) (slice : Bool)
    (hs : src.empty = false) (hd : dst.empty = false) :
    let M := rectToRect src dst (PAR.align ax ay slice)
    let y0 := (M.mapPt ⟨src.x, src.y⟩).y
    let y1 := (M.mapPt ⟨src.x + src.w, src.y + src.h⟩).y
    match ay with
    | AlignY.min => y0 = dst.y
    | AlignY.mid => y0 + y1 = dst.y + (dst.y + dst.h)
    | AlignY.max => y1 = dst.y + dst.h :=
  Aff.rectToRect_align_y src dst ax ay slice hs hd

/-! #### decompositions -/

/-- C11-6a: whatever `decompose_translation` returns recomposes to the input within the
    code's own 1e-4 self-check (otherwise it raises) — and the second part has no translation. -/
theorem decomposeTranslation_checked (tolEq tolDec : α) (s t p : Aff α)
    (h : decomposeTranslation tolEq tolDec s = some (t, p)) :
    s.almostEq tolDec (Aff.composeLtr [t, p]) = true ∨ (t = Aff.id ∧ s.almostEq tolEq p = true) :=
  Aff.decomposeTranslation_checked tolEq tolDec s t p h

/-- C11-6b: in exact arithmetic the decomposition is exact whenever the 2×2 part is invertible
    and `a` is not inside the (0, tol] band that selects the `a = 0` formula; the only other
    outcome is the "no translation" shortcut, taken when |e|,|f| ≤ 1e-9 (dropped). -/
theorem decomposeTranslation_exact (tolEq tolDec : α) (htol : 0 ≤ tolEq) (s t p : Aff α)
    (hdet : s.det ≠ 0) (hband : s.a = 0 ∨ tolEq < absv s.a)
    (h : decomposeTranslation tolEq tolDec s = some (t, p)) :
    (Aff.composeLtr [t, p] = s ∨ (t = Aff.id ∧ absv s.e ≤ tolEq ∧ absv s.f ≤ tolEq)) ∧
      p = zeroTranslation s :=
  Aff.decomposeTranslation_exact tolEq tolDec htol s t p hdet hband h

end OrderedField

/-! #### tie to the source (generated on every run by tools/translate.py): the constants the
hand-written model of `parse_svg_transform` / `rect_to_rect` / `decompose_translation` assumes.
If the source changes one of them the equation fails and the check goes to the failing-input
search. -/

theorem gen_transform_literals : Gen.transformParseLiterals =
    ["(?i)(matrix|translate|scale|rotate|skewX|skewY)\\s*\\(([^)]*)\\)", "\\s*[,\\s]\\s*"] := by decide
theorem gen_fixup_keys : Gen.svgArgFixupKeys = ["rotate", "skewx", "skewy"] := by decide
theorem gen_op_arity : Gen.opArity =
    [("matrix", 6, 6), ("translate", 1, 2), ("scale", 1, 2), ("rotate", 1, 3), ("skewx", 1, 1),
     ("skewy", 1, 1)] := by decide
theorem gen_op_names : Gen.opArity.map (·.1) = TransformParse.opNames := by decide
theorem gen_align_values : Gen.alignValues =
    ["none", "xmaxymax", "xmaxymid", "xmaxymin", "xmidymax", "xmidymid", "xmidymin", "xminymax",
     "xminymid", "xminymin"] ∧ Gen.meetOrSlice = ["meet", "slice"] := by decide
/-- the model's alignment table has exactly the accepted align values -/
theorem gen_align_table :
    Gen.alignValues.all (fun k => (alignTable.lookup k).isSome) = true ∧
    alignTable.all (fun p => Gen.alignValues.contains p.1) = true := by decide
/-- tolerances: 1e-4, 1e-9, DBL_EPSILON; identity / degenerate constants -/
theorem gen_constants : Gen.decompositionTolBits = 0x3F1A36E2EB1C432D ∧
    Gen.almostEqualTolBits = 0x3E112E0BE826D695 ∧ Gen.floatEpsilonBits = 0x3CB0000000000000 ∧
    Gen.identityAffineBits = [0x3FF0000000000000, 0, 0, 0x3FF0000000000000, 0, 0] ∧
    Gen.degenerateAffineBits = [0, 0, 0, 0, 0, 0] := by decide

/-! non-vacuity: concrete instances meeting the hypotheses (over ℚ) -/
example : (Aff.isDegenerate (0 : Rat) (⟨2, 0, 0, 3, 5, 7⟩ : Aff Rat)) = false := by decide +kernel
example : (Rect.empty (⟨0, 0, 4, 2⟩ : Rect Rat)) = false := by decide +kernel
example : decomposeTranslation (1/1000000000 : Rat) (1/10000) (⟨2, 0, 0, 3, 5, 7⟩ : Aff Rat)
    = some (⟨1, 0, 0, 1, 5/2, 7/3⟩, ⟨2, 0, 0, 3, 0, 0⟩) := by decide +kernel

end PicoSVG.C11
