/-
  C05 — every output path carries the paint and opacity the SVG cascade assigns.

  Proved here, for the compositing specification Spec/Composite.lean over any commutative ring:
  * source-over on premultiplied colours is associative with `clear` as unit, hence painting a list of layers onto a
    backdrop is painting the list on its own and putting the result over the backdrop (`onto_eq_over`) — this is what
    makes "flatten a group" a local question;
  * the flattening rule of picosvg is sound at any position of any layer stack: a group that `_is_removable_group`
    accepts — at most one child, or clamped opacity 0 or 1 (`Groups.removableCore`, the model of the code) — paints
    exactly what its children paint once its opacity is multiplied into them (`flatten_sound`, from
    `group_one`, `group_zero`, `group_single`);
  * it is also necessary: a group with two overlapping children and an opacity strictly between 0 and 1 does not
    composite like its flattened children (`flatten_unsound_two_children`) — such groups must be kept, and the model keeps
    exactly these (`Props.C01.kept_group`);
  * opacities multiply along a chain of single-child groups (`nested_single`), fill-opacity and opacity of a shape
    multiply into one alpha (`normalizeOpacity` model: `leaf_alpha_mul`).
  * the cascade on the model of the code: after `_apply_styles` every property has the value of its last style
    declaration and a presentation attribute survives only where the style is silent (`style_declarations_win`); the
    copy handler of `_inherit_attrib` lets an element's own value win and inherits otherwise (`own_value_wins`,
    `inherited_when_absent`); `display:none` reaches every descendant (`display_none_inherits`).
  Tied to the code by the pipeline correspondence on the cascade grammar and judged on every run by compositing the
  source and the converted document with the independent renderer (harness/render.py).
-/
import PicoSVG.Spec.Composite
import PicoSVG.Model.Passes
import PicoSVG.Proofs.CascadeP
import Mathlib.Tactic.Ring
import Mathlib.Tactic.Linarith
import Mathlib.Algebra.Order.Field.Basic

namespace PicoSVG.Props.C05

open PicoSVG.Spec.Composite

variable {α : Type} [CommRing α]

@[ext] theorem RGBA.ext' {x y : RGBA α} (h1 : x.r = y.r) (h2 : x.g = y.g) (h3 : x.b = y.b) (h4 : x.a = y.a) : x = y := by
  cases x; cases y; simp_all

theorem over_assoc (x y z : RGBA α) : over x (over y z) = over (over x y) z := by
  apply RGBA.ext' <;> simp only [over] <;> ring

theorem over_clear (x : RGBA α) : over x clear = x := by
  apply RGBA.ext' <;> simp [over, clear]

theorem clear_over (x : RGBA α) : over clear x = x := by
  apply RGBA.ext' <;> simp [over, clear]

/-- painting layers onto a backdrop = painting them on their own, then source-over -/
theorem onto_eq_over (bg : RGBA α) (ls : List (Layer α)) : onto bg ls = over (onto clear ls) bg := by
  induction ls generalizing bg with
  | nil => simp [onto, clear_over]
  | cons l ls ih =>
    simp only [onto]
    rw [ih (over (paint l) bg), ih (over (paint l) clear), over_clear, over_assoc]

theorem onto_append (bg : RGBA α) (xs ys : List (Layer α)) : onto bg (xs ++ ys) = onto (onto bg xs) ys := by
  induction xs generalizing bg with
  | nil => rfl
  | cons x xs ih => simp [onto, ih]

/-- a group standing anywhere in a stack can be replaced by any list of layers that paints the same on its own -/
theorem replace_in_stack (bg : RGBA α) (pre post ks : List (Layer α)) (g : Layer α)
    (h : paint g = onto clear ks) : onto bg (pre ++ g :: post) = onto bg (pre ++ ks ++ post) := by
  rw [onto_append, List.append_assoc, onto_append, onto_append]
  simp only [onto]
  rw [onto_eq_over (onto bg pre) ks, h]

theorem scale_one (c : RGBA α) : scale 1 c = c := by
  apply RGBA.ext' <;> simp [scale]

theorem scale_zero (c : RGBA α) : scale 0 c = clear := by
  apply RGBA.ext' <;> simp [scale, clear]

theorem paint_pushDown (o : α) (l : Layer α) : paint (pushDown o l) = scale o (paint l) := by
  cases l with
  | leaf r g b a => apply RGBA.ext' <;> simp only [pushDown, paint, scale] <;> ring
  | group a ks => apply RGBA.ext' <;> simp only [pushDown, paint, scale] <;> ring

/-- opacity 1: the group is its children -/
theorem group_one (ks : List (Layer α)) : paint (.group 1 ks) = onto clear (ks.map (pushDown 1)) := by
  have : ks.map (pushDown (1 : α)) = ks := by
    induction ks with
    | nil => rfl
    | cons k ks ih => cases k <;> simp [pushDown, ih]
  rw [this]; simp [paint, scale_one]

theorem onto_all_clear (bg : RGBA α) (ks : List (Layer α)) (h : ∀ k ∈ ks, paint k = clear) : onto bg ks = bg := by
  induction ks generalizing bg with
  | nil => rfl
  | cons k ks ih =>
    simp only [onto]
    rw [h k (List.mem_cons_self ..), clear_over]
    exact ih bg (fun x hx => h x (List.mem_cons_of_mem _ hx))

/-- opacity 0: the group paints nothing, and neither do its children with 0 multiplied in -/
theorem group_zero (ks : List (Layer α)) : paint (.group 0 ks) = onto clear (ks.map (pushDown 0)) := by
  rw [onto_all_clear]
  · simp [paint, scale_zero]
  · intro k hk
    obtain ⟨k0, _, rfl⟩ := List.mem_map.mp hk
    rw [paint_pushDown, scale_zero]

/-- at most one child: the group's opacity multiplies into it -/
theorem group_single (o : α) (k : Layer α) : paint (.group o [k]) = onto clear ([k].map (pushDown o)) := by
  simp only [List.map, onto, paint, over_clear, paint_pushDown]

theorem group_empty (o : α) : paint (.group o ([] : List (Layer α))) = onto clear ([].map (pushDown o)) := by
  apply RGBA.ext' <;> simp [paint, onto, scale, clear]

/-- C05 (flattening is sound): whenever the code's `_is_removable_group` decision (`Groups.removableCore`, with the
    group's clamped opacity `o` and `ks.length` rendered children) says "remove", replacing the group by its children
    with the opacity pushed down leaves every stack of layers containing it — before, after, around — unchanged -/
theorem flatten_sound [DecidableEq α] [LT α] [DecidableLT α] (bg : RGBA α) (pre post ks : List (Layer α)) (o : α)
    (h : Groups.removableCore true false ks.length o = true) :
    onto bg (pre ++ Layer.group o ks :: post) = onto bg (pre ++ ks.map (pushDown o) ++ post) := by
  apply replace_in_stack
  simp only [Groups.removableCore, Bool.not_true, Bool.false_eq_true, if_false, Bool.or_eq_true, decide_eq_true_eq,
    beq_iff_eq] at h
  rcases h with h | h | h
  · match ks, h with
    | [], _ => exact group_empty o
    | [k], _ => exact group_single o k
    | _ :: _ :: _, h => simp at h
  · subst h; exact group_zero ks
  · subst h; exact group_one ks

/-- C05 (and necessary): two overlapping children under a half-transparent group do not composite like the flattened
    children — black over white at opacity 1/2 each -/
theorem flatten_unsound_two_children :
    onto (clear : RGBA ℚ) [Layer.group (1/2) [.leaf 1 1 1 1, .leaf 0 0 0 1]]
      ≠ onto clear ([Layer.leaf 1 1 1 1, .leaf 0 0 0 1].map (pushDown (1/2))) := by
  decide +kernel

/-- opacities multiply along nested single-child groups -/
theorem nested_single (o₁ o₂ : α) (k : Layer α) :
    paint (.group o₁ [.group o₂ [k]]) = paint (pushDown (o₁ * o₂) k) := by
  rw [paint_pushDown]
  apply RGBA.ext' <;> simp only [paint, onto, over, clear, scale] <;> ring

/-- a shape's opacity is a group around its fill: with only a fill it is one alpha, the product (`normalize_opacity`) -/
theorem leaf_alpha_mul (r g b fo o : α) : paint (.group o [.leaf r g b fo]) = paint (.leaf r g b (o * fo)) := by
  apply RGBA.ext' <;> simp only [paint, onto, over, clear, scale] <;> ring

/-- non-vacuity: the hypothesis of `flatten_sound` holds for a one-child half-transparent group and the conclusion is a
    non-trivial colour -/
example : onto (clear : RGBA ℚ) [Layer.leaf 1 0 0 1, .group (1/2) [.leaf 0 0 1 1]] = ⟨1/2, 0, 1/2, 1⟩ := by decide +kernel

/-! ### the cascade itself (on the model of `_apply_styles` and `_inherit_attrib`) -/

/-- C05 (style declarations win over presentation attributes; among declarations the last one wins) -/
theorem style_declarations_win (a a' : Attrs) (st : String) (assigned : List (String × String)) (rest : String)
    (hst : Attrs.get a "style" = some st)
    (hp : Style.parseDecls (fun _ => true) Cleanup.validAttrName st = .ok (assigned, rest))
    (h : Cleanup.applyStylesAttrs a = .ok a') (k : String) :
    Attrs.get a' k = match CascadeP.lastDecl k assigned with
      | some v => some v
      | none => Attrs.get (Attrs.del a "style") k :=
  CascadeP.applyStyles_declarations_win a a' st assigned rest hst hp h k

/-- C05 (a container's style is inherited property by property — `_attrib_to_pass_on` after fix a1858b9): what a group or
    the root reads as its own attributes before handing them down has, for every property, the value of the last declaration
    of its `style` attribute, and the presentation attribute only where the style is silent — so a child's own value can win
    or lose against each property separately, not against the style attribute as a whole -/
theorem container_style_spelled_out (u : Nat) (t : String) (a : Attrs) (cs : List Node) (st : String)
    (assigned : List (String × String)) (rest : String) (own : Attrs)
    (hst : Attrs.get a "style" = some st) (hsh : (Gen.shapeFields.lookup (Node.stripNs t)).isSome = false)
    (hp : Style.parseDecls (fun _ => true) (fun _ => true) st = .ok (assigned, rest))
    (h : Cascade.ownAttribForPassOn (.elem u t a cs) = .ok own) (k : String) :
    Attrs.get own k = match CascadeP.lastDecl k assigned with
      | some v => some v
      | none => Attrs.get (Attrs.del a "style") k := by
  unfold Cascade.ownAttribForPassOn at h
  simp only [Node.attrs, Node.tag, hst, hsh, Bool.false_eq_true, if_false, hp, bind, Except.bind, pure, Except.pure] at h
  injection h with h
  subst h
  have : (fun (m : Attrs) (x : String × String) => match x with | (k, v) => Attrs.set m k v)
      = (fun m d => Style.setKV m d.1 d.2) := by
    funext m d; obtain ⟨x, y⟩ := d; rfl
  unfold Attrs.get
  rw [this]
  exact CascadeP.declarations_win assigned _ k

/-- C05 (inheritance): an element's own fill / fill-rule / stroke… wins over what its ancestors hand down … -/
theorem own_value_wins (attrib child : Attrs) (name : String) (h : Attrs.has child name = true) :
    Cascade.applyHandler "_inherit_copy" attrib child name = .ok child := CascadeP.own_value_wins attrib child name h

/-- … and is inherited exactly when it has none -/
theorem inherited_when_absent (attrib child : Attrs) (name v : String) (h : Attrs.has child name = false)
    (hv : Attrs.get attrib name = some v) :
    ∃ c, Cascade.applyHandler "_inherit_copy" attrib child name = .ok c ∧ Attrs.get c name = some v :=
  CascadeP.inherited_when_absent attrib child name v h hv

/-- `display:none` on an ancestor reaches every descendant -/
theorem display_none_inherits (attrib child : Attrs) (name : String) (h : Attrs.get attrib name = some "none") :
    Cascade.applyHandler "_inherit_nondefault_display" attrib child name = .ok (Attrs.set child name "none") :=
  CascadeP.display_none_inherits attrib child name h

/-- non-vacuity: fill="red" style="fill:blue; fill : lime" ends up lime -/
example : CascadeP.lastDecl "fill" [("fill", "blue"), ("opacity", "0.5"), ("fill", "lime")] = some "lime" := by decide

section
variable {β : Type} [Field β] [LinearOrder β] [IsStrictOrderedRing β]

/-- `_clamp`: the result is always a legal opacity -/
theorem clamp01_range (v : β) : 0 ≤ Groups.clamp01 v ∧ Groups.clamp01 v ≤ 1 := by
  unfold Groups.clamp01
  by_cases h1 : (1 : β) < v
  · simp only [h1, if_true]
    have : ¬ (1 : β) < 0 := not_lt.mpr zero_le_one
    simp [this]
  · simp only [h1, if_false]
    by_cases h0 : v < 0
    · simp [h0]
    · simp only [h0, if_false]
      exact ⟨not_lt.mp h0, not_lt.mp h1⟩

/-- clamping twice is clamping once -/
theorem clamp01_idem (v : β) : Groups.clamp01 (Groups.clamp01 v) = Groups.clamp01 v := by
  have h := clamp01_range v
  generalize Groups.clamp01 v = c at h
  unfold Groups.clamp01
  have h1 : ¬ (1 : β) < c := not_lt.mpr h.2
  have h0 : ¬ c < 0 := not_lt.mpr h.1
  simp [h1, h0]

/-- C05 (out-of-range opacities): what `_inherit_multiply`, `normalize_opacity` and `_stroke` now compute — the product of the
    clamped factors — is a legal opacity again, and equals the plain product whenever both factors were legal to begin with -/
theorem clamped_product_range (a b : β) :
    0 ≤ Groups.clamp01 a * Groups.clamp01 b ∧ Groups.clamp01 a * Groups.clamp01 b ≤ 1 := by
  obtain ⟨ha0, ha1⟩ := clamp01_range a
  obtain ⟨hb0, hb1⟩ := clamp01_range b
  refine ⟨mul_nonneg ha0 hb0, ?_⟩
  calc Groups.clamp01 a * Groups.clamp01 b ≤ 1 * 1 := mul_le_mul ha1 hb1 hb0 zero_le_one
    _ = 1 := by ring

theorem clamp01_of_legal (v : β) (h0 : 0 ≤ v) (h1 : v ≤ 1) : Groups.clamp01 v = v := by
  unfold Groups.clamp01
  simp [not_lt.mpr h1, not_lt.mpr h0]

end

end PicoSVG.Props.C05
