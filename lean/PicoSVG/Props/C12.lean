/-
  C12 — Arc-to-cubic conversion tracks the true elliptical arc.
  Theorems over an arbitrary linearly ordered field with the `math` primitives abstracted
  (`GoodMath`: sqrt x * sqrt x = x for x ≥ 0, the literals 0.5 and 0.25 are 1/2 and 1/4);
  IEEE rounding and libm are outside (Float model compared with CPython bit-for-bit).
-/
import PicoSVG.Proofs.Arc
import PicoSVG.Gen.Tables
import Mathlib.Tactic.LinearCombination

set_option linter.unusedSectionVars false
namespace PicoSVG.C12
open PicoSVG

section
variable {α : Type} [Field α] [LinearOrder α] [IsStrictOrderedRing α]

/-- C12-1a: zero radii give a straight line to the end point -/
theorem zero_radius_line (M : ArcMath α) (eps : α) (a : EllArc α)
    (hne : a.end_ ≠ a.start) (hr : a.rx = 0 ∨ a.ry = 0) :
    ∃ p, arcToCubic M eps a = .ok (.line p) ∧ p = a.end_ := arc_zero_radius_line M eps a hne hr

/-- C12-1b: coincident end points give no segment -/
theorem coincident_empty (M : ArcMath α) (eps : α) (a : EllArc α) (h : a.end_ = a.start) :
    arcToCubic M eps a = .ok .empty := arc_coincident_empty M eps a h

/-- C12-1c: when all `n ≥ 1` segments are generated, the last one ends EXACTLY at the arc's end
    point (no accumulated rounding) -/
theorem last_endpoint_exact (M : ArcMath α) (a : EllArc α) (cp : CenterParam α) (n : Nat) (hn : 0 < n)
    (hlen : (arcSegments M a cp n).length = n) :
    ∃ c, (arcSegments M a cp n).getLast? = some c ∧ c.p = a.end_ :=
  arcSegGo_last M a cp _ n 0 n hn (by simpa [arcSegments] using hlen)

/-- C12-2: radius correction — either the arc is returned unchanged, or both radii are scaled by
    the same factor √s (s > 1) and afterwards fit the chord exactly (x'²/rx² + y'²/ry² = 1) -/
theorem radii_correction (M : ArcMath α) (G : GoodMath M) (a a' : EllArc α)
    (hrx : a.rx ≠ 0) (hry : a.ry ≠ 0) (h : EllArc.correctRadii M a = .ok a') :
    a' = a ∨ (1 < EllArc.radiiScale M a ∧ EllArc.radiiScale M a' = 1 ∧
      a'.rx = a.rx * M.sqrt (EllArc.radiiScale M a) ∧ a'.ry = a.ry * M.sqrt (EllArc.radiiScale M a)) :=
  corrected_radii_fit M G a a' hrx hry h

/-- C12-3a: in the frame where the ellipse is the unit circle the squared chord is 4·(x'²/rx²+y'²/ry²) -/
theorem unit_chord_eq (M : ArcMath α) (G : GoodMath M) (a : EllArc α) (hrx : a.rx ≠ 0) (hry : a.ry ≠ 0) :
    EllArc.unitDistSq ((EllArc.unitFrame M a).mapPt a.start) ((EllArc.unitFrame M a).mapPt a.end_) =
      (1 + 1 + 1 + 1) * EllArc.radiiScale M a := unit_chord M G a hrx hry

/-- C12-3b: the computed centre is equidistant (distance 1 in the unit frame) from both end
    points whenever the radii fit the chord — so both end points lie on the ellipse around it and
    the first cubic starts on the arc's start point -/
theorem center_on_ellipse (M : ArcMath α) (G : GoodMath M) (a : EllArc α) (p1 p2 : Pt α)
    (hd : 0 < EllArc.unitDistSq p1 p2) (hfit : EllArc.unitDistSq p1 p2 ≤ 1 + 1 + 1 + 1) :
    let c := EllArc.unitCenter M a p1 p2
    (p1.x - c.x) * (p1.x - c.x) + (p1.y - c.y) * (p1.y - c.y) = 1 ∧
    (p2.x - c.x) * (p2.x - c.x) + (p2.y - c.y) * (p2.y - c.y) = 1 :=
  center_equidistant M G a p1 p2 hd hfit

/-- C12-3c (composition of 2, 3a, 3b): for the arc as corrected by the code the end points lie
    on the unit circle around the computed centre -/
theorem corrected_endpoints_on_circle (M : ArcMath α) (G : GoodMath M) (a a' : EllArc α)
    (hrx : a.rx ≠ 0) (hry : a.ry ≠ 0) (hline : a.isStraightLine = false) (hzero : a.isZeroLength = false)
    (h : EllArc.correctRadii M a = .ok a')
    (hd : 0 < EllArc.unitDistSq ((EllArc.unitFrame M a').mapPt a'.start) ((EllArc.unitFrame M a').mapPt a'.end_)) :
    let p1 := (EllArc.unitFrame M a').mapPt a'.start
    let p2 := (EllArc.unitFrame M a').mapPt a'.end_
    let c := EllArc.unitCenter M a' p1 p2
    (p1.x - c.x) * (p1.x - c.x) + (p1.y - c.y) * (p1.y - c.y) = 1 ∧
    (p2.x - c.x) * (p2.x - c.x) + (p2.y - c.y) * (p2.y - c.y) = 1 := by
  intro p1 p2 c
  have h4 : (0 : α) < 1 + 1 + 1 + 1 := by positivity
  -- radii of a' are non-zero and fit
  have hfit : EllArc.radiiScale M a' ≤ 1 ∧ a'.rx ≠ 0 ∧ a'.ry ≠ 0 := by
    unfold EllArc.correctRadii at h
    simp only [hline, hzero, Bool.or_self, Bool.false_eq_true, if_false] at h
    split at h
    · exact absurd h (by simp)
    · split at h
      · rename_i hgt
        have := corrected_radii_fit M G a a' hrx hry (by
          unfold EllArc.correctRadii
          simp only [hline, hzero, Bool.or_self, Bool.false_eq_true, if_false]
          rename_i hz
          rw [if_neg hz, if_pos hgt]; exact h)
        injection h with h
        subst h
        rcases this with h1 | ⟨_, h2, _, _⟩
        · -- impossible shape but harmless: a' = a means scale ≤ 1 contradiction is not needed
          have hs0 : 0 ≤ EllArc.radiiScale M a := le_of_lt (lt_trans one_pos hgt)
          have hsq := G.sqrt_sq _ hs0
          have hsne : M.sqrt (EllArc.radiiScale M a) ≠ 0 := by
            intro h0; rw [h0] at hsq; simp at hsq
            exact (ne_of_gt (lt_trans one_pos hgt)) hsq.symm
          refine ⟨?_, mul_ne_zero hrx hsne, mul_ne_zero hry hsne⟩
          rw [h1]
          -- from a' = a the scaled radii equal the originals, so the fit follows from h1 ▸ h2-free route
          have := congrArg (fun (e : EllArc α) => e.rx) h1
          simp only at this
          have hone : M.sqrt (EllArc.radiiScale M a) = 1 := by
            have := mul_left_cancel₀ hrx (this.trans (mul_one a.rx).symm)
            exact this
          rw [hone, mul_one] at hsq
          linarith
        · have hs0 : 0 ≤ EllArc.radiiScale M a := le_of_lt (lt_trans one_pos hgt)
          have hsq := G.sqrt_sq _ hs0
          have hsne : M.sqrt (EllArc.radiiScale M a) ≠ 0 := by
            intro h0; rw [h0] at hsq; simp at hsq
            exact (ne_of_gt (lt_trans one_pos hgt)) hsq.symm
          exact ⟨le_of_eq h2, mul_ne_zero hrx hsne, mul_ne_zero hry hsne⟩
      · rename_i hle
        injection h with h; subst h
        exact ⟨not_lt.mp hle, hrx, hry⟩
  obtain ⟨hs, hrx', hry'⟩ := hfit
  have hchord := unit_chord M G a' hrx' hry'
  have hle : EllArc.unitDistSq p1 p2 ≤ 1 + 1 + 1 + 1 := by
    simp only [p1, p2, hchord]
    nlinarith
  exact center_equidistant M G a' p1 p2 hd hle

/-- C12-5: segment count. If `n = ceil(|x|)` for x = θ_arc / (π/2 + fudge) (i.e. n−1 < |x| ≤ n),
    |θ_arc| ≤ 2π, 2π = 4·(π/2) and fudge > 0, then n ≤ 4 and each segment spans ≤ π/2 + fudge -/
theorem segment_count (theta piOverTwo twoPi fudge : α) (n : Nat)
    (hpi : 0 < piOverTwo) (hf : 0 < fudge) (h2pi : twoPi = (1 + 1 + 1 + 1) * piOverTwo)
    (htheta : |theta| ≤ twoPi)
    (hceil : ((n : α) - 1 < |theta / (piOverTwo + fudge)|) ∧ |theta / (piOverTwo + fudge)| ≤ (n : α)) :
    n ≤ 4 ∧ (0 < n → |theta| / (n : α) ≤ piOverTwo + fudge) := by
  have hden : 0 < piOverTwo + fudge := by linarith
  have habs : |theta / (piOverTwo + fudge)| = |theta| / (piOverTwo + fudge) := by
    rw [abs_div, abs_of_pos hden]
  rw [habs] at hceil
  obtain ⟨hlo, hhi⟩ := hceil
  constructor
  · -- |θ|/(π/2+f) < 4
    have hlt : |theta| / (piOverTwo + fudge) < 4 := by
      rw [div_lt_iff₀ hden]
      have : |theta| ≤ (1 + 1 + 1 + 1) * piOverTwo := h2pi ▸ htheta
      nlinarith
    have : (n : α) - 1 < 4 := lt_trans hlo hlt
    have h5 : (n : α) < 5 := by linarith
    have : n < 5 := by exact_mod_cast h5
    omega
  · intro hn
    have hnpos : (0 : α) < n := by exact_mod_cast hn
    rw [div_le_iff₀ hden] at hhi
    rw [div_le_iff₀ hnpos]
    linarith

/-- C12 (shape of one segment, in the unit-circle frame): with start angle (cs, ss) and end angle (ce, se) on the unit
    circle and handle length t, the control points `_arc_to_cubic` computes make the cubic leave its start point and
    reach its end point along the circle's tangents (the handles are perpendicular to the radii) with handles of length |t| -/
theorem unit_segment_tangent (cs ss ce se t : α) (hs : cs * cs + ss * ss = 1) (he : ce * ce + se * se = 1) :
    ((cs - t * ss) - cs) * cs + ((ss + t * cs) - ss) * ss = 0
    ∧ ((ce + t * se) - ce) * ce + ((se + (-t) * ce) - se) * se = 0
    ∧ ((cs - t * ss) - cs) ^ 2 + ((ss + t * cs) - ss) ^ 2 = t ^ 2
    ∧ ((ce + t * se) - ce) ^ 2 + ((se + (-t) * ce) - se) ^ 2 = t ^ 2 := by
  refine ⟨by ring, by ring, ?_, ?_⟩
  · linear_combination (t ^ 2) * hs
  · linear_combination (t ^ 2) * he

/-- the model computes exactly these control points, mapped through the ellipse frame -/
theorem arcSegment_controls (M : ArcMath α) (a : EllArc α) (cp : CenterParam α) (pt : Aff α) (n i : Nat) (c : Cubic α)
    (h : arcSegment M a cp pt n i = some c) :
    let st := cp.theta1 + M.ofNat i * cp.thetaArc / M.ofNat n
    let en := cp.theta1 + M.ofNat (i + 1) * cp.thetaArc / M.ofNat n
    let t := M.fourThirds * M.tan (M.quarter * (en - st))
    c.c1 = pt.mapPt ⟨M.cos st - t * M.sin st, M.sin st + t * M.cos st⟩
    ∧ c.c2 = pt.mapPt ⟨M.cos en + t * M.sin en, M.sin en + (-t) * M.cos en⟩ := by
  intro st en t
  unfold arcSegment at h
  simp only at h
  split at h
  · simp at h
  · injection h with h
    subst h
    exact ⟨rfl, rfl⟩


end

/-! tie to the source -/
theorem gen_arc_constants : Gen.twoPiBits = 0x401921FB54442D18 ∧ Gen.piOverTwoBits = 0x3FF921FB54442D18 ∧
    Gen.arcToCubicFloatLitBits = [0x3FD0000000000000, 0x3F50624DD2F1A9FC] := by decide

end PicoSVG.C12
