/-
  C18 — Pruning of invisible content is conservative.
  The decision ladder of `might_paint`, for every combination of the paint fields; the computed
  area is an oracle value (Skia), so "paints nothing" is relative to `area = 0 ↔ empty interior`.
-/
import PicoSVG.Model.Paint
import PicoSVG.Proofs.PruneP
import PicoSVG.Model.Shape

set_option linter.unusedSectionVars false
namespace PicoSVG.C18
open PicoSVG

variable {α : Type} [Mul α] [OfNat α 0] [BEq α] [LT α] [DecidableLT α]

/-- C18-1 (soundness): a shape reported as unable to paint has display:none, or only moves the
    pen, or has no visible stroke and (no visible fill or a computed area that is not positive) -/
theorem mightPaint_false_sound (s : PaintAttrs α) (moveOnly : Bool) (area : Except PyErr α)
    (h : mightPaint s moveOnly area = false) :
    s.display = "none" ∨ moveOnly = true ∨
      (strokeVisible s = false ∧ (fillVisible s = false ∨ ∃ a, area = .ok a ∧ ¬ (0 < a))) := by
  unfold mightPaint at h
  by_cases hd : (s.display == "none") = true
  · left; simpa using hd
  · rw [if_neg hd] at h
    by_cases hm : moveOnly = true
    · right; left; exact hm
    · rw [if_neg hm] at h
      by_cases hs : strokeVisible s = true
      · rw [if_pos hs] at h; exact absurd h (by simp)
      · rw [if_neg hs] at h
        right; right
        refine ⟨by simpa using hs, ?_⟩
        by_cases hf : fillVisible s = true
        · simp only [hf, Bool.not_true, Bool.false_eq_true, if_false] at h
          cases area with
          | error e => simp at h
          | ok a => right; exact ⟨a, rfl, by simpa using h⟩
        · left; simpa using hf

/-- C18-2 (completeness): a displayed shape that does more than move the pen and has a visible
    stroke, or a visible fill with positive area, is reported as possibly painting -/
theorem mightPaint_complete (s : PaintAttrs α) (area : Except PyErr α)
    (hd : s.display ≠ "none")
    (h : strokeVisible s = true ∨ (fillVisible s = true ∧ ∃ a, area = .ok a ∧ 0 < a)) :
    mightPaint s false area = true := by
  unfold mightPaint
  have hd' : ¬ ((s.display == "none") = true) := by simpa using hd
  rw [if_neg hd']
  simp only [Bool.false_eq_true, if_false]
  by_cases hs : strokeVisible s = true
  · rw [if_pos hs]
  · rw [if_neg hs]
    rcases h with h | ⟨hf, a, ha, hpos⟩
    · exact absurd h hs
    · simp [hf, ha, hpos]

/-- C18-3: when the engine cannot compute the area the shape is kept (never wrongly pruned) -/
theorem pathops_error_keeps (s : PaintAttrs α) (e : PyErr) (hd : s.display ≠ "none")
    (hf : fillVisible s = true) : mightPaint s false (.error e) = true := by
  unfold mightPaint
  have hd' : ¬ ((s.display == "none") = true) := by simpa using hd
  rw [if_neg hd']
  simp only [Bool.false_eq_true, if_false]
  by_cases hs : strokeVisible s = true
  · rw [if_pos hs]
  · rw [if_neg hs]; simp [hf]

/-- C18-4: display:none and fully transparent paint decide before any geometry is looked at -/
theorem display_none_never_paints (s : PaintAttrs α) (moveOnly : Bool) (area : Except PyErr α)
    (h : s.display = "none") : mightPaint s moveOnly area = false := by
  unfold mightPaint; simp [h]


section
open PicoSVG.Spec.Composite
variable {β : Type} [CommRing β] [DecidableEq β] [LT β] [DecidableLT β]

/-- C18 (what "paints nothing" means): at any canvas point, the layers a shape contributes (Spec/ShapePaint.lean: fill
    where the point is inside the fill region, stroke where it is inside the outline, both under the shape's opacity)
    composite to the transparent colour whenever `might_paint` answers no — for every combination of display, fill,
    stroke, stroke-width and the three opacities; the two geometric premises say what the move-only test and the area
    oracle stand for (`moveOnly_draws_nothing` discharges the first on the path interpreter) -/
theorem unpainted_paints_nothing (s : PaintAttrs β) (fr fg fb sr sg sb : β) (moveOnly : Bool) (area : Except PyErr β)
    (inFill inStroke : Bool)
    (hm : moveOnly = true → inFill = false ∧ inStroke = false)
    (ha : ∀ a, area = .ok a → ¬ (0 < a) → inFill = false)
    (h : mightPaint s moveOnly area = false) :
    onto clear (shapeAt s fr fg fb sr sg sb inFill inStroke) = clear :=
  PruneP.unpainted_paints_nothing s fr fg fb sr sg sb moveOnly area inFill inStroke hm ha h

/-- C18 (consequence): removing a shape reported as unable to paint leaves every stack of layers — whatever lies below,
    above or around it — unchanged at every point of the canvas -/
theorem prune_preserves_render (s : PaintAttrs β) (fr fg fb sr sg sb : β) (moveOnly : Bool) (area : Except PyErr β)
    (inFill inStroke : Bool) (bg : RGBA β) (pre post : List (Layer β))
    (hm : moveOnly = true → inFill = false ∧ inStroke = false)
    (ha : ∀ a, area = .ok a → ¬ (0 < a) → inFill = false)
    (h : mightPaint s moveOnly area = false) :
    onto bg (pre ++ shapeAt s fr fg fb sr sg sb inFill inStroke ++ post) = onto bg (pre ++ post) :=
  PruneP.prune_preserves_render s fr fg fb sr sg sb moveOnly area inFill inStroke bg pre post hm ha h

/-- … and nothing that shows is pruned: a displayed shape with a visible stroke, or a visible fill whose area — when it
    can be computed — is positive, is reported as possibly painting -/
theorem painted_is_kept (s : PaintAttrs β) (area : Except PyErr β) (hd : s.display ≠ "none")
    (h : strokeVisible s = true ∨ (fillVisible s = true ∧ ∀ a, area = .ok a → 0 < a)) :
    mightPaint s false area = true := PruneP.painted_is_kept s area hd h
end

section
open PicoSVG.Spec
variable {γ : Type} [Add γ] [Sub γ] [Mul γ] [OfNat γ 0] [OfNat γ 1]
/-- C18 (move-only paths): a command sequence whose every command is a moveto — the `moveOnly` test of `might_paint` —
    draws no segment at all under the path interpreter of SVG 8.3: nothing to fill, nothing to stroke -/
theorem moveOnly_draws_nothing (cmds : List (Cmd γ)) (segs : List (Seg γ))
    (hm : cmds.all (fun c => Path.toUpper c.1 == 'M') = true) (h : interp cmds = some segs) :
    ∀ sg ∈ segs, ∃ p, sg = Seg.move p := PruneP.interpFrom_moveOnly cmds initState segs hm h
end

/-- C18-4b (which `display` counts): `might_paint()` of a shape record answers no whenever the record *after*
    `apply_style_attribute` has display none — whatever the presentation attribute said before the style declarations were
    laid over it, and without asking the engine for an area.  (The converse side — an attribute `display="none"` overridden by
    `style="display:inline"` leaves the decision to the paint ladder — is exercised by the correspondence on generated shapes
    whose attribute contradicts their style; the model evaluates `applyStyle` there, it is not kernel-reducible.) -/
theorem mightPaint_decides_on_styled_display (r s : ShapeRec) (area : Option (Except PyErr Float))
    (h : r.applyStyle = .ok s) (hd : s.getS "display" = "none") : r.mightPaint area = .ok false := by
  unfold ShapeRec.mightPaint
  simp [h, bind, Except.bind, hd, pure, Except.pure]

end PicoSVG.C18
