/-
  C18 — Pruning of invisible content is conservative.
  The decision ladder of `might_paint`, for every combination of the paint fields; the computed
  area is an oracle value (Skia), so "paints nothing" is relative to `area = 0 ↔ empty interior`.
-/
import PicoSVG.Model.Paint

set_option linter.unusedSectionVars false
namespace PicoSVG.C18
open PicoSVG

variable {α : Type} [Mul α] [OfNat α 0] [BEq α] [LT α] [DecidableLT α]

/-- C18-1 (soundness): a shape reported as unable to paint has display:none, or only moves the
    pen, or has no visible stroke and (no visible fill or a computed area that is not positive) -/
theorem mightPaint_false_sound (s : PaintAttrs α) (moveOnly : Bool) (area : Except PyErr α)
    (h : mightPaint s moveOnly area = false) :
    s.display = "none" ∨ moveOnly = true ∨
      (strokeVisible s = false ∧ (fillVisible s = false ∨ ∃ a, area = .ok a ∧ ¬ (0 < a))) := by
  unfold mightPaint at h
  by_cases hd : (s.display == "none") = true
  · left; simpa using hd
  · rw [if_neg hd] at h
    by_cases hm : moveOnly = true
    · right; left; exact hm
    · rw [if_neg hm] at h
      by_cases hs : strokeVisible s = true
      · rw [if_pos hs] at h; exact absurd h (by simp)
      · rw [if_neg hs] at h
        right; right
        refine ⟨by simpa using hs, ?_⟩
        by_cases hf : fillVisible s = true
        · simp only [hf, Bool.not_true, Bool.false_eq_true, if_false] at h
          cases area with
          | error e => simp at h
          | ok a => right; exact ⟨a, rfl, by simpa using h⟩
        · left; simpa using hf

/-- C18-2 (completeness): a displayed shape that does more than move the pen and has a visible
    stroke, or a visible fill with positive area, is reported as possibly painting -/
theorem mightPaint_complete (s : PaintAttrs α) (area : Except PyErr α)
    (hd : s.display ≠ "none")
    (h : strokeVisible s = true ∨ (fillVisible s = true ∧ ∃ a, area = .ok a ∧ 0 < a)) :
    mightPaint s false area = true := by
  unfold mightPaint
  have hd' : ¬ ((s.display == "none") = true) := by simpa using hd
  rw [if_neg hd']
  simp only [Bool.false_eq_true, if_false]
  by_cases hs : strokeVisible s = true
  · rw [if_pos hs]
  · rw [if_neg hs]
    rcases h with h | ⟨hf, a, ha, hpos⟩
    · exact absurd h hs
    · simp [hf, ha, hpos]

/-- C18-3: when the engine cannot compute the area the shape is kept (never wrongly pruned) -/
theorem pathops_error_keeps (s : PaintAttrs α) (e : PyErr) (hd : s.display ≠ "none")
    (hf : fillVisible s = true) : mightPaint s false (.error e) = true := by
  unfold mightPaint
  have hd' : ¬ ((s.display == "none") = true) := by simpa using hd
  rw [if_neg hd']
  simp only [Bool.false_eq_true, if_false]
  by_cases hs : strokeVisible s = true
  · rw [if_pos hs]
  · rw [if_neg hs]; simp [hf]

/-- C18-4: display:none and fully transparent paint decide before any geometry is looked at -/
theorem display_none_never_paints (s : PaintAttrs α) (moveOnly : Bool) (area : Except PyErr α)
    (h : s.display = "none") : mightPaint s moveOnly area = false := by
  unfold mightPaint; simp [h]

end PicoSVG.C18
