/-
  C04 — strokes are rendered into equivalent filled outlines drawn above the fill.

  The outline geometry itself is Skia's (the stroker is an oracle: its answers are replayed to the model and the
  parameters the code passes — width, cap, join, miter limit, tolerance, dash list, dash offset — are compared verbatim
  with the model's on every run).  Proved here is the bookkeeping around it:
  * dashes: the list handed to the stroker is the SVG list, doubled when its length is odd (`dashArray_shape`, about
    the model of `stroke_commands`); for the stroker's reading of an even-length list — interval j of the cycle is drawn
    iff j is even — this reproduces SVG's infinite alternation "dash, gap, dash, …" over the cyclically repeated list
    exactly, interval by interval, for lists of any length (`dash_cycle`): the k-th interval of the infinite sequence has
    the same length and the same on/off state in both readings;
  * opacity: the two pieces `SVG._stroke` emits — the fill with opacity·fill-opacity, then the outline painted with the
    stroke paint at opacity·stroke-opacity, both with fill-opacity 1 — composite exactly like the stroked shape under SVG's
    model when the shape's own opacity is 1 (`split_opaque`), or when only one of fill and stroke is visible
    (`split_only_fill`, `split_only_stroke`); outside that scope they do not (`split_translucent_differs`), which is the
    scope the property states;
  * draw order: the outline is the later, i.e. upper, layer (`stroke_above_fill`).
-/
import PicoSVG.Props.C05
import PicoSVG.Model.Simplify
import PicoSVG.Proofs.StrokeP

namespace PicoSVG.Props.C04

open PicoSVG.Spec.Composite

/-! ### dash lists -/

/-- what `stroke_commands` passes on: an odd-length list is repeated once -/
def effective {β : Type} (xs : List β) : List β := if xs.length % 2 != 0 then xs ++ xs else xs

/-- the model of the code computes exactly this -/
theorem dashArray_shape (s : String) (v : List Float) (h : SvgObj.dashArray s = .ok v) (hs : (s == "none") = false) :
    ∃ vals : List Float, v = effective vals := by
  unfold SvgObj.dashArray at h
  simp only [hs, Bool.false_eq_true, if_false] at h
  cases hm : List.mapM (fun t => Cascade.pyFloat (String.ofList t)) (PathLex.splitSep s.toList) with
  | error e => simp [hm, bind, Except.bind] at h
  | ok vals =>
    simp only [hm, bind, Except.bind, pure, Except.pure] at h
    exact ⟨vals, by injection h with h; exact h.symm⟩

theorem getD_append_self {β : Type} (xs : List β) (d : β) (r : Nat) (hr : r < 2 * xs.length) (hn : 0 < xs.length) :
    (xs ++ xs).getD r d = xs.getD (r % xs.length) d := by
  by_cases h : r < xs.length
  · rw [Nat.mod_eq_of_lt h]; simp [List.getD, List.getElem?_append_left h]
  · have h' : xs.length ≤ r := Nat.le_of_not_lt h
    have : r % xs.length = r - xs.length := by
      rw [Nat.mod_eq_sub_mod h', Nat.mod_eq_of_lt (by omega)]
    rw [this]; simp [List.getD, List.getElem?_append_right h']

/-- C04 (dashes): in SVG the k-th interval (k = 0, 1, 2, …) along the path has the length of entry `k mod n` of the
    list and is drawn iff k is even.  The stroker cycles through the list it is given and draws the even entries.  For
    the list the code hands over the two agree on every interval: same length, same state. -/
theorem dash_cycle {β : Type} (xs : List β) (d : β) (k : Nat) (hn : 0 < xs.length) :
    let ys := effective xs
    ys.getD (k % ys.length) d = xs.getD (k % xs.length) d ∧ (k % ys.length) % 2 = k % 2 := by
  simp only [effective]
  by_cases hodd : xs.length % 2 != 0
  · simp only [hodd, if_true, List.length_append]
    have h2 : xs.length + xs.length = 2 * xs.length := by omega
    rw [h2]
    constructor
    · rw [getD_append_self xs d _ (Nat.mod_lt _ (by omega)) hn,
        Nat.mod_mod_of_dvd k (Dvd.intro_left 2 rfl)]
    · exact Nat.mod_mod_of_dvd k (Dvd.intro _ rfl)
  · simp only [hodd, Bool.false_eq_true, if_false]
    refine ⟨trivial, ?_⟩
    have he : xs.length % 2 = 0 := by simpa using hodd
    exact Nat.mod_mod_of_dvd k (Nat.dvd_of_mod_eq_zero he)

/-- non-vacuity: a three-entry list becomes six entries, and the 4th interval (k = 3) is a gap of length 5 in both -/
example : effective [5, 3, 2] = [5, 3, 2, 5, 3, 2] ∧ ([5, 3, 2, 5, 3, 2] : List Nat).getD (3 % 6) 0 = 5 ∧ (3 % 6) % 2 = 1 := by
  decide

/-! ### opacity of the two pieces -/

variable {α : Type} [CommRing α]

/-- a stroked shape at a point covered by its fill and its stroke, in SVG: the element's opacity groups the two -/
def svgStroked (o fr fg fb fo sr sg sb so : α) : Layer α :=
  .group o [.leaf fr fg fb fo, .leaf sr sg sb so]

/-- what `SVG._stroke` emits there: two independent paths, fill first -/
def picoStroked (o fr fg fb fo sr sg sb so : α) : List (Layer α) :=
  [.leaf fr fg fb (o * fo), .leaf sr sg sb (o * so)]

/-- C04 (scope: own opacity 1): the pieces composite exactly like the stroked shape, onto any backdrop -/
theorem split_opaque (bg : RGBA α) (fr fg fb fo sr sg sb so : α) :
    onto bg [svgStroked 1 fr fg fb fo sr sg sb so] = onto bg (picoStroked 1 fr fg fb fo sr sg sb so) := by
  apply C05.RGBA.ext' <;> simp only [svgStroked, picoStroked, onto, paint, over, clear, scale] <;> ring

/-- C04 (scope: only the fill is visible) -/
theorem split_only_fill (bg : RGBA α) (o fr fg fb fo : α) :
    onto bg [.group o [.leaf fr fg fb fo]] = onto bg [.leaf fr fg fb (o * fo)] := by
  apply C05.RGBA.ext' <;> simp only [onto, paint, over, clear, scale] <;> ring

/-- C04 (scope: only the stroke is visible — `_stroke` then returns the outline alone) -/
theorem split_only_stroke (bg : RGBA α) (o sr sg sb so : α) :
    onto bg [.group o [.leaf sr sg sb so]] = onto bg [.leaf sr sg sb (o * so)] := by
  apply C05.RGBA.ext' <;> simp only [onto, paint, over, clear, scale] <;> ring

/-- outside the scope the split is visible: a half-transparent shape with opaque white fill and opaque black stroke -/
theorem split_translucent_differs :
    onto (clear : RGBA ℚ) [svgStroked (1/2) 1 1 1 1 0 0 0 1] ≠ onto clear (picoStroked (1/2) 1 1 1 1 0 0 0 1) := by
  decide +kernel

/-- C04 (draw order): the outline is painted over the fill — where both cover a point and the stroke is opaque, the
    point has the stroke's colour -/
theorem stroke_above_fill (bg : RGBA α) (fr fg fb fo sr sg sb : α) :
    onto bg (picoStroked 1 fr fg fb fo sr sg sb 1) = ⟨sr, sg, sb, 1⟩ := by
  apply C05.RGBA.ext' <;> simp only [picoStroked, onto, paint, over] <;> ring

/-! ### the pieces on the model of the code -/

/-- C04 (bookkeeping): the fill piece `_stroke` emits carries opacity × fill-opacity as its opacity and fill-opacity 1 —
    the alpha `picoStroked` assumes for the lower layer -/
theorem fill_piece_fields (shape : ShapeRec) (d : String)
    (h1 : (shape.get "opacity").isSome = true) (h2 : (shape.get "fill_opacity").isSome = true) :
    (SvgObj.strokePieces shape d).1.get "opacity" = some (.f (clampOpacity (shape.getF "opacity") * clampOpacity (shape.getF "fill_opacity")))
    ∧ (SvgObj.strokePieces shape d).1.get "fill_opacity" = some (.f 1.0) :=
  StrokeP.fill_piece shape d h1 h2

/-- … and the outline piece is painted with the stroke paint at opacity × stroke-opacity, fill-opacity 1 — the upper layer -/
theorem stroke_piece_fields (shape : ShapeRec) (d : String)
    (h1 : (shape.get "opacity").isSome = true) (h2 : (shape.get "fill_opacity").isSome = true)
    (h3 : (shape.get "fill").isSome = true) :
    (SvgObj.strokePieces shape d).2.get "opacity" = some (.f (clampOpacity (shape.getF "opacity") * clampOpacity (shape.getF "stroke_opacity")))
    ∧ (SvgObj.strokePieces shape d).2.get "fill" = some (.s (shape.getS "stroke"))
    ∧ (SvgObj.strokePieces shape d).2.get "fill_opacity" = some (.f 1.0) :=
  StrokeP.stroke_piece shape d h1 h2 h3

/-- non-vacuity: every shape record the model builds has these fields -/
example : ((ShapeRec.default "path").get "opacity").isSome = true ∧ ((ShapeRec.default "path").get "fill_opacity").isSome = true
    ∧ ((ShapeRec.default "path").get "fill").isSome = true := by decide +kernel

end PicoSVG.Props.C04
