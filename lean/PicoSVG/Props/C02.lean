/-
  C02 — flattening groups, transforms, use and nested svg preserves the rendering.

  What is proved (exact arithmetic, any linearly ordered field) about the pieces the conversion is made of:
  * `ctm_snoc`, `ctm_mapPt`: the transform `_traverse` accumulates parent-first with
    `_element_transform(el, current) = compose_ltr((own, current))` maps a point of the innermost user space through its
    own transform first and the outermost ancestor's last, for ancestor chains of any length — the CTM of SVG §7.5;
    `elementTransform_step` ties the step to the model of the code (`Traverse.elementTransform`, on the document's floats);
  * `use_instance`, `use_under_ctm`: the transform `_resolve_use` gives an instance, `compose_ltr((translate(x, y), use
    transform))`, places a point of the referenced content at `T_use (p + (x, y))` (SVG §5.6), under any CTM;
  * `viewport_*`: the viewport transform of a nested svg (`Affine2D.rect_to_rect`, via C11) scales uniformly unless
    `none`, keeps the whole viewBox inside the viewport for `meet`, covers it for `slice`, and aligns min / mid / max;
  * `replace_keeps_order`, `tree_replace_keeps_document_order`, `tree_replace_order`: replacing one element by any list of
    nodes (`_replace_el`, `_swap_elements`, the flattening of a group) — in a sibling list and, by mutual induction over the
    model's bottom-up rewrite, anywhere in the tree — keeps every other element in place and in order: document order is
    z-order.
  Judged on every run: the ordered stack of paints of source and converted document at sample points
  (harness/render.py), and the pipeline model against the implementation on the structural grammar.
-/
import PicoSVG.Props.C11
import PicoSVG.Model.Traverse
import PicoSVG.Model.Passes
import PicoSVG.Proofs.ZOrder

set_option linter.unusedSectionVars false

namespace PicoSVG.Props.C02
open PicoSVG

variable {α : Type} [Field α] [LinearOrder α] [IsStrictOrderedRing α]

/-- one traversal step: `_element_transform(el, current)` -/
def ctmStep (own current : Aff α) : Aff α := Aff.composeLtr [own, current]

/-- the accumulated transform of an element whose ancestors (outermost first, the element itself last) carry `ts` -/
def ctm (ts : List (Aff α)) : Aff α := ts.foldl (fun cur own => ctmStep own cur) Aff.id

theorem ctmStep_mapPt (own current : Aff α) (p : Pt α) :
    (ctmStep own current).mapPt p = current.mapPt (own.mapPt p) := by
  unfold ctmStep; rw [C11.composeLtr_mapPt]; rfl

/-- descending one level applies the new element's own transform first -/
theorem ctm_snoc (ts : List (Aff α)) (t : Aff α) (p : Pt α) :
    (ctm (ts ++ [t])).mapPt p = (ctm ts).mapPt (t.mapPt p) := by
  unfold ctm; rw [List.foldl_append]; exact ctmStep_mapPt t _ p

theorem foldl_ctmStep_mapPt (ts : List (Aff α)) (c : Aff α) (p : Pt α) :
    (ts.foldl (fun cur own => ctmStep own cur) c).mapPt p = c.mapPt (ts.foldr (fun t q => t.mapPt q) p) := by
  induction ts generalizing c with
  | nil => rfl
  | cons t ts ih => simp only [List.foldl_cons, List.foldr_cons]; rw [ih, ctmStep_mapPt]

/-- C02 (CTM): a point is mapped by the innermost transform first and the outermost last, whatever the depth -/
theorem ctm_mapPt (ts : List (Aff α)) (p : Pt α) : (ctm ts).mapPt p = ts.foldr (fun t q => t.mapPt q) p := by
  unfold ctm; rw [foldl_ctmStep_mapPt, Aff.mapPt_id]

/-- the model of the code takes exactly this step (on the floats of the document) -/
theorem elementTransform_step (n : Node) (current own : Aff Float) (raw : String)
    (h1 : n.getAttr (if Traverse.isGradientTag n.tag then "gradientTransform" else "transform") = some raw)
    (h2 : raw.isEmpty = false) (h3 : Cascade.parseAff raw = .ok own) :
    Traverse.elementTransform n current = .ok (Aff.composeLtr [own, current]) := by
  unfold Traverse.elementTransform
  simp only [h1, h2, h3]
  rfl

/-- the transform `_resolve_use` hands to an instance -/
def useTransform (x y : α) (t : Aff α) : Aff α := Aff.composeLtr [(Aff.id : Aff α).matrix 1 0 0 1 x y, t]

/-- C02 (use): instanced content appears at `T_use (p + (x, y))` -/
theorem use_instance (x y : α) (t : Aff α) (p : Pt α) :
    (useTransform x y t).mapPt p = t.mapPt ⟨p.x + x, p.y + y⟩ := by
  unfold useTransform; rw [C11.composeLtr_mapPt]
  simp only [List.foldl_cons, List.foldl_nil]
  congr 1
  simp [Aff.matrix, Aff.mul, Aff.id, Aff.mapPt]

theorem use_under_ctm (ts : List (Aff α)) (x y : α) (t : Aff α) (p : Pt α) :
    (ctm (ts ++ [useTransform x y t])).mapPt p = (ctm ts).mapPt (t.mapPt ⟨p.x + x, p.y + y⟩) := by
  rw [ctm_snoc, use_instance]

/-- C02 (viewport): with `preserveAspectRatio="none"` the corners of the viewBox land on the corners of the viewport,
    under any CTM -/
theorem viewport_none_under_ctm (ts : List (Aff α)) (vb vp : Rect α) (hs : vb.empty = false) (hd : vp.empty = false) :
    (ctm (ts ++ [rectToRect vb vp PAR.none])).mapPt ⟨vb.x, vb.y⟩ = (ctm ts).mapPt ⟨vp.x, vp.y⟩
    ∧ (ctm (ts ++ [rectToRect vb vp PAR.none])).mapPt ⟨vb.x + vb.w, vb.y + vb.h⟩
        = (ctm ts).mapPt ⟨vp.x + vp.w, vp.y + vp.h⟩ := by
  rw [ctm_snoc, ctm_snoc, (C11.rectToRect_none vb vp hs hd).1, (C11.rectToRect_none vb vp hs hd).2]
  exact ⟨rfl, rfl⟩

/-- `meet`: the whole viewBox is shown inside the viewport; `slice`: the viewport is covered (C11-5c/d) -/
theorem viewport_meet_inside (vb vp : Rect α) (ax : AlignX) (ay : AlignY)
    (h1 : 0 < vb.w) (h2 : 0 < vb.h) (h3 : 0 < vp.w) (h4 : 0 < vp.h) :
    let M := rectToRect vb vp (PAR.align ax ay false)
    let p0 := M.mapPt ⟨vb.x, vb.y⟩
    let p1 := M.mapPt ⟨vb.x + vb.w, vb.y + vb.h⟩
    vp.x ≤ p0.x ∧ p1.x ≤ vp.x + vp.w ∧ vp.y ≤ p0.y ∧ p1.y ≤ vp.y + vp.h :=
  C11.rectToRect_meet_inside vb vp ax ay h1 h2 h3 h4

/-! ### document order -/

/-- `_replace_el(el, replacements)` on the sibling list -/
def replaceIn {β : Type} [DecidableEq β] (e : β) (repl : List β) (l : List β) : List β :=
  l.flatMap (fun x => if x = e then repl else [x])

/-- C02 (z-order): replacing an element that occurs once among its siblings by any list leaves the siblings before it
    before, the siblings after it after, each in their order -/
theorem replace_keeps_order {β : Type} [DecidableEq β] (pre post repl : List β) (e : β)
    (h1 : e ∉ pre) (h2 : e ∉ post) : replaceIn e repl (pre ++ e :: post) = pre ++ repl ++ post := by
  have hid : ∀ l : List β, e ∉ l → replaceIn e repl l = l := by
    intro l hl
    induction l with
    | nil => rfl
    | cons x xs ih =>
      have hx : x ≠ e := fun h => hl (h ▸ List.mem_cons_self ..)
      have := ih (fun h => hl (List.mem_cons_of_mem _ h))
      simp only [replaceIn, List.flatMap_cons, hx, if_false] at this ⊢
      rw [this]; rfl
  unfold replaceIn at *
  rw [List.flatMap_append, List.flatMap_cons, hid pre h1, hid post h2]
  simp

/-- C02 (z-order, on the tree): replacing the element with uid `u` — a shape by the paths it became, a use by its
    instance, a nested svg by its group, a group by its children — anywhere in the document, at any depth, leaves every
    other element where it was in document order; the replacement takes exactly the place of the element and its
    subtree.  `ZOrder.euids` lists the uids of a subtree in document order. -/
theorem tree_replace_keeps_document_order (ru : Nat) (t : String) (a : Attrs) (pre post : List Node) (e : Node)
    (u : Nat) (news : List Node) (he : e.isElem = true) (hu : e.uid = u)
    (h1 : u ∉ ZOrder.euidsL pre) (h2 : u ∉ ZOrder.euidsL post) :
    ZOrder.euids (Node.replaceUid (.elem ru t a (pre ++ e :: post)) u news)
      = ru :: (ZOrder.euidsL pre ++ ZOrder.euidsL news ++ ZOrder.euidsL post) :=
  ZOrder.replace_keeps_document_order ru t a pre post e u news he hu h1 h2

/-- … and in general (the element may sit at any depth): the document-order list is the old one with the subtree(s)
    rooted at `u` substituted -/
theorem tree_replace_order (ru : Nat) (t : String) (a : Attrs) (cs : List Node) (u : Nat) (news : List Node) :
    ZOrder.euids (Node.replaceUid (.elem ru t a cs) u news) = ru :: ZOrder.substL u (ZOrder.euidsL news) cs :=
  ZOrder.replaceUid_order ru t a cs u news

/-- subtrees that do not contain `u` are left exactly as they are -/
theorem tree_replace_elsewhere (u : Nat) (r : List Nat) (cs : List Node) (h : u ∉ ZOrder.euidsL cs) :
    ZOrder.substL u r cs = ZOrder.euidsL cs := ZOrder.substL_of_not_mem u r cs h

/-- the discard passes (comments / processing instructions / metadata / foreign content) only remove: the elements that
    remain keep their document order -/
theorem discard_pass_keeps_order (P : Cleanup.LocalPass) (u : Nat) (t : String) (a : Attrs) (cs : List Node) :
    (ZOrder.euids (Node.rewriteBelow P.f (.elem u t a cs))).Sublist (ZOrder.euids (.elem u t a cs)) :=
  ZOrder.pass_keeps_order P u t a cs

/-! ## a nested svg's own presentation attributes (fix 270e3d0) -/

/-- the presentation attributes the cascade lets a container hand to its content -/
def presentationNames : List String :=
  ["display", "fill", "fill-opacity", "fill-rule", "opacity", "stroke", "stroke-width", "stroke-linecap", "stroke-linejoin",
   "stroke-miterlimit", "stroke-dasharray", "stroke-dashoffset", "stroke-opacity", "clip-rule", "color", "style"]
/-- what places the viewport (consumed by the viewport transform and the overflow clip) -/
def placementNames : List String :=
  ["x", "y", "width", "height", "viewBox", "preserveAspectRatio", "transform", "overflow", "clip-path", "id"]

/-- C02 (nested svg): every presentation attribute written on a nested `svg` is handed to the group that replaces it
    (`SvgObj.nestedPresentation` is what `unnestSvg` puts on the outermost group; the table is regenerated from
    `_NESTED_SVG_PRESENTATION_ATTRIB` on every run), with its value, -/
theorem nested_svg_keeps_presentation (a : Attrs) (k v : String) (hk : k ∈ presentationNames) (h : (k, v) ∈ a) :
    (k, v) ∈ SvgObj.nestedPresentation a := by
  unfold SvgObj.nestedPresentation
  rw [List.mem_filter]
  refine ⟨h, ?_⟩
  have : ∀ k ∈ presentationNames, Gen.nestedSvgPresentationAttrib.contains k = true := by decide
  exact this k hk

/-- the placement attributes are never copied (they are consumed by the viewport transform and clip), -/
theorem nested_svg_consumes_placement (a : Attrs) (k v : String) (hk : k ∈ placementNames) :
    (k, v) ∉ SvgObj.nestedPresentation a := by
  unfold SvgObj.nestedPresentation
  rw [List.mem_filter]
  intro h
  have : ∀ k ∈ placementNames, Gen.nestedSvgPresentationAttrib.contains k = false := by decide
  have h2 := h.2
  rw [this k hk] at h2
  exact Bool.noConfusion h2

/-- and the order in which they were written is kept -/
theorem nested_svg_presentation_in_order (a : Attrs) : (SvgObj.nestedPresentation a).Sublist a := List.filter_sublist

example : SvgObj.nestedPresentation [("x", "10"), ("display", "none"), ("viewBox", "0 0 5 5"), ("fill", "red"), ("overflow", "visible")]
    = [("display", "none"), ("fill", "red")] := by decide

end PicoSVG.Props.C02
