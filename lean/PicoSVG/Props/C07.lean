/-
  C07 — Conversion is idempotent: picosvg in, identical picosvg out.
  Fixed-point lemmas for the steps that could drift on a second pass (ordered field / ℚ); the
  byte-level statement is judged on every run (pass 2 and pass 3 equal pass 1, the own gate is
  clean) and the pipeline model is tied to the code on second passes too.
-/
import PicoSVG.Model.Pipeline
import PicoSVG.Proofs.Round
import PicoSVG.Proofs.Affine
import PicoSVG.Proofs.IdemP

set_option linter.unusedSectionVars false
set_option linter.unusedVariables false
namespace PicoSVG.C07
open PicoSVG

section
variable {α : Type} [Field α] [LinearOrder α] [IsStrictOrderedRing α]

/-- an opacity already strictly inside (0,1) is untouched by the clamp -/
theorem clamp_fixed (v : α) (h0 : 0 < v) (h1 : v < 1) : Groups.clamp01 v = v := by
  unfold Groups.clamp01
  simp only [not_lt.mpr (le_of_lt h1), if_false, not_lt.mpr (le_of_lt h0)]

/-- C07-group: a group as the conversion emits it (only an opacity strictly between 0 and 1, at
    least two children) is kept again on the next pass -/
theorem kept_group_stable (k : Nat) (v : α) (hk : 2 ≤ k) (h0 : 0 < v) (h1 : v < 1) :
    Groups.removableCore true false k (Groups.clamp01 v) = false := by
  rw [clamp_fixed v h0 h1]
  unfold Groups.removableCore
  have hk' : ¬ k ≤ 1 := by omega
  simp [hk', ne_of_gt h0, ne_of_lt h1]

/-- C07-gradient: a gradient transform whose translation has already been folded away is left
    alone by `decompose_translation` (identity translation, same 2×2 part) -/
theorem decompose_zero_translation (tolEq tolDec : α) (htol : 0 ≤ tolEq) (s : Aff α)
    (he : s.e = 0) (hf : s.f = 0) :
    decomposeTranslation tolEq tolDec s = some (Aff.id, s) := by
  unfold decomposeTranslation
  have hz : zeroTranslation s = s := by
    cases s; simp_all [zeroTranslation]
  have habs : absv (0 : α) ≤ tolEq := by unfold absv; simp [htol]
  have : s.almostEq tolEq (zeroTranslation s) = true := by
    rw [hz]
    unfold Aff.almostEq
    simp [sub_self, habs]
  rw [if_pos this, hz]

end

/-- C07-round: numbers rounded to n decimals are fixed points of rounding to n decimals (ℚ) -/
theorem rounding_stable (q : Rat) (n : Int) : F64.roundDec (F64.roundDec q n) n = F64.roundDec q n :=
  F64.roundDec_idem q n

/-- non-vacuity -/
example : Groups.removableCore true false 2 (Groups.clamp01 (1/2 : Rat)) = false := by decide +kernel

/-! #### the discard passes are idempotent (for every document tree) -/

/-- a local filter pass whose decisions are stable under its own attribute rewriting changes nothing the second time -/
theorem local_pass_idempotent (P : Cleanup.LocalPass) (h : IdemP.Stable P) (root : Node) :
    Node.rewriteBelow P.f (Node.rewriteBelow P.f root) = Node.rewriteBelow P.f root :=
  IdemP.rewriteBelow_idem P h root

theorem removePIs_idempotent (root : Node) : Cleanup.removePIs (Cleanup.removePIs root) = Cleanup.removePIs root :=
  IdemP.removePIs_idem root

theorem removeAnonSymbols_idempotent (root : Node) :
    Cleanup.removeAnonSymbols (Cleanup.removeAnonSymbols root) = Cleanup.removeAnonSymbols root :=
  IdemP.removeAnonSymbols_idem root

theorem removeTitleMetaDesc_idempotent (root : Node) :
    Cleanup.removeTitleMetaDesc (Cleanup.removeTitleMetaDesc root) = Cleanup.removeTitleMetaDesc root :=
  IdemP.removeTitleMetaDesc_idem root

/-- `remove_nonsvg_content` on a document whose root it keeps (an svg root) -/
theorem removeNonSvg_idempotent (ng : Bool) (u : Nat) (t : String) (a : Attrs) (cs : List Node)
    (hroot : (Cleanup.nonSvgPass ng).drop t a = false) :
    Cleanup.removeNonSvg ng (Cleanup.removeNonSvg ng (.elem u t a cs)) = Cleanup.removeNonSvg ng (.elem u t a cs) :=
  IdemP.removeNonSvg_idem ng u t a cs hroot

end PicoSVG.C07
