/-
  C03 — clip paths are rendered into exactly the clipped geometry.

  The plan the code follows (svg.py `_resolve_clip_path`, `_traverse`, `_simplify`):
    clip region of a clipPath  = union of its children, each under its own clip-rule  [∩ the clip region its own
                                  clip-path attribute refers to],
    clips of an element         = the clips of its ancestors followed by its own,
    output geometry             = intersection (shape under its fill-rule, clip₁, …, clipₖ).
  Proved here:
  * the set-level meaning of that plan (`inter_all_iff`, `union_all_iff`): a point survives iff it is inside the shape
    and inside every clip; it is inside a clip iff it is inside at least one child;
  * relative to `Spec.EngineSpec` (the assumed behaviour of Skia's boolean operations, C13), the geometry the wrappers
    return for the calls the code makes has exactly that interior, for any number of clips / children, with every
    operand built under its own rule, and the result reads the same under nonzero and evenodd
    (`clipped_geometry`, `clip_region`, `nested_clip_region`) — so the output path needs neither clip-path nor
    evenodd;
  * clips accumulate along the ancestor chain in order and none is lost (`stack_clips`);
  * a clipPath child is placed through child transform, then clipPath transform, then the CTM of the *referencing*
    element (`clip_child_placement`, from the CTM theorem of C02).
  Which calls the code makes — operands, rules, order, matrices — is compared verbatim against the model on every run
  (oracle questions), and the result is judged by the independent renderer.
-/
import PicoSVG.Props.C13
import PicoSVG.Props.C02

set_option linter.unusedSectionVars false
set_option linter.unusedVariables false

namespace PicoSVG.Props.C03
open PicoSVG PathOps Spec

variable {P α : Type}

theorem inter_all_iff (a : Region α) (bs : List (Region α)) (p : Pt α) :
    combineAll .intersection a bs p ↔ a p ∧ ∀ b ∈ bs, b p := by
  unfold combineAll
  induction bs generalizing a with
  | nil => simp
  | cons b bs ih =>
    simp only [List.foldl_cons, List.mem_cons, forall_eq_or_imp]
    rw [ih]; simp only [combine]; exact and_assoc

theorem union_all_iff (a : Region α) (bs : List (Region α)) (p : Pt α) :
    combineAll .union a bs p ↔ a p ∨ ∃ b ∈ bs, b p := by
  unfold combineAll
  induction bs generalizing a with
  | nil => simp
  | cons b bs ih =>
    simp only [List.foldl_cons, List.mem_cons, exists_eq_or_imp]
    rw [ih]; simp only [combine]; exact or_assoc

/-- C03 (clipped geometry): the path returned for `intersection((shape, *clips), (fill_rule, "nonzero", …))` covers
    exactly the points inside the shape under its fill rule and inside every clip -/
theorem clipped_geometry (E : Engine P α) (interior : P → Region α) (iAs : FillRule → P → Region α)
    (G : Pt α → Prop) (S : EngineSpec E interior iAs G)
    (shape : List (Cmd α)) (clips : List (List (Cmd α))) (rule : FillRule) (rules : List FillRule) (res : P)
    (h : doPathopP E .intersection (shape :: clips) (rule :: rules) = .ok (some res)) :
    ∃ b0 bs, E.ofCmds shape rule = .ok b0 ∧ C13.Built E clips rules bs ∧
      ∀ p, G p → (interior res p ↔ interior b0 p ∧ ∀ b ∈ bs, interior b p) ∧
                 (iAs .nonzero res p ↔ interior res p) ∧ (iAs .evenodd res p ↔ interior res p) := by
  obtain ⟨b0, bs, hb0, hbuilt, hint⟩ := C13.doPathop_interior E interior iAs G S .intersection shape clips rule rules res h
  refine ⟨b0, bs, hb0, hbuilt, fun p hp => ⟨?_, (hint p hp).2⟩⟩
  rw [(hint p hp).1, inter_all_iff]
  simp

/-- C03 (clip region): the path returned for `union(children, clip_rules)` covers exactly the points inside at least
    one child under that child's clip-rule -/
theorem clip_region (E : Engine P α) (interior : P → Region α) (iAs : FillRule → P → Region α)
    (G : Pt α → Prop) (S : EngineSpec E interior iAs G)
    (c0 : List (Cmd α)) (cs : List (List (Cmd α))) (r0 : FillRule) (rs : List FillRule) (res : P)
    (h : doPathopP E .union (c0 :: cs) (r0 :: rs) = .ok (some res)) :
    ∃ b0 bs, E.ofCmds c0 r0 = .ok b0 ∧ C13.Built E cs rs bs ∧
      ∀ p, G p → (interior res p ↔ ∃ b ∈ b0 :: bs, interior b p) := by
  obtain ⟨b0, bs, hb0, hbuilt, hint⟩ := C13.doPathop_interior E interior iAs G S .union c0 cs r0 rs res h
  refine ⟨b0, bs, hb0, hbuilt, fun p hp => ?_⟩
  rw [(hint p hp).1, union_all_iff]
  simp

/-- a clipPath that is itself clipped: `intersection((own, inner), ("nonzero", "nonzero"))` -/
theorem nested_clip_region (E : Engine P α) (interior : P → Region α) (iAs : FillRule → P → Region α)
    (G : Pt α → Prop) (S : EngineSpec E interior iAs G) (own inner : List (Cmd α)) (res : P)
    (h : doPathopP E .intersection [own, inner] [.nonzero, .nonzero] = .ok (some res)) :
    ∃ a b, E.ofCmds own .nonzero = .ok a ∧ E.ofCmds inner .nonzero = .ok b ∧
      ∀ p, G p → (interior res p ↔ interior a p ∧ interior b p) := by
  obtain ⟨b0, bs, hb0, hbuilt, hint⟩ := clipped_geometry E interior iAs G S own [inner] .nonzero [.nonzero] res h
  cases hbuilt with
  | cons hb hrest =>
    cases hrest
    exact ⟨b0, _, hb0, hb, fun p hp => by simpa using (hint p hp).1⟩

/-- `_traverse`: the clips of a child are the clips of its parent followed by its own -/
def stackClips {C : Type} (parent : List C) (own : Option C) : List C :=
  match own with
  | some c => parent ++ [c]
  | none => parent

/-- C03 (ancestor chain): every clip met on the way down is still applied at the leaf, in order -/
theorem stack_clips {C : Type} (parent : List C) (own : Option C) (c : C) (h : c ∈ parent) : c ∈ stackClips parent own := by
  unfold stackClips; cases own <;> simp [h]

theorem stack_clips_own {C : Type} (parent : List C) (c : C) : c ∈ stackClips parent (some c) := by
  simp [stackClips]

section
variable {β : Type} [Field β] [LinearOrder β] [IsStrictOrderedRing β]

/-- C03 (coordinate system): a point of a clipPath child goes through the child's transform, the clipPath's
    transform and then the CTM of the element that *references* the clipPath -/
theorem clip_child_placement (refCtm : List (Aff β)) (cpT childT : Aff β) (p : Pt β) :
    (C02.ctm (refCtm ++ [cpT] ++ [childT])).mapPt p = (C02.ctm refCtm).mapPt (cpT.mapPt (childT.mapPt p)) := by
  rw [C02.ctm_snoc, C02.ctm_snoc]
end

end PicoSVG.Props.C03
