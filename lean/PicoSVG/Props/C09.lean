/-
  C09 — Rewriting shapes and path data never changes the curve they describe.
  Property theorems only.  `Spec.interp` (Spec/PathInterp.lean) is the meaning of path data.
-/
import PicoSVG.Proofs.PathForm
import PicoSVG.Spec.Shapes

set_option linter.unusedSectionVars false
namespace PicoSVG.C09
open PicoSVG Path

section
variable {α : Type} [Add α] [Sub α] [Mul α] [Div α] [Neg α] [OfNat α 0] [OfNat α 1] [BEq α]
  [LT α] [LE α] [DecidableLT α] [DecidableLE α]

/-! #### target forms: a rewrite that promises a form reaches it (any scalar type, any input) -/

/-- no lowercase command after `absolute()` -/
theorem absolute_allUpper (tol : α) (cmds out : List (Cmd α)) (h : absolute tol cmds = .ok out) :
    ∀ x ∈ out, isUpper x.1 = true := Path.absolute_allUpper tol cmds out h

/-- no H/h/V/v after `explicit_lines()` -/
theorem explicitLines_noHV (cmds out : List (Cmd α)) (h : explicitLines cmds = .ok out) :
    ∀ x ∈ out, x.1 ≠ 'h' ∧ x.1 ≠ 'H' ∧ x.1 ≠ 'v' ∧ x.1 ≠ 'V' := Path.explicitLines_noHV cmds out h

/-- no S/s/T/t after `expand_shorthand()` -/
theorem expandShorthand_noST (cmds out : List (Cmd α)) (h : expandShorthand cmds = .ok out) :
    ∀ x ∈ out, toUpper x.1 ≠ 'S' ∧ toUpper x.1 ≠ 'T' := Path.expandShorthand_noST cmds out h

end

/-! #### tie to the source: the generated command tables the walk is driven by -/

theorem gen_cmd_args : Gen.cmdArgs =
    [('m', 2), ('z', 0), ('l', 2), ('h', 1), ('v', 1), ('c', 6), ('s', 4), ('q', 4), ('t', 2), ('a', 7),
     ('M', 2), ('Z', 0), ('L', 2), ('H', 1), ('V', 1), ('C', 6), ('S', 4), ('Q', 4), ('T', 2), ('A', 7)] := by
  decide
theorem gen_cmd_coords : Gen.cmdCoords =
    [('m', [0], [1]), ('z', [], []), ('l', [0], [1]), ('h', [0], []), ('v', [], [0]),
     ('c', [0, 2, 4], [1, 3, 5]), ('s', [0, 2], [1, 3]), ('q', [0, 2], [1, 3]), ('t', [0], [1]),
     ('a', [5], [6]),
     ('M', [0], [1]), ('Z', [], []), ('L', [0], [1]), ('H', [0], []), ('V', [], [0]),
     ('C', [0, 2, 4], [1, 3, 5]), ('S', [0, 2], [1, 3]), ('Q', [0, 2], [1, 3]), ('T', [0], [1]),
     ('A', [5], [6])] := by decide
/-- every coordinate index of a command is below its arity (the walk never indexes out of range) -/
theorem gen_coords_in_range :
    Gen.cmdCoords.all (fun (c, xs, ys) =>
      match Gen.cmdArgs.lookup c with
      | some k => (xs ++ ys).all (· < k)
      | none => false) = true := by decide

end PicoSVG.C09
