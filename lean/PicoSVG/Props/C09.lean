/-
  C09 — Rewriting shapes and path data never changes the curve they describe.
  Property theorems only.  `Spec.interp` (Spec/PathInterp.lean) is the meaning of path data.
-/
import PicoSVG.Proofs.PathForm
import PicoSVG.Proofs.PathSim
import PicoSVG.Proofs.PathSimAbs
import PicoSVG.Proofs.PathSimShorthand
import PicoSVG.Proofs.PathSimRel
import PicoSVG.Proofs.PathSimMove
import PicoSVG.Proofs.ShapeSim
import PicoSVG.Spec.Shapes

set_option linter.unusedSectionVars false
namespace PicoSVG.C09
open PicoSVG Path

section
variable {α : Type} [Add α] [Sub α] [Mul α] [Div α] [Neg α] [OfNat α 0] [OfNat α 1] [BEq α]
  [LT α] [LE α] [DecidableLT α] [DecidableLE α]

/-! #### target forms: a rewrite that promises a form reaches it (any scalar type, any input) -/

/-- no lowercase command after `absolute()` -/
theorem absolute_allUpper (tol : α) (cmds out : List (Cmd α)) (h : absolute tol cmds = .ok out) :
    ∀ x ∈ out, isUpper x.1 = true := Path.absolute_allUpper tol cmds out h

/-- no H/h/V/v after `explicit_lines()` -/
theorem explicitLines_noHV (cmds out : List (Cmd α)) (h : explicitLines cmds = .ok out) :
    ∀ x ∈ out, x.1 ≠ 'h' ∧ x.1 ≠ 'H' ∧ x.1 ≠ 'v' ∧ x.1 ≠ 'V' := Path.explicitLines_noHV cmds out h

/-- no S/s/T/t after `expand_shorthand()` -/
theorem expandShorthand_noST (cmds out : List (Cmd α)) (h : expandShorthand cmds = .ok out) :
    ∀ x ∈ out, toUpper x.1 ≠ 'S' ∧ toUpper x.1 ≠ 'T' := Path.expandShorthand_noST cmds out h

end

/-! #### the curve itself: simulation of the walk by the path interpretation -/

section
variable {α : Type} [Field α] [LinearOrder α] [IsStrictOrderedRing α]

/-- C09 (explicit_lines): for every command sequence the specification gives a meaning to — any commands, any
    length, relative or absolute, after a closepath or not — the rewritten sequence describes the same list of drawn
    segments.  Proof: the walker's (current point, subpath start) and the interpreter's stay equal command by command
    (`PathSim.applyNew_sim`, all twenty letters), and the command the callback emits draws what the original draws
    (`PathSim.explicit_cmd_same`). -/
theorem explicitLines_preserves_curve (cmds out : List (Cmd α)) (segs : List (Spec.Seg α))
    (h : explicitLines cmds = .ok out) (hi : Spec.interp cmds = some segs) : Spec.interp out = some segs :=
  PathSim.explicitLines_interp cmds out segs h hi

/-- C09 (absolute): relative → absolute rewriting preserves the list of drawn segments of every command sequence the
    specification gives a meaning to — whenever the end-point snapping of `_rewrite_path` does not fire (`hns`).  The
    snapping (an end point within 1e-9 of the subpath start, but not on it, is moved onto it) is the one intended deviation:
    it moves one end point by at most the tolerance and is judged per run. -/
theorem absolute_preserves_curve (tol : α) (hns : ∀ p q : Pt α, (p == q) = false → ptAlmostEq tol p q = false)
    (cmds out : List (Cmd α)) (segs : List (Spec.Seg α))
    (h : absolute tol cmds = .ok out) (hi : Spec.interp cmds = some segs) : Spec.interp out = some segs :=
  PathSim.absolute_interp tol hns cmds out segs h hi

/-- … in particular with snapping tolerance 0, unconditionally -/
theorem absolute_preserves_curve_exact (cmds out : List (Cmd α)) (segs : List (Spec.Seg α))
    (h : absolute (0 : α) cmds = .ok out) (hi : Spec.interp cmds = some segs) : Spec.interp out = some segs :=
  PathSim.absolute_interp 0 PathSim.no_snap_zero cmds out segs h hi

/-- C09 (expand_shorthand): S/s/T/t become C/Q with the first control point SVG 8.3 prescribes — the reflection of the
    previous control point after a curve of the same family (C/c/S/s for S, Q/q/T/t for T), the current point otherwise —
    so the list of drawn segments is unchanged, for every command sequence the specification gives a meaning to, with
    shorthand chains of any length and any mix of relative and absolute commands.  The invariant carried through the walk
    is that the interpreter's remembered control point is what the last *emitted* command determines
    (`PathSim.Inv`, `PathSim.prevCtrl_spec`).  (On the code before fix 41546f5 the model reflected after a curve of the
    other family too and this statement is false: `M0,0 Q1,1 2,0 S3,1 4,0`.) -/
theorem expandShorthand_preserves_curve (cmds out : List (Cmd α)) (segs : List (Spec.Seg α))
    (h : expandShorthand cmds = .ok out) (hi : Spec.interp cmds = some segs) : Spec.interp out = some segs :=
  PathSim.expandShorthand_interp cmds out segs h hi

/-- C09 (the normal form handed to Skia): the first three steps of `as_cmd_seq()` — `explicit_lines`, `expand_shorthand`,
    `absolute`, in that order — together leave the drawn segments of every meaningful command sequence unchanged (no snapping
    fires / tolerance 0), and the result has no lowercase command -/
theorem normal_form_preserves_curve (tol : α) (hns : ∀ p q : Pt α, (p == q) = false → ptAlmostEq tol p q = false)
    (c0 c1 c2 c3 : List (Cmd α)) (segs : List (Spec.Seg α))
    (h1 : explicitLines c0 = .ok c1) (h2 : expandShorthand c1 = .ok c2) (h3 : absolute tol c2 = .ok c3)
    (hi : Spec.interp c0 = some segs) :
    Spec.interp c3 = some segs ∧ ∀ c ∈ c3, isUpper c.1 = true :=
  ⟨absolute_preserves_curve tol hns c2 c3 segs h3
      (expandShorthand_preserves_curve c1 c2 segs h2 (explicitLines_preserves_curve c0 c1 segs h1 hi)),
   absolute_allUpper tol c2 c3 h3⟩

/-- C09 (relative): absolute → relative rewriting (the walk of `relative()`, before its leading letter is put back to `M`)
    preserves the drawn segments under the same no-snapping condition; exactly at tolerance 0 -/
theorem relative_preserves_curve (tol : α) (hns : ∀ p q : Pt α, (p == q) = false → ptAlmostEq tol p q = false)
    (cmds out : List (Cmd α)) (segs : List (Spec.Seg α))
    (h : relativeCore tol cmds = .ok out) (hi : Spec.interp cmds = some segs) : Spec.interp out = some segs :=
  PathSim.relativeCore_interp tol hns cmds out segs h hi

/-- C09 (move): `move(dx, dy)` translates the curve — for a path that starts with a moveto, the drawn segments of the
    result are those of the input, each shifted by (dx, dy); relative commands are left alone, absolute ones shifted, a
    leading `m` counts as absolute -/
theorem move_translates_curve (dx dy : α) (c0 : Char) (a0 : List α) (rest out : List (Cmd α))
    (segs : List (Spec.Seg α)) (hc0 : c0 = 'M' ∨ c0 = 'm')
    (h : move dx dy ((c0, a0) :: rest) = .ok out) (hi : Spec.interp ((c0, a0) :: rest) = some segs) :
    Spec.interp out = some (segs.map (PathSim.shiftSeg dx dy)) :=
  PathSim.move_interp dx dy c0 a0 rest out segs hc0 h hi

/-- C09 (basic shapes): the command sequences `as_path()` builds for a line, an ellipse / circle and a rectangle (on its
    resolved corner radii) draw exactly the outlines SVG 1.1 §9 prescribes — start point, direction, corner arcs only when
    the radius is positive, closing segment (`ShapeCmds.*` are the generic builders the model prints) -/
theorem line_as_path (x1 y1 x2 y2 : α) :
    Spec.interp (ShapeCmds.lineCmds x1 y1 x2 y2) = some (Spec.lineOutline x1 y1 x2 y2) := ShapeCmds.line_interp x1 y1 x2 y2

theorem ellipse_as_path (rx ry cx cy : α) :
    Spec.interp (ShapeCmds.ellipseCmds rx ry cx cy) = some (Spec.ellipseOutline rx ry cx cy) :=
  ShapeCmds.ellipse_interp rx ry cx cy

theorem rect_as_path (x y w h rx0 ry0 : α) :
    Spec.interp (ShapeCmds.rectCmds x y w h (Spec.resolveRadii w h rx0 ry0).1 (Spec.resolveRadii w h rx0 ry0).2)
      = some (Spec.rectOutline x y w h rx0 ry0) := ShapeCmds.rect_interp x y w h rx0 ry0

/-- C09 (basic shapes, radii as written): `from_element` reads the rect's attributes into the dataclass so that its outline is
    the one SVG 1.1 §9.2 gives for the attributes — a radius that is not given is copied from the other one, and two given radii
    of which one is zero mean square corners (`Spec.rectOutlineAttr`; before 8729e23 an explicit zero was copied over too) -/
theorem rect_from_attributes (x y w h : α) (rx? ry? : Option α) :
    Spec.rectOutline x y w h (ShapeCmds.explicitZeroRadii rx?.isSome ry?.isSome (rx?.getD 0) (ry?.getD 0)).1
        (ShapeCmds.explicitZeroRadii rx?.isSome ry?.isSome (rx?.getD 0) (ry?.getD 0)).2
      = Spec.rectOutlineAttr x y w h rx? ry? := ShapeCmds.rect_from_attributes x y w h rx? ry?

example : Spec.rectOutlineAttr (0 : ℚ) 0 80 60 (some 30) (some 0) = Spec.rectOutline 0 0 80 60 0 0 := by
  simp [Spec.rectOutlineAttr, Spec.givenRadii]
example : Spec.rectOutlineAttr (0 : ℚ) 0 80 60 (some 30) none = Spec.rectOutline 0 0 80 60 30 30 := by
  simp [Spec.rectOutlineAttr, Spec.givenRadii]

/-- any other rewrite built on the walk inherits the result as soon as its callback is sound command by command -/
theorem sound_callback_preserves_curve (cb : Callback α) (hcb : PathSim.CbSound cb) (cmds out : List (Cmd α))
    (segs : List (Spec.Seg α)) (h : walk cb cmds = .ok out) (hi : Spec.interp cmds = some segs) :
    Spec.interp out = some segs := PathSim.walk_sim cb hcb cmds out segs h hi

/-- the walker's notion of "current position" is the interpreter's, for every command letter (this is what makes the
    other rewrites' callbacks see the right point) -/
theorem nextPos_is_current_point (ws : WalkState α) (is : Spec.IState α) (c : Char) (a : List α) (ws' : WalkState α)
    (is' : Spec.IState α) (segs : List (Spec.Seg α))
    (hc : c ∈ ['m', 'z', 'l', 'h', 'v', 'c', 's', 'q', 't', 'a', 'M', 'Z', 'L', 'H', 'V', 'C', 'S', 'Q', 'T', 'A'])
    (h1 : ws.curr = is.cur) (h2 : ws.start = is.start)
    (hw : applyNew ws (c, a) = .ok ws') (hi : Spec.stepSeg is c a = some (is', segs)) :
    ws'.curr = is'.cur ∧ ws'.start = is'.start :=
  let r := PathSim.applyNew_sim ws is c a ws' is' segs hc h1 h2 hw hi
  ⟨r.1, r.2.1⟩

/-- non-vacuity: a relative path with h/v after a closepath, interpreted before and after the rewrite -/
example : Spec.interp ([('m', [1, 1]), ('h', [2]), ('v', [3]), ('z', []), ('H', [5])] : List (Cmd ℚ))
    = Spec.interp ([('M', [1, 1]), ('l', [2, 0]), ('l', [0, 3]), ('z', []), ('L', [5, 1])] : List (Cmd ℚ)) := by
  decide +kernel
end

/-! #### tie to the source: the generated command tables the walk is driven by -/

theorem gen_cmd_args : Gen.cmdArgs =
    [('m', 2), ('z', 0), ('l', 2), ('h', 1), ('v', 1), ('c', 6), ('s', 4), ('q', 4), ('t', 2), ('a', 7),
     ('M', 2), ('Z', 0), ('L', 2), ('H', 1), ('V', 1), ('C', 6), ('S', 4), ('Q', 4), ('T', 2), ('A', 7)] := by
  decide
theorem gen_cmd_coords : Gen.cmdCoords =
    [('m', [0], [1]), ('z', [], []), ('l', [0], [1]), ('h', [0], []), ('v', [], [0]),
     ('c', [0, 2, 4], [1, 3, 5]), ('s', [0, 2], [1, 3]), ('q', [0, 2], [1, 3]), ('t', [0], [1]),
     ('a', [5], [6]),
     ('M', [0], [1]), ('Z', [], []), ('L', [0], [1]), ('H', [0], []), ('V', [], [0]),
     ('C', [0, 2, 4], [1, 3, 5]), ('S', [0, 2], [1, 3]), ('Q', [0, 2], [1, 3]), ('T', [0], [1]),
     ('A', [5], [6])] := by decide
/-- every coordinate index of a command is below its arity (the walk never indexes out of range) -/
theorem gen_coords_in_range :
    Gen.cmdCoords.all (fun (c, xs, ys) =>
      match Gen.cmdArgs.lookup c with
      | some k => (xs ++ ys).all (· < k)
      | none => false) = true := by decide

end PicoSVG.C09
