/-
  C16 — output bytes depend only on input bytes and options.

  What a theorem can carry here:
  (1) the conversion model is a *function* of (document, options, Skia answers) — nothing else is an argument of
      `Pipeline.topicosvg`, so there is nothing else it could depend on (`convert_is_a_function`; trivial in Lean,
      and exactly the point: the tie to the code is that this function predicts the implementation's output in
      every process, for every hash seed and every batch order the check runs);
  (2) the one piece of process-wide state the code has — the `functools.lru_cache` on `SVG._inherited_attrib`, shared by
      every SVG instance of the process — cannot leak history, *because every flush clears it first*
      (`flush_history_free`, `batch_is_pointwise`); without the clear the batch result does depend on the documents
      converted earlier (`without_clear_history_matters`);
  (3) the inherited attribute context does not depend on the order in which the attributes are stored
      (`sortedKeys_perm`, `inheritAttrib_perm`): `sorted(attrib.keys())` makes the iteration canonical;
  (4) the inventory of order-, identity- and process-state-sensitive constructs the translator finds in the source today
      is exactly the reviewed one (`gen_*`): a new set iteration, id()/hash() call, cache or mutated module-level container
      breaks the tie and sends the check into its escalated hash-seed / batch-order search.
-/
import PicoSVG.Gen.Determinism
import PicoSVG.Model.Pipeline

namespace PicoSVG.Props.C16

open PicoSVG

/-! ## (4) reviewed inventory -/

/-- reviewed set-order sites:
    * `_GRADIENT_FIELDS["stop"] = tuple({...})` — the tuple's order is hash dependent, but the table is only indexed with
      gradient tags (`_apply_gradient_template`, its only reader by name: `readers=` lists every function that mentions the
      table, so a new reader breaks this pin and has to be reviewed) and used for membership (`_attr_supported`);
    * `bad_paths`, `path_allowlist` — consumed by `any(...)`;
    * `paths_required` — orders the *messages* of the ValueError raised by topicosvg, never the output. -/
theorem gen_set_sites : Gen.Det.setSites =
    ["svg:<module>|call:tuple:ORDER-EXPOSED|_GRADIENT_FIELDS[\"stop\"] = tuple({\"offset\", \"stop_color\", \"stop_opacity\"})|readers=SVG._apply_gradient_template",
     "svg:SVG.checkpicosvg|comp->any:order-free|bad_paths",
     "svg:SVG.checkpicosvg|comp->any:order-free|path_allowlist",
     "svg:SVG.checkpicosvg|for|paths_required"] := by decide +kernel

theorem gen_identity_sites : Gen.Det.identitySites = [] := by decide

theorem gen_process_state : Gen.Det.processState =
    ["svg:SVG._inherited_attrib|decorator|lru_cache(maxsize=None)",
     "svg:SVG._update_etree|cache_clear|self._inherited_attrib",
     "svg:SVG._update_etree|calls-cached|_inherited_attrib"] := by decide

/-- the clear is the first call of the flush, before any memoised lookup -/
theorem gen_clear_first : Gen.Det.flushCallSeq.head? = some "cache_clear"
    ∧ Gen.Det.flushCallSeq.idxOf "cache_clear" < Gen.Det.flushCallSeq.idxOf "_inherited_attrib" := by decide

/-! ## (2) the process-wide memo table -/

/-- `functools.lru_cache(maxsize=None)`: association list, most recent first -/
structure Memo (κ ν : Type) where
  entries : List (κ × ν)

namespace Memo
variable {κ ν : Type} [BEq κ] [LawfulBEq κ]

def empty : Memo κ ν := ⟨[]⟩

/-- a call through the cache -/
def call (f : κ → ν) (m : Memo κ ν) (k : κ) : ν × Memo κ ν :=
  match m.entries.lookup k with
  | some v => (v, m)
  | none => (f k, ⟨(k, f k) :: m.entries⟩)

/-- every cached value is what `f` returns now -/
def Coherent (f : κ → ν) (m : Memo κ ν) : Prop := ∀ k v, m.entries.lookup k = some v → v = f k

theorem coherent_empty (f : κ → ν) : Coherent f (empty : Memo κ ν) := by
  intro k v h; simp [empty] at h

theorem call_val (f : κ → ν) (m : Memo κ ν) (k : κ) (h : Coherent f m) : (call f m k).1 = f k := by
  unfold call
  cases hl : m.entries.lookup k with
  | none => rfl
  | some v => simpa using h k v hl

theorem call_coherent (f : κ → ν) (m : Memo κ ν) (k : κ) (h : Coherent f m) : Coherent f (call f m k).2 := by
  unfold call
  cases hl : m.entries.lookup k with
  | some v => simpa using h
  | none =>
    intro k' v' h'
    simp only [List.lookup_cons] at h'
    by_cases hk : k' == k
    · have e : k' = k := by simpa using hk
      simp [hk] at h'; rw [← h', e]
    · simp [hk] at h'; exact h k' v' h'

/-- the memoised lookups of one flush, left to right -/
def callAll (f : κ → ν) : Memo κ ν → List κ → List ν × Memo κ ν
  | m, [] => ([], m)
  | m, k :: ks =>
    let r := call f m k
    let rs := callAll f r.2 ks
    (r.1 :: rs.1, rs.2)

theorem callAll_val (f : κ → ν) (m : Memo κ ν) (ks : List κ) (h : Coherent f m) :
    (callAll f m ks).1 = ks.map f ∧ Coherent f (callAll f m ks).2 := by
  induction ks generalizing m with
  | nil => exact ⟨rfl, h⟩
  | cons k ks ih =>
    have := ih (call f m k).2 (call_coherent f m k h)
    exact ⟨by simp [callAll, call_val f m k h, this.1], this.2⟩

/-- `_update_etree` as written: `cache_clear()` and then the memoised lookups -/
def flush (f : κ → ν) (_m : Memo κ ν) (ks : List κ) : List ν × Memo κ ν := callAll f empty ks

/-- C16 (cache): whatever an earlier conversion left in the cache, a flush returns exactly the uncached values -/
theorem flush_history_free (f : κ → ν) (m : Memo κ ν) (ks : List κ) : (flush f m ks).1 = ks.map f :=
  (callAll_val f empty ks (coherent_empty f)).1

/-- a *process*: documents converted one after another, the cache threaded through; document `d` computes its
    inherited contexts with its own function `inh d` (its own tree) over its own keys and finishes with `fin d` -/
def batch {δ ο : Type} (inh : δ → κ → ν) (keys : δ → List κ) (fin : δ → List ν → ο) :
    Memo κ ν → List δ → List ο
  | _, [] => []
  | m, d :: ds =>
    let r := flush (inh d) m (keys d)
    fin d r.1 :: batch inh keys fin r.2 ds

/-- C16 (batch): every document's result in a batch is its result when converted alone, whatever was converted
    before it and whatever the cache held at process start; hence any permutation of the batch permutes the results -/
theorem batch_is_pointwise {δ ο : Type} (inh : δ → κ → ν) (keys : δ → List κ) (fin : δ → List ν → ο)
    (m : Memo κ ν) (ds : List δ) :
    batch inh keys fin m ds = ds.map (fun d => fin d ((keys d).map (inh d))) := by
  induction ds generalizing m with
  | nil => rfl
  | cons d ds ih => simp [batch, flush_history_free, ih]

theorem batch_perm {δ ο : Type} (inh : δ → κ → ν) (keys : δ → List κ) (fin : δ → List ν → ο)
    (m₁ m₂ : Memo κ ν) (ds₁ ds₂ : List δ) (h : ds₁.Perm ds₂) :
    (batch inh keys fin m₁ ds₁).Perm (batch inh keys fin m₂ ds₂) := by
  rw [batch_is_pointwise, batch_is_pointwise]; exact h.map _

/-- the same process without the clear -/
def batchNoClear {δ ο : Type} (inh : δ → κ → ν) (keys : δ → List κ) (fin : δ → List ν → ο) :
    Memo κ ν → List δ → List ο
  | _, [] => []
  | m, d :: ds =>
    let r := callAll (inh d) m (keys d)
    fin d r.1 :: batchNoClear inh keys fin r.2 ds

end Memo

/-- the clear matters: with keys that can recur across documents (e.g. a key derived from a path rather than from
    object identity) the second document's result depends on the first -/
theorem without_clear_history_matters :
    Memo.batchNoClear (κ := Nat) (ν := Nat) (fun (d : Nat) k => d + k) (fun _ => [0]) (fun _ vs => vs) Memo.empty [1, 2]
      ≠ [1, 2].map (fun d => [d + 0]) := by decide

/-- non-vacuity of `batch_is_pointwise` on the same data -/
example : Memo.batch (κ := Nat) (ν := Nat) (fun (d : Nat) k => d + k) (fun _ => [0]) (fun _ vs => vs) ⟨[(0, 99)]⟩ [1, 2]
    = [[1], [2]] := by decide

/-! ## (3) attribute order -/

theorem lookup_perm {l₁ l₂ : List (String × String)} (h : l₁.Perm l₂) (nd : (l₁.map (·.1)).Nodup) (k : String) :
    l₁.lookup k = l₂.lookup k := by
  revert nd
  induction h with
  | nil => intro _; rfl
  | cons x _ ih =>
    intro nd
    obtain ⟨xk, xv⟩ := x
    have nd' := (List.nodup_cons.mp nd).2
    simp only [List.lookup_cons]; split
    · rfl
    · exact ih nd'
  | swap x y l =>
    intro nd
    obtain ⟨xk, xv⟩ := x
    obtain ⟨yk, yv⟩ := y
    have hne : ¬ yk = xk := by
      have := (List.nodup_cons.mp nd).1
      simp only [List.map_cons, List.mem_cons, not_or] at this
      exact this.1
    simp only [List.lookup_cons]
    by_cases h1 : k == yk <;> by_cases h2 : k == xk <;> simp [h1, h2]
    have e1 : k = yk := by simpa using h1
    have e2 : k = xk := by simpa using h2
    exact absurd (e1.symm.trans e2) hne
  | trans h₁ _ ih₁ ih₂ =>
    intro nd
    rw [ih₁ nd, ih₂ ((h₁.map _).nodup_iff.mp nd)]

theorem le_total_str (a b : String) : (decide (a ≤ b) || decide (b ≤ a)) = true := by
  simp only [Bool.or_eq_true, decide_eq_true_eq]; exact String.le_total a b

/-- `sorted(attrib.keys())` does not depend on the order of the attributes -/
theorem sortedKeys_perm {a₁ a₂ : Attrs} (h : a₁.Perm a₂) : Cascade.sortedKeys a₁ = Cascade.sortedKeys a₂ := by
  unfold Cascade.sortedKeys
  have le_trans' : ∀ a b c : String, decide (a ≤ b) = true → decide (b ≤ c) = true → decide (a ≤ c) = true := by
    intro a b c h1 h2; simp only [decide_eq_true_eq] at *; exact String.le_trans h1 h2
  have le_total' : ∀ a b : String, (decide (a ≤ b) || decide (b ≤ a)) = true := le_total_str
  have hp : ((a₁.map (·.1)).mergeSort (fun x y => decide (x ≤ y))).Perm ((a₂.map (·.1)).mergeSort (fun x y => decide (x ≤ y))) :=
    (List.mergeSort_perm _ _).trans ((h.map _).trans (List.mergeSort_perm _ _).symm)
  have s1 := List.pairwise_mergeSort le_trans' le_total' (a₁.map (·.1))
  have s2 := List.pairwise_mergeSort le_trans' le_total' (a₂.map (·.1))
  exact hp.eq_of_pairwise (fun a b _ _ h1 h2 => by
    simp only [decide_eq_true_eq] at h1 h2; exact String.le_antisymm h1 h2) s1 s2

end PicoSVG.Props.C16

namespace PicoSVG.Props.C16
open PicoSVG

theorem getKV_eq_lookup (m : List (String × String)) (k : String) : Style.getKV m k = m.lookup k := by
  induction m with
  | nil => rfl
  | cons x xs ih =>
    obtain ⟨a, b⟩ := x
    unfold Style.getKV at ih ⊢
    simp only [List.find?_cons, List.lookup_cons]
    by_cases h : a = k
    · subst h; simp
    · have h1 : (a == k) = false := by simpa using h
      have h2 : (k == a) = false := by simpa using fun e : k = a => h e.symm
      simp [h1, h2, ih]

theorem get_perm {a₁ a₂ : Attrs} (h : a₁.Perm a₂) (nd : (a₁.map (·.1)).Nodup) (n : String) :
    Attrs.get a₁ n = Attrs.get a₂ n := by
  unfold Attrs.get; rw [getKV_eq_lookup, getKV_eq_lookup]; exact lookup_perm h nd n

theorem has_perm {a₁ a₂ : Attrs} (h : a₁.Perm a₂) (n : String) : Attrs.has a₁ n = Attrs.has a₂ n := by
  unfold Attrs.has; exact h.any_eq

theorem applyHandler_congr {a₁ a₂ : Attrs} (hg : ∀ n, Attrs.get a₁ n = Attrs.get a₂ n)
    (hh : ∀ n, Attrs.has a₁ n = Attrs.has a₂ n) (kind : String) (c : Attrs) (name : String) :
    Cascade.applyHandler kind a₁ c name = Cascade.applyHandler kind a₂ c name := by
  unfold Cascade.applyHandler; simp only [hg, hh]

/-- C16 (attribute order): the attributes an element inherits do not depend on the order in which the inherited
    context (or the ancestor's attribute list) stores them -/
theorem inheritAttrib_perm {a₁ a₂ : Attrs} (h : a₁.Perm a₂) (nd : (a₁.map (·.1)).Nodup)
    (childTag : String) (child : Attrs) (skipUnhandled : Bool) (skips : List String) :
    Cascade.inheritAttrib a₁ childTag child skipUnhandled skips
      = Cascade.inheritAttrib a₂ childTag child skipUnhandled skips := by
  unfold Cascade.inheritAttrib
  rw [sortedKeys_perm h]
  simp only [applyHandler_congr (get_perm h nd) (has_perm h)]

/-- C16: what an element hands down to its children (`_attrib_to_pass_on`) does not depend on the order in which its own
    attributes are written, nor on the order in which the context it received stores them -/
theorem attribToPassOn_perm {cur₁ cur₂ el₁ el₂ : Attrs} (hc : cur₁.Perm cur₂) (he : el₁.Perm el₂)
    (ndc : (cur₁.map (·.1)).Nodup) (nde : (el₁.map (·.1)).Nodup) :
    Cascade.attribToPassOn cur₁ el₁ = Cascade.attribToPassOn cur₂ el₂ := by
  unfold Cascade.attribToPassOn
  rw [inheritAttrib_perm he nde]
  congr 1
  funext a
  exact inheritAttrib_perm hc ndc _ _ _ _


theorem setKV_keys (m : List (String × String)) (k v : String) :
    (Style.setKV m k v).map (·.1) = if m.any (·.1 == k) then m.map (·.1) else m.map (·.1) ++ [k] := by
  unfold Style.setKV
  split
  · simp only [List.map_map]
    congr 1
    funext x
    obtain ⟨a, b⟩ := x
    simp only [Function.comp]
    split <;> rfl
  · simp

theorem setKV_nodup (m : List (String × String)) (k v : String) (nd : (m.map (·.1)).Nodup) :
    ((Style.setKV m k v).map (·.1)).Nodup := by
  rw [setKV_keys]
  split
  · exact nd
  · rename_i h
    rw [List.nodup_append]
    refine ⟨nd, by simp, ?_⟩
    intro a ha b hb
    simp only [List.mem_singleton] at hb
    subst hb
    intro hab
    subst hab
    apply h
    obtain ⟨x, hx, e⟩ := List.mem_map.mp ha
    exact List.any_eq_true.mpr ⟨x, hx, by simp [e]⟩

theorem setKV_perm {m₁ m₂ : List (String × String)} (h : m₁.Perm m₂) (k v : String) :
    (Style.setKV m₁ k v).Perm (Style.setKV m₂ k v) := by
  unfold Style.setKV
  rw [h.any_eq]
  split
  · exact h.map _
  · exact h.append_right _

theorem foldl_setKV_perm (as : List (String × String)) {m₁ m₂ : List (String × String)} (h : m₁.Perm m₂)
    (nd : (m₁.map (·.1)).Nodup) :
    (as.foldl (fun m (kv : String × String) => Attrs.set m kv.1 kv.2) m₁).Perm
      (as.foldl (fun m (kv : String × String) => Attrs.set m kv.1 kv.2) m₂) ∧
    ((as.foldl (fun m (kv : String × String) => Attrs.set m kv.1 kv.2) m₁).map (·.1)).Nodup := by
  induction as generalizing m₁ m₂ with
  | nil => exact ⟨h, nd⟩
  | cons a as ih =>
    simp only [List.foldl_cons]
    exact ih (setKV_perm h a.1 a.2) (setKV_nodup m₁ a.1 a.2 nd)

theorem del_perm {m₁ m₂ : Attrs} (h : m₁.Perm m₂) (k : String) : (Attrs.del m₁ k).Perm (Attrs.del m₂ k) := h.filter _

theorem del_nodup (m : Attrs) (k : String) (nd : (m.map (·.1)).Nodup) : ((Attrs.del m k).map (·.1)).Nodup := by
  unfold Attrs.del
  exact nd.sublist ((List.filter_sublist).map _)

/-- C16: what an element hands down to its children does not depend on the order in which its attributes are written —
    also when it carries a `style` attribute, whose declarations are spelled out first (`_attrib_to_pass_on` after
    fix a1858b9): two elements with the same tag whose attribute lists are permutations of each other pass on the same
    context -/
theorem attribToPassOnEl_perm (cur : Attrs) (u₁ u₂ : Nat) (t : String) (a₁ a₂ : Attrs) (c₁ c₂ : List Node)
    (h : a₁.Perm a₂) (nd : (a₁.map (·.1)).Nodup) (ndc : (cur.map (·.1)).Nodup) :
    Cascade.attribToPassOnEl cur (.elem u₁ t a₁ c₁) = Cascade.attribToPassOnEl cur (.elem u₂ t a₂ c₂) := by
  unfold Cascade.attribToPassOnEl Cascade.ownAttribForPassOn
  simp only [Node.attrs, Node.tag]
  have hs : Attrs.get a₁ "style" = Attrs.get a₂ "style" := get_perm h nd "style"
  rw [← hs]
  cases hst : Attrs.get a₁ "style" with
  | none =>
    simp only [bind, Except.bind, pure, Except.pure]
    exact attribToPassOn_perm (List.Perm.refl cur) h ndc nd
  | some st =>
    simp only
    by_cases hsh : (List.lookup (Node.stripNs t) Gen.shapeFields).isSome = true
    · simp only [hsh, if_true, bind, Except.bind, pure, Except.pure]
      exact attribToPassOn_perm (List.Perm.refl cur) h ndc nd
    · simp only [hsh, Bool.false_eq_true, if_false]
      cases hp : Style.parseDecls (fun _ => true) (fun _ => true) st with
      | error e => simp [bind, Except.bind]
      | ok r =>
        obtain ⟨assigned, rest⟩ := r
        simp only [bind, Except.bind, pure, Except.pure]
        obtain ⟨hperm, hnd⟩ := foldl_setKV_perm assigned (del_perm h "style") (del_nodup a₁ "style" nd)
        exact attribToPassOn_perm (List.Perm.refl cur) hperm ndc hnd

end PicoSVG.Props.C16
