/-
  C10 — Path data parses per the SVG grammar or is rejected; printing round-trips.
  Property theorems (first part: what the tokenizer can and cannot do to the argument text).
-/
import PicoSVG.Proofs.PathLex
import PicoSVG.Spec.PathGrammar
import PicoSVG.Proofs.LexP
import PicoSVG.Proofs.SepP
import PicoSVG.Proofs.NumAgree
import PicoSVG.Proofs.SepAgree
import PicoSVG.Proofs.TokAgree

set_option linter.unusedSectionVars false
namespace PicoSVG.C10
open PicoSVG PathLex

/-- C10-a: a float token returned by the tokenizer is a prefix of the text it was matched
    against, and the remainder is what follows it — nothing is skipped or invented. -/
theorem matchFloat_split (cs lex rest : List Char) (h : matchFloat cs = some (lex, rest)) :
    cs = lex ++ rest ∧ lex ≠ [] := PathLex.matchFloat_split cs lex rest h

/-- C10-c: the peel loop covers the argument text exactly: the lexemes it returns, concatenated
    in order, are the separator-free tokens concatenated in order -/
theorem peel_covers (isArc : Bool) (fuel i : Nat) (toks : List (List Char)) (args : List Arg)
    (h : peel isArc fuel i toks = .ok args) (hf : (toks.map List.length).sum < fuel) :
    (args.map argText).flatten = toks.flatten := PathLex.peel_covers isArc fuel i toks args h hf

/-- C10-d: exploding keeps the arguments in order and renames only the commands after the first
    group, per the implicit-repeat table (M→L, m→l) -/
theorem explode_flatten (k : Nat) (hk : 0 < k) (cmd : Char) (args : List Arg)
    (h : args.length % k = 0) :
    ((explode k cmd args).map (·.2)).flatten = args ∧
    ∀ e ∈ explode k cmd args, e.2.length = k ∧ (e.1 = cmd ∨ e.1 = implicitRepeat cmd) :=
  PathLex.explode_flatten k hk cmd args h

/-- C10-f: argument tokens without separators, each followed by one `,` or space (how the printer joins them), are split
    back into exactly those tokens, in order -/
theorem splitSep_join (ts : List (List Char × Char))
    (h : ∀ p ∈ ts, p.1 ≠ [] ∧ p.1.all (fun c => !isSep c) = true ∧ isSep p.2 = true) :
    splitSep (SepP.joinToks ts) = ts.map (·.1) := SepP.splitSep_join ts h

/-- C10-e (the converse of C10-a): every well-formed decimal number — sign, digits, optional fraction, optional exponent —
    followed by text that cannot continue it (end, separator, command letter) is matched in full, as one token: what the
    printer writes as a number is read back as that number's lexeme -/
theorem matchFloat_complete (n : LexP.NumLex) (rest : List Char) (hn : n.ok = true) (hr : LexP.restOK rest = true) :
    matchFloat (n.chars ++ rest) = some (n.chars, rest) := LexP.matchFloat_complete n rest hn hr


/-- C10-g (tokenizer = grammar, at the level of one number): whatever `_FLOAT_RE.match` takes from the argument text is exactly
    the `number` production of the SVG path grammar under maximal munch (Spec/PathGrammar.lean) — same lexeme, same remainder —
    unless the match is a bare integer (no fraction, no exponent) followed by a dot (`1.`, `1.e5`: the grammar's trailing-dot forms, on which the tokenizer stops short and
    the conversion then raises ValueError instead of reading a different number) -/
theorem matchFloat_is_grammar_number (cs l r : List Char) (h : matchFloat cs = some (l, r))
    (hr : NumAgree.startsDot r = false ∨ NumAgree.hasMark l = true) : Spec.PathGrammar.number cs = some (l, r) :=
  NumAgree.matchFloat_is_grammar_number cs l r h hr

/-- … wherever the grammar reads a number the tokenizer finds a token too: a conforming number is never skipped -/
theorem number_some_matchFloat_some (cs : List Char) (h : (Spec.PathGrammar.number cs).isSome = true) :
    (matchFloat cs).isSome = true := NumAgree.number_some_matchFloat_some cs h

/-- … and the arc flag scanner `^[01]` is the grammar's `flag` production -/
theorem matchBool_is_grammar_flag (cs : List Char) : matchBool cs = Spec.PathGrammar.flag cs :=
  NumAgree.matchBool_eq_flag cs

/-- C10-h (tokenizer = grammar, separators): on a separator run as path data writes it — spaces, at most one comma, spaces,
    then something that is neither a separator nor whitespace — the grammar's optional `comma-wsp` and the tokenizer's
    `[, ]+` split skip exactly the same characters, so the next number starts at the same place for both (with C10-g: same
    numbers at the same places; runs with two commas, tabs or newlines are where the code raises ValueError or the grammar
    rejects) -/
theorem optCommaWsp_eq_split (cs : List Char) (h : SepAgree.sepRunOK cs = true) :
    Spec.PathGrammar.optCommaWsp cs = cs.dropWhile isSep := SepAgree.optCommaWsp_eq_dropSep cs h

/-- C10-i (tokenizer = grammar, `_parse_args` of a command without flags): when it returns, its arguments are, in order,
    exactly the lexemes the grammar's `number` production reads off the separator-free runs of the argument text, applied over
    and over (`TokAgree.gscanAll`: the peel loop with `number` in place of the regular expression) — for every argument text,
    by induction over the loop with the fuel the code gives it.  The one place where the two scanners differ, a bare integer
    in front of a dot (`1.`), never gets through: the next match fails and the code raises ValueError
    (`bare_integer_before_dot_is_rejected`). -/
theorem parseArgs_reads_grammar_numbers (cmd : Char) (raw : List Char) (args : List Arg)
    (hc : (cmd == 'a' || cmd == 'A') = false) (h : parseArgs cmd raw = .ok args) :
    ∃ ls, TokAgree.gscanAll ((splitSep raw).foldl (fun a t => a + t.length) 0 + 1) (splitSep raw) = some ls ∧
      args = ls.map (fun l => Arg.num (String.ofList l)) := TokAgree.parseArgs_is_grammar cmd raw args hc h

theorem bare_integer_before_dot_is_rejected (cs l r : List Char) (h : matchFloat cs = some (l, r))
    (hd : NumAgree.startsDot r = true) (hm : NumAgree.hasMark l = false) : matchFloat r = none :=
  TokAgree.bare_then_dot_fails cs l r h hd hm

/-- C10-j (wrap-around typing of `_parse_args`): whatever argument list `_parse_args` returns, its k-th entry was read as an
    arc flag (`^[01]`, converted with `int`) exactly when the command is `a`/`A` and k mod 7 is 3 or 4 — the large-arc and sweep
    slots of `_ARC_ARGUMENT_TYPES`, applied modulo the signature so that implicit repeats of an arc are typed like the first —
    and as a float lexeme otherwise; no other command ever yields a flag.  For every argument text, by induction over the
    peel loop. -/
theorem parseArgs_types_by_slot (cmd : Char) (raw : List Char) (args : List Arg) (h : parseArgs cmd raw = .ok args) :
    ∀ k (hk : k < args.length),
      (args[k]).isFlag = ((cmd == 'a' || cmd == 'A') && (k % 7 == 3 || k % 7 == 4)) :=
  PathLex.parseArgs_typing cmd raw args h

/-- non-vacuity: a two-arc argument text whose flags are glued to their neighbours parses, and is typed per slot -/
example : (match parseArgs 'a' "1 2 3 011 1 2,3,4 1,0-5.5e1".toList with | .ok l => l | .error _ => []) =
    [.num "1", .num "2", .num "3", .flag false, .flag true, .num "1", .num "1",
         .num "2", .num "3", .num "4", .flag true, .flag false, .num "-5.5e1"] := by decide +kernel

/-- C10-k (arity, whole parser): every command `parse_svg_path(s, exploded=True)` yields — for every string it accepts — carries
    exactly the number of arguments `_CMD_ARGS` gives its letter, including the commands that implicit repetition renames
    (`M`→`L`, `m`→`l`: same arity).  By an invariant over the loop across the command parts, with `check_cmd` and
    `_explode_cmd` (C10-d) per part. -/
theorem exploded_commands_have_their_arity (cs : List Char) (out : List (Char × List Arg))
    (h : parse true cs = .ok out) : ∀ e ∈ out, numArgs e.1 = some e.2.length :=
  PathLex.parse_arity cs out h

/-- non-vacuity: an implicit lineto after a moveto, a relative repeat and a closepath -/
example : (match parse true "M1 2 3 4l5,6-7.5.5z".toList with | .ok l => l | .error _ => []) =
    [('M', [.num "1", .num "2"]), ('L', [.num "3", .num "4"]), ('l', [.num "5", .num "6"]),
     ('l', [.num "-7.5", .num ".5"]), ('z', [])] := by decide +kernel

/-- C10-l (arity, non-exploded): every command `parse_svg_path(s, exploded=False)` yields — for every string it accepts — has a
    letter of `_CMD_ARGS` and an argument count that is a multiple of that letter's arity (zero for `z`/`Z`): nothing
    `check_cmd` would refuse is ever handed on, so a caller may chunk the arguments by the arity without remainder. -/
theorem unexploded_commands_pass_check_cmd (cs : List Char) (out : List (Char × List Arg))
    (h : parse false cs = .ok out) : ∀ e ∈ out, PathLex.arityOK e :=
  PathLex.parse_unexploded_arity cs out h

/-- non-vacuity: the same text as above, unexploded -/
example : (match parse false "M1 2 3 4l5,6-7.5.5z".toList with | .ok l => l | .error _ => []) =
    [('M', [.num "1", .num "2", .num "3", .num "4"]), ('l', [.num "5", .num "6", .num "-7.5", .num ".5"]), ('z', [])] := by
  decide +kernel

/-! tie to the source: the regular expressions and tables the scanners stand for -/
theorem gen_cmd_re : Gen.cmdRe = ("([mzlhvcsqtaMZLHVCSQTA])", 32) := by decide
theorem gen_separator_re : Gen.separatorRe = ("[, ]+", 32) := by decide
theorem gen_float_re : Gen.floatRe =
    ("[-+]?(?:(?:[0-9]+)(?:\\.[0-9]+)?|(?:\\.[0-9]+))(?:[eE][-+]?[0-9]+)?", 32) := by decide
theorem gen_bool_re : Gen.boolRe = ("^[01]", 32) := by decide
theorem gen_arc_types : Gen.arcArgTypes =
    [("float", "floatRe"), ("float", "floatRe"), ("float", "floatRe"), ("int", "boolRe"),
     ("int", "boolRe"), ("float", "floatRe"), ("float", "floatRe")] := by decide
theorem gen_implicit_repeat : Gen.implicitRepeat = [('m', 'l'), ('M', 'L')] := by decide
/-- the command letters of `_CMD_RE` are exactly the keys of `_CMD_ARGS` -/
theorem gen_cmd_letters :
    Gen.cmdArgs.map (·.1) = "mzlhvcsqtaMZLHVCSQTA".toList := by decide

end PicoSVG.C10
