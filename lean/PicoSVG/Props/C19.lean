/-
  C19 — Clipping to the viewBox and bounding boxes are geometrically exact.
  Rectangle algebra over an ordered field (exact), the per-shape clip decision, the document
  bounding box fold; the clipped geometry itself is relative to the engine specification (C13).
-/
import PicoSVG.Model.ViewBox
import PicoSVG.Proofs.Affine
import PicoSVG.Props.C03
import Mathlib.Tactic.SplitIfs

set_option linter.unusedSectionVars false
set_option linter.unusedVariables false
namespace PicoSVG.C19
open PicoSVG

section
variable {α : Type} [Field α] [LinearOrder α] [IsStrictOrderedRing α]

/-- open interior of a rectangle with positive size -/
def inInterior (r : Rect α) (p : Pt α) : Prop :=
  r.x < p.x ∧ p.x < r.x + r.w ∧ r.y < p.y ∧ p.y < r.y + r.h

/-- closed rectangle -/
def inClosed (r : Rect α) (p : Pt α) : Prop :=
  r.x ≤ p.x ∧ p.x ≤ r.x + r.w ∧ r.y ≤ p.y ∧ p.y ≤ r.y + r.h

theorem overlap_spec (s1 e1 s2 e2 : α) :
    (maxv s1 s2 < minv e1 e2 → Rect.overlap s1 e1 s2 e2 = (maxv s1 s2, minv e1 e2)) ∧
    (¬ maxv s1 s2 < minv e1 e2 → Rect.overlap s1 e1 s2 e2 = (0, 0)) := by
  unfold Rect.overlap
  constructor
  · intro h; simp [not_le.mpr h]
  · intro h; simp [not_lt.mp h]

theorem lt_minv_iff (a x y : α) : a < minv x y ↔ a < x ∧ a < y := by
  unfold minv
  by_cases h : y < x
  · rw [if_pos h]
    exact ⟨fun h' => ⟨lt_trans h' h, h'⟩, fun h' => h'.2⟩
  · rw [if_neg h]
    exact ⟨fun h' => ⟨h', lt_of_lt_of_le h' (not_lt.mp h)⟩, fun h' => h'.1⟩
theorem maxv_lt_iff (a x y : α) : maxv x y < a ↔ x < a ∧ y < a := by
  unfold maxv
  by_cases h : x < y
  · rw [if_pos h]
    exact ⟨fun h' => ⟨lt_trans h h', h'⟩, fun h' => h'.2⟩
  · rw [if_neg h]
    exact ⟨fun h' => ⟨h', lt_of_le_of_lt (not_lt.mp h) h'⟩, fun h' => h'.1⟩

/-- the intersection when both overlaps are proper -/
theorem inter_of_lt (a b : Rect α) (hx : maxv a.x b.x < minv (a.x + a.w) (b.x + b.w))
    (hy : maxv a.y b.y < minv (a.y + a.h) (b.y + b.h)) :
    a.intersection b = some ⟨maxv a.x b.x, maxv a.y b.y,
      minv (a.x + a.w) (b.x + b.w) - maxv a.x b.x, minv (a.y + a.h) (b.y + b.h) - maxv a.y b.y⟩ := by
  unfold Rect.intersection
  rw [(overlap_spec a.x (a.x + a.w) b.x (b.x + b.w)).1 hx, (overlap_spec a.y (a.y + a.h) b.y (b.y + b.h)).1 hy]
  have hbx : (maxv a.x b.x != minv (a.x + a.w) (b.x + b.w)) = true := by simp [ne_of_lt hx]
  have hby : (maxv a.y b.y != minv (a.y + a.h) (b.y + b.h)) = true := by simp [ne_of_lt hy]
  simp only [hbx, hby, Bool.and_self, if_true]

theorem inter_none_of_not_lt (a b : Rect α)
    (h : ¬ maxv a.x b.x < minv (a.x + a.w) (b.x + b.w) ∨ ¬ maxv a.y b.y < minv (a.y + a.h) (b.y + b.h)) :
    a.intersection b = none := by
  unfold Rect.intersection
  rcases h with h | h
  · rw [(overlap_spec a.x (a.x + a.w) b.x (b.x + b.w)).2 h]; simp
  · rw [(overlap_spec a.y (a.y + a.h) b.y (b.y + b.h)).2 h]; simp

/-- C19-1: a point lies in the open interiors of both rectangles iff the intersection exists and
    the point lies in its open interior -/
theorem rect_inter_spec (a b : Rect α) (p : Pt α) :
    (inInterior a p ∧ inInterior b p) ↔ ∃ r, a.intersection b = some r ∧ inInterior r p := by
  constructor
  · rintro ⟨⟨ha1, ha2, ha3, ha4⟩, ⟨hb1, hb2, hb3, hb4⟩⟩
    have hx1 : maxv a.x b.x < p.x := (maxv_lt_iff _ _ _).mpr ⟨ha1, hb1⟩
    have hx2 : p.x < minv (a.x + a.w) (b.x + b.w) := (lt_minv_iff _ _ _).mpr ⟨ha2, hb2⟩
    have hy1 : maxv a.y b.y < p.y := (maxv_lt_iff _ _ _).mpr ⟨ha3, hb3⟩
    have hy2 : p.y < minv (a.y + a.h) (b.y + b.h) := (lt_minv_iff _ _ _).mpr ⟨ha4, hb4⟩
    refine ⟨_, inter_of_lt a b (lt_trans hx1 hx2) (lt_trans hy1 hy2), ?_⟩
    unfold inInterior
    simp only
    refine ⟨hx1, by linarith, hy1, by linarith⟩
  · rintro ⟨r, hr, hin⟩
    by_cases hx : maxv a.x b.x < minv (a.x + a.w) (b.x + b.w)
    · by_cases hy : maxv a.y b.y < minv (a.y + a.h) (b.y + b.h)
      · rw [inter_of_lt a b hx hy] at hr
        injection hr with hr; subst hr
        unfold inInterior at hin ⊢
        simp only at hin
        obtain ⟨h1, h2, h3, h4⟩ := hin
        have h2' : p.x < minv (a.x + a.w) (b.x + b.w) := by linarith
        have h4' : p.y < minv (a.y + a.h) (b.y + b.h) := by linarith
        obtain ⟨q1, q2⟩ := (maxv_lt_iff _ _ _).mp h1
        obtain ⟨q3, q4⟩ := (lt_minv_iff _ _ _).mp h2'
        obtain ⟨q5, q6⟩ := (maxv_lt_iff _ _ _).mp h3
        obtain ⟨q7, q8⟩ := (lt_minv_iff _ _ _).mp h4'
        exact ⟨⟨q1, q3, q5, q7⟩, ⟨q2, q4, q6, q8⟩⟩
      · rw [inter_none_of_not_lt a b (Or.inr hy)] at hr; exact absurd hr (by simp)
    · rw [inter_none_of_not_lt a b (Or.inl hx)] at hr; exact absurd hr (by simp)

/-- C19-2: no intersection is reported exactly when the open interiors are disjoint
    (touching or separated boxes; shapes entirely outside the viewBox disappear) -/
theorem rect_inter_none (a b : Rect α) :
    a.intersection b = none ↔ ∀ p, ¬ (inInterior a p ∧ inInterior b p) := by
  constructor
  · intro h p hp
    obtain ⟨r, hr, _⟩ := (rect_inter_spec a b p).mp hp
    rw [h] at hr; exact absurd hr (by simp)
  · intro h
    by_cases hx : maxv a.x b.x < minv (a.x + a.w) (b.x + b.w)
    · by_cases hy : maxv a.y b.y < minv (a.y + a.h) (b.y + b.h)
      · exfalso
        let p : Pt α := ⟨(maxv a.x b.x + minv (a.x + a.w) (b.x + b.w)) / 2,
                          (maxv a.y b.y + minv (a.y + a.h) (b.y + b.h)) / 2⟩
        apply h p
        apply (rect_inter_spec a b p).mpr
        refine ⟨_, inter_of_lt a b hx hy, ?_⟩
        unfold inInterior
        simp only [p]
        refine ⟨by linarith, by linarith, by linarith, by linarith⟩
      · exact inter_none_of_not_lt a b (Or.inr hy)
    · exact inter_none_of_not_lt a b (Or.inl hx)

/-- C19-3: the union box contains both boxes (closed), for boxes with non-negative sizes -/
theorem rect_union_contains (a b : Rect α) (p : Pt α) (ha : 0 ≤ a.w ∧ 0 ≤ a.h) (hb : 0 ≤ b.w ∧ 0 ≤ b.h) :
    (inClosed a p ∨ inClosed b p) → inClosed (a.union b) p := by
  unfold inClosed Rect.union Rect.xMax Rect.yMax
  simp only
  have h1 := minv_le_left a.x b.x
  have h2 := minv_le_right a.x b.x
  have h3 := minv_le_left a.y b.y
  have h4 := minv_le_right a.y b.y
  have h5 := le_maxv_left (a.x + a.w) (b.x + b.w)
  have h6 := le_maxv_right (a.x + a.w) (b.x + b.w)
  have h7 := le_maxv_left (a.y + a.h) (b.y + b.h)
  have h8 := le_maxv_right (a.y + a.h) (b.y + b.h)
  rintro (⟨q1, q2, q3, q4⟩ | ⟨q1, q2, q3, q4⟩) <;> refine ⟨?_, ?_, ?_, ?_⟩ <;> linarith

/-- C19-4: … and it is the SMALLEST such box: each of its four sides is a side of a or of b -/
theorem rect_union_tight (a b : Rect α) :
    ((a.union b).x = a.x ∨ (a.union b).x = b.x) ∧ ((a.union b).y = a.y ∨ (a.union b).y = b.y) ∧
    ((a.union b).x + (a.union b).w = a.x + a.w ∨ (a.union b).x + (a.union b).w = b.x + b.w) ∧
    ((a.union b).y + (a.union b).h = a.y + a.h ∨ (a.union b).y + (a.union b).h = b.y + b.h) := by
  unfold Rect.union Rect.xMax Rect.yMax
  simp only [add_sub_cancel]
  refine ⟨?_, ?_, ?_, ?_⟩
  · unfold minv; split_ifs <;> simp
  · unfold minv; split_ifs <;> simp
  · unfold maxv; split_ifs <;> simp
  · unfold maxv; split_ifs <;> simp

/-- C19-5: the document bounding box (fold of unions) contains every shape's box -/
theorem docBBox_contains (boxes : List (Rect α)) (hpos : ∀ r ∈ boxes, 0 ≤ r.w ∧ 0 ≤ r.h)
    (bb : Rect α) (h : docBBox boxes = some bb) :
    ∀ r ∈ boxes, ∀ p, inClosed r p → inClosed bb p := by
  cases boxes with
  | nil => simp [docBBox] at h
  | cons r0 rs =>
    simp only [docBBox, Option.some.injEq] at h
    subst h
    -- generalise the accumulator
    have key : ∀ (rs : List (Rect α)) (acc : Rect α), (0 ≤ acc.w ∧ 0 ≤ acc.h) →
        (∀ r ∈ rs, 0 ≤ r.w ∧ 0 ≤ r.h) →
        (∀ p, inClosed acc p → inClosed (rs.foldl Rect.union acc) p) ∧
        (∀ r ∈ rs, ∀ p, inClosed r p → inClosed (rs.foldl Rect.union acc) p) := by
      intro rs
      induction rs with
      | nil => intro acc _ _; exact ⟨fun p hp => hp, fun r hr => absurd hr (by simp)⟩
      | cons r1 rs ih =>
        intro acc hacc hrs
        have hr1 := hrs r1 (by simp)
        have hu : 0 ≤ (acc.union r1).w ∧ 0 ≤ (acc.union r1).h := by
          unfold Rect.union Rect.xMax Rect.yMax
          simp only
          have h1 := minv_le_left acc.x r1.x
          have h3 := minv_le_left acc.y r1.y
          have h5 := le_maxv_left (acc.x + acc.w) (r1.x + r1.w)
          have h7 := le_maxv_left (acc.y + acc.h) (r1.y + r1.h)
          constructor <;> linarith [hacc.1, hacc.2]
        obtain ⟨i1, i2⟩ := ih (acc.union r1) hu (fun r hr => hrs r (by simp [hr]))
        simp only [List.foldl_cons]
        constructor
        · intro p hp
          exact i1 p (rect_union_contains acc r1 p hacc hr1 (Or.inl hp))
        · intro r hr p hp
          simp only [List.mem_cons] at hr
          rcases hr with hr | hr
          · subst hr; exact i1 p (rect_union_contains acc r p hacc hr1 (Or.inr hp))
          · exact i2 r hr p hp
    obtain ⟨k1, k2⟩ := key rs r0 (hpos r0 (by simp)) (fun r hr => hpos r (by simp [hr]))
    intro r hr p hp
    simp only [List.mem_cons] at hr
    rcases hr with hr | hr
    · subst hr; exact k1 p hp
    · exact k2 r hr p hp

/-- C19-6: the per-shape decision of `clip_to_viewbox`: dropped ⇔ the shape's box and the viewBox
    have disjoint open interiors; otherwise the clip rectangle is exactly their intersection,
    and the shape is left untouched exactly when its box already equals that intersection -/
theorem clipDecision_spec (vb bbox : Rect α) :
    (clipDecision vb bbox = .drop ↔ ∀ p, ¬ (inInterior vb p ∧ inInterior bbox p)) ∧
    (∀ r, clipDecision vb bbox = .clip r → vb.intersection bbox = some r ∧ bbox ≠ r) ∧
    (clipDecision vb bbox = .keep → vb.intersection bbox = some bbox) := by
  unfold clipDecision
  refine ⟨?_, ?_, ?_⟩
  · rw [← rect_inter_none]
    cases h : vb.intersection bbox with
    | none => simp
    | some r => simp only [reduceCtorEq, iff_false]; split <;> simp
  · intro r
    cases h : vb.intersection bbox with
    | none => simp
    | some r' =>
      simp only
      split
      · simp
      · rename_i hne
        intro heq
        injection heq with heq; subst heq
        refine ⟨rfl, ?_⟩
        intro hb; apply hne; subst hb
        simp [BEq.beq]
  · cases h : vb.intersection bbox with
    | none => simp
    | some r' =>
      simp only
      split
      · rename_i heq
        intro _
        have : bbox = r' := by
          simp only [BEq.beq, Bool.and_eq_true, decide_eq_true_eq] at heq
          obtain ⟨⟨⟨h1, h2⟩, h3⟩, h4⟩ := heq
          cases bbox; cases r'; simp_all
        rw [this]
      · simp

/-- C19 (the bounding-box shortcut is exact): `clip_to_viewbox` never looks at the viewBox itself when it cuts a shape — it drops
    the shape when its bounding box misses the viewBox, leaves it alone when the box lies inside, and otherwise intersects it with
    the rectangle `bbox ∩ viewBox`.  For any region `S` (the shape's open interior) that lies inside the bounding box this is the
    same as intersecting with the viewBox: dropped shapes have no point in the viewBox, untouched shapes lie inside it, and a cut
    shape keeps exactly its points inside the viewBox. -/
theorem clip_decision_exact (vb bbox : Rect α) (S : Pt α → Prop) (hS : ∀ p, S p → inInterior bbox p) :
    (clipDecision vb bbox = .drop → ∀ p, ¬ (S p ∧ inInterior vb p)) ∧
    (∀ r, clipDecision vb bbox = .clip r → ∀ p, (S p ∧ inInterior r p) ↔ (S p ∧ inInterior vb p)) ∧
    (clipDecision vb bbox = .keep → ∀ p, S p → inInterior vb p) := by
  obtain ⟨h1, h2, h3⟩ := clipDecision_spec vb bbox
  refine ⟨?_, ?_, ?_⟩
  · intro hd p ⟨hs, hv⟩
    exact (h1.mp hd) p ⟨hv, hS p hs⟩
  · intro r hr p
    obtain ⟨hi, _⟩ := h2 r hr
    constructor
    · rintro ⟨hs, hin⟩
      have := (rect_inter_spec vb bbox p).mpr ⟨r, hi, hin⟩
      exact ⟨hs, this.1⟩
    · rintro ⟨hs, hv⟩
      obtain ⟨r', hr', hin⟩ := (rect_inter_spec vb bbox p).mp ⟨hv, hS p hs⟩
      rw [hi] at hr'; injection hr' with e; subst e
      exact ⟨hs, hin⟩
  · intro hk p hs
    have hi := h3 hk
    have := (rect_inter_spec vb bbox p).mpr ⟨bbox, hi, hS p hs⟩
    exact this.1

end
open PicoSVG.Spec PicoSVG.PathOps in
section
variable {α : Type} [Field α] [LinearOrder α] [IsStrictOrderedRing α] {P : Type}

/-- C19 (the clipped geometry): for a shape that `clip_to_viewbox` cuts, the path Skia returns for
    `intersection((shape, rect(bbox ∩ viewBox)))` covers — relative to the engine specification, at generic points — exactly
    the shape's points inside the viewBox: the shortcut through the bounding box loses nothing and keeps nothing extra. -/
theorem clip_region_exact (E : Engine P α) (interior : P → Region α) (iAs : FillRule → P → Region α)
    (G : Pt α → Prop) (S : EngineSpec E interior iAs G)
    (vb bbox r : Rect α) (hdec : clipDecision vb bbox = .clip r)
    (shape rect : List (Cmd α)) (rule : FillRule) (res : P)
    (h : doPathopP E .intersection [shape, rect] [rule, .nonzero] = .ok (some res)) :
    ∃ b0 b1, E.ofCmds shape rule = .ok b0 ∧ E.ofCmds rect .nonzero = .ok b1 ∧
      ((∀ p, interior b0 p → inInterior bbox p) → (∀ p, interior b1 p ↔ inInterior r p) →
        ∀ p, G p → (interior res p ↔ interior b0 p ∧ inInterior vb p)) := by
  obtain ⟨b0, bs, hb0, hbuilt, hint⟩ := Props.C03.clipped_geometry E interior iAs G S shape [rect] rule [.nonzero] res h
  -- the one clip operand
  cases hbuilt with
  | cons hb1 hrest =>
    cases hrest
    rename_i b1
    refine ⟨b0, b1, hb0, hb1, ?_⟩
    intro hS hR p hp
    have h1 := (hint p hp).1
    rw [h1]
    have hex := (clip_decision_exact vb bbox (interior b0) hS).2.1 r hdec p
    constructor
    · rintro ⟨hs, hall⟩
      have hb : interior b1 p := hall b1 (List.mem_singleton.mpr rfl)
      exact hex.mp ⟨hs, (hR p).mp hb⟩
    · rintro ⟨hs, hv⟩
      obtain ⟨_, hin⟩ := hex.mpr ⟨hs, hv⟩
      exact ⟨hs, fun b hb => by rw [List.mem_singleton.mp hb]; exact (hR p).mpr hin⟩
end

end PicoSVG.C19
