/-
  C06 — rewritten gradients assign the same colour to every point of their shapes.

  A gradient assigns a colour to a user-space point through a parameter computed in *gradient space*: the point is
  pulled back through the gradient's effective transform and compared with the gradient's coordinates (SVG 1.1 §13.2).
  Each rewrite of picosvg changes coordinates and/or transform; proved here (exact arithmetic, any ordered field) is that
  every one of them leaves the parameter of every user-space point unchanged:
  * `bake_ctm`: when a shape is transformed by `T`, its gradient gets `compose_ltr((gradientTransform, T))`
    (`_transformed_gradient`): a gradient-space point `x` that used to land on `q` now lands on `T q` — the transformed
    shape's point carries the colour its pre-image had;
  * `bbox_units`: turning objectBoundingBox units into user space is `compose_ltr((gradientTransform, unit square → bbox))`
    (`as_user_space_units`): gradient space is mapped by the gradientTransform first and then onto the bounding box,
    whose corners are the images of (0,0) and (1,1);
  * `fold_translation`: when the translation part `d` of the transform is folded into the coordinates
    (`_apply_gradient_translation`: transform `s = compose_ltr((translate d, s'))`, new coordinates shifted by `d`, new
    transform `s'`), every gradient-space point `x` and its shifted twin `x + d` land on the same user-space point, and
    the linear parameter (`linT_shift`) and the radial circle family (`onRadial_shift`) are invariant under shifting
    coordinates and point together — so the parameter of that user-space point is the same before and after;
  * `bake_then_fold`: the composition of the two, as `_transformed_gradient` performs them.
  Rounding of the rewritten numbers to 6 decimals is bounded by `Props.C01.rounding_half_unit`.  Template (href)
  inheritance and id renaming are tied by the pipeline correspondence; the colour itself is judged by the renderer's
  gradient evaluator on every run.
-/
import PicoSVG.Props.C11
import Mathlib.Tactic.FieldSimp
import PicoSVG.Proofs.TmplP

set_option linter.unusedSectionVars false

namespace PicoSVG.Props.C06
open PicoSVG

variable {α : Type} [Field α] [LinearOrder α] [IsStrictOrderedRing α]

def shift (d x : Pt α) : Pt α := ⟨x.x + d.x, x.y + d.y⟩

/-- parameter of a linear gradient with vector p1 → p2 at the gradient-space point x -/
def linT (p1 p2 x : Pt α) : α :=
  ((x.x - p1.x) * (p2.x - p1.x) + (x.y - p1.y) * (p2.y - p1.y)) / ((p2.x - p1.x) ^ 2 + (p2.y - p1.y) ^ 2)

/-- x lies on the circle of parameter t of a radial gradient with centre c, focal point f, radius r (fr = 0):
    centre f + t (c - f), radius t r -/
def OnRadial (c f : Pt α) (r t : α) (x : Pt α) : Prop :=
  (x.x - (f.x + t * (c.x - f.x))) ^ 2 + (x.y - (f.y + t * (c.y - f.y))) ^ 2 = (t * r) ^ 2

theorem linT_shift (d p1 p2 x : Pt α) : linT (shift d p1) (shift d p2) (shift d x) = linT p1 p2 x := by
  simp only [linT, shift]
  congr 1 <;> ring

theorem onRadial_shift (d c f : Pt α) (r t : α) (x : Pt α) :
    OnRadial (shift d c) (shift d f) r t (shift d x) ↔ OnRadial c f r t x := by
  simp only [OnRadial, shift]
  constructor <;> intro h <;> nlinarith [h]

/-- a pure translation as the code builds it -/
def translation (d : Pt α) : Aff α := (Aff.id : Aff α).matrix 1 0 0 1 d.x d.y

theorem translation_mapPt (d x : Pt α) : (translation d).mapPt x = shift d x := by
  simp [translation, Aff.matrix, Aff.mul, Aff.id, Aff.mapPt, shift]

/-- C06 (ancestor transform baked in): gradient space → user space goes through the old transform, then `T` -/
theorem bake_ctm (M T : Aff α) (x : Pt α) : (Aff.composeLtr [M, T]).mapPt x = T.mapPt (M.mapPt x) := by
  rw [C11.composeLtr_mapPt]; rfl

/-- C06 (bounding-box units): gradient space goes through the gradientTransform and then onto the bounding box; the unit
    square's corners land on the box's corners -/
theorem bbox_units (M : Aff α) (bbox : Rect α) (x : Pt α) (hb : bbox.empty = false) :
    let B := rectToRect ⟨0, 0, 1, 1⟩ bbox PAR.none
    (Aff.composeLtr [M, B]).mapPt x = B.mapPt (M.mapPt x)
    ∧ B.mapPt ⟨0, 0⟩ = ⟨bbox.x, bbox.y⟩ ∧ B.mapPt ⟨0 + 1, 0 + 1⟩ = ⟨bbox.x + bbox.w, bbox.y + bbox.h⟩ := by
  intro B
  have hu : (⟨0, 0, 1, 1⟩ : Rect α).empty = false := by
    simp [Rect.empty]
  exact ⟨bake_ctm M B x, (C11.rectToRect_none ⟨0, 0, 1, 1⟩ bbox hu hb).1, (C11.rectToRect_none ⟨0, 0, 1, 1⟩ bbox hu hb).2⟩

/-- C06 (translation folded into the coordinates): with `s = compose_ltr((translate d, s'))`, the gradient-space point
    `x` under `s` and the shifted point `x + d` under `s'` are the same user-space point, and a linear gradient whose
    vector is shifted by `d` gives the shifted point the parameter the original gave `x` -/
theorem fold_translation (d : Pt α) (s' : Aff α) (p1 p2 x : Pt α) :
    (Aff.composeLtr [translation d, s']).mapPt x = s'.mapPt (shift d x)
    ∧ linT (shift d p1) (shift d p2) (shift d x) = linT p1 p2 x := by
  refine ⟨?_, linT_shift d p1 p2 x⟩
  rw [C11.composeLtr_mapPt]
  simp only [List.foldl_cons, List.foldl_nil, translation_mapPt]

theorem fold_translation_radial (d : Pt α) (s' : Aff α) (c f : Pt α) (r t : α) (x : Pt α) :
    (Aff.composeLtr [translation d, s']).mapPt x = s'.mapPt (shift d x)
    ∧ (OnRadial (shift d c) (shift d f) r t (shift d x) ↔ OnRadial c f r t x) :=
  ⟨(fold_translation d s' c f x).1, onRadial_shift d c f r t x⟩

/-- C06: bake the shape's transform into the gradient, then fold the translation of the product `compose_ltr((M, T)) =
    compose_ltr((translate d, s'))` into the coordinates: the user-space point `T (M x)` of the transformed shape is
    `s' (x + d)`, and gets the parameter `x` had -/
theorem bake_then_fold (M T s' : Aff α) (d p1 p2 x : Pt α)
    (hdec : Aff.composeLtr [M, T] = Aff.composeLtr [translation d, s']) :
    T.mapPt (M.mapPt x) = s'.mapPt (shift d x) ∧ linT (shift d p1) (shift d p2) (shift d x) = linT p1 p2 x := by
  rw [← bake_ctm, hdec]
  exact fold_translation d s' p1 p2 x

/-- non-vacuity of the decomposition hypothesis: a scale-by-2 with translation (6, 4) is translate (3, 2) then scale 2 -/
example : Aff.composeLtr [translation (⟨3, 2⟩ : Pt ℚ), ⟨2, 0, 0, 2, 0, 0⟩] = ⟨2, 0, 0, 2, 6, 4⟩ := by
  decide +kernel

/-- C06 (href templates): when a template is inlined, every attribute the gradient set itself keeps its value, a
    coordinate / units / spread / transform field it did not set takes the template's value, and nothing else is added —
    on the model of `_apply_gradient_template` (`SvgObj.inheritFields` is the loop the model runs) -/
theorem template_inheritance (fields : List String) (tmpl a : Attrs) (k : String) :
    Attrs.get (SvgObj.inheritFields fields tmpl a) k
      = match Attrs.get a k with
        | some v => some v
        | none => if fields.contains k then Attrs.get tmpl k else none :=
  TmplP.inheritFields_get fields tmpl a k

end PicoSVG.Props.C06
