/-
  C13 — Boolean path operations compute the set operation under each operand's fill rule.
  picosvg's wrapper logic is proved RELATIVE to `Spec.EngineSpec` (the assumed behaviour of
  Skia, validated by sampling on every run).  Core Lean only.
-/
import PicoSVG.Spec.Region

set_option linter.unusedSectionVars false
set_option linter.unusedVariables false
namespace PicoSVG.C13
open PicoSVG PathOps Spec

variable {P α : Type}

/-- the operands as constructed by `skia_path`, in order, for a successful fold -/
inductive Built (E : Engine P α) : List (List (Cmd α)) → List FillRule → List P → Prop
  | nil : Built E [] [] []
  | cons {s r b ss rr bs} : E.ofCmds s r = .ok b → Built E ss rr bs → Built E (s :: ss) (r :: rr) (b :: bs)

theorem bind_ok {ε β γ : Type} {x : Except ε β} {f : β → Except ε γ} {r : γ} :
    (x >>= f) = .ok r ↔ ∃ a, x = .ok a ∧ f a = .ok r := by
  cases x <;> simp [bind, Except.bind]

/-- the fold of set combinators is pointwise: it respects equivalence of its seed at a point -/
theorem foldl_combine_congr (o : BoolOp) (rs : List (Region α)) (A B : Region α) (p : Pt α)
    (h : A p ↔ B p) : (rs.foldl (combine o) A) p ↔ (rs.foldl (combine o) B) p := by
  induction rs generalizing A B with
  | nil => simpa using h
  | cons r rs ih =>
    simp only [List.foldl_cons]
    apply ih
    cases o <;> simp [combine, h]

/-- C13-fold: the loop combines the accumulator with every further operand, in order -/
theorem goFold_interior (E : Engine P α) (interior : P → Region α) (iAs : FillRule → P → Region α)
    (G : Pt α → Prop) (S : EngineSpec E interior iAs G) (o : BoolOp) (acc res : P)
    (ss : List (List (Cmd α))) (rr : List FillRule) (hlen : ss.length = rr.length)
    (h : goFold E o acc ss rr = .ok res) :
    ∃ bs, Built E ss rr bs ∧ ∀ p, G p → (interior res p ↔ combineAll o (interior acc) (bs.map interior) p) := by
  induction ss generalizing acc rr with
  | nil =>
    cases rr with
    | nil =>
      simp only [goFold] at h
      injection h with h; subst h
      exact ⟨[], Built.nil, fun p _ => by simp [combineAll]⟩
    | cons r rr => simp at hlen
  | cons s ss ih =>
    cases rr with
    | nil => simp at hlen
    | cons r rr =>
      simp only [goFold] at h
      obtain ⟨b, hb, h⟩ := bind_ok.mp h
      obtain ⟨acc', hop, h⟩ := bind_ok.mp h
      obtain ⟨bs, hbuilt, hint⟩ := ih acc' rr (by simpa using hlen) h
      refine ⟨b :: bs, Built.cons hb hbuilt, ?_⟩
      intro p hp
      rw [hint p hp]
      simp only [combineAll, List.map_cons, List.foldl_cons]
      exact foldl_combine_congr o _ _ _ p (S.op2_spec o acc b acc' hop p hp)

/-- C13-main: for any number of operands, if every engine call behaves as `EngineSpec` says, the
    interior of the result of `_do_pathop` is the set combination (left fold: a₀ ∘ a₁ ∘ a₂ …) of the
    operands' interiors, each operand built with ITS OWN fill rule, and the result's interior is
    the same under the nonzero and the evenodd rule. -/
theorem doPathop_interior (E : Engine P α) (interior : P → Region α) (iAs : FillRule → P → Region α)
    (G : Pt α → Prop) (S : EngineSpec E interior iAs G) (o : BoolOp)
    (s0 : List (Cmd α)) (ss : List (List (Cmd α))) (r0 : FillRule) (rr : List FillRule) (res : P)
    (h : doPathopP E o (s0 :: ss) (r0 :: rr) = .ok (some res)) :
    ∃ b0 bs, E.ofCmds s0 r0 = .ok b0 ∧ Built E ss rr bs ∧
      ∀ p, G p → (interior res p ↔ combineAll o (interior b0) (bs.map interior) p) ∧
                 (iAs .nonzero res p ↔ interior res p) ∧ (iAs .evenodd res p ↔ interior res p) := by
  simp only [doPathopP] at h
  split at h
  · exact absurd h (by simp)
  · rename_i hlen
    simp only [bne_iff_ne, ne_eq, Decidable.not_not] at hlen
    obtain ⟨b0, hb0, h⟩ := bind_ok.mp h
    obtain ⟨folded, hf, h⟩ := bind_ok.mp h
    obtain ⟨res', hs, h⟩ := bind_ok.mp h
    injection h with h; injection h with h; subst h
    obtain ⟨bs, hbuilt, hint⟩ := goFold_interior E interior iAs G S o b0 folded ss rr hlen hf
    refine ⟨b0, bs, hb0, hbuilt, fun p hp => ⟨?_, S.simplify_rule_free folded res' hs p hp⟩⟩
    rw [S.simplify_spec folded res' hs p hp]
    exact hint p hp

/-- C13-single: one operand is only simplified (overlap removal under its fill rule) -/
theorem single_operand (E : Engine P α) (interior : P → Region α) (iAs : FillRule → P → Region α)
    (G : Pt α → Prop) (S : EngineSpec E interior iAs G) (o : BoolOp) (s0 : List (Cmd α)) (r0 : FillRule)
    (res : P) (h : doPathopP E o [s0] [r0] = .ok (some res)) :
    ∃ b0, E.ofCmds s0 r0 = .ok b0 ∧ ∀ p, G p → (interior res p ↔ interior b0 p) := by
  obtain ⟨b0, bs, hb0, hbuilt, hint⟩ := doPathop_interior E interior iAs G S o s0 [] r0 [] res h
  cases hbuilt
  exact ⟨b0, hb0, fun p hp => by simpa [combineAll] using (hint p hp).1⟩

/-- C13-overlaps: `remove_overlaps` keeps the interior under the given fill rule and makes it
    rule-independent -/
theorem removeOverlaps_interior (E : Engine P α) (interior : P → Region α) (iAs : FillRule → P → Region α)
    (G : Pt α → Prop) (S : EngineSpec E interior iAs G) (cmds : List (Cmd α)) (rule : FillRule) (res : P)
    (h : removeOverlapsP E cmds rule = .ok res) :
    ∃ b, E.ofCmds cmds rule = .ok b ∧ ∀ p, G p → (interior res p ↔ interior b p) ∧
      (iAs .nonzero res p ↔ interior res p) ∧ (iAs .evenodd res p ↔ interior res p) := by
  unfold removeOverlapsP at h
  obtain ⟨b, hb, h⟩ := bind_ok.mp h
  exact ⟨b, hb, fun p hp => ⟨S.simplify_spec b res h p hp, S.simplify_rule_free b res h p hp⟩⟩

/-- C13-empty: an empty operand list yields no path (Python `None`), never a made-up one -/
theorem empty_list (E : Engine P α) (o : BoolOp) (rules : List FillRule) :
    doPathopP E o [] rules = .ok none := by
  simp [doPathopP]

/-- C13-errors (a): an engine error in the first binary operation is what the wrapper returns -/
theorem op_error_propagates (E : Engine P α) (o : BoolOp) (acc b : P) (s : List (Cmd α)) (r : FillRule)
    (ss : List (List (Cmd α))) (rr : List FillRule) (e : PyErr)
    (hb : E.ofCmds s r = .ok b) (he : E.op2 o acc b = .error e) :
    goFold E o acc (s :: ss) (r :: rr) = .error e := by
  simp [goFold, hb, he, bind, Except.bind]

/-- C13-errors (b): no engine failure is swallowed — a normal return means every `skia_path`, every
    binary operation and the final simplify returned normally -/
theorem ok_means_all_ok (E : Engine P α) (o : BoolOp) (s0 : List (Cmd α)) (ss : List (List (Cmd α)))
    (r0 : FillRule) (rr : List FillRule) (res : P)
    (h : doPathopP E o (s0 :: ss) (r0 :: rr) = .ok (some res)) :
    ∃ b0 folded, E.ofCmds s0 r0 = .ok b0 ∧ goFold E o b0 ss rr = .ok folded ∧ E.simplify folded = .ok res := by
  simp only [doPathopP] at h
  split at h
  · exact absurd h (by simp)
  · obtain ⟨b0, hb0, h⟩ := bind_ok.mp h
    obtain ⟨folded, hf, h⟩ := bind_ok.mp h
    obtain ⟨res', hs, h⟩ := bind_ok.mp h
    injection h with h; injection h with h; subst h
    exact ⟨b0, folded, hb0, hf, hs⟩

end PicoSVG.C13

namespace PicoSVG.C13
open PicoSVG PathOps

/-- C13-wrappers: the shape-level `union` / `difference` interpret every operand under its
    `clip-rule`; `intersection` does too unless explicit rules are given, which are then used
    verbatim (fill-rule for a clipped shape, clip-rule for clip children) -/
theorem wrappers_rules (shapes : List (String × String)) (ex : List String) :
    wrapperRules .union shapes = shapes.map (·.2) ∧
    wrapperRules .difference shapes = shapes.map (·.2) ∧
    wrapperRules (.intersection none) shapes = shapes.map (·.2) ∧
    wrapperRules (.intersection (some ex)) shapes = ex := ⟨rfl, rfl, rfl, rfl⟩

open PicoSVG PathOps Spec in
/-- the set meaning of a left fold of differences: inside the first operand and outside every further one -/
theorem diff_all_iff (a : Region α) (bs : List (Region α)) (p : Pt α) :
    combineAll .difference a bs p ↔ a p ∧ ∀ b ∈ bs, ¬ b p := by
  unfold combineAll
  induction bs generalizing a with
  | nil => simp
  | cons b bs ih =>
    simp only [List.foldl_cons, List.mem_cons, forall_eq_or_imp]
    rw [ih]; simp only [combine]; exact and_assoc

open PicoSVG PathOps Spec in
/-- C13 (difference): the path returned for `difference((a0, a1, …), rules)` covers exactly the points inside the first
    operand under its rule and outside every other operand under theirs -/
theorem difference_geometry (E : Engine P α) (interior : P → Region α) (iAs : FillRule → P → Region α)
    (G : Pt α → Prop) (S : EngineSpec E interior iAs G)
    (s0 : List (Cmd α)) (ss : List (List (Cmd α))) (r0 : FillRule) (rr : List FillRule) (res : P)
    (h : doPathopP E .difference (s0 :: ss) (r0 :: rr) = .ok (some res)) :
    ∃ b0 bs, E.ofCmds s0 r0 = .ok b0 ∧ Built E ss rr bs ∧
      ∀ p, G p → (interior res p ↔ interior b0 p ∧ ∀ b ∈ bs, ¬ interior b p) := by
  obtain ⟨b0, bs, hb0, hbuilt, hint⟩ := doPathop_interior E interior iAs G S .difference s0 ss r0 rr res h
  refine ⟨b0, bs, hb0, hbuilt, fun p hp => ?_⟩
  rw [(hint p hp).1, diff_all_iff]
  simp


end PicoSVG.C13
