/-
  C01 — Conversion output always conforms to the documented picosvg grammar.
  Proved here: the final gate is sound for the element-path half of the grammar (any tree size),
  a kept group is exactly an opacity group with 0 < opacity < 1 and ≥ 2 children, decimal rounding
  is idempotent (every printed number is a fixed point of the rounding) with the half-unit bound,
  command-letter target forms (with C09).  The full statement `toPico ⇒ Spec.Pico.violations = []`
  is judged on the implementation and on the Lean pipeline model on every run (Spec/Pico.lean as
  executable checker); it is not yet a closed theorem about the pipeline model.
-/
import PicoSVG.Model.Pipeline
import PicoSVG.Spec.Pico
import PicoSVG.Proofs.Round
import PicoSVG.Proofs.PathForm
import Mathlib.Algebra.Order.Field.Basic
import PicoSVG.Proofs.CleanP

set_option linter.unusedSectionVars false
set_option linter.unusedVariables false
namespace PicoSVG.C01
open PicoSVG Traverse

/-! #### the gate -/

/-- scanning never forgets an error -/
theorem scanStep_errs_mono (a d : Bool) (st : Scan) (c : Ctx) :
    st.errs ≠ [] → (scanStep a d st c).errs ≠ [] := by
  intro h
  unfold scanStep
  simp only
  split
  · exact h
  · split
    · split
      · exact h
      · simp
    · split
      · split <;> simp [h]
      · exact h

theorem foldl_errs_mono (a d : Bool) (ctxs : List Ctx) (st : Scan) :
    st.errs ≠ [] → (ctxs.foldl (scanStep a d) st).errs ≠ [] := by
  induction ctxs generalizing st with
  | nil => intro h; exact h
  | cons c cs ih => intro h; exact ih _ (scanStep_errs_mono a d st c h)

/-- with no error so far, nothing is blacklisted -/
theorem scanStep_bad (a : Bool) (st : Scan) (c : Ctx) (hb : st.bad = [])
    (he : (scanStep a false st c).errs = []) : (scanStep a false st c).bad = [] := by
  unfold scanStep at he ⊢
  simp only [hb, List.any_nil, Bool.false_eq_true, if_false] at he ⊢
  split
  · rename_i hna
    simp only [hna, if_true, Bool.false_eq_true, if_false] at he
    simp at he
  · rename_i hna
    split <;> simp [hb]

/-- C01-gate (a): if the gate (drop_unsupported = False) reports no BadElement / id reuse, every
    element reached by the breadth-first traversal sits on an allowed element path -/
theorem scan_all_allowed (a : Bool) (ctxs : List Ctx) (st : Scan) (hb : st.bad = [])
    (h : (ctxs.foldl (scanStep a false) st).errs = []) :
    ∀ c ∈ ctxs, pathAllowed a c.segs = true := by
  induction ctxs generalizing st with
  | nil => intro c hc; exact absurd hc (by simp)
  | cons c0 cs ih =>
    simp only [List.foldl_cons] at h
    have he0 : (scanStep a false st c0).errs = [] := by
      by_contra hne
      exact (foldl_errs_mono a false cs _ hne) h
    have hb0 := scanStep_bad a st c0 hb he0
    intro c hc
    simp only [List.mem_cons] at hc
    rcases hc with hc | hc
    · subst hc
      by_contra hna
      unfold scanStep at he0
      simp only [hb, List.any_nil, Bool.false_eq_true, if_false] at he0
      have : (!pathAllowed a c.segs) = true := by simpa using hna
      simp only [this, if_true] at he0
      simp at he0
    · exact ih _ hb0 h c hc

/-- C01-gate (b): a clean gate means the traversal saw `/svg[0]` and `/svg[0]/defs[0]` and every
    element path is on the allow list -/
theorem gate_sound (allowText : Bool) (root : Node) (removed : List (List Nat))
    (h : checkPico allowText false root = .ok ([], removed)) :
    ∃ ctxs, breadthFirst root = .ok ctxs ∧ (∀ c ∈ ctxs, pathAllowed allowText c.segs = true) ∧
      (scanAll allowText false ctxs).seenRoot = true ∧ (scanAll allowText false ctxs).seenDefs = true := by
  unfold checkPico at h
  obtain ⟨ctxs, hc, h⟩ := bind_eq_ok.mp h
  refine ⟨ctxs, hc, ?_, ?_, ?_⟩
  · injection h with h
    simp only [Prod.mk.injEq, List.append_eq_nil_iff] at h
    exact scan_all_allowed allowText ctxs {} rfl h.1.1
  · injection h with h
    simp only [Prod.mk.injEq, List.append_eq_nil_iff, missing] at h
    by_contra hn
    have : (scanAll allowText false ctxs).seenRoot = false := by simpa using hn
    simp [this] at h
  · injection h with h
    simp only [Prod.mk.injEq, List.append_eq_nil_iff, missing] at h
    by_contra hn
    have : (scanAll allowText false ctxs).seenDefs = false := by simpa using hn
    simp [this] at h

theorem mem_takeWhile_sat {β : Type} (p : β → Bool) (l : List β) (x : β) (h : x ∈ l.takeWhile p) : p x = true := by
  induction l with
  | nil => simp at h
  | cons a as ih =>
    simp only [List.takeWhile] at h
    split at h
    · simp only [List.mem_cons] at h
      rcases h with h | h
      · subst h; assumption
      · exact ih h
    · simp at h

/-- the allow list admits, below the root, only `defs[0]` with gradients/stops, chains of `g`/`path`,
    and (with allow_text) text subtrees: no use, clipPath, nested svg, basic shape or foreign element -/
theorem pathAllowed_tags (allowText : Bool) (segs : List (String × Nat)) (h : pathAllowed allowText segs = true)
    (t : String) (i : Nat) (ht : (t, i) ∈ segs) :
    t = "svg" ∨ t = "defs" ∨ t = "linearGradient" ∨ t = "radialGradient" ∨ t = "stop" ∨ t = "path" ∨ t = "g" ∨
    (allowText = true ∧ (t = "text" ∨ t = "tspan" ∨ t = "textPath")) := by
  unfold pathAllowed at h
  split at h
  · simp only [List.mem_singleton, Prod.mk.injEq] at ht
    exact Or.inl ht.1
  · rename_i rest hnil
    simp only [List.mem_cons, Prod.mk.injEq] at ht
    rcases ht with ht | ht
    · exact Or.inl ht.1
    · simp only [Bool.or_eq_true, Bool.and_eq_true] at h
      rcases h with (h | h) | h
      · split at h
        · simp only [List.mem_singleton, Prod.mk.injEq] at ht; exact Or.inr (Or.inl ht.1)
        · rename_i g _
          simp only [List.mem_cons, Prod.mk.injEq, List.not_mem_nil, or_false] at ht
          rcases ht with ht | ht
          · exact Or.inr (Or.inl ht.1)
          · unfold isGradLocal at h
            simp only [Bool.or_eq_true, beq_iff_eq] at h
            rw [ht.1]; rcases h with h | h
            · exact Or.inr (Or.inr (Or.inl h))
            · exact Or.inr (Or.inr (Or.inr (Or.inl h)))
        · rename_i g _ _
          simp only [List.mem_cons, Prod.mk.injEq, List.not_mem_nil, or_false] at ht
          rcases ht with ht | ht | ht
          · exact Or.inr (Or.inl ht.1)
          · unfold isGradLocal at h
            simp only [Bool.or_eq_true, beq_iff_eq] at h
            rw [ht.1]; rcases h with h | h
            · exact Or.inr (Or.inr (Or.inl h))
            · exact Or.inr (Or.inr (Or.inr (Or.inl h)))
          · exact Or.inr (Or.inr (Or.inr (Or.inr (Or.inl ht.1))))
        · exact absurd h (by simp)
      · have := (List.all_eq_true.mp h.2) (t, i) ht
        simp only [Bool.or_eq_true, beq_iff_eq] at this
        rcases this with h1 | h1
        · exact Or.inr (Or.inr (Or.inr (Or.inr (Or.inr (Or.inl h1)))))
        · exact Or.inr (Or.inr (Or.inr (Or.inr (Or.inr (Or.inr (Or.inl h1))))))
      · obtain ⟨ha, _, htail⟩ := h
        right; right; right; right; right; right; right
        refine ⟨ha, ?_⟩
        -- (t, i) is in the text/textPath head or in the tail
        have hsplit : rest = rest.takeWhile (fun x => x.1 == "text" || x.1 == "textPath") ++
            rest.dropWhile (fun x => x.1 == "text" || x.1 == "textPath") := (List.takeWhile_append_dropWhile).symm
        rw [hsplit, List.mem_append] at ht
        rcases ht with ht | ht
        · have := mem_takeWhile_sat _ _ _ ht
          simp only [Bool.or_eq_true, beq_iff_eq] at this
          rcases this with h1 | h1
          · exact Or.inl h1
          · exact Or.inr (Or.inr h1)
        · have := (List.all_eq_true.mp htail) (t, i) ht
          simp only [Bool.or_eq_true, beq_iff_eq] at this
          rcases this with (h1 | h1) | h1
          · exact Or.inl h1
          · exact Or.inr (Or.inl h1)
          · exact Or.inr (Or.inr h1)
  · exact absurd h (by simp)

/-! #### kept groups -/



section
variable {α : Type} [Field α] [LinearOrder α] [IsStrictOrderedRing α]

/-- C01-group: a group survives only if it has attributes, at least two (non-redundant) children and
    a clamped opacity strictly between 0 and 1 -/
theorem kept_group (attrsEmpty : Bool) (k : Nat) (v : α)
    (h : Groups.removableCore true attrsEmpty k (Groups.clamp01 v) = false) :
    attrsEmpty = false ∧ 2 ≤ k ∧ 0 < Groups.clamp01 v ∧ Groups.clamp01 v < 1 := by
  unfold Groups.removableCore at h
  simp only [Bool.not_true, Bool.false_eq_true, if_false] at h
  cases attrsEmpty with
  | true => simp at h
  | false =>
    simp only [Bool.false_eq_true, if_false, Bool.or_eq_false_iff, decide_eq_false_iff_not,
      beq_eq_false_iff_ne, ne_eq] at h
    obtain ⟨hk, h0, h1⟩ := h
    refine ⟨rfl, by omega, ?_, ?_⟩
    · -- clamp is ≥ 0 and ≠ 0
      have hge : 0 ≤ Groups.clamp01 v := by
        unfold Groups.clamp01; simp only
        split <;> split <;> first | exact le_refl _ | (rename_i hh; exact not_lt.mp hh)
      exact lt_of_le_of_ne hge (Ne.symm h0)
    · have hle : Groups.clamp01 v ≤ 1 := by
        unfold Groups.clamp01; simp only
        split
        · split
          · exact zero_le_one
          · exact le_refl _
        · rename_i hv
          split
          · exact zero_le_one
          · exact not_lt.mp hv
      exact lt_of_le_of_ne hle h1
end

/-! #### numbers -/

/-- C01-round (exact half): rounding to n decimals is idempotent, so every number the printer
    emits after `round_floats(n)` is a fixed point of the rounding -/
theorem rounding_idempotent (q : Rat) (n : Int) : F64.roundDec (F64.roundDec q n) n = F64.roundDec q n :=
  F64.roundDec_idem q n

/-- … and moves no number by more than half a unit in the last place -/
theorem rounding_half_unit (q : Rat) (n : Nat) :
    |F64.roundDec q (n : Int) - q| ≤ 1 / 2 / ((F64.pow10 n : Nat) : Rat) := F64.roundDec_err q n

/-! #### nothing ignorable survives the discard passes -/

/-- after `remove_processing_instructions` no processing instruction exists anywhere below the root -/
theorem no_pi_survives (u : Nat) (t : String) (a : Attrs) (cs : List Node) :
    Node.pi ∉ Node.flatList (Cleanup.removePIs (.elem u t a cs)).children := CleanP.no_pi_left u t a cs

/-- after `remove_title_meta_desc` no title / desc / metadata element exists anywhere below the root -/
theorem no_meta_survives (u : Nat) (t : String) (a : Attrs) (cs : List Node) (v : Nat) (t' : String) (a' : Attrs)
    (k : List Node) (hm : Node.elem v t' a' k ∈ Node.flatList (Cleanup.removeTitleMetaDesc (.elem u t a cs)).children) :
    Cleanup.metaTags.any (fun m => t' == Node.svgTag m) = false := CleanP.no_meta_left u t a cs v t' a' k hm

/-- after `remove_nonsvg_content` every element that is left, at any depth, is in the svg (or xlink) namespace -/
theorem no_foreign_survives (ng : Bool) (n : Node) (v : Nat) (t' : String) (a' : Attrs) (k : List Node)
    (hm : Node.elem v t' a' k ∈ Node.flatList (Node.rewrite (Cleanup.nonSvgPass ng).f n)) :
    Cleanup.goodElemNs t' = true := CleanP.no_foreign_left ng n v t' a' k hm


/-! #### tie to the source -/
theorem gen_inheritable : Gen.inheritableAttrib =
    ["clip-path", "clip-rule", "color", "display", "fill", "fill-opacity", "fill-rule", "opacity", "overflow",
     "stroke", "stroke-dasharray", "stroke-dashoffset", "stroke-linecap", "stroke-linejoin",
     "stroke-miterlimit", "stroke-opacity", "stroke-width", "style", "transform"] := by decide
theorem gen_custom_inheritance : Gen.attribWithCustomInheritance = ["clip-path", "opacity", "transform"] := by decide
theorem gen_shape_tags : Gen.shapeFields.map (·.1) =
    ["circle", "ellipse", "line", "path", "polygon", "polyline", "rect"] := by decide
theorem gen_gradient_tags : Gen.gradientFields.map (·.1) = ["linearGradient", "radialGradient"] := by decide

end PicoSVG.C01
