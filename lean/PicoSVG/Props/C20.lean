/-
  C20 — A reported reuse transform really maps one shape onto the other.
  Soundness of the search's control structure (Float model, no arithmetic assumptions): every
  transform `affine_between` reports has passed `_try_affine`, i.e. applying it to the first
  shape's (affine-friendly) outline gives the second's, command for command, within the tolerance.
-/
import PicoSVG.Model.Reuse
import PicoSVG.Proofs.Walk

set_option linter.unusedSectionVars false
namespace PicoSVG.C20
open PicoSVG Reuse

/-- `_round` returns a matrix that verifies, provided its input did -/
theorem roundSearch_verified (A R : Aff Float) (s1 s2 : List (Cmd Float)) (tol : Float) (ns : List Nat)
    (hA : tryAffine A s1 s2 tol = .ok true) (h : roundSearch A s1 s2 tol ns = .ok R) :
    tryAffine R s1 s2 tol = .ok true := by
  induction ns with
  | nil =>
    simp only [roundSearch] at h
    injection h with h; subst h; exact hA
  | cons n ns ih =>
    simp only [roundSearch] at h
    obtain ⟨ok, hok, h⟩ := bind_eq_ok.mp h
    cases ok with
    | true =>
      simp only [if_true] at h
      injection h with h; subst h; exact hok
    | false =>
      simp only [Bool.false_eq_true, if_false] at h
      exact ih h

/-- the gate: a candidate is reported only if it (or the rounding chosen for it) verifies -/
theorem gate_sound (A R : Aff Float) (s1 s2 : List (Cmd Float)) (tol : Float)
    (h : gate A s1 s2 tol = .ok (some R)) : tryAffine R s1 s2 tol = .ok true := by
  unfold gate at h
  obtain ⟨ok, hok, h⟩ := bind_eq_ok.mp h
  cases ok with
  | true =>
    simp only [if_true] at h
    obtain ⟨r, hr, h⟩ := bind_eq_ok.mp h
    injection h with h; injection h with h; subst h
    exact roundSearch_verified A r s1 s2 tol roundRange hok hr
  | false =>
    simp only [Bool.false_eq_true, if_false] at h
    injection h with h; exact absurd h (by simp)

theorem orElseGate_sound (A R : Aff Float) (s1 s2 : List (Cmd Float)) (tol : Float)
    (next : Except PyErr (Option (Aff Float)))
    (hnext : next = .ok (some R) → tryAffine R s1 s2 tol = .ok true)
    (h : orElseGate A s1 s2 tol next = .ok (some R)) : tryAffine R s1 s2 tol = .ok true := by
  unfold orElseGate at h
  obtain ⟨g, hg, h⟩ := bind_eq_ok.mp h
  cases g with
  | some r =>
    simp only at h
    injection h with h; injection h with h; subst h
    exact gate_sound A r s1 s2 tol hg
  | none => exact hnext h

theorem stage3_sound (s1 s2 : List (Cmd Float)) (tol : Float) (a b c d : Aff Float) (v : Pt Float) (R : Aff Float)
    (h : stage3 s1 s2 tol a b c d v = .ok (some R)) : tryAffine R s1 s2 tol = .ok true := by
  unfold stage3 at h
  simp only at h
  obtain ⟨s1p, _, h⟩ := bind_eq_ok.mp h
  obtain ⟨s2p, _, h⟩ := bind_eq_ok.mp h
  obtain ⟨w1, _, h⟩ := bind_eq_ok.mp h
  obtain ⟨w2, _, h⟩ := bind_eq_ok.mp h
  cases hb : firstSignificantBoth w1 w2 (fun v => v.y) tol with
  | none => simp only [hb] at h; injection h with h; exact absurd h (by simp)
  | some t =>
    obtain ⟨i, x, y⟩ := t
    simp only [hb] at h
    exact gate_sound _ _ s1 s2 tol h

theorem stage2_sound (s1 s2 : List (Cmd Float)) (tol : Float) (a b c d : Float) (R : Aff Float)
    (h : stage2 s1 s2 tol a b c d = .ok (some R)) : tryAffine R s1 s2 tol = .ok true := by
  unfold stage2 at h
  obtain ⟨v2, _, h⟩ := bind_eq_ok.mp h
  cases hfs : firstSignificant v2 (fun v => v.x) tol with
  | none => simp only [hfs] at h; injection h with h; exact absurd h (by simp)
  | some iv =>
    obtain ⟨idx, vx⟩ := iv
    simp only [hfs] at h
    obtain ⟨sv, _, h⟩ := bind_eq_ok.mp h
    exact orElseGate_sound _ R s1 s2 tol _ (stage3_sound s1 s2 tol _ _ _ _ _ R) h

/-- soundness of the staged search on the affine-friendly outlines -/
theorem searchFriendly_sound (s1 s2 : List (Cmd Float)) (tol : Float) (R : Aff Float)
    (h : searchFriendly s1 s2 tol = .ok (some R)) : tryAffine R s1 s2 tol = .ok true := by
  unfold searchFriendly at h
  obtain ⟨m1, _, h⟩ := bind_eq_ok.mp h
  obtain ⟨m2, _, h⟩ := bind_eq_ok.mp h
  exact orElseGate_sound _ R s1 s2 tol _ (stage2_sound s1 s2 tol _ _ _ _ R) h

/-- the identity shortcut only fires on outlines that are equal command for command within the tolerance (and, with arcs,
    whose cubic forms are: `identityHolds`) -/
theorem identityHolds_sound (d1 d2 : String) (p1 p2 : List (Cmd Float)) (tol : Float)
    (h : identityHolds d1 d2 p1 p2 tol = .ok true) : almostEquals tol p1 p2 = true := by
  unfold identityHolds at h
  by_cases heq : almostEquals tol p1 p2 = true
  · exact heq
  · simp [heq] at h

/-- C20-main (soundness): whenever `affine_between` reports a transform, either the shapes are
    already equal within the tolerance (with arcs: on their cubic forms too) and the transform is the identity, or the
    transform applied to the first outline reproduces the second within the tolerance, command for command. -/
theorem affineBetween_sound (d1 d2 : String) (tol : Float) (R : Aff Float)
    (h : affineBetween d1 d2 tol = .ok (some R)) :
    (∃ p1 p2, SvgPath.cmdsOf d1 = .ok p1 ∧ SvgPath.cmdsOf d2 = .ok p2 ∧ identityHolds d1 d2 p1 p2 tol = .ok true ∧
        almostEquals tol p1 p2 = true ∧ R = Aff.id) ∨
    (∃ s1 s2, affineFriendly d1 = .ok s1 ∧ affineFriendly d2 = .ok s2 ∧ tryAffine R s1 s2 tol = .ok true) := by
  unfold affineBetween at h
  obtain ⟨p1, hp1, h⟩ := bind_eq_ok.mp h
  obtain ⟨p2, hp2, h⟩ := bind_eq_ok.mp h
  obtain ⟨same, hsame, h⟩ := bind_eq_ok.mp h
  cases same with
  | true =>
    left
    rw [if_pos rfl] at h
    injection h with h; injection h with h
    exact ⟨p1, p2, hp1, hp2, hsame, identityHolds_sound d1 d2 p1 p2 tol hsame, h.symm⟩
  | false =>
    right
    simp only [Bool.false_eq_true, if_false] at h
    obtain ⟨s1, hs1, h⟩ := bind_eq_ok.mp h
    obtain ⟨s2, hs2, h⟩ := bind_eq_ok.mp h
    exact ⟨s1, s2, hs1, hs2, searchFriendly_sound s1 s2 tol R h⟩

/-- C20-identical: identical outlines yield the identity (outlines with arcs: when their cubic form exists and passes the
    comparison with itself) -/
theorem identical_identity (d : String) (tol : Float) (p : List (Cmd Float))
    (hp : SvgPath.cmdsOf d = .ok p) (heq : almostEquals tol p p = true)
    (harc : hasArcLetter d = true → ∃ e c, SvgPath.arcsToCubics d = .ok e ∧ SvgPath.cmdsOf e = .ok c ∧ almostEquals tol c c = true) :
    affineBetween d d tol = .ok (some Aff.id) := by
  unfold affineBetween identityHolds
  by_cases ha : hasArcLetter d = true
  · obtain ⟨e, c, he, hc, hcc⟩ := harc ha
    simp [hp, heq, ha, he, hc, hcc, bind, Except.bind]
  · simp [hp, heq, ha, bind, Except.bind]

end PicoSVG.C20
