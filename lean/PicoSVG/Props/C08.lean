/-
  C08 — Converted documents have no duplicate, dangling or orphaned references.
  Component theorems on the pipeline model (the invariants of the steps that create or move
  identifiers); the document-level statement is judged on every run.
-/
import PicoSVG.Model.Pipeline
import PicoSVG.Proofs.IdsP
import PicoSVG.Proofs.OrphanP
import PicoSVG.Proofs.UrlP

set_option linter.unusedSectionVars false
namespace PicoSVG.C08
open PicoSVG SvgObj

/-- the search of `_new_id` returns an identifier that is not in use -/
theorem newId_go_fresh (ids : List String) (pre : String) (i fuel : Nat) (r : String)
    (h : newIdGo ids pre i fuel = .ok r) : r ∉ ids := by
  induction fuel generalizing i with
  | zero => simp [newIdGo] at h
  | succ fuel ih =>
    simp only [newIdGo] at h
    split at h
    · exact ih (i + 1) h
    · rename_i hc
      injection h with h; subst h
      simpa using hc

/-- C08-fresh: an id allocated for a cloned gradient (`<id>_<n>`) or a nested-svg viewport clip
    (`nested-svg-viewport-<n>`) collides with no id present in the tree searched -/
theorem newId_fresh (root : Node) (pre r : String) (h : newId root pre = .ok r) : r ∉ idsOf root := by
  unfold newId at h
  exact newId_go_fresh _ pre 0 65536 r h

/-- … and has the requested template as prefix -/
theorem newId_go_prefix (ids : List String) (pre : String) (i fuel : Nat) (r : String)
    (h : newIdGo ids pre i fuel = .ok r) : ∃ k : Nat, r = pre ++ toString k := by
  induction fuel generalizing i with
  | zero => simp [newIdGo] at h
  | succ fuel ih =>
    simp only [newIdGo] at h
    split at h
    · exact ih (i + 1) h
    · injection h with h; exact ⟨i, h.symm⟩

/-- C08-defs: `_add_to_defs` never loses or duplicates what is already in defs, and adds the new
    element exactly when it has an id -/
theorem addToDefs_members (kids : List Node) (el : Node) (n : Node) :
    n ∈ addToDefs kids el ↔
      (match el.getAttr "id" with
       | none => n ∈ kids
       | some _ => n = el ∨ (n ∈ kids ∧ n.isLxmlNode = true)) := by
  unfold addToDefs
  cases hid : el.getAttr "id" with
  | none => simp
  | some nid =>
    simp only
    generalize hat : ((List.find? _ _).map _).getD 0 = at_
    constructor
    · intro h
      simp only [List.append_assoc, List.mem_append, List.mem_singleton] at h
      rcases h with h | h | h
      · right
        have := List.mem_of_mem_take h
        simpa [List.mem_filter] using this
      · left; exact h
      · right
        have := List.mem_of_mem_drop h
        simpa [List.mem_filter] using this
    · intro h
      simp only [List.append_assoc, List.mem_append, List.mem_singleton]
      rcases h with h | ⟨h1, h2⟩
      · right; left; exact h
      · have hm : n ∈ kids.filter Node.isLxmlNode := by simpa [List.mem_filter] using ⟨h1, h2⟩
        rw [← List.take_append_drop at_ (kids.filter Node.isLxmlNode)] at hm
        rcases List.mem_append.mp hm with hm | hm
        · left; exact hm
        · right; right; exact hm

/-- the ids carried by a list of nodes, in order -/
def idsL (l : List Node) : List String := l.filterMap (fun n => n.getAttr "id")

theorem idsL_append (a b : List Node) : idsL (a ++ b) = idsL a ++ idsL b := by
  simp [idsL, List.filterMap_append]

/-- C08 (defs stay duplicate-free): inserting an element whose id is not yet among the ids in defs keeps the ids in
    defs pairwise distinct — wherever the sorted-insert puts it -/
theorem addToDefs_ids_nodup (kids : List Node) (el : Node) (nid : String)
    (hid : el.getAttr "id" = some nid)
    (hnd : (idsL (kids.filter Node.isLxmlNode)).Nodup) (hfresh : nid ∉ idsL (kids.filter Node.isLxmlNode)) :
    (idsL (addToDefs kids el)).Nodup := by
  unfold addToDefs
  simp only [hid]
  generalize hat : ((List.find? _ _).map _).getD 0 = at_
  generalize hE : kids.filter Node.isLxmlNode = E at *
  have hsplit : idsL E = idsL (E.take at_) ++ idsL (E.drop at_) := by
    rw [← idsL_append, List.take_append_drop]
  rw [idsL_append, idsL_append]
  have hel : idsL [el] = [nid] := by simp [idsL, hid]
  rw [hel]
  rw [hsplit] at hnd hfresh
  simp only [List.mem_append, not_or] at hfresh
  rw [List.nodup_append] at hnd ⊢
  refine ⟨?_, hnd.2.1, ?_⟩
  · rw [List.nodup_append]
    refine ⟨hnd.1, by simp, ?_⟩
    intro a ha b hb
    simp only [List.mem_singleton] at hb
    subst hb
    exact fun e => hfresh.1 (e ▸ ha)
  · intro a ha b hb
    simp only [List.mem_append, List.mem_singleton] at ha
    rcases ha with ha | ha
    · exact hnd.2.2 a ha b hb
    · subst ha
      exact fun e => hfresh.2 (e ▸ hb)


/-- C08 (instancing): the copy of a `use` target that `_resolve_use` swaps in carries no id anywhere — whatever the
    target looks like — so instancing the same content any number of times cannot duplicate an id -/
theorem use_copy_has_no_ids (n : Node) (s : SvgObj) (c : Node) (s' : SvgObj)
    (h : copyStripIds n s = .ok (c, s')) : idsOf c = [] := IdsP.use_copy_has_no_ids n s c s' h

/-- C08 (stroke split): of the pieces `_stroke` returns for a shape at most one carries an id (both ids are cleared when
    there are two pieces) -/
theorem stroke_split_ids (mp : Bool) (sh2 st4 : ShapeRec) :
    ((strokeOut mp sh2 st4).filter (fun p => p.getS "id" != "")).length ≤ 1 := IdsP.strokeOut_ids mp sh2 st4

/-- C08 (no orphan): after the loop of `_remove_orphaned_gradients` (`pruneGrads`: every gradient element whose id is not
    among the ids in use is removed, one `Node.removeUid` after the other) every gradient element left anywhere below the root
    has an id, and that id is in use — for trees of any shape, nested or repeated gradients included -/
theorem no_orphan_after_purge (used : List String) (root : Node) :
    ∀ m ∈ (pruneGrads used root).elems, isGradElem m = true → OrphanP.sigOf m ≠ OrphanP.sigOf root →
      ∃ i, m.getAttr "id" = some i ∧ i ∈ used := by
  intro m hm hg hr
  have h := OrphanP.pruneGrads_no_orphan used root m hm hg hr
  unfold gradKept at h
  unfold Node.getAttr
  cases hid : Style.getKV m.attrs "id" with
  | none => simp [hid] at h
  | some i => exact ⟨i, rfl, by simpa [hid] using h⟩

/-- C08 (how a paint reference is read): for every id made of characters other than `)`, quotes and white space, the value
    `url(#id)` followed by *anything* — nothing, a fallback colour after white space, a fallback glued to the parenthesis
    (`url(#g)red`, which 3210a58 made readable) — names that id; so the orphan scan counts the gradient as used and the
    reference is not left dangling -/
theorem reference_read_whatever_follows (i rest : List Char) (hne : i ≠ []) (hi : ∀ c ∈ i, SvgObj.idChar c = true) :
    SvgObj.idOfTarget (String.ofList ("url(#".toList ++ i ++ ')' :: rest)) = .ok (String.ofList i) :=
  SvgObj.idOfTarget_plain i rest hne hi

example : SvgObj.idOfTarget (String.ofList ("url(#".toList ++ ['g'] ++ ')' :: "red".toList)) = .ok (String.ofList ['g']) :=
  reference_read_whatever_follows ['g'] "red".toList (by simp) (by decide)
example : SvgObj.idOfTarget (String.ofList ("url(#".toList ++ "Fills/sky".toList ++ ')' :: " none".toList))
    = .ok (String.ofList "Fills/sky".toList) :=
  reference_read_whatever_follows "Fills/sky".toList " none".toList (by decide) (by decide)

end PicoSVG.C08
