/-
  C17 — Conversion always terminates with a picosvg or an exception, never a hang.
  The Lean pipeline model is a TOTAL function (no `partial`, no well-founded recursion escape
  hatch): every loop of the code that can fail to terminate is modelled with explicit fuel whose
  exhaustion is the outcome `RecursionError` — the re-scan loop of `_resolve_use`, the recursion of
  `_resolve_clip_path`, `_apply_gradient_template` and `_unnest_svg`; everything else is
  structural recursion over the finite tree.  Proved here: what the fuel semantics says, that a
  normal return of `topicosvg` has passed the gate, and that a document without `use` is left alone
  by the use loop.  That an outcome `RecursionError`-by-fuel corresponds to a hang (or a Python
  RecursionError) of the implementation, and nothing else does, is the watchdogged correspondence.
-/
import PicoSVG.Model.Pipeline
import PicoSVG.Proofs.Walk

set_option linter.unusedSectionVars false
set_option linter.unusedVariables false
namespace PicoSVG.C17
open PicoSVG SvgObj DocM

/-- StateT/Except bind, unfolded -/
theorem docBind_ok {β γ : Type} (x : DocM β) (f : β → DocM γ) (s s' : SvgObj) (r : γ)
    (h : (x >>= f) s = .ok (r, s')) : ∃ b s1, x s = .ok (b, s1) ∧ f b s1 = .ok (r, s') := by
  simp only [bind, StateT.bind, Except.bind] at h
  cases hx : x s with
  | error e => simp [hx] at h
  | ok p => obtain ⟨b, s1⟩ := p; simp only [hx] at h; exact ⟨b, s1, rfl, h⟩

/-- C17-gate: a normal return of the conversion means the library's gate reported nothing on the
    final document — the only outcomes are "a document that passed the gate" or an exception -/
theorem topicosvg_ok_passed_gate (nd : Int) (allowText drop noneGood : Bool) (s s' : SvgObj)
    (h : topicosvg nd allowText drop noneGood s = .ok ((), s')) :
    ∃ s1 s2, convertSteps nd noneGood s = .ok ((), s1) ∧ checkpicosvg allowText drop s1 = .ok ([], s2) ∧
      (if drop then (pruneFuel >>= fun f => pruneLoop nd f) s2 = .ok ((), s') else s2 = s') := by
  unfold topicosvg at h
  obtain ⟨u, s1, h1, h2⟩ := docBind_ok _ _ s s' () h
  obtain ⟨u2, s2, hg, hfin⟩ := docBind_ok _ _ s1 s' () h2
  refine ⟨s1, s2, h1, ?_, ?_⟩
  · unfold gateStep at hg
    obtain ⟨viol, s3, h3, h4⟩ := docBind_ok _ _ s1 s2 () hg
    cases viol with
    | nil =>
      simp only [List.isEmpty_nil, Bool.not_true, Bool.false_eq_true, if_false, pure, StateT.pure, Except.pure] at h4
      injection h4 with h4; injection h4 with _ h4; subst h4; exact h3
    | cons v vs =>
      simp only [List.isEmpty_cons, Bool.not_false, if_true, DocM.fail] at h4
      exact absurd h4 (by simp)
  · cases drop with
    | true => simpa using hfin
    | false =>
      simp only [Bool.false_eq_true, if_false, pure, StateT.pure, Except.pure] at hfin ⊢
      injection hfin with hfin; injection hfin with _ hfin

/-- C17-fuel: running out of fuel in the use loop is the outcome `RecursionError`, never a value -/
theorem useLoop_no_fuel (byId : List (String × Node)) (u : Nat) (s : SvgObj) :
    resolveUseLoop byId u 0 s = .error .recursionError := rfl

theorem clip_no_fuel (url : String) (T : Aff Float) (s : SvgObj) :
    resolveClipPath url T 0 s = .error .recursionError := rfl

theorem template_no_fuel (g : Nat) (s : SvgObj) :
    applyGradientTemplate g 0 s = .error .recursionError := rfl

theorem unnest_no_fuel (u : Nat) (w h : Float) (s : SvgObj) :
    unnestSvg u w h 0 s = .error .recursionError := rfl

/-- C17-nouse: when nothing below the scope is a `use`, the loop returns at once and changes nothing -/
theorem useLoop_without_use (byId : List (String × Node)) (u fuel : Nat) (s : SvgObj)
    (h : (((Node.findUid s.root u).getD s.root).elems.drop 1).filter (fun n => n.tag == Node.svgTag "use") = []) :
    resolveUseLoop byId u (fuel + 1) s = .ok ((), s) := by
  simp only [resolveUseLoop, bind, StateT.bind, getRoot, get, getThe, MonadStateOf.get, StateT.get, pure,
    StateT.pure, Except.pure, Except.bind, h, List.isEmpty_nil, if_true]

/-- C17 (clip-path cycles): a clipPath that is met again while it is being resolved ends the conversion with ValueError at
    once — whatever fuel is left, without resolving its use elements or asking the engine anything -/
theorem clip_cycle_detected (active : List Nat) (url : String) (T : Aff Float) (fuel : Nat) (s : SvgObj) (cp : Node)
    (hr : resolveUrl s.root url "clipPath" = .ok cp) (hm : active.contains cp.uid = true) :
    resolveClipPathA active url T (fuel + 1) s = .error .valueError := by
  simp only [resolveClipPathA, bind, StateT.bind, getRoot, get, getThe, MonadStateOf.get, StateT.get, pure, StateT.pure,
    Except.pure, Except.bind, liftE, hr, Except.map, hm, if_true, DocM.fail]

end PicoSVG.C17
