/-
  C15 — an SVG object always equals its serialisation, whatever the operation history.

  The SVG class is a tree plus a lazily written cache of parsed shapes (`SVG.elements`): `_elements()` *loads* the
  shapes of the tree into the cache, shape-level operations edit the cache only, `_update_etree()` *stores* the cache
  back into the tree, tree-level operations flush first and drop the cache afterwards, `_clone()` copies the object.
  This file proves, for an arbitrary tree type, shape-cache type and arbitrary `load`/`store` functions obeying the two
  lens laws

      PutGet :  load (store t c) = c              (what was written is what is read back)
      PutPut :  store (store t c) c' = store t c' (a second flush overwrites the first)

  that the cached object *refines* the cache-free specification in which every operation acts on the serialised
  document (`sim_step`, `run_refines`): for every history of operations — shape-level edits with any shape function,
  tree-level edits with any tree function, read-only queries that populate the cache, serialise-and-reparse steps at
  any positions, copying or in place — the serialisation of the final object is the fold of the specification steps
  over the serialisation of the initial one (`history_reparse_irrelevant`); copying operations leave the receiver's
  serialisation unchanged and return what the in-place form produces on a copy (`copy_receiver_unchanged`,
  `copy_result`).  GetPut (`store t (load t) = t`) is *not* assumed: flushing normalises every shape element, which is
  why a read-only `shapes()` call is a visible step of the specification (`specStep .query`).

  The same machine with the two ways the discipline can be broken — a tree-level operation that forgets to flush
  (`Op.treeNoFlush`) and a clone that copies only the tree (`cloneTreeOnly`, which is what `SVG._clone` did before the
  fix: commit recorded in known_findings.json) — provably does *not* refine the specification
  (`treeNoFlush_breaks`, `cloneTreeOnly_breaks`).

  Tie to the code: `Gen.Ops.discipline` (tools/translate.py, from the AST of every public method with an `inplace`
  parameter: how the copy is made, whether it flushes before touching the tree, whether it returns self) equals the
  reviewed table below; the operation histories themselves are run against the implementation on every check.
-/
import PicoSVG.Gen.Ops

namespace PicoSVG.Props.C15

/-- the object: a tree and the pending shape cache (`None`/`[]` = in sync) -/
structure Obj (T C : Type) where
  tree : T
  cache : Option C

variable {T C : Type}

/-- the functions the object is built from -/
structure Lens (T C : Type) where
  load : T → C
  store : T → C → T

/-- the two laws the proof needs -/
structure Lens.Lawful (L : Lens T C) : Prop where
  putGet : ∀ t c, L.load (L.store t c) = c
  putPut : ∀ t c c', L.store (L.store t c) c' = L.store t c'

/-- `tostring()`: the tree with the pending cache written into it -/
def ser (L : Lens T C) (s : Obj T C) : T :=
  match s.cache with
  | none => s.tree
  | some c => L.store s.tree c

/-- `SVG.fromstring(svg.tostring())` -/
def reparse (L : Lens T C) (s : Obj T C) : Obj T C := ⟨ser L s, none⟩

/-- `_elements()` -/
def loaded (L : Lens T C) (s : Obj T C) : C := s.cache.getD (L.load s.tree)

/-- `_update_etree()` -/
def flush (L : Lens T C) (s : Obj T C) : Obj T C := ⟨ser L s, none⟩

inductive Op (T C : Type)
  /-- shape-level edit: `for idx, (el, shapes) in enumerate(self._elements()): self.elements[idx] = ...` -/
  | shapes (f : C → C)
  /-- tree-level edit: `self._update_etree(); ...tree work...; self.elements = None` -/
  | tree (g : T → T)
  /-- read-only query that populates the cache (`shapes()`, `bounding_box()`) -/
  | query
  /-- serialise and re-parse -/
  | reparse
  /-- BROKEN discipline: tree work on a stale tree, cache kept -/
  | treeNoFlush (g : T → T)

def step (L : Lens T C) : Op T C → Obj T C → Obj T C
  | .shapes f, s => ⟨s.tree, some (f (loaded L s))⟩
  | .tree g, s => ⟨g (ser L s), none⟩
  | .query, s => ⟨s.tree, some (loaded L s)⟩
  | .reparse, s => reparse L s
  | .treeNoFlush g, s => ⟨g s.tree, s.cache⟩

/-- the specification: every operation acts on the serialised document -/
def specStep (L : Lens T C) : Op T C → T → T
  | .shapes f, t => L.store t (f (L.load t))
  | .tree g, t => g t
  | .query, t => L.store t (L.load t)
  | .reparse, t => t
  | .treeNoFlush g, t => g t

def Op.disciplined : Op T C → Bool
  | .treeNoFlush _ => false
  | _ => true

theorem loaded_eq (L : Lens T C) (h : L.Lawful) (s : Obj T C) : loaded L s = L.load (ser L s) := by
  unfold loaded ser
  cases s.cache with
  | none => rfl
  | some c => simp [h.putGet]

theorem store_ser (L : Lens T C) (h : L.Lawful) (s : Obj T C) (c : C) : L.store s.tree c = L.store (ser L s) c := by
  unfold ser
  cases s.cache with
  | none => rfl
  | some c0 => simp [h.putPut]

/-- one step of the cached object is one step of the specification on its serialisation -/
theorem sim_step (L : Lens T C) (h : L.Lawful) (op : Op T C) (hd : op.disciplined = true) (s : Obj T C) :
    ser L (step L op s) = specStep L op (ser L s) := by
  cases op with
  | shapes f =>
    show L.store s.tree (f (loaded L s)) = L.store (ser L s) (f (L.load (ser L s)))
    rw [loaded_eq L h, store_ser L h]
  | tree g => rfl
  | query =>
    show L.store s.tree (loaded L s) = L.store (ser L s) (L.load (ser L s))
    rw [loaded_eq L h, store_ser L h]
  | reparse => rfl
  | treeNoFlush g => simp [Op.disciplined] at hd

def run (L : Lens T C) (ops : List (Op T C)) (s : Obj T C) : Obj T C := ops.foldl (fun s op => step L op s) s

/-- C15 (refinement): the serialisation after any history is the specification's fold over the initial serialisation -/
theorem run_refines (L : Lens T C) (h : L.Lawful) (ops : List (Op T C)) (hd : ∀ op ∈ ops, op.disciplined = true)
    (s : Obj T C) : ser L (run L ops s) = ops.foldl (fun t op => specStep L op t) (ser L s) := by
  induction ops generalizing s with
  | nil => rfl
  | cons op ops ih =>
    simp only [run, List.foldl_cons]
    have := ih (fun o ho => hd o (List.mem_cons_of_mem _ ho)) (step L op s)
    simp only [run] at this
    rw [this, sim_step L h op (hd op (List.mem_cons_self ..))]

/-- insert a serialise/re-parse step after every operation -/
def withReparse : List (Op T C) → List (Op T C)
  | [] => []
  | op :: ops => op :: Op.reparse :: withReparse ops

theorem spec_withReparse (L : Lens T C) (ops : List (Op T C)) (t : T) :
    (withReparse ops).foldl (fun t op => specStep L op t) t = ops.foldl (fun t op => specStep L op t) t := by
  induction ops generalizing t with
  | nil => rfl
  | cons op ops ih =>
    simp only [withReparse, List.foldl_cons]
    have : specStep L Op.reparse (specStep L op t) = specStep L op t := rfl
    rw [this, ih]

theorem withReparse_disciplined (ops : List (Op T C)) (hd : ∀ op ∈ ops, op.disciplined = true) :
    ∀ op ∈ withReparse ops, op.disciplined = true := by
  induction ops with
  | nil => intro op h; cases h
  | cons o ops ih =>
    intro op h
    simp only [withReparse, List.mem_cons] at h
    rcases h with h | h | h
    · exact h ▸ hd o (List.mem_cons_self ..)
    · subst h; rfl
    · exact ih (fun x hx => hd x (List.mem_cons_of_mem _ hx)) op h

/-- C15: the final document is the same as when the object is serialised and re-parsed between every two steps -/
theorem history_reparse_irrelevant (L : Lens T C) (h : L.Lawful) (ops : List (Op T C))
    (hd : ∀ op ∈ ops, op.disciplined = true) (s : Obj T C) :
    ser L (run L ops s) = ser L (run L (withReparse ops) s) := by
  rw [run_refines L h ops hd, run_refines L h _ (withReparse_disciplined ops hd), spec_withReparse]

/-! ### copying operations -/

/-- `_clone()` as it has to be: the copy carries the pending edits (flush, then deep copy) -/
def clone (L : Lens T C) (s : Obj T C) : Obj T C := ⟨ser L s, none⟩

/-- a copying operation: receiver and result -/
def copyOp (L : Lens T C) (op : Op T C) (s : Obj T C) : Obj T C × Obj T C := (flush L s, step L op (clone L s))

theorem copy_receiver_unchanged (L : Lens T C) (op : Op T C) (s : Obj T C) :
    ser L (copyOp L op s).1 = ser L s := rfl

/-- the copy is what the in-place form produces on (a re-parsed copy of) the receiver -/
theorem copy_result (L : Lens T C) (h : L.Lawful) (op : Op T C) (hd : op.disciplined = true) (s : Obj T C) :
    ser L (copyOp L op s).2 = ser L (step L op s) := by
  show ser L (step L op (clone L s)) = ser L (step L op s)
  rw [sim_step L h op hd, sim_step L h op hd]; rfl

/-- `_clone()` that deep-copies only the tree -/
def cloneTreeOnly (s : Obj T C) : Obj T C := ⟨s.tree, none⟩

/-! ### the discipline is necessary: concrete counterexamples on a tiny lawful lens
    tree = (a shape value, a tree-only value), cache = the shape value -/

def toy : Lens (Nat × Nat) Nat := ⟨fun t => t.1, fun t c => (c, t.2)⟩

theorem toy_lawful : toy.Lawful := ⟨fun _ _ => rfl, fun _ _ _ => rfl⟩

/-- a tree-level operation that reads the stale tree loses against the pending edit -/
theorem treeNoFlush_breaks :
    ser toy (run toy [.shapes (· + 1), .treeNoFlush (fun t => (t.1, t.1))] ⟨(0, 0), none⟩)
      ≠ ser toy (run toy (withReparse [.shapes (· + 1), .treeNoFlush (fun t => (t.1, t.1))]) ⟨(0, 0), none⟩) := by
  decide

/-- a clone of the tree alone drops the pending edit of an earlier in-place operation -/
theorem cloneTreeOnly_breaks :
    ser toy (step toy (.shapes (· * 2)) (cloneTreeOnly (step toy (.shapes (· + 1)) ⟨(1, 0), none⟩)))
      ≠ ser toy (step toy (.shapes (· * 2)) (step toy (.shapes (· + 1)) ⟨(1, 0), none⟩)) := by
  decide

/-- non-vacuity: the hypotheses of the refinement theorem are met by a history that mixes all four kinds -/
example : ser toy (run toy [.shapes (· + 1), .query, .tree (fun t => (t.1, t.1 + 5)), .shapes (· * 3)] ⟨(1, 0), none⟩)
    = (6, 7) := by decide

/-! ### the discipline table read off the source -/

open PicoSVG.Gen.Ops in
/-- every public operation with an `inplace` switch: makes its copy with `_clone()` and runs its own in-place form on it,
    and returns `self` from every exit of the in-place form -/
theorem gen_copy_and_return :
    discipline.all (fun (_, copy, _, _, ret) => copy == "clone" && ret == "self") = true := by decide

open PicoSVG.Gen.Ops in
/-- every public operation begins either by flushing (`_update_etree`: the tree-level kind, `Op.tree`) or by loading the
    cache (`_elements` / `shapes`: the shape-level kind, `Op.shapes`) — none touches the tree before that -/
theorem gen_first_call :
    discipline.map (fun (n, _, first, _, _) => (n, first)) =
      [("absolute", "_elements"), ("shapes_to_paths", "_elements"), ("expand_shorthand", "_elements"),
       ("apply_style_attributes", "_update_etree"), ("resolve_use", "_update_etree"), ("simplify", "_update_etree"),
       ("clip_to_viewbox", "_update_etree"), ("evenodd_to_nonzero_winding", "_elements"), ("round_floats", "shapes"),
       ("remove_empty_subpaths", "_elements"), ("remove_unpainted_shapes", "_update_etree"),
       ("remove_nonsvg_content", "_update_etree"), ("remove_processing_instructions", "_update_etree"),
       ("remove_anonymous_symbols", "_update_etree"), ("remove_title_meta_desc", "_update_etree"),
       ("set_attributes", "_update_etree"), ("remove_attributes", "_update_etree"), ("normalize_opacity", "shapes"),
       ("resolve_nested_svgs", "_update_etree"), ("topicosvg", "_update_etree")] := by decide

open PicoSVG.Gen.Ops in
/-- `_clone()` flushes before it copies (`clone` above, not `cloneTreeOnly`); `toetree()` flushes before it hands out
    the tree; `shapes()` goes through `_elements()` -/
theorem gen_helpers :
    callsClone = ["_update_etree", "@svg_root", ".deepcopy", "SVG"]
    ∧ callsToetree.head? = some "_update_etree"
    ∧ callsTostring.head? = some "toetree"
    ∧ callsShapes.head? = some "_elements" := by decide

end PicoSVG.Props.C15
