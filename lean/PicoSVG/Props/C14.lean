/-
  C14 — Content that renderers ignore never influences the converted document.
  Proved (tree induction, no oracle): each "discard useless content" pass is blind to the kind of
  noise it removes — inserted at ANY position of the tree (including inside defs, gradients and
  clipPaths), with ANY subtree, and (for foreign attributes) on any element.  Side condition:
  a noise node is not inserted directly before a text node (lxml would attach that text to it as
  its tail and remove both).  Comments, inter-element whitespace and the XML declaration are
  removed by the parser (lxml, trusted); attribute-less wrapper groups and the end-to-end
  statement "convert(N(D)) ≈ convert(D)" are judged on the implementation on every run.
-/
import PicoSVG.Proofs.Noise
import PicoSVG.Proofs.CompP
import PicoSVG.Proofs.HoistP

set_option linter.unusedSectionVars false
namespace PicoSVG.C14
open PicoSVG Node Cleanup Noise

/-- C14-generic: any local filter pass gives the same result with and without the noise it removes -/
theorem pass_blind (P : LocalPass) (n n' : Node) (h : Ext P n n') : rewrite P.f n' = rewrite P.f n :=
  rewrite_ext P h

theorem rewriteBelow_ext (P : LocalPass) (u : Nat) (t : String) (a : Attrs) (cs cs' : List Node)
    (h : ExtL P cs cs') : rewriteBelow P.f (.elem u t a cs') = rewriteBelow P.f (.elem u t a cs) := by
  simp only [rewriteBelow, Node.children, Node.setChildren, rewriteList_ext P h false]

/-- C14-1a: foreign-namespace elements (with arbitrary subtrees) and foreign-namespace attributes,
    inserted anywhere, do not change the result of `remove_nonsvg_content` -/
theorem removeNonSvg_blind (ng : Bool) (u : Nat) (t : String) (a a' : Attrs) (cs cs' : List Node)
    (hroot : goodElemNs t = true)
    (h : Ext (nonSvgPass ng) (.elem u t a cs) (.elem u t a' cs')) :
    removeNonSvg ng (.elem u t a' cs') = removeNonSvg ng (.elem u t a cs) := by
  unfold removeNonSvg
  rw [rewrite_ext _ h]
  simp [rewrite, LocalPass.f, nonSvgPass, hroot]

/-- C14-1b: processing instructions inserted anywhere below the root are erased without trace -/
theorem removePIs_blind (u : Nat) (t : String) (a : Attrs) (cs cs' : List Node) (h : ExtL piPass cs cs') :
    removePIs (.elem u t a cs') = removePIs (.elem u t a cs) := rewriteBelow_ext piPass u t a cs cs' h

/-- C14-1c: id-less `symbol` elements inserted anywhere (any content) are erased without trace -/
theorem removeAnonSymbols_blind (u : Nat) (t : String) (a : Attrs) (cs cs' : List Node)
    (h : ExtL anonSymbolPass cs cs') :
    removeAnonSymbols (.elem u t a cs') = removeAnonSymbols (.elem u t a cs) :=
  rewriteBelow_ext anonSymbolPass u t a cs cs' h

/-- C14-1d: title / desc / metadata / comment elements inserted anywhere are erased without trace -/
theorem removeTitleMetaDesc_blind (u : Nat) (t : String) (a : Attrs) (cs cs' : List Node)
    (h : ExtL metaPass cs cs') :
    removeTitleMetaDesc (.elem u t a cs') = removeTitleMetaDesc (.elem u t a cs) :=
  rewriteBelow_ext metaPass u t a cs cs' h

/-- what counts as noise for each pass (so that the hypotheses above are satisfiable) -/
theorem noise_kinds (ng : Bool) :
    (nonSvgPass ng).noise (.elem 7 "{http://example.org/x}blob" [] [.elem 8 (svgTag "rect") [] []]) = true ∧
    piPass.noise .pi = true ∧
    anonSymbolPass.noise (.elem 7 (svgTag "symbol") [("viewBox", "0 0 1 1")] [.elem 8 (svgTag "rect") [] []]) = true ∧
    metaPass.noise (.elem 7 (svgTag "metadata") [] [.elem 8 "{http://example.org/x}blob" [] []]) = true := by
  refine ⟨?_, rfl, by decide, by decide⟩
  cases ng <;> decide

/-- a foreign attribute added to an element is invisible to `remove_nonsvg_content` -/
theorem foreign_attr_invisible (ng : Bool) (t : String) (a : Attrs) (k v : String)
    (hk : goodNs ng k = false) :
    (nonSvgPass ng).amap t (a ++ [(k, v)]) = (nonSvgPass ng).amap t a ∧
    (nonSvgPass ng).drop t (a ++ [(k, v)]) = (nonSvgPass ng).drop t a := by
  simp [nonSvgPass, List.filter_append, hk]

/-- non-vacuity: a PI inserted between two shapes inside a group -/
example : ExtL piPass [.elem 2 (svgTag "rect") [] [], .elem 3 (svgTag "rect") [] []]
    [.elem 2 (svgTag "rect") [] [], .pi, .elem 3 (svgTag "rect") [] []] :=
  .cons (.elem rfl rfl .nil) (.ins rfl rfl (.cons (.elem rfl rfl .nil) .nil))

/-! #### all four passes together -/

/-- C14-2a: on a text-free document the clean-up `remove_nonsvg_content; remove_processing_instructions;
    remove_anonymous_symbols; remove_title_meta_desc` is ONE bottom-up local pass (`CompP.allPass`) -/
theorem cleanup_single_pass (ng : Bool) (u : Nat) (t : String) (a : Attrs) (cs : List Node)
    (hroot : (nonSvgPass ng).drop t a = false) (hcs : CompP.noTextL cs = true) :
    cleanup ng (.elem u t a cs)
      = .elem u t ((nonSvgPass ng).amap t a) (rewriteList (CompP.allPass ng).f false cs) :=
  CompP.cleanup_single_pass ng u t a cs hroot hcs

/-- C14-2b: hence it is blind to ANY MIX of the four noise kinds inserted anywhere at once (text-free noise) -/
theorem cleanup_blind_mixed (ng : Bool) (u : Nat) (t : String) (a : Attrs) (cs cs' : List Node)
    (hroot : (nonSvgPass ng).drop t a = false) (hcs : CompP.noTextL cs = true) (hcs' : CompP.noTextL cs' = true)
    (h : ExtL (CompP.allPass ng) cs cs') :
    cleanup ng (.elem u t a cs') = cleanup ng (.elem u t a cs) :=
  CompP.cleanup_blind_mixed ng u t a cs cs' hroot hcs hcs' h

/-- every kind of noise is noise for the combined pass (the hypothesis of C14-2b is satisfiable by each kind) -/
theorem allPass_noise_kinds :
    (CompP.allPass true).noise (.elem 7 "{http://example.org/x}blob" [] []) = true ∧
    (CompP.allPass true).noise .pi = true ∧
    (CompP.allPass true).noise (.elem 7 (svgTag "symbol") [("viewBox", "0 0 1 1")] []) = true ∧
    (CompP.allPass true).noise (.elem 7 (svgTag "metadata") [] []) = true := CompP.allPass_noise_kinds

/-- C14 (anonymous symbols, since de121e8): what `remove_anonymous_symbols` leaves in the place of an element is what the
    per-element pass leaves — nothing for an id-less symbol, the element itself otherwise — except for an id-less symbol with
    gradients below it, whose gradients stay (they can be referenced from elsewhere; C08). The theorems above about
    `removeAnonSymbols` therefore describe the code on every document in which no anonymous symbol holds a gradient; the
    hoisting itself is tied by the per-run correspondence. -/
theorem anon_symbol_hoist_is_pass_elsewhere (n : Node)
    (h : Cleanup.isAnonSymbol n = true → Cleanup.gradsOfList n.children = []) :
    Cleanup.anonSymbolHoist n = Cleanup.anonSymbolPass.f n := Cleanup.hoist_eq_pass n h

example : Cleanup.anonSymbolHoist (.elem 1 (svgTag "symbol") [] [.elem 2 (svgTag "linearGradient") [("id", "g")] [], .elem 3 (svgTag "rect") [] []])
    = [.elem 2 (svgTag "linearGradient") [("id", "g")] []] := by
  simp [Cleanup.anonSymbolHoist, Cleanup.gradsOfList, Cleanup.gradsOf, Cleanup.isGradientTag, svgTag, Attrs.has]

/-- C14 (anonymous symbols, whole documents): on every document in which no id-less symbol has a gradient below it,
    `remove_anonymous_symbols` as the code does it since de121e8 *is* the per-element pass `removeAnonSymbols` the theorems
    above are about (gradients elsewhere, e.g. in defs, are no obstacle) -/
theorem remove_anonymous_symbols_is_the_pass (root : Node) (h : Cleanup.symbolsGradFreeList root.children = true) :
    Cleanup.removeAnonSymbolsH root = Cleanup.removeAnonSymbols root := Cleanup.removeAnonSymbolsH_eq root h

example : Cleanup.symbolsGradFreeList
    [.elem 1 (svgTag "defs") [] [.elem 2 (svgTag "linearGradient") [("id", "g")] []],
     .elem 3 (svgTag "symbol") [] [.elem 4 (svgTag "rect") [] []]] = true := by
  simp [Cleanup.symbolsGradFreeList, Cleanup.symbolsGradFree, Cleanup.gradFreeList, Cleanup.gradFree, Cleanup.isAnonSymbol,
    Cleanup.isGradientTag, svgTag, Attrs.has]

end PicoSVG.C14
