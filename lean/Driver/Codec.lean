import PicoSVG.Model.F64
import PicoSVG.Model.Geom
import PicoSVG.Model.Transform
open PicoSVG

namespace Drv

def hexOfNat (n : Nat) : String :=
  let ds := (Nat.toDigits 16 n)
  String.ofList (List.replicate (16 - ds.length) '0' ++ ds)

def fHex (x : Float) : String := hexOfNat x.toBits.toNat

def hexVal (c : Char) : Nat :=
  if '0' ≤ c && c ≤ '9' then c.toNat - 48
  else if 'a' ≤ c && c ≤ 'f' then c.toNat - 87
  else if 'A' ≤ c && c ≤ 'F' then c.toNat - 55 else 0

def ofHex (s : String) : Float :=
  F64.ofBitsNat (s.toList.foldl (fun a c => a * 16 + hexVal c) 0)

/-- wire codec for a scalar type -/
structure Codec (α : Type) where
  dec : String → Option α
  enc : α → String

def floatCodec : Codec Float :=
  { dec := fun s => if s.length == 16 then some (ofHex s) else none, enc := fHex }

def parseRat (s : String) : Option Rat :=
  match s.splitOn "/" with
  | [n] => n.toInt?.map (fun i => (i : Rat))
  | [n, d] => match n.toInt?, d.toNat? with
    | some i, some k => if k == 0 then none else some (mkRat i k)
    | _, _ => none
  | _ => none

def showRat (q : Rat) : String := if q.den == 1 then toString q.num else s!"{q.num}/{q.den}"

def ratCodec : Codec Rat := { dec := parseRat, enc := showRat }

def unesc (s : String) : String :=
  let rec go : List Char → List Char → List Char
    | [], acc => acc.reverse
    | '\\' :: 't' :: r, acc => go r ('\t' :: acc)
    | '\\' :: 'n' :: r, acc => go r ('\n' :: acc)
    | '\\' :: 'r' :: r, acc => go r ('\r' :: acc)
    | '\\' :: '\\' :: r, acc => go r ('\\' :: acc)
    | c :: r, acc => go r (c :: acc)
  String.ofList (go s.toList [])

def esc (s : String) : String :=
  String.ofList (s.toList.flatMap (fun c =>
    if c == '\\' then ['\\', '\\'] else if c == '\t' then ['\\', 't']
    else if c == '\n' then ['\\', 'n'] else if c == '\r' then ['\\', 'r'] else [c]))

def words (s : String) : List String := (s.splitOn " ").filter (· != "")

variable {α : Type}

def decList (C : Codec α) (s : String) : Option (List α) := (words s).mapM C.dec
def encList (C : Codec α) (l : List α) : String := " ".intercalate (l.map C.enc)

def decAff (C : Codec α) (s : String) : Option (Aff α) :=
  match decList C s with
  | some [a, b, c, d, e, f] => some ⟨a, b, c, d, e, f⟩
  | _ => none
def encAff (C : Codec α) (A : Aff α) : String := encList C A.toList

def decRect (C : Codec α) (s : String) : Option (Rect α) :=
  match decList C s with
  | some [x, y, w, h] => some ⟨x, y, w, h⟩
  | _ => none
def encRect (C : Codec α) (r : Rect α) : String := encList C [r.x, r.y, r.w, r.h]

def decPt (C : Codec α) (s : String) : Option (Pt α) :=
  match decList C s with
  | some [x, y] => some ⟨x, y⟩
  | _ => none
def encPt (C : Codec α) (p : Pt α) : String := encList C [p.x, p.y]

def encExcept {β : Type} (f : β → String) : Except PyErr β → String
  | .ok b => "ok " ++ f b
  | .error e => e.name

end Drv
