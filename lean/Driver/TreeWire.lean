import Driver.Codec
import PicoSVG.Model.Traverse
import PicoSVG.Model.Cleanup
open PicoSVG Drv

namespace Drv

/-- tree on the wire: ␟-separated tokens; node := `E` tag n (k v)ⁿ m childᵐ | `C` | `P` | `T` text -/
partial def parseNode : List String → Option (Node × List String)
  | "C" :: r => some (.comment, r)
  | "P" :: r => some (.pi, r)
  | "N" :: r => some (.entity, r)
  | "T" :: t :: r => some (.text (unesc t), r)
  | "E" :: tag :: n :: r =>
    match n.toNat? with
    | none => none
    | some k =>
      let rec attrs (k : Nat) (r : List String) (acc : Attrs) : Option (Attrs × List String) :=
        match k, r with
        | 0, r => some (acc.reverse, r)
        | k + 1, a :: v :: r' => attrs k r' ((unesc a, unesc v) :: acc)
        | _, _ => none
      match attrs k r [] with
      | none => none
      | some (as, m :: r2) =>
        match m.toNat? with
        | none => none
        | some mc =>
          let rec kids (k : Nat) (r : List String) (acc : List Node) : Option (List Node × List String) :=
            match k with
            | 0 => some (acc.reverse, r)
            | k + 1 =>
              match parseNode r with
              | some (nd, r') => kids k r' (nd :: acc)
              | none => none
          match kids mc r2 [] with
          | some (cs, r3) => some (.elem 0 (unesc tag) as cs, r3)
          | none => none
      | _ => none
  | _ => none

def decTree (s : String) : Option Node :=
  match parseNode (s.splitOn "\x1f") with
  | some (n, _) => some (Node.number 1 n).1
  | none => none

partial def encNode : Node → List String
  | .comment => ["C"]
  | .pi => ["P"]
  | .entity => ["N"]
  | .text t => ["T", esc t]
  | .elem _ tag as cs =>
    ["E", esc tag, toString as.length] ++ as.flatMap (fun (k, v) => [esc k, esc v]) ++
    [toString cs.length] ++ cs.flatMap encNode

def encTree (n : Node) : String := "\x1f".intercalate (encNode n)

def encAttrsSorted (a : Attrs) : String :=
  "\x1e".intercalate ((a.mergeSort (fun x y => decide (x.1 ≤ y.1))).map (fun (k, v) => esc k ++ "\x1f" ++ esc v))

def encCtx (c : Traverse.Ctx) : String :=
  Traverse.pathString c.segs ++ " " ++ toString c.nth ++ " " ++ encAff floatCodec c.transform ++ " " ++ encAttrsSorted c.attrib

def encViolation : Traverse.Violation → String
  | .badElement p => "BadElement: " ++ p
  | .reusesId p i f => "BadElement: " ++ p ++ " reuses id=\"" ++ i ++ "\", first seen at " ++ f
  | .missing p => "MissingElement: " ++ p

def handleDoc (fields : List String) : Option String :=
  match fields with
  | ["doc", "echo", t] => (decTree t).map encTree
  | ["doc", "bfs", t] => (decTree t).map (fun n =>
      encExcept (fun l => "\x1d".intercalate (l.map encCtx)) (Traverse.breadthFirst n))
  | ["doc", "dfs", t] => (decTree t).map (fun n =>
      encExcept (fun l => "\x1d".intercalate (l.map encCtx)) (Traverse.depthFirst n))
  | ["doc", "checkpico", allow, drop, t] => (decTree t).map (fun n =>
      encExcept (fun (r : List Traverse.Violation × List (List Nat)) =>
          "\x1d".intercalate (r.1.map encViolation) ++ "\x1c" ++
          "\x1d".intercalate (r.2.map (fun a => " ".intercalate (a.map toString))))
        (Traverse.checkPico (allow == "1") (drop == "1") n))
  | ["doc", "pass", name, noneGood, t] => (decTree t).bind (fun n =>
      let ng := noneGood == "1"
      match name with
      | "remove_nonsvg_content" => some ("ok " ++ encTree (Cleanup.removeNonSvg ng n))
      | "remove_processing_instructions" => some ("ok " ++ encTree (Cleanup.removePIs n))
      | "remove_anonymous_symbols" => some ("ok " ++ encTree (Cleanup.removeAnonSymbolsH n))
      | "remove_title_meta_desc" => some ("ok " ++ encTree (Cleanup.removeTitleMetaDesc n))
      | "cleanup" => some ("ok " ++ encTree (Cleanup.cleanup ng n))
      | "apply_style_attributes" => some (encExcept encTree (Cleanup.applyStyles n))
      | _ => none)
  | _ => none

end Drv
