import Driver.TreeWire
import PicoSVG.Model.Pipeline
import PicoSVG.Spec.Pico
open PicoSVG Drv SvgObj

namespace Drv

def decAns (s : String) : Option OracleAns :=
  if s.startsWith "c:" then
    let body := (s.drop 2).toString
    if body.isEmpty then some (.cmds []) else
    (body.splitOn ";").mapM (fun part =>
      match words part with
      | [] => none
      | c :: as => match c.toList with
        | [ch] => some (ch, as.map ofHex)
        | _ => none) |>.map OracleAns.cmds
  else if s.startsWith "b:" then
    match (words (s.drop 2).toString).map ofHex with
    | [a, b, c, d] => some (.box a b c d)
    | _ => none
  else if s.startsWith "n:" then some (.num (ofHex (s.drop 2).toString))
  else if s.startsWith "e:" then some (.err .pathOpsError)
  else none

def decTape (s : String) : List OracleAns :=
  if s.isEmpty then [] else (s.splitOn "\x1d").filterMap decAns

/-- one in-place operation; returns extra output (e.g. violations) -/
def runOp1 (noneGood : Bool) (op : String) : DocM String :=
  match words op with
  | ["remove_nonsvg_content"] => do opRemoveNonSvg noneGood; pure ""
  | ["remove_processing_instructions"] => do opRemovePIs; pure ""
  | ["remove_anonymous_symbols"] => do opRemoveAnonSymbols; pure ""
  | ["remove_title_meta_desc"] => do opRemoveTitleMetaDesc; pure ""
  | ["apply_style_attributes"] => do applyStyleAttributes; pure ""
  | ["resolve_nested_svgs"] => do let r ← resolveNestedSvgs; pure (if r then "self" else "None")
  | ["shapes_to_paths"] => do shapesToPaths; pure ""
  | ["expand_shorthand"] => do expandShorthand; pure ""
  | ["resolve_use"] => do resolveUse; pure ""
  | ["simplify"] => do simplify; pure ""
  | ["evenodd_to_nonzero_winding"] => do evenoddToNonzero; pure ""
  | ["normalize_opacity"] => do normalizeOpacity; pure ""
  | ["absolute"] => do absolute; pure ""
  | ["round_floats", n] => do roundFloats (n.toInt?.getD 3); pure ""
  | ["remove_empty_subpaths"] => do removeEmptySubpaths; pure ""
  | ["remove_unpainted_shapes"] => do removeUnpaintedShapes; pure ""
  | ["checkpicosvg", a, d] => do
      let v ← checkpicosvg (a == "1") (d == "1")
      pure ("\x1d".intercalate (v.map encViolation))
  | ["topicosvg", n, a, d] => do topicosvg (n.toInt?.getD 3) (a == "1") (d == "1") noneGood; pure ""
  | "set_attributes" :: kvs => do
      setRootAttributes (kvs.filterMap (fun kv => match kv.splitOn "=" with | [k, v] => some (k, v) | _ => none)); pure ""
  | "remove_attributes" :: names => do removeRootAttributes names; pure ""
  | ["bounding_box"] => do
      match ← boundingBox with
      | none => pure "None"
      | some r => pure (" ".intercalate [fHex r.x, fHex r.y, fHex r.w, fHex r.h])
  | ["view_box"] => do
      match ← viewBoxQ with
      | none => pure "None"
      | some r => pure (" ".intercalate [fHex r.x, fHex r.y, fHex r.w, fHex r.h])
  | ["tostring"] => do let _ ← toTree; pure ""
  | ["shapes"] => do let _ ← elements; pure ""
  | _ => DocM.fail .notImplementedError

/-- `copy:<op>` is the copying form: `_clone()` and the in-place operation on the copy, which becomes the current object -/
def runOp (noneGood : Bool) (op : String) : DocM String :=
  if op.startsWith "copy:" then do clone; runOp1 noneGood (op.drop 5).toString
  else runOp1 noneGood op

def runOps (noneGood : Bool) (ops : List String) : DocM (List String) := ops.mapM (runOp noneGood)

def handleSvgObj (fields : List String) : Option String :=
  match fields with
  | ["svgobj", "run", noneGood, ops, tape, t] =>
    match parseNode (t.splitOn "\x1f") with
    | none => none
    | some (n, _) =>
      let st := initObj n (decTape tape)
      let prog : DocM (List String × Node) := do
        let extras ← runOps (noneGood == "1") ((ops.splitOn ";").filter (· != ""))
        let tree ← toTree
        pure (extras, tree)
      some (match prog st with
        | .error e => e.name
        | .ok ((extras, tree), st') =>
          "ok " ++ encTree tree ++ "\x1c" ++ "\x1d".intercalate st'.asked ++ "\x1c" ++ "\x1e".intercalate extras ++
          "\x1c" ++ toString st'.tape.length)
  | ["spec", "ispico", nd, allow, t] =>
    match parseNode (t.splitOn "\x1f") with
    | none => none
    | some (n, _) => some ("ok " ++ "\x1d".intercalate (Spec.Pico.violations (nd.toInt?.getD 3) (allow == "1") n))
  | _ => none

end Drv
