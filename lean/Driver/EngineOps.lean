import Driver.Codec
import PicoSVG.Model.PathOps
open PicoSVG Drv PathOps

namespace Drv

def ruleName : FillRule → String
  | .nonzero => "nonzero"
  | .evenodd => "evenodd"

def opName : BoolOp → String
  | .union => "union"
  | .intersection => "intersection"
  | .difference => "difference"

/-- symbolic engine: paths are the expressions that produced them -/
def symEngine : Engine String Float :=
  { ofCmds := fun cmds rule => match cmds with
      | [('#', [i])] => .ok s!"mk({i.toUInt64.toNat},{ruleName rule})"
      | _ => .error .valueError
    op2 := fun o a b => .ok s!"op({opName o},{a},{b})"
    simplify := fun a => .ok s!"simplify({a})"
    cmds := fun _ => .ok [] }

/-- count occurrences of "op(" in an expression = number of binary operations already performed -/
def opCount (s : String) : Nat := (s.splitOn "op(").length - 1

/-- symbolic engine with an injected Skia failure: the `idx`-th binary operation, or the simplify -/
def faultyEngine (failSimplify : Bool) (idx : Nat) : Engine String Float :=
  { symEngine with
    op2 := fun o a b =>
      if !failSimplify && opCount a == idx then .error .pathOpsError else symEngine.op2 o a b
    simplify := fun a => if failSimplify then .error .pathOpsError else symEngine.simplify a }

def operandStubs (n : Nat) : List (List (Cmd Float)) :=
  (List.range n).map (fun i => [('#', [Float.ofNat i])])

def handleEngine (fields : List String) : Option String :=
  match fields with
  | ["pathops", "wrap", kind, shapes, explicit] =>
    let shp : List (String × String) := (words shapes).map (fun w =>
      match w.splitOn "/" with
      | [f, c] => (f, c)
      | _ => (w, w))
    let ex : Option (List String) := if explicit == "-" then none else some (words explicit)
    let w? : Option Wrapper := match kind with
      | "union" => some .union
      | "intersection" => some (.intersection ex)
      | "difference" => some .difference
      | _ => none
    w?.map (fun w =>
      match wrapperP symEngine w (operandStubs shp.length) shp with
      | .error e => e.name
      | .ok none => "ok None"
      | .ok (some p) => "ok " ++ p)
  | ["pathops", "wrap_fail", kind, shapes, explicit, failkind, idx] =>
    let shp : List (String × String) := (words shapes).map (fun w =>
      match w.splitOn "/" with
      | [f, c] => (f, c)
      | _ => (w, w))
    let ex : Option (List String) := if explicit == "-" then none else some (words explicit)
    let w? : Option Wrapper := match kind with
      | "union" => some .union
      | "intersection" => some (.intersection ex)
      | "difference" => some .difference
      | _ => none
    w?.map (fun w =>
      match wrapperP (faultyEngine (failkind == "simplify") idx.toNat!) w (operandStubs shp.length) shp with
      | .error e => e.name
      | .ok none => "ok None"
      | .ok (some p) => "ok " ++ p)
  | ["pathops", "remove_overlaps_fail", rule] =>
    some (match ruleOf rule with
      | .error e => e.name
      | .ok r => match removeOverlapsP (faultyEngine true 0) [('#', [0])] r with
        | .error e => e.name
        | .ok p => "ok " ++ p)
  | ["pathops", "remove_overlaps", rule] =>
    some (match ruleOf rule with
      | .error e => e.name
      | .ok r => match removeOverlapsP symEngine [('#', [0])] r with
        | .error e => e.name
        | .ok p => "ok " ++ p)
  | _ => none

end Drv
