import Driver.Codec
import PicoSVG.Model.Reuse
open PicoSVG Drv

namespace Drv

def handleReuse (fields : List String) : Option String :=
  match fields with
  | ["reuse", "between", d1, d2, tol] =>
    some (match Reuse.affineBetween (unesc d1) (unesc d2) (ofHex tol) with
      | .error e => e.name
      | .ok none => "ok None"
      | .ok (some A) => "ok " ++ encAff floatCodec A)
  | ["reuse", "friendly", d] =>
    some (encExcept (fun l => ";".intercalate (l.map (fun (c, as) => " ".intercalate (String.singleton c :: as.map fHex))))
      (Reuse.affineFriendly (unesc d)))
  | _ => none

end Drv
