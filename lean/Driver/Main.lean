import Driver.Codec
import Driver.Affine
import Driver.PathOps
import Driver.EngineOps
import Driver.ShapeOps
import Driver.ReuseOps
import Driver.TreeWire
import Driver.SvgObjOps
open PicoSVG Drv

def handleF64 (fields : List String) : Option String :=
  match fields with
  | ["f64.parse", s] => some (match F64.pyFloat? (unesc s) with
      | some f => fHex f
      | none => "ValueError")
  | ["f64.repr", h] => some (F64.pyRepr (ofHex h))
  | ["f64.ntos", h] => some (F64.ntos (ofHex h))
  | ["f64.round", h, n] => n.toInt?.map (fun k => fHex (F64.pyRound (ofHex h) k))
  | _ => none

def handlers : List (List String → Option String) := [handleF64, handleAffine, handlePath, handleEngine, handleShape, handleReuse, handleDoc, handleSvgObj]

def handle (fields : List String) : String :=
  match handlers.findSome? (fun h => h fields) with
  | some r => r
  | none => "bad-op"

partial def loop (h : IO.FS.Stream) (out : IO.FS.Stream) : IO Unit := do
  let line ← h.getLine
  if line.isEmpty then
    out.flush
    return ()
  let line := (line.dropEndWhile (fun c => c == '\n' || c == '\r')).toString
  out.putStrLn (handle (line.splitOn "\t"))
  loop h out

def main : IO Unit := do
  let out ← IO.getStdout
  loop (← IO.getStdin) out
