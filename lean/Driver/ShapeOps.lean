import Driver.Codec
import PicoSVG.Model.Shape
open PicoSVG Drv

namespace Drv

/-- attributes on the wire: `k␟v␞k␟v` (unit / record separators) -/
def decAttrs (s : String) : List (String × String) :=
  if s.isEmpty then [] else
  (s.splitOn "\x1e").filterMap (fun kv =>
    match kv.splitOn "\x1f" with
    | [k, v] => some (unesc k, unesc v)
    | _ => none)

def encFVal : FVal → String
  | .s v => "s:" ++ esc v
  | .f v => "f:" ++ fHex v

def encRec (r : ShapeRec) : String :=
  r.tag ++ " " ++ " ".intercalate (r.fields.map (fun (k, v) => k ++ "=" ++ encFVal v))

def decArea (s : String) : Option (Except PyErr Float) :=
  if s == "-" then none
  else if s == "PathOpsError" then some (.error .valueError)
  else some (.ok (ofHex s))

def handleShape (fields : List String) : Option String :=
  match fields with
  | ["rec", "from_attrs", tag, attrs] =>
    some (encExcept encRec (ShapeRec.fromAttrs tag (decAttrs attrs)))
  | ["rec", "apply_style", tag, attrs] =>
    some (encExcept encRec (ShapeRec.fromAttrs tag (decAttrs attrs) >>= ShapeRec.applyStyle))
  | ["rec", "as_path", tag, attrs] =>
    some (encExcept esc (ShapeRec.fromAttrs tag (decAttrs attrs) >>= ShapeRec.asPathD))
  | ["rec", "needs_area", tag, attrs] =>
    some (encExcept toString (ShapeRec.fromAttrs tag (decAttrs attrs) >>= ShapeRec.needsArea))
  | ["rec", "might_paint", tag, attrs, area] =>
    some (encExcept toString (ShapeRec.fromAttrs tag (decAttrs attrs) >>= fun r => r.mightPaint (decArea area)))
  | ["rec", "remove_empty_subpaths", tag, attrs, areas] =>
    let as : List (Except PyErr Float) := (words areas).filterMap decArea
    some (encExcept esc (ShapeRec.fromAttrs tag (decAttrs attrs) >>= fun r => r.removeEmptySubpaths as))
  | _ => none

end Drv
