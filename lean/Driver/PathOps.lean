import Driver.Codec
import PicoSVG.Model.SvgPath
import PicoSVG.Spec.PathInterp
import PicoSVG.Spec.Shapes
import PicoSVG.Spec.PathGrammar
open PicoSVG Drv

namespace Drv

def encArg : PathLex.Arg → String
  | .num s => s
  | .flag b => if b then "i1" else "i0"

def encLexCmds (l : List (Char × List PathLex.Arg)) : String :=
  ";".intercalate (l.map (fun (c, as) => " ".intercalate (String.singleton c :: as.map encArg)))

def encCmds (l : List (Cmd Float)) : String :=
  ";".intercalate (l.map (fun (c, as) => " ".intercalate (String.singleton c :: as.map fHex)))

def decCmds (s : String) : Option (List (Cmd Float)) :=
  if s.isEmpty then some [] else
  (s.splitOn ";").mapM (fun part =>
    match words part with
    | [] => none
    | c :: as =>
      match c.toList with
      | [ch] => some (ch, as.map ofHex)
      | _ => none)

def encPtF (p : Pt Float) : String := fHex p.x ++ " " ++ fHex p.y

def encSeg : Spec.Seg Float → String
  | .move p => "M " ++ encPtF p
  | .line a b => "L " ++ encPtF a ++ " " ++ encPtF b
  | .quad a c b => "Q " ++ encPtF a ++ " " ++ encPtF c ++ " " ++ encPtF b
  | .cubic a c1 c2 b => "C " ++ encPtF a ++ " " ++ encPtF c1 ++ " " ++ encPtF c2 ++ " " ++ encPtF b
  | .arc a rx ry rot l s b =>
    "A " ++ encPtF a ++ " " ++ " ".intercalate ([rx, ry, rot, l, s].map fHex) ++ " " ++ encPtF b
  | .close a b => "Z " ++ encPtF a ++ " " ++ encPtF b

def okStr (r : Except PyErr String) : String := encExcept (fun s => esc s) r

def handlePath (fields : List String) : Option String :=
  match fields with
  | ["path", "parse", e, d] =>
    some (encExcept encLexCmds (PathLex.parse (e == "1") (unesc d).toList))
  | ["path", "absolute", d] => some (okStr (SvgPath.absolute (unesc d)))
  | ["path", "absolute_moveto", d] => some (okStr (SvgPath.absoluteMoveto (unesc d)))
  | ["path", "relative", d] => some (okStr (SvgPath.relative (unesc d)))
  | ["path", "explicit_lines", d] => some (okStr (SvgPath.explicitLines (unesc d)))
  | ["path", "expand_shorthand", d] => some (okStr (SvgPath.expandShorthand (unesc d)))
  | ["path", "arcs_to_cubics", d] => some (okStr (SvgPath.arcsToCubics (unesc d)))
  | ["path", "as_cmd_seq", d] => some (okStr (SvgPath.asCmdSeqStr (unesc d)))
  | ["path", "move", dx, dy, d] => some (okStr (SvgPath.move (ofHex dx) (ofHex dy) (unesc d)))
  | ["path", "subpaths", d] =>
    some (encExcept (fun l => "|".intercalate (l.map esc)) (SvgPath.subpaths (unesc d)))
  | ["path", "round_floats", n, d] =>
    n.toInt?.map (fun k => okStr (SvgPath.roundFloats k (unesc d)))
  | ["path", "print", cmds] => (decCmds cmds).map (fun l => okStr (Path.print l))
  | ["shape", "rect", a] =>
    match decList floatCodec a with
    | some [x, y, w, h, rx, ry] => some (okStr (SvgPath.rectPath x y w h rx ry))
    | _ => none
  | ["shape", "ellipse", a] =>
    match decList floatCodec a with
    | some [rx, ry, cx, cy] => some (okStr (SvgPath.ellipsePath rx ry cx cy))
    | _ => none
  | ["shape", "circle", a] =>
    match decList floatCodec a with
    | some [r, cx, cy] => some (okStr (SvgPath.circlePath r cx cy))
    | _ => none
  | ["shape", "line", a] =>
    match decList floatCodec a with
    | some [x1, y1, x2, y2] => some (okStr (SvgPath.linePath x1 y1 x2 y2))
    | _ => none
  | ["shape", "polygon", pts] => some ("ok " ++ esc (SvgPath.polygonPath (unesc pts)))
  | ["shape", "polyline", pts] => some ("ok " ++ esc (SvgPath.polylinePath (unesc pts)))
  | ["spec", "interp", d] =>
    -- SPEC judge: lex with the model tokenizer, interpret with Spec.interp
    some (match SvgPath.cmdsOf (unesc d) with
      | .error e => e.name
      | .ok cmds => match Spec.interp cmds with
        | none => "SpecReject"
        | some segs => "ok " ++ ";".intercalate (segs.map encSeg))
  | ["spec", "grammar", d] =>
    some (match Spec.PathGrammar.parse (unesc d).toList with
      | none => "reject"
      | some cmds => "ok " ++ ";".intercalate
          (cmds.map (fun (c, as) => " ".intercalate (String.singleton c :: as))))
  | ["spec", "shape", k, a] =>
    let segs? : Option (List (Spec.Seg Float)) := match k, decList floatCodec a with
      | "rect", some [x, y, w, h, rx, ry] => some (Spec.rectOutline x y w h rx ry)
      | "ellipse", some [rx, ry, cx, cy] => some (Spec.ellipseOutline rx ry cx cy)
      | "circle", some [r, cx, cy] => some (Spec.circleOutline r cx cy)
      | "line", some [x1, y1, x2, y2] => some (Spec.lineOutline x1 y1 x2 y2)
      | _, _ => none
    segs?.map (fun segs => "ok " ++ ";".intercalate (segs.map encSeg))
  | ["spec", "rectattr", a, gx, gy] =>
    match decList floatCodec a with
    | some [x, y, w, h, rx, ry] =>
      let segs := Spec.rectOutlineAttr x y w h (if gx == "1" then some rx else none) (if gy == "1" then some ry else none)
      some ("ok " ++ ";".intercalate (segs.map encSeg))
    | _ => none
  | ["arc", a, l, s] =>
    match decList floatCodec a with
    | some [sx, sy, rx, ry, rot, ex, ey] =>
      let arc : EllArc Float := ⟨⟨sx, sy⟩, rx, ry, rot, l == "1", s == "1", ⟨ex, ey⟩⟩
      some (match arcToCubic ArcMath.float SvgPath.eps arc with
        | .error e => e.name
        | .ok .empty => "ok empty"
        | .ok (.line p) => "ok line " ++ encPtF p
        | .ok (.cubics cs) => "ok cubics " ++
            ";".intercalate (cs.map (fun c => encPtF c.c1 ++ " " ++ encPtF c.c2 ++ " " ++ encPtF c.p)))
    | _ => none
  | _ => none

end Drv
