import Driver.Codec
import PicoSVG.Gen.Tables
import PicoSVG.Spec.Transform
import PicoSVG.Model.ViewBox
open PicoSVG Drv

namespace Drv

section
variable {α : Type} [Add α] [Sub α] [Mul α] [Div α] [Neg α] [OfNat α 0] [OfNat α 1] [BEq α]
  [LT α] [LE α] [DecidableLT α] [DecidableLE α]

/-- ops generic in the scalar (Float and Rat instantiations); `eps tolEq tolDec` come from Gen -/
def affineOps (C : Codec α) (eps tolEq tolDec : α) (fields : List String) : Option String :=
  match fields with
  | ["mul", a, b] => do
      let A ← decAff C a; let B ← decAff C b
      pure (encAff C (A.mul B))
  | ["inverse", a] => do
      let A ← decAff C a
      pure (encAff C (A.inverse eps))
  | ["isdeg", a] => do
      let A ← decAff C a
      pure (toString (A.isDegenerate eps))
  | "compose" :: rest => do
      let l ← rest.mapM (decAff C)
      pure (encAff C (Aff.composeLtr l))
  | ["mappt", a, p] => do
      let A ← decAff C a; let P ← decPt C p
      pure (encPt C (A.mapPt P))
  | ["mapvec", a, p] => do
      let A ← decAff C a; let P ← decPt C p
      pure (encPt C (A.mapVec P))
  | ["translate", a, p] => do
      let A ← decAff C a; let P ← decPt C p
      pure (encAff C (A.translate P.x P.y))
  | ["scale", a, p] => do
      let A ← decAff C a; let P ← decPt C p
      pure (encAff C (A.scale P.x P.y))
  | ["r2r", s, d, par] => do
      let S ← decRect C s; let D ← decRect C d
      pure (encExcept (encAff C) (rectToRectStr S D (unesc par)))
  | ["decompT", a] => do
      let A ← decAff C a
      pure (encExcept (fun (r : Aff α × Aff α) => encAff C r.1 ++ " " ++ encAff C r.2)
        (decomposeTranslationPy tolEq tolDec A))
  | ["almosteq", a, b, t] => do
      let A ← decAff C a; let B ← decAff C b; let T ← C.dec t
      pure (toString (A.almostEq T B))
  | ["rect.isect", s, d] => do
      let S ← decRect C s; let D ← decRect C d
      pure (match S.intersection D with | some r => "some " ++ encRect C r | none => "none")
  | ["rect.union", s, d] => do
      let S ← decRect C s; let D ← decRect C d
      pure (encRect C (S.union D))
  | ["clipdecision", v, b] => do
      let V ← decRect C v; let B ← decRect C b
      pure (match clipDecision V B with
        | .drop => "drop"
        | .keep => "keep"
        | .clip r => "clip " ++ encRect C r)
  | "docbbox" :: rest => do
      let l ← rest.mapM (decRect C)
      pure (match docBBox l with | none => "none" | some r => "some " ++ encRect C r)
  | ["rect.empty", s] => do
      let S ← decRect C s
      pure (toString S.empty)
  | _ => none
end

def gEps : Float := F64.ofBitsNat Gen.floatEpsilonBits
def gTolEq : Float := F64.ofBitsNat Gen.almostEqualTolBits
def gTolDec : Float := F64.ofBitsNat Gen.decompositionTolBits
def ratOf (x : Float) : Rat := (F64.toRat? x).getD 0

def encOp (op : TOp Float) : String :=
  let o (x : Option Float) := match x with | some v => fHex v | none => "-"
  match op with
  | .matrix a b c d e f => "matrix " ++ encList floatCodec [a, b, c, d, e, f]
  | .translate tx ty => "translate " ++ fHex tx ++ " " ++ o ty
  | .scale sx sy => "scale " ++ fHex sx ++ " " ++ o sy
  | .rotate a cx cy => "rotate " ++ fHex a ++ " " ++ o cx ++ " " ++ o cy
  | .skewX a => "skewX " ++ fHex a
  | .skewY a => "skewY " ++ fHex a

/-- Float-only ops: transform strings, tostring, and the SPEC evaluator used as judge -/
def affineFloatOps (fields : List String) : Option String :=
  match fields with
  | ["parse", s] => some (encExcept (encAff floatCodec) (TransformParse.parse (unesc s)))
  | ["parseops", s] => some (encExcept (fun ops => ";".intercalate (ops.map encOp))
      (TransformParse.parseOps (unesc s)))
  | ["tostring", a] => do
      let A ← decAff floatCodec a
      pure (Aff.tostring A)
  | ["spec.listpoint", s, p] => do
      -- SPEC judge: parse the op list with the model's lexer, evaluate with Spec.listPoint
      let P ← decPt floatCodec p
      match TransformParse.parseOps (unesc s) with
      | .ok ops => pure ("ok " ++ encPt floatCodec (Spec.listPoint Trig.float ops P))
      | .error e => pure e.name
  | _ => none

def handleAffine (fields : List String) : Option String :=
  match fields with
  | "aff" :: rest => (affineOps floatCodec gEps gTolEq gTolDec rest).orElse (fun _ => affineFloatOps rest)
  | "qaff" :: rest => affineOps ratCodec (ratOf gEps) (ratOf gTolEq) (ratOf gTolDec) rest
  | _ => none

end Drv
