"""Rendering judge shared by C02-C06: the source document and the converted document are evaluated by the independent
point-sampling renderer (harness/render.py, geometry through the Lean specification) at the same points of the viewBox."""
import math

import render


def view_box_of(doc):
    vb = doc.view_box()
    if vb is None:
        return (0.0, 0.0, 100.0, 100.0)
    return vb


def sample_points(rng, vb, n):
    x0, y0, w, h = vb
    pts = []
    k = max(2, int(math.sqrt(n * 0.6)))
    for i in range(k):
        for j in range(k):
            pts.append((x0 + (i + rng.uniform(0.15, 0.85)) * w / k, y0 + (j + rng.uniform(0.15, 0.85)) * h / k))
    while len(pts) < n:
        pts.append((x0 + rng.uniform(-0.05, 1.05) * w, y0 + rng.uniform(-0.05, 1.05) * h))
    return pts


def close(a, b, tol):
    return all(abs(x - y) <= tol for x, y in zip(a, b))


def stacks_equal(a, b, tol=0.02):
    if len(a) != len(b):
        return False
    return all(close(x, y, tol) for x, y in zip(a, b))


def judge(driver, src, out, rng, n=64, mode="stack", tol=0.02, clip_to_viewbox=True, extra_points=()):
    """returns dict(status='ok'|'skip'|'fail', ...).  mode 'stack': ordered list of visible paints; 'color': composited
    premultiplied colour.  Points UNKNOWN (within eps of an edge) in either document are skipped."""
    try:
        ds = render.Doc(src, driver)
        do = render.Doc(out, driver)
    except render.Unsupported as e:
        return {"status": "skip", "why": str(e)}
    vb = view_box_of(ds)
    eps = 0.004 * max(vb[2], vb[3])
    ds.eps = do.eps = max(eps, 1e-6)
    pts = list(extra_points) + sample_points(rng, vb, n)
    compared = unknown = painted = 0
    for (x, y) in pts:
        try:
            a = ds.point(x, y)
            b = do.point(x, y)
        except render.Unsupported as e:
            return {"status": "skip", "why": str(e)}
        except (ValueError, ZeroDivisionError, OverflowError) as e:
            return {"status": "skip", "why": "renderer: %s" % e}
        if a is render.UNKNOWN or b is render.UNKNOWN:
            unknown += 1
            continue
        compared += 1
        if mode == "stack":
            pa, pb = render.paints(a), render.paints(b)
            if pa:
                painted += 1
            if not stacks_equal(pa, pb, tol):
                return {"status": "fail", "point": (x, y), "source": pa, "converted": pb, "compared": compared}
        else:
            ca, cb = render.composite(a), render.composite(b)
            if ca[3] > 0:
                painted += 1
            if not close(ca, cb, tol):
                return {"status": "fail", "point": (x, y), "source": [round(v, 4) for v in ca], "converted": [round(v, 4) for v in cb], "compared": compared}
    return {"status": "ok", "compared": compared, "unknown": unknown, "painted": painted}
