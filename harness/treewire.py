"""lxml tree <-> the model driver's wire format (see lean/Driver/TreeWire.lean)."""
from lxml import etree

from common import esc, unesc

US = "\x1f"


def enc_el(el, out):
    if el.tag is etree.Comment:
        out.append("C")
        return
    if el.tag is etree.ProcessingInstruction:
        out.append("P")
        return
    if not isinstance(el.tag, str):
        out.append("N")  # unexpanded entity reference
        return
    out += ["E", esc(el.tag), str(len(el.attrib))]
    for k, v in el.attrib.items():
        out += [esc(k), esc(v)]
    kids = []
    if el.text:
        kids.append(("T", el.text))
    for ch in el:
        kids.append(("N", ch))
        if ch.tail:
            kids.append(("T", ch.tail))
    out.append(str(len(kids)))
    for k, v in kids:
        if k == "T":
            out += ["T", esc(v)]
        else:
            enc_el(v, out)


def encode(root):
    out = []
    enc_el(root, out)
    return US.join(out)


def decode(s):
    """wire -> nested tuples ('E', tag, [(k,v)], [children]) | ('C',) | ('P',) | ('T', text)"""
    toks = s.split(US)
    pos = [0]

    def node():
        t = toks[pos[0]]
        pos[0] += 1
        if t in ("C", "P", "N"):
            return (t,)
        if t == "T":
            v = unesc(toks[pos[0]])
            pos[0] += 1
            return ("T", v)
        tag = unesc(toks[pos[0]])
        n = int(toks[pos[0] + 1])
        pos[0] += 2
        attrs = []
        for _ in range(n):
            attrs.append((unesc(toks[pos[0]]), unesc(toks[pos[0] + 1])))
            pos[0] += 2
        m = int(toks[pos[0]])
        pos[0] += 1
        kids = [node() for _ in range(m)]
        return ("E", tag, attrs, kids)

    return node()


def canon(root):
    """lxml tree -> the same nested tuple form (for comparing implementation output with the model)"""
    return decode(encode(root))


def strip_text(t):
    """drop text nodes (whitespace handling is lxml's business)"""
    if t[0] != "E":
        return t
    return ("E", t[1], t[2], [strip_text(k) for k in t[3] if k[0] != "T"])


def to_xml(t):
    """nested tuples -> an lxml element (for feeding model output back to the implementation)"""
    if t[0] != "E":
        raise ValueError("not an element")
    el = etree.Element(t[1])
    for k, v in t[2]:
        el.set(k, v)
    last = None
    for k in t[3]:
        if k[0] == "E":
            last = to_xml(k)
            el.append(last)
        elif k[0] == "T":
            if last is None:
                el.text = (el.text or "") + k[1]
            else:
                last.tail = (last.tail or "") + k[1]
        elif k[0] == "C":
            last = etree.Comment("c")
            el.append(last)
        elif k[0] == "P":
            last = etree.ProcessingInstruction("pi")
            el.append(last)
    return el
