"""Independent point-sampling renderer for the structural SVG grammar of the properties.

Implements the SVG 1.1 rendering model at single points: CSS cascade (style > presentation
attribute > inherited > initial), transforms, groups with opacity (group compositing), use,
nested svg viewports (viewBox / preserveAspectRatio / overflow), clip paths (clip-rule,
clipPath transform, nested clip-path, ancestors), fills under their fill-rule, strokes
(three-valued: definitely inside / definitely outside / unknown), linear and radial gradients.

Independent of picosvg: XML via lxml, path data interpreted by the Lean specification
(Spec.interp / Spec shapes through the model driver), curves flattened here, arcs by the true
centre parametrisation.  A point closer than `eps` to any edge it depends on is reported as
UNKNOWN and skipped by the callers.
"""
import math
import re

from lxml import etree

import geom
from common import esc, hexf, unhex

SVGNS = "http://www.w3.org/2000/svg"
XLINK = "http://www.w3.org/1999/xlink"

INHERITED = {"fill": "black", "fill-rule": "nonzero", "fill-opacity": "1", "stroke": "none", "stroke-width": "1",
             "stroke-linecap": "butt", "stroke-linejoin": "miter", "stroke-miterlimit": "4", "stroke-dasharray": "none",
             "stroke-dashoffset": "0", "stroke-opacity": "1", "clip-rule": "nonzero", "color": "black"}
NAMED = {"red": (255, 0, 0), "blue": (0, 0, 255), "black": (0, 0, 0), "orange": (255, 165, 0), "white": (255, 255, 255),
         "green": (0, 128, 0), "yellow": (255, 255, 0), "lime": (0, 255, 0), "gray": (128, 128, 128)}

UNKNOWN = "unknown"


class Unsupported(Exception):
    pass


def local(tag):
    if not isinstance(tag, str):
        return None
    if tag.startswith("{"):
        ns, _, l = tag[1:].partition("}")
        return l if ns == SVGNS else None
    return tag


def parse_color(s):
    s = s.strip()
    if s in NAMED:
        return NAMED[s]
    m = re.match(r"^#([0-9a-fA-F]{3})$", s)
    if m:
        return tuple(int(c * 2, 16) for c in m.group(1))
    m = re.match(r"^#([0-9a-fA-F]{6})$", s)
    if m:
        h = m.group(1)
        return (int(h[0:2], 16), int(h[2:4], 16), int(h[4:6], 16))
    m = re.match(r"^rgb\(\s*(\d+)\s*,\s*(\d+)\s*,\s*(\d+)\s*\)$", s)
    if m:
        return tuple(int(g) for g in m.groups())
    raise Unsupported("colour %r" % s)


# ---------------------------------------------------------------- affine helpers (plain tuples a b c d e f)

ID = (1.0, 0.0, 0.0, 1.0, 0.0, 0.0)


def mul(m, n):
    """m @ n : apply n first"""
    a, b, c, d, e, f = m
    A, B, C, D, E, F = n
    return (a * A + c * B, b * A + d * B, a * C + c * D, b * C + d * D, a * E + c * F + e, b * E + d * F + f)


def inv(m):
    a, b, c, d, e, f = m
    det = a * d - b * c
    if abs(det) < 1e-14:
        return None
    ia, ib, ic, idd = d / det, -b / det, -c / det, a / det
    return (ia, ib, ic, idd, -(ia * e + ic * f), -(ib * e + idd * f))


def apply(m, x, y):
    a, b, c, d, e, f = m
    return (a * x + c * y + e, b * x + d * y + f)


def parse_transform(s):
    """SVG 1.1 §7.6, written independently of picosvg"""
    m = ID
    pos = 0
    s = s.strip()
    for mt in re.finditer(r"(matrix|translate|scale|rotate|skewX|skewY)\s*\(([^)]*)\)", s):
        name = mt.group(1)
        args = [float(t) for t in re.split(r"[\s,]+", mt.group(2).strip()) if t]
        if name == "matrix":
            t = tuple(args)
        elif name == "translate":
            t = (1, 0, 0, 1, args[0], args[1] if len(args) > 1 else 0.0)
        elif name == "scale":
            t = (args[0], 0, 0, args[1] if len(args) > 1 else args[0], 0, 0)
        elif name == "rotate":
            a = math.radians(args[0])
            r = (math.cos(a), math.sin(a), -math.sin(a), math.cos(a), 0, 0)
            if len(args) == 3:
                t = mul(mul((1, 0, 0, 1, args[1], args[2]), r), (1, 0, 0, 1, -args[1], -args[2]))
            else:
                t = r
        elif name == "skewX":
            t = (1, 0, math.tan(math.radians(args[0])), 1, 0, 0)
        else:
            t = (1, math.tan(math.radians(args[0])), 0, 1, 0, 0)
        m = mul(m, t)
    return m


def viewport_transform(vb, vp, par):
    """SVG 1.1 §7.8: map viewBox vb=(x,y,w,h) into viewport vp=(x,y,w,h)"""
    vbx, vby, vbw, vbh = vb
    ex, ey, ew, eh = vp
    sx, sy = ew / vbw, eh / vbh
    parts = par.strip().split()
    align = parts[0] if parts else "xMidYMid"
    mos = parts[1] if len(parts) > 1 else "meet"
    if align != "none":
        s = min(sx, sy) if mos == "meet" else max(sx, sy)
        sx = sy = s
    tx, ty = ex - vbx * sx, ey - vby * sy
    if align != "none":
        if "xMid" in align:
            tx += (ew - vbw * sx) / 2
        elif "xMax" in align:
            tx += ew - vbw * sx
        if "YMid" in align:
            ty += (eh - vbh * sy) / 2
        elif "YMax" in align:
            ty += eh - vbh * sy
    return (sx, 0.0, 0.0, sy, tx, ty)


# ---------------------------------------------------------------- geometry via the Lean spec

def arc_points(p0, rx, ry, rot, fa, fs, p1, n=48):
    """points on the true elliptical arc (SVG F.6.5), excluding p0, including p1"""
    from props import c12
    if p0 == p1:
        return []
    if rx == 0 or ry == 0:
        return [p1]
    cx, cy, crx, cry, phi, th1, dth = c12.true_params((p0[0], p0[1], rx, ry, rot, int(fa != 0), int(fs != 0), p1[0], p1[1]))
    c, s = math.cos(phi), math.sin(phi)
    out = []
    for i in range(1, n + 1):
        t = th1 + dth * i / n
        ux, uy = crx * math.cos(t), cry * math.sin(t)
        out.append((cx + c * ux - s * uy, cy + s * ux + c * uy))
    out[-1] = p1
    return out


def segs_to_contours(segs, tol):
    contours = []
    pts = None
    for k, v in segs:
        if k == "M":
            if pts and len(pts) > 1:
                contours.append((pts, False))
            pts = [(v[0], v[1])]
        elif k == "L":
            pts.append((v[2], v[3]))
        elif k == "Q":
            geom.flat_quad((v[0], v[1]), (v[2], v[3]), (v[4], v[5]), tol, pts)
        elif k == "C":
            geom.flat_cubic((v[0], v[1]), (v[2], v[3]), (v[4], v[5]), (v[6], v[7]), tol, pts)
        elif k == "A":
            pts.extend(arc_points((v[0], v[1]), abs(v[2]), abs(v[3]), v[4], v[5], v[6], (v[7], v[8])))
        elif k == "Z":
            pts.append((v[2], v[3]))
            contours.append((pts, True))
            pts = [(v[2], v[3])]
    if pts and len(pts) > 1:
        contours.append((pts, False))
    return contours


class GeomCache:
    """shape element -> contours in its own user space, through the Lean specification"""

    def __init__(self, driver, tol=0.02):
        self.driver = driver
        self.tol = tol
        self.req = {}
        self.res = {}

    def key_for(self, el):
        tag = local(el.tag)
        g = el.attrib.get
        try:
            if tag == "path":
                return ("spec\tinterp\t" + esc(g("d", "")),)
            if tag == "rect":
                vals = [float(g(k, "0") or 0) for k in ("x", "y", "width", "height", "rx", "ry")]
                if (g("rx") or "").strip() and (g("ry") or "").strip() and (vals[4] == 0 or vals[5] == 0):
                    vals[4] = vals[5] = 0.0  # both radii given, one of them zero: square corners (SVG 1.1 §9.2; a lone radius is copied)
                return ("spec\tshape\trect\t" + " ".join(hexf(v) for v in vals),)
            if tag == "circle":
                vals = [float(g(k, "0") or 0) for k in ("r", "cx", "cy")]
                return ("spec\tshape\tcircle\t" + " ".join(hexf(v) for v in vals),)
            if tag == "ellipse":
                vals = [float(g(k, "0") or 0) for k in ("rx", "ry", "cx", "cy")]
                return ("spec\tshape\tellipse\t" + " ".join(hexf(v) for v in vals),)
            if tag == "line":
                vals = [float(g(k, "0") or 0) for k in ("x1", "y1", "x2", "y2")]
                return ("spec\tshape\tline\t" + " ".join(hexf(v) for v in vals),)
            if tag in ("polygon", "polyline"):
                pts = g("points", "")
                d = ("M" + pts + (" Z" if tag == "polygon" else "")) if pts.strip() else ""
                return ("spec\tinterp\t" + esc(d),)
        except ValueError:
            raise Unsupported("non-numeric shape attribute")
        return None

    def prefetch(self, lines):
        need = [l for l in dict.fromkeys(lines) if l not in self.res]
        if need:
            outs = self.driver.batch(need)
            for l, o in zip(need, outs):
                self.res[l] = o

    def contours(self, line):
        o = self.res[line]
        if not o.startswith("ok"):
            raise Unsupported("shape geometry not interpretable: %s" % o)
        body = o[3:]
        segs = []
        if body:
            for part in body.split(";"):
                t = part.split()
                segs.append((t[0], [unhex(h) for h in t[1:]]))
        return segs_to_contours(segs, self.tol)


# ---------------------------------------------------------------- cascade

def own_props(el):
    """presentation attributes overridden by style declarations"""
    props = {}
    for k, v in el.attrib.items():
        if isinstance(k, str) and not k.startswith("{") and k != "style":
            props[k] = v
    style = el.attrib.get("style")
    if style:
        for decl in style.split(";"):
            if ":" in decl:
                k, _, v = decl.partition(":")
                props[k.strip()] = v.strip()
    return props


def cascade(parent_ctx, props):
    ctx = dict(parent_ctx)
    for k in INHERITED:
        if k in props and props[k] != "inherit":
            ctx[k] = props[k]
    return ctx


def fnum(s, default):
    try:
        return float(s)
    except (TypeError, ValueError):
        return default


# ---------------------------------------------------------------- document

class Doc:
    def __init__(self, text, driver, tol=0.02):
        parser = etree.XMLParser(remove_comments=True, resolve_entities=False)
        if "xlink:" in text and "xmlns:xlink" not in text:
            # documents are fond of not declaring xlink; renderers in the wild accept it
            text = text.replace("<svg ", '<svg xmlns:xlink="%s" ' % XLINK, 1)
        self.root = etree.fromstring(text.encode("utf-8"), parser)
        self.ids = {}
        for el in self.root.iter():
            if isinstance(el.tag, str) and "id" in el.attrib:
                self.ids.setdefault(el.attrib["id"], el)
        self.gc = GeomCache(driver, tol)
        lines = []
        for el in self.root.iter():
            t = local(el.tag)
            if t in ("path", "rect", "circle", "ellipse", "line", "polygon", "polyline"):
                k = self.gc.key_for(el)
                if k:
                    lines.append(k[0])
        self.gc.prefetch(lines)
        self.eps = 0.4

    def view_box(self):
        vb = self.root.attrib.get("viewBox")
        if vb:
            return tuple(float(t) for t in re.split(r"[\s,]+", vb.strip()))
        w, h = self.root.attrib.get("width"), self.root.attrib.get("height")
        if w and h:
            return (0.0, 0.0, float(w), float(h))
        return (0.0, 0.0, 100.0, 100.0)

    def target(self, url):
        m = re.match(r"^url\(#([^)]+)\)$", url.strip())
        if not m:
            raise Unsupported("reference %r" % url)
        el = self.ids.get(m.group(1))
        if el is None:
            raise Unsupported("dangling reference %r" % url)
        return el

    # ---- regions

    def shape_contours(self, el):
        k = self.gc.key_for(el)
        if k is None:
            raise Unsupported("not a shape")
        return self.gc.contours(k[0])

    def in_fill(self, el, ctm, x, y, rule):
        """True / False / UNKNOWN for the point (x,y) (in root user space)"""
        im = inv(ctm)
        if im is None:
            return False
        ux, uy = apply(im, x, y)
        cs = self.shape_contours(el)
        if not cs:
            return False
        # distance in root space ~ distance in user space * scale; use a conservative band
        sc = math.sqrt(abs(ctm[0] * ctm[3] - ctm[1] * ctm[2])) or 1.0
        smax = max(math.hypot(ctm[0], ctm[1]), math.hypot(ctm[2], ctm[3]), 1e-9)
        if geom.edge_dist(cs, ux, uy) * smax < self.eps:
            return UNKNOWN
        return geom.inside(cs, ux, uy, rule)

    def in_stroke(self, el, ctm, ctx, x, y):
        w = fnum(ctx.get("stroke-width"), 1.0)
        if ctx.get("stroke", "none") == "none" or w <= 0:
            return False
        im = inv(ctm)
        if im is None:
            return False
        ux, uy = apply(im, x, y)
        cs = self.shape_contours(el)
        if not cs:
            return False
        smin = min(math.hypot(ctm[0], ctm[1]), math.hypot(ctm[2], ctm[3]))
        smin = max(smin, 1e-9)
        band = self.eps / smin + 0.3     # Skia's stroker works at 0.25 unit resolution
        miter = max(fnum(ctx.get("stroke-miterlimit"), 4.0), 1.0)
        dash_s = ctx.get("stroke-dasharray", "none")
        dash = []
        if dash_s not in ("none", ""):
            try:
                dash = [float(t) for t in re.split(r"[\s,]+", dash_s.strip()) if t]
            except ValueError:
                raise Unsupported("dash array")
            if any(v < 0 for v in dash):
                raise Unsupported("negative dash")
            if len(dash) % 2:
                dash = dash + dash
            if sum(dash) <= 0:
                dash = []
        r = geom.stroke_classify(cs, ux, uy, w, ctx.get("stroke-linejoin", "miter"), miter, ctx.get("stroke-linecap", "butt"),
                                 dash, fnum(ctx.get("stroke-dashoffset"), 0.0), band)
        return UNKNOWN if r is None else r

    def in_clip(self, clip_el, ctm, x, y, depth=0):
        """clipPath element applied to an element whose user space is ctm"""
        if depth > 8:
            raise Unsupported("clip recursion")
        props = own_props(clip_el)
        if props.get("clipPathUnits", "userSpaceOnUse") != "userSpaceOnUse":
            raise Unsupported("clipPathUnits")
        m = ctm
        if "transform" in props:
            m = mul(m, parse_transform(props["transform"]))
        res = False
        for ch in clip_el:
            t = local(ch.tag)
            if t is None:
                continue
            cprops = own_props(ch)
            if cprops.get("display") == "none":
                continue
            cm = m
            if "transform" in cprops:
                cm = mul(cm, parse_transform(cprops["transform"]))
            if t == "use":
                raise Unsupported("use inside clipPath")
            if t not in ("path", "rect", "circle", "ellipse", "line", "polygon", "polyline"):
                continue
            # clip-rule is inherited: own value, else the clipPath's, else the nearest ancestor's of the clipPath
            rule = cprops.get("clip-rule", props.get("clip-rule"))
            anc = clip_el.getparent()
            while rule is None and anc is not None:
                rule = own_props(anc).get("clip-rule")
                anc = anc.getparent()
            rule = rule or "nonzero"
            r = self.in_fill(ch, cm, x, y, rule)
            if r is UNKNOWN:
                return UNKNOWN
            res = res or r
        if res and props.get("clip-path") not in (None, "", "none"):
            r2 = self.in_clip(self.target(props["clip-path"]), ctm, x, y, depth + 1)
            if r2 is UNKNOWN:
                return UNKNOWN
            res = res and r2
        return res

    # ---- painting

    def paint_at(self, paint, el, ctm, x, y):
        if paint.startswith("url("):
            g = self.target(paint)
            return self.gradient_color(g, el, ctm, x, y)
        return tuple(c / 255.0 for c in parse_color(paint))

    def layers(self, el, ctm, ctx, x, y, depth=0, stack=None):
        """returns a layer tree for element el at point (x,y): list of
        ('leaf', rgb, alpha) | ('group', alpha, [layers]) | UNKNOWN marker raises"""
        if depth > 24:
            raise Unsupported("nesting too deep / reference cycle")
        t = local(el.tag)
        if t is None or t in ("defs", "clipPath", "linearGradient", "radialGradient", "symbol", "title", "desc", "metadata", "style", "mask", "marker", "pattern"):
            return []
        props = own_props(el)
        if props.get("display") == "none":
            return []
        c2 = cascade(ctx, props)
        m = ctm
        if t != "svg" or depth > 0:
            if "transform" in props:
                m = mul(m, parse_transform(props["transform"]))
        if t == "use":
            # SVG 1.1 §5.6: the generated g carries `transform` with translate(x, y) appended, and the other attributes
            # of the use (clip-path, opacity, ...) — so they act in the translated user space
            m = mul(m, (1, 0, 0, 1, fnum(props.get("x"), 0.0), fnum(props.get("y"), 0.0)))
        op = min(max(fnum(props.get("opacity"), 1.0), 0.0), 1.0)
        # clip-path of this element, in its own user space
        cp = props.get("clip-path")
        if cp not in (None, "", "none"):
            r = self.in_clip(self.target(cp), m, x, y)
            if r is UNKNOWN:
                raise UnknownPoint()
            if not r:
                return []
        if t in ("path", "rect", "circle", "ellipse", "line", "polygon", "polyline"):
            kids = []
            fill = c2.get("fill", "black")
            if fill != "none":
                r = self.in_fill(el, m, x, y, c2.get("fill-rule", "nonzero"))
                if r is UNKNOWN:
                    raise UnknownPoint()
                if r:
                    fo = min(max(fnum(c2.get("fill-opacity"), 1.0), 0.0), 1.0)
                    kids.append(("leaf", self.paint_at(fill, el, m, x, y), fo))
            if c2.get("stroke", "none") != "none":
                r = self.in_stroke(el, m, c2, x, y)
                if r is UNKNOWN:
                    raise UnknownPoint()
                if r:
                    so = min(max(fnum(c2.get("stroke-opacity"), 1.0), 0.0), 1.0)
                    kids.append(("leaf", self.paint_at(c2["stroke"], el, m, x, y), so))
            if not kids:
                return []
            return [("group", op, kids)]
        if t == "g" or (t == "svg" and depth == 0):
            kids = []
            for ch in el:
                kids += self.layers(ch, m, c2, x, y, depth + 1)
            if not kids:
                return []
            return [("group", op, kids)]
        if t == "svg":
            vx, vy = fnum(props.get("x"), 0.0), fnum(props.get("y"), 0.0)
            pvb = self._parent_viewport(el)
            vw, vh = fnum(props.get("width"), pvb[2]), fnum(props.get("height"), pvb[3])
            vm = m
            if "viewBox" in props:
                vb = tuple(float(tk) for tk in re.split(r"[\s,]+", props["viewBox"].strip()))
                if vb[2] <= 0 or vb[3] <= 0 or vw <= 0 or vh <= 0:
                    return []
                vm = mul(m, viewport_transform(vb, (vx, vy, vw, vh), props.get("preserveAspectRatio", "xMidYMid meet")))
            else:
                vm = mul(m, (1, 0, 0, 1, vx, vy))
            if props.get("overflow", "hidden") != "visible":
                im = inv(m)
                if im is None:
                    return []
                ux, uy = apply(im, x, y)
                smax = max(math.hypot(m[0], m[1]), math.hypot(m[2], m[3]), 1e-9)
                dist = min(abs(ux - vx), abs(ux - vx - vw), abs(uy - vy), abs(uy - vy - vh))
                if dist * smax < self.eps:
                    raise UnknownPoint()
                if not (vx < ux < vx + vw and vy < uy < vy + vh):
                    return []
            kids = []
            for ch in el:
                kids += self.layers(ch, vm, c2, x, y, depth + 1)
            return [("group", op, kids)] if kids else []
        if t == "use":
            href = el.attrib.get("{%s}href" % XLINK) or el.attrib.get("href")
            if not href or not href.startswith("#"):
                raise Unsupported("use href")
            tgt = self.ids.get(href[1:])
            if tgt is None:
                raise Unsupported("dangling use")
            if local(tgt.tag) in ("symbol", "svg"):
                raise Unsupported("use of symbol/svg")
            kids = self.layers(tgt, m, c2, x, y, depth + 1)
            return [("group", op, kids)] if kids else []
        raise Unsupported("element <%s>" % t)

    def _parent_viewport(self, el):
        p = el.getparent()
        while p is not None:
            if local(p.tag) == "svg":
                if p is self.root:
                    vb = self.view_box()
                    return vb
                pr = own_props(p)
                if "viewBox" in pr:
                    return tuple(float(tk) for tk in re.split(r"[\s,]+", pr["viewBox"].strip()))
                return (0, 0, fnum(pr.get("width"), 100.0), fnum(pr.get("height"), 100.0))
            p = p.getparent()
        return self.view_box()

    def point(self, x, y):
        """layer tree at (x, y) or UNKNOWN"""
        try:
            rprops = own_props(self.root)
            ctx = cascade(INHERITED, rprops)
            return self.layers(self.root, ID, INHERITED, x, y, 0)
        except UnknownPoint:
            return UNKNOWN

    # ---- gradients

    def gradient_color(self, g, el, ctm, x, y):
        """colour of gradient element g for shape el (user space ctm) at root-space point (x,y)"""
        chain = []
        cur = g
        seen = set()
        while cur is not None and id(cur) not in seen:
            seen.add(id(cur))
            chain.append(cur)
            href = cur.attrib.get("{%s}href" % XLINK) or cur.attrib.get("href")
            cur = self.ids.get(href[1:]) if href and href.startswith("#") else None
        tag = local(g.tag)
        if tag not in ("linearGradient", "radialGradient"):
            raise Unsupported("paint server %s" % tag)

        KIND_ATTRS = {"x1", "y1", "x2", "y2", "cx", "cy", "r", "fx", "fy", "fr"}

        def attr(name, default=None):
            crossed = False
            for c in chain:
                lt = local(c.tag)
                if lt not in ("linearGradient", "radialGradient"):
                    continue
                if name in KIND_ATTRS and lt != tag:
                    # a template of the other kind cannot carry this attribute; whether one of ITS templates (of our kind
                    # again) still counts is read differently (SVG 1.1's wording: no; browsers walk the whole chain)
                    crossed = True
                    continue
                if name in c.attrib:
                    if crossed:
                        raise Unsupported("geometry attribute behind a template of the other kind: readings differ")
                    return c.attrib[name]
            return default

        stops_el = None
        for c in chain:
            st = [s for s in c if local(s.tag) == "stop"]
            if st:
                stops_el = st
                break
        if not stops_el:
            raise Unsupported("gradient without stops")
        stops = []
        for s in stops_el:
            sp = own_props(s)
            off = sp.get("offset", "0")
            o = float(off[:-1]) / 100 if off.endswith("%") else float(off)
            o = min(max(o, 0.0), 1.0)
            if stops and o < stops[-1][0]:
                o = stops[-1][0]
            col = tuple(c / 255.0 for c in parse_color(sp.get("stop-color", "black")))
            stops.append((o, col, fnum(sp.get("stop-opacity"), 1.0)))
        units = attr("gradientUnits", "objectBoundingBox")
        gm = parse_transform(attr("gradientTransform", "") or "")
        m = ctm
        vb = self.view_box()
        if units == "objectBoundingBox":
            bb = geom.bbox(self.shape_contours(el))
            if bb is None or bb[2] - bb[0] <= 0 or bb[3] - bb[1] <= 0:
                raise Unsupported("empty bbox")
            m = mul(m, (bb[2] - bb[0], 0, 0, bb[3] - bb[1], bb[0], bb[1]))
            sw, sh, sd = 1.0, 1.0, 1.0
        else:
            sw, sh = vb[2], vb[3]
            sd = math.hypot(sw, sh) / math.sqrt(2)
        m = mul(m, gm)
        im = inv(m)
        if im is None:
            raise Unsupported("degenerate gradient matrix")
        px, py = apply(im, x, y)

        def length(s, scale, default):
            if s is None:
                s = default
            s = s.strip()
            return float(s[:-1]) / 100 * scale if s.endswith("%") else float(s)

        if tag == "linearGradient":
            x1, y1 = length(attr("x1"), sw, "0%"), length(attr("y1"), sh, "0%")
            x2, y2 = length(attr("x2"), sw, "100%"), length(attr("y2"), sh, "0%")
            dx, dy = x2 - x1, y2 - y1
            dd = dx * dx + dy * dy
            if dd == 0:
                t = 1.0
            else:
                t = ((px - x1) * dx + (py - y1) * dy) / dd
        else:
            cx, cy = length(attr("cx"), sw, "50%"), length(attr("cy"), sh, "50%")
            r = length(attr("r"), sd, "50%")
            fx = length(attr("fx"), sw, None) if attr("fx") is not None else cx
            fy = length(attr("fy"), sh, None) if attr("fy") is not None else cy
            fr = length(attr("fr"), sd, "0%")
            if fr != 0:
                # focal radius (SVG 2, canvas semantics): circles c(t) = f + t (c - f), r(t) = fr + t (r - fr); the colour at p
                # is that of the largest t with r(t) >= 0 and |p - c(t)| = r(t)
                if fr < 0 or r <= fr or math.hypot(fx - cx, fy - cy) + fr > r * 0.999:
                    raise Unsupported("focal circle not strictly inside the end circle")
                cdx, cdy, dr = cx - fx, cy - fy, r - fr
                pdx, pdy = px - fx, py - fy
                a_ = cdx * cdx + cdy * cdy - dr * dr
                b_ = pdx * cdx + pdy * cdy + fr * dr
                c_ = pdx * pdx + pdy * pdy - fr * fr
                # a_ t^2 - 2 b_ t + c_ = 0 with a_ < 0 (focal circle inside): one root on each side
                disc = b_ * b_ - a_ * c_
                t = (b_ - math.sqrt(max(disc, 0.0))) / a_
                if fr + t * dr < 0:
                    t = (b_ + math.sqrt(max(disc, 0.0))) / a_
            elif r <= 0:
                t = 1.0
            else:
                # two-point conical with focal radius 0: solve |f + (p-f)/t - c| = r  (SVG 1.1: focal clamped inside)
                fdx, fdy = fx - cx, fy - cy
                fd = math.hypot(fdx, fdy)
                if fd > r * 0.999:
                    raise Unsupported("focal point on/outside the circle")
                dx, dy = px - fx, py - fy
                a_ = dx * dx + dy * dy
                if a_ == 0:
                    t = 0.0
                else:
                    # find s>0 with |f + s*d - c| = r ; t = 1/s
                    b_ = 2 * (dx * fdx + dy * fdy)
                    c_ = fdx * fdx + fdy * fdy - r * r
                    disc = b_ * b_ - 4 * a_ * c_
                    s_ = (-b_ + math.sqrt(max(disc, 0.0))) / (2 * a_)
                    t = 1.0 / s_ if s_ > 0 else 1.0
        spread = attr("spreadMethod", "pad")
        if spread == "repeat":
            t = t - math.floor(t)
        elif spread == "reflect":
            t = t % 2.0
            if t > 1:
                t = 2 - t
        t = min(max(t, 0.0), 1.0)
        # interpolate
        if t <= stops[0][0]:
            col, so = stops[0][1], stops[0][2]
        elif t >= stops[-1][0]:
            col, so = stops[-1][1], stops[-1][2]
        else:
            col, so = stops[-1][1], stops[-1][2]
            for (o0, c0, a0), (o1, c1, a1) in zip(stops, stops[1:]):
                if o0 <= t <= o1:
                    if o1 == o0:
                        col, so = c1, a1
                    else:
                        u = (t - o0) / (o1 - o0)
                        col = tuple(c0[i] + (c1[i] - c0[i]) * u for i in range(3))
                        so = a0 + (a1 - a0) * u
                    break
        return ("grad", col, so)


class UnknownPoint(Exception):
    pass


# ---------------------------------------------------------------- compositing

def composite(layers):
    """premultiplied (r,g,b,a) of a list of layers painted in order (source-over)"""
    C = [0.0, 0.0, 0.0]
    A = 0.0
    for L in layers:
        if L[0] == "leaf":
            _, col, a = L
            if isinstance(col, tuple) and col and col[0] == "grad":
                _, rgb, so = col
                a = a * so
                col = rgb
            c = [col[0] * a, col[1] * a, col[2] * a]
        else:
            _, ga, kids = L
            r, g, b, a0 = composite(kids)
            c = [r * ga, g * ga, b * ga]
            a = a0 * ga
        C = [c[i] + C[i] * (1 - a) for i in range(3)]
        A = a + A * (1 - a)
    return (C[0], C[1], C[2], A)


def paints(layers):
    """flattened ordered list of visible paints (rgb rounded) — the z-order view"""
    out = []
    for L in layers:
        if L[0] == "leaf":
            col = L[1]
            if isinstance(col, tuple) and col and col[0] == "grad":
                col = col[1]
            if L[2] > 0:
                out.append(tuple(round(c, 3) for c in col))
        else:
            if L[1] > 0:
                out += paints(L[2])
    return out
