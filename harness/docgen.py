"""Random SVG document generator over the structural grammar of the properties
(shapes, groups, transforms, defs, use, nested svg, clipPath, gradients, strokes, styles,
opacity, display, noise, unsupported elements).  Every choice comes from the rng passed in."""
import math

NS = 'xmlns="http://www.w3.org/2000/svg"'
XLINK = 'xmlns:xlink="http://www.w3.org/1999/xlink"'

COLORS = ["red", "blue", "#0f0", "black", "#123456", "rgb(10,20,30)", "orange"]


def num(rng, lo, hi, nd=None):
    v = rng.uniform(lo, hi)
    nd = rng.choice([0, 1, 2]) if nd is None else nd
    v = round(v, nd)
    if float(v).is_integer():
        return str(int(v))
    return repr(v)


class Features:
    def __init__(self, **kw):
        self.transforms = kw.get("transforms", True)
        self.groups = kw.get("groups", True)
        self.use = kw.get("use", False)
        self.nested_svg = kw.get("nested_svg", False)
        self.clips = kw.get("clips", False)
        self.strokes = kw.get("strokes", False)
        self.gradients = kw.get("gradients", False)
        self.styles = kw.get("styles", True)
        self.opacity = kw.get("opacity", True)
        self.display = kw.get("display", False)
        self.noise = kw.get("noise", False)
        self.unsupported = kw.get("unsupported", False)
        self.text = kw.get("text", False)
        self.degenerate = kw.get("degenerate", False)
        self.evenodd = kw.get("evenodd", True)
        self.max_depth = kw.get("max_depth", 3)
        self.max_children = kw.get("max_children", 4)
        self.root_attrs = kw.get("root_attrs", False)


def rtransform(rng):
    k = rng.random()
    parts = []
    for _ in range(rng.choice([1, 1, 1, 2, 3])):
        t = rng.choice(["translate", "translate", "scale", "rotate", "rotatec", "matrix", "skewX", "skewY"])
        if t == "translate":
            parts.append("translate(%s %s)" % (num(rng, -20, 20), num(rng, -20, 20)) if rng.random() < 0.8 else "translate(%s)" % num(rng, -20, 20))
        elif t == "scale":
            s1 = rng.choice(["0.5", "2", "1.5", "-1", "0.8"])
            parts.append("scale(%s)" % s1 if rng.random() < 0.5 else "scale(%s,%s)" % (s1, rng.choice(["0.5", "2", "1", "-1", "1.2"])))
        elif t == "rotate":
            parts.append("rotate(%s)" % rng.choice(["30", "45", "90", "-15", "180", "10"]))
        elif t == "rotatec":
            parts.append("rotate(%s %s %s)" % (rng.choice(["30", "90", "-45"]), num(rng, 20, 80), num(rng, 20, 80)))
        elif t == "matrix":
            parts.append("matrix(%s %s %s %s %s %s)" % (rng.choice(["1", "0.9", "1.1", "0"]), rng.choice(["0", "0.2", "-0.3", "1"]), rng.choice(["0", "-0.2", "0.3", "-1"]), rng.choice(["1", "0.8", "1.2", "0"]), num(rng, -10, 10), num(rng, -10, 10)))
        else:
            parts.append("%s(%s)" % (t, rng.choice(["10", "20", "-15"])))
    return rng.choice([" ", ",", ""]).join(parts) if len(parts) > 1 else parts[0]


def rpath_d(rng, closed=True, curvy=True):
    if rng.random() < 0.04:
        # whole numbers and one tiny coordinate that prints in exponent form (no decimal point anywhere)
        x, y, w = rng.randint(10, 60), rng.randint(10, 60), rng.randint(8, 30)
        t = rng.choice(["1e-5", "-4e-6", "7e-8", "3e-05"])
        return rng.choice(["M%d,%d L%d,%d L%d,%s Z" % (x, y, x + w, y, x + w, t),
                           "M%d,%d l%d,0 l%s,%d z" % (x, y, w, t, w),
                           "M%s,%d L%d,%d L%d,%d Z" % (t, y, x + w, y + w, x, y + w)])
    n = rng.randint(3, 6)
    cx, cy = rng.uniform(20, 80), rng.uniform(20, 80)
    r = rng.uniform(8, 30)
    pts = []
    for i in range(n):
        a = 2 * math.pi * i / n + rng.uniform(-0.4, 0.4)
        rr = r * rng.uniform(0.5, 1.0)
        pts.append((round(cx + rr * math.cos(a), 1), round(cy + rr * math.sin(a), 1)))
    rel = rng.random() < 0.3
    d = "M%s,%s" % pts[0]
    cur = pts[0]
    for p in pts[1:]:
        k = rng.random()
        if curvy and k < 0.2:
            c = (round((cur[0] + p[0]) / 2 + rng.uniform(-8, 8), 1), round((cur[1] + p[1]) / 2 + rng.uniform(-8, 8), 1))
            d += " Q%s,%s %s,%s" % (c[0], c[1], p[0], p[1])
        elif curvy and k < 0.35:
            c1 = (round(cur[0] + rng.uniform(-8, 8), 1), round(cur[1] + rng.uniform(-8, 8), 1))
            c2 = (round(p[0] + rng.uniform(-8, 8), 1), round(p[1] + rng.uniform(-8, 8), 1))
            d += " C%s,%s %s,%s %s,%s" % (c1[0], c1[1], c2[0], c2[1], p[0], p[1])
        elif curvy and k < 0.42:
            d += " A%s %s %s %d %d %s,%s" % (round(r / 2, 1), round(r / 3, 1), rng.choice(["0", "0", "30", "12.3456789", "-7.25", "0.00049"]),
                                           rng.random() < 0.5, rng.random() < 0.5, p[0], p[1])
        elif rel:
            d += " l%s,%s" % (round(p[0] - cur[0], 1), round(p[1] - cur[1], 1))
        elif k < 0.5:
            d += " H%s V%s" % (p[0], p[1])
        else:
            d += " L%s,%s" % p
        cur = p
    if closed:
        d += rng.choice([" Z", " z", "Z"])
    if rng.random() < 0.15:
        # second subpath (hole or island)
        r2 = r * 0.3
        d += " M%s,%s l%s,0 l0,%s l%s,0 z" % (round(cx - r2 / 2, 1), round(cy - r2 / 2, 1), round(r2, 1), round(r2, 1), round(-r2, 1))
    return d


def paint_attrs(rng, F, own=True):
    """list of (name, value); may be emitted as attributes or style declarations"""
    at = []
    if rng.random() < 0.6:
        at.append(("fill", rng.choice(COLORS + ["none"] if F.strokes or F.degenerate else COLORS)))
    if F.opacity and rng.random() < 0.3:
        at.append(("opacity", rng.choice(["0.5", "0.25", "1", "0.8", "0", "1.5"] if F.degenerate else ["0.5", "0.25", "1", "0.8"])))
    if F.opacity and rng.random() < 0.2:
        at.append(("fill-opacity", rng.choice(["0.5", "0.75", "1"])))
    if F.opacity and rng.random() < 0.06:
        # products that vanish only after rounding (0.02*0.02 at 3 digits, 0.2*0.2 at 1, ...)
        v = rng.choice(["0.02", "0.05", "0.2", "0.004", "0.0004"])
        at = [(k, x) for k, x in at if k not in ("opacity", "fill-opacity")] + [("opacity", v)] + ([("fill-opacity", v)] if rng.random() < 0.7 else [])
    if F.opacity and rng.random() < 0.04:
        # out of range: SVG clamps an opacity to [0, 1] before anything is multiplied
        k = rng.choice(["opacity", "fill-opacity"])
        at = [(n, x) for n, x in at if n != k] + [(k, rng.choice(["2", "1.5", "-1", "3"]))]
    if F.evenodd and rng.random() < 0.15:
        at.append(("fill-rule", rng.choice(["evenodd", "nonzero"])))
    if F.strokes and rng.random() < 0.5:
        at.append(("stroke", rng.choice(COLORS + ["none"])))
        if rng.random() < 0.7:
            at.append(("stroke-width", rng.choice(["1", "2", "3.5", "0.5", "6", "1", "2", "3.5", "0.5", "6", "0"])))   # 0: no stroke at all
        if rng.random() < 0.3:
            at.append(("stroke-linecap", rng.choice(["butt", "round", "square"])))
        if rng.random() < 0.3:
            at.append(("stroke-linejoin", rng.choice(["miter", "round", "bevel"])))
        if rng.random() < 0.15:
            at.append(("stroke-miterlimit", rng.choice(["1", "4", "10"])))
        if rng.random() < 0.2:
            at.append(("stroke-dasharray", rng.choice(["5,3", "5 3 2", "4", "none", "6, 2, 1, 2", "0 9", "0 6", "12 0 3"])))
            if rng.random() < 0.5:
                at.append(("stroke-dashoffset", rng.choice(["0", "2", "5.5", "12", "25", "-8", "-13"])))
        if F.opacity and rng.random() < 0.2:
            at.append(("stroke-opacity", rng.choice(["0.5", "1", "0.3"])))
    if F.display and rng.random() < 0.1:
        at.append(("display", rng.choice(["none", "inline"])))
    return at


def emit_attrs(rng, F, attrs):
    """split between plain attributes and a style attribute"""
    if not attrs:
        return ""
    plain, styled = [], []
    for k, v in attrs:
        if F.styles and rng.random() < 0.3:
            styled.append((k, v))
        else:
            plain.append((k, v))
    if styled and rng.random() < 0.3:
        # the same property also as a presentation attribute with another value: the declaration must win
        k, v = rng.choice(styled)
        other = {"fill": "yellow", "opacity": "0.9", "fill-opacity": "0.3", "fill-rule": "nonzero" if v == "evenodd" else "evenodd", "stroke": "lime",
                 "stroke-width": "4", "display": "inline", "stroke-opacity": "0.8"}.get(k)
        if other is not None and other != v and not any(pk == k for pk, _ in plain):
            plain.append((k, other))
    s = "".join(' %s="%s"' % kv for kv in plain)
    if styled:
        sep = rng.choice([";", "; ", " ; "])
        s += ' style="%s%s"' % (sep.join("%s%s%s" % (k, rng.choice([":", ": "]), v) for k, v in styled), rng.choice(["", ";"]))
    return s


class Gen:
    def __init__(self, rng, F):
        self.rng = rng
        self.F = F
        self.ids = 0
        self.defs = []
        self.clip_ids = []
        self.grad_ids = []
        self.use_targets = []
        self.xlink = False

    def new_id(self, pfx):
        self.ids += 1
        return "%s%d" % (pfx, self.ids)

    def shape(self, depth, in_clip=False):
        rng, F = self.rng, self.F
        kind = rng.choice(["rect", "rect", "circle", "ellipse", "path", "path", "path", "polygon", "polyline", "line"])
        at = []
        if kind == "rect":
            w, h = num(rng, 5, 50), num(rng, 5, 50)
            if F.degenerate and rng.random() < 0.15:
                w = rng.choice(["0", w])
                h = rng.choice(["0", h]) if w != "0" else h
            at += [("x", num(rng, 0, 60)), ("y", num(rng, 0, 60)), ("width", w), ("height", h)]
            if rng.random() < 0.25:
                at.append(("rx", rng.choice(["2", "5", "10", "0"])))
                if rng.random() < 0.4:
                    at.append(("ry", rng.choice(["2", "4", "0"])))
        elif kind == "circle":
            at += [("cx", num(rng, 20, 80)), ("cy", num(rng, 20, 80)), ("r", num(rng, 3, 30) if not (F.degenerate and rng.random() < 0.1) else "0")]
        elif kind == "ellipse":
            at += [("cx", num(rng, 20, 80)), ("cy", num(rng, 20, 80)), ("rx", num(rng, 3, 30)), ("ry", num(rng, 3, 30))]
        elif kind == "path":
            at.append(("d", rpath_d(rng, closed=rng.random() < 0.85)))
            if F.degenerate and rng.random() < 0.1:
                at[-1] = ("d", rng.choice(["M10,10", "M10,10 L20,20", "M5,5 L50,5 L90,5 Z", "M1,1 z", "M10,10 L20,10 L20,20 L10,20 Z M10,10 L20,10 L20,20 L10,20 Z"]))
        elif kind in ("polygon", "polyline"):
            n = rng.randint(3, 6)
            at.append(("points", " ".join("%s,%s" % (num(rng, 5, 95, 0), num(rng, 5, 95, 0)) for _ in range(n))))
        else:
            at += [("x1", num(rng, 5, 95)), ("y1", num(rng, 5, 95)), ("x2", num(rng, 5, 95)), ("y2", num(rng, 5, 95))]
        geo = "".join(' %s="%s"' % kv for kv in at)
        pa = paint_attrs(rng, F)
        if kind == "line" and F.strokes and not any(k == "stroke" for k, _ in pa):
            pa.append(("stroke", "black"))
        if in_clip:
            pa = [("clip-rule", rng.choice(["evenodd", "nonzero"]))] if rng.random() < 0.4 else []
        extra = ""
        if F.gradients and not in_clip and self.grad_ids and rng.random() < 0.4:
            pa = [(k, v) for k, v in pa if k != "fill"] + [("fill", "url(#%s)" % rng.choice(self.grad_ids))]
        if F.transforms and rng.random() < 0.3:
            extra += ' transform="%s"' % rtransform(rng)
        if F.clips and not in_clip and self.clip_ids and rng.random() < 0.25:
            extra += ' clip-path="url(#%s)"' % rng.choice(self.clip_ids)
        ident = ""
        if rng.random() < 0.25 and not in_clip:
            i = self.new_id("s")
            ident = ' id="%s"' % i
            self.use_targets.append(i)
        return "<%s%s%s%s%s/>" % (kind, ident, geo, emit_attrs(rng, F, pa), extra)

    def noise(self):
        rng = self.rng
        return rng.choice([
            "<!-- a comment -->", "<?xpacket begin='x'?>", "<title>t</title>", "<desc>d</desc>", "<metadata><x/></metadata>",
            '<sodipodi:namedview xmlns:sodipodi="http://sodipodi.sourceforge.net/DTD/sodipodi-0.dtd" id="nv"/>',
            "<symbol><rect width='3' height='3'/></symbol>", "\n   ",
        ])

    def group(self, depth):
        rng, F = self.rng, self.F
        n = rng.randint(0 if F.degenerate else 1, F.max_children)
        kids = [self.node(depth + 1) for _ in range(n)]
        if F.unsupported and rng.random() < 0.2:
            # a translucent group that is left with one child when its unsupported sibling is dropped
            bad = rng.choice(['<image width="5" height="5"/>', "<foo/>", '<mask id="m%d"><rect width="1" height="1"/></mask>' % rng.randint(0, 99)])
            pair = [self.shape(depth + 1), bad]
            rng.shuffle(pair)
            return '<g opacity="%s">%s</g>' % (rng.choice(["0.5", "0.25"]), "".join(pair))
        if F.degenerate and rng.random() < 0.25:
            # a group whose content vanishes during conversion (pruned shapes), possibly next to one survivor
            gone = ['<rect width="9" height="9" fill="none"/>', '<circle r="5" display="none"/>', '<path d="M1,1 L9,1" />',
                    '<rect width="9" height="0"/>', '<ellipse rx="4" ry="3" opacity="0"/>', '<path d="M2,2 L2.0001,2 L2,2.0001 Z"/>']
            kids = [rng.choice(gone) for _ in range(rng.randint(1, 3))] + ([self.shape(depth + 1)] if rng.random() < 0.4 else [])
            rng.shuffle(kids)
            inner = '<g opacity="%s">%s</g>' % (rng.choice(["0.5", "0.3"]), "".join(kids))
            if rng.random() < 0.6:
                return '<g opacity="%s">%s%s</g>' % (rng.choice(["0.5", "0.7"]), self.shape(depth + 1), inner) if rng.random() < 0.5 else \
                       '<g opacity="%s">%s%s</g>' % (rng.choice(["0.5", "0.7"]), inner, self.shape(depth + 1))
            return inner
        at = []
        pa = []
        if rng.random() < 0.5:
            pa = paint_attrs(rng, F)
            pa = [(k, v) for k, v in pa if k not in ("fill-rule",) or rng.random() < 0.5]
        if F.opacity and len(kids) >= 2 and rng.random() < 0.06:
            # out of range on a group with several children: clamped to 0 or 1 wherever it is looked at
            pa = [(k, v) for k, v in pa if k != "opacity"] + [("opacity", rng.choice(["-0.2", "-1", "1.5", "2"]))]
        extra = ""
        if F.transforms and rng.random() < 0.4:
            extra += ' transform="%s"' % rtransform(rng)
        if F.clips and self.clip_ids and rng.random() < 0.2:
            extra += ' clip-path="url(#%s)"' % rng.choice(self.clip_ids)
        ident = ""
        if rng.random() < 0.2:
            i = self.new_id("g")
            ident = ' id="%s"' % i
            self.use_targets.append(i)
        return "<g%s%s%s>%s</g>" % (ident, emit_attrs(rng, F, pa), extra, "".join(kids))

    def use(self):
        rng = self.rng
        self.xlink = True
        t = rng.choice(self.use_targets)
        at = ""
        if rng.random() < 0.6:
            at += ' x="%s"' % num(rng, -20, 20)
        if rng.random() < 0.6:
            at += ' y="%s"' % num(rng, -20, 20)
        if self.F.transforms and rng.random() < 0.4:
            at += ' transform="%s"' % rtransform(rng)
        if rng.random() < 0.3:
            at += emit_attrs(rng, self.F, [(k, v) for k, v in paint_attrs(rng, self.F) if k in ("fill", "opacity")])
        if self.F.clips and self.clip_ids and rng.random() < 0.25:
            at += ' clip-path="url(#%s)"' % rng.choice(self.clip_ids)
        return '<use xlink:href="#%s"%s/>' % (t, at)

    def nested(self, depth):
        rng = self.rng
        if rng.random() < 0.12:
            # a nested svg without a size of its own inside one whose viewBox is not its viewport size: the inner one is as
            # large as the outer's viewBox (overflow visible on both: no viewport clips, whose ids would clash)
            kids = "".join(self.shape(depth + 2) for _ in range(rng.randint(1, 2)))
            inner_at = ' viewBox="%s %s %s %s"' % (num(rng, 0, 10, 0), num(rng, 0, 10, 0), num(rng, 30, 90, 0), num(rng, 30, 90, 0))
            if rng.random() < 0.5:
                inner_at += ' preserveAspectRatio="%s"' % rng.choice(["none", "xMinYMin", "xMaxYMax slice", "xMidYMid"])
            inner = '<svg overflow="visible"%s>%s</svg>' % (inner_at, kids)
            return ('<svg overflow="visible" x="%s" y="%s" width="%s" height="%s" viewBox="0 0 %s %s">%s%s</svg>'
                    % (num(rng, 0, 30, 0), num(rng, 0, 30, 0), num(rng, 30, 60, 0), num(rng, 30, 60, 0), num(rng, 60, 160, 0), num(rng, 60, 160, 0),
                       inner, self.shape(depth + 1) if rng.random() < 0.5 else ""))
        kids = "".join(self.node(depth + 1) for _ in range(rng.randint(1, 3)))
        at = ' x="%s" y="%s" width="%s" height="%s"' % (num(rng, 0, 40, 0), num(rng, 0, 40, 0), num(rng, 20, 60, 0), num(rng, 20, 60, 0))
        x, y, w, h = num(rng, 0, 40, 0), num(rng, 0, 40, 0), num(rng, 20, 60, 0), num(rng, 20, 60, 0)
        at = ' x="%s" y="%s" width="%s" height="%s"' % (x, y, w, h)
        if rng.random() < 0.1:
            # a viewBox that coincides with the viewport: the content is not moved at all
            at += ' viewBox="%s %s %s %s"' % (x, y, w, h)
        elif rng.random() < 0.7:
            at += ' viewBox="%s %s %s %s"' % (num(rng, 0, 20, 0), num(rng, 0, 20, 0), num(rng, 40, 120, 0), num(rng, 40, 120, 0))
            if rng.random() < 0.6:
                a = rng.choice(["none", "xMinYMin", "xMidYMid", "xMaxYMax", "xMinYMax", "xMidYMin"])
                at += ' preserveAspectRatio="%s"' % (a + rng.choice(["", " meet", " slice"]) if a != "none" else a)
        if rng.random() < 0.4:
            at += ' overflow="%s"' % rng.choice(["visible", "hidden"])
        if rng.random() < 0.35:
            # presentation attributes on the nested svg itself: inherited by (fill ...) or applied to (opacity, display) its content
            pa = [(k, v) for k, v in paint_attrs(rng, self.F) if k != "fill-rule"] if rng.random() < 0.7 else []
            if self.F.display and rng.random() < 0.25:
                pa.append(("display", "none"))
            at += emit_attrs(rng, self.F, pa)
        return "<svg%s>%s</svg>" % (at, kids)

    def node(self, depth):
        rng, F = self.rng, self.F
        k = rng.random()
        if F.noise and k < 0.12:
            return self.noise()
        if F.unsupported and k < 0.16:
            return rng.choice(['<image width="5" height="5"/>', "<foo/>", '<mask id="m%d"><rect width="1" height="1"/></mask>' % rng.randint(0, 99), "<switch><g/></switch>"])
        if F.text and k < 0.2:
            return rng.choice(['<text x="5" y="5">Hi</text>', '<text><tspan>a</tspan></text>'])
        if F.groups and depth < F.max_depth and k < 0.4:
            return self.group(depth)
        if F.use and self.use_targets and k < 0.5:
            return self.use()
        if F.nested_svg and depth < F.max_depth and k < 0.57:
            return self.nested(depth)
        return self.shape(depth)

    def gradient(self):
        rng = self.rng
        i = self.new_id("gr")
        lin = rng.random() < 0.5
        at = ""
        units = rng.choice([None, "userSpaceOnUse", "objectBoundingBox"])
        pct = units != "userSpaceOnUse" and rng.random() < 0.5
        upct = units == "userSpaceOnUse" and rng.random() < 0.3
        def c(lo, hi):
            if units == "userSpaceOnUse":
                if upct and rng.random() < 0.6:
                    return "%d%%" % round(rng.uniform(lo, hi) * 100)     # resolved against the viewport width / height
                return num(rng, lo * 100, hi * 100)
            return ("%d%%" % round(rng.uniform(lo, hi) * 100)) if pct else num(rng, lo, hi, 2)
        if lin:
            for n_ in ("x1", "y1", "x2", "y2"):
                if rng.random() < 0.8:
                    at += ' %s="%s"' % (n_, c(0, 1))
        else:
            for n_ in ("cx", "cy", "r"):
                if rng.random() < 0.8:
                    at += ' %s="%s"' % (n_, c(0.2, 0.8))
            if rng.random() < 0.3:
                at += ' fx="%s" fy="%s"' % (c(0.3, 0.7), c(0.3, 0.7))
            if rng.random() < 0.12:
                at += ' fr="%s"' % c(0.02, 0.1)      # focal radius (SVG 2): a dataclass field, inherited from templates like the rest
        if units:
            at += ' gradientUnits="%s"' % units
        if rng.random() < 0.4:
            at += ' gradientTransform="%s"' % rtransform(rng)
        if rng.random() < 0.2:
            at += ' spreadMethod="%s"' % rng.choice(["pad", "reflect", "repeat"])
        stop_ids = rng.random() < 0.15
        offs = ["0", "0.5", "1"][: rng.randint(2, 3)]
        if rng.random() < 0.1:
            offs = rng.choice([["0", "0.6", "0.3", "1"], ["0.4", "0.2", "0.9"], ["0", "0.7", "0.7", "0.5"]])   # not increasing: clamped
        stops = "".join('<stop%s offset="%s" stop-color="%s"/>' % (' id="%s"' % self.new_id("st") if stop_ids else "", o, rng.choice(COLORS))
                        for o in offs)
        href = ""
        if self.grad_ids and rng.random() < 0.25:
            self.xlink = True
            href = ' xlink:href="#%s"' % rng.choice(self.grad_ids)
            if rng.random() < 0.6:
                stops = ""
        if self.F.unsupported and rng.random() < 0.3:
            # something that is not a stop inside a gradient, or a child inside a stop
            if stops and rng.random() < 0.5:
                stops = stops.replace("/>", '><animate attributeName="offset" to="1"/></stop>', 1)
            else:
                stops += '<animateTransform attributeName="gradientTransform" type="rotate" to="90"/>'
        tag = "linearGradient" if lin else "radialGradient"
        self.grad_ids.append(i)
        return '<%s id="%s"%s%s>%s</%s>' % (tag, i, at, href, stops, tag)

    def clippath(self):
        rng = self.rng
        i = self.new_id("cp")
        kids = "".join(self.shape(1, in_clip=True) for _ in range(rng.randint(1, 3)))
        at = ""
        if self.F.transforms and rng.random() < 0.25:
            at += ' transform="%s"' % rtransform(rng)
        # a clipPath that is itself clipped carries no transform of its own here: whether that transform also moves
        # the referenced clip is read differently by the specification text and by renderers (DESIGN §6), so it is
        # not judged
        if self.clip_ids and rng.random() < 0.2 and not at:
            at += ' clip-path="url(#%s)"' % rng.choice(self.clip_ids)
        self.clip_ids.append(i)
        if rng.random() < 0.2:
            # clip-rule on the clipPath itself is inherited by the children that do not set their own
            at += ' clip-rule="%s"' % rng.choice(["evenodd", "evenodd", "nonzero"])
            if rng.random() < 0.7:
                kids = '<path d="M10,10 H90 V90 H10 Z M30,30 H70 V70 H30 Z"/>' + kids
        return '<clipPath id="%s"%s>%s</clipPath>' % (i, at, kids)

    def document(self):
        rng, F = self.rng, self.F
        defs = []
        if F.gradients:
            defs += [self.gradient() for _ in range(rng.randint(1, 3))]
            if rng.random() < 0.3:
                defs.reverse()      # templates after the gradients that refer to them
        if F.clips:
            defs += [self.clippath() for _ in range(rng.randint(1, 3))]
        if F.gradients and self.grad_ids and rng.random() < 0.15:
            # a template shape inside defs that nobody instantiates: it must not count as a user of its gradient
            defs.append('<rect id="%s" width="12" height="9" fill="url(#%s)"/>' % (self.new_id("t"), rng.choice(self.grad_ids)))
        body = [self.node(1) for _ in range(rng.randint(1, F.max_children + 1))]
        root = ""
        vb = rng.choice(["0 0 100 100", "0 0 100 100", "0 0 128 128", "10 10 80 80", "0 0 120 80", "0 0 90 140"])
        if rng.random() < 0.9:
            root += ' viewBox="%s"' % vb
        else:
            root += ' width="100" height="100"'
        rattrs = []
        if F.root_attrs and rng.random() < 0.4:
            rattrs += [(k, v) for k, v in paint_attrs(rng, F) if k in ("fill", "opacity", "fill-rule", "stroke", "stroke-width")]
        if (F.root_attrs or F.unsupported) and rng.random() < 0.25:
            # inheritable properties without a default of their own: they must not survive on the root either
            rattrs += rng.sample([("overflow", "visible"), ("display", "inline"), ("color", "red"), ("clip-rule", "evenodd")], rng.randint(1, 2))
        root += emit_attrs(rng, F, rattrs)
        dstr = ""
        if defs:
            if rng.random() < 0.8:
                dstr = "<defs>%s</defs>" % "".join(defs)
            else:
                dstr = "".join(defs)
        ns = NS + ((" " + XLINK) if self.xlink and rng.random() < 0.8 else "")
        return "<svg %s%s>%s%s</svg>" % (ns, root, dstr, "".join(body))


def document(rng, F=None, **kw):
    F = F or Features(**kw)
    return Gen(rng, F).document()
