"""Recording of the Skia (skia-pathops) calls picosvg makes — from OUTSIDE the library.

`Recorder` swaps the name `pathops` inside `picosvg.svg_pathops` for a shim whose `Path` is a
recording subclass of `pathops.Path` and whose `op` logs the binary operation.  No source hook is
needed; the library code is untouched.  Every event carries snapshots (fill type + verbs/points) of
the operands and the result, so that (a) the *expression* that produced any path can be rebuilt
and compared with the Lean model's prediction and (b) the engine hypotheses (Spec.EngineSpec) can
be validated by sampling with the independent evaluator in geom.py.
"""
import contextlib
import types

import common


def snapshot(p):
    import pathops as real
    return (int(p.fillType), tuple((int(v), tuple(tuple(pt) for pt in pts)) for v, pts in real.Path.__iter__(p)))


VERB_TO_SVG = {0: "M", 1: "L", 2: "Q", 3: "K", 4: "C", 5: "Z"}


def snap_cmds(snap):
    """snapshot -> [(letter, args)] (conics 'K' kept as is)"""
    out = []
    for v, pts in snap[1]:
        out.append((VERB_TO_SVG[v], tuple(c for pt in pts for c in pt)))
    return out


class Recorder:
    def __init__(self):
        self.events = []
        self.ids = {}
        self.next_id = 0
        # fault injection: ("op", k) fails the k-th binary operation, ("simplify", k) the k-th simplify
        self.fail = None
        self.count = {"op": 0, "simplify": 0}

    def _id(self, obj):
        k = id(obj)
        if k not in self.ids:
            self.ids[k] = self.next_id
            self.next_id += 1
        return self.ids[k]

    def log(self, kind, **kw):
        kw["kind"] = kind
        self.events.append(kw)

    @contextlib.contextmanager
    def active(self):
        common.import_impl()
        import pathops as real
        from picosvg import svg_pathops
        rec = self

        class RecPath(real.Path):
            def simplify(self, **kw):
                before = snapshot(self)
                k = rec.count["simplify"]
                rec.count["simplify"] += 1
                if rec.fail == ("simplify", k):
                    rec.log("simplify", pid=rec._id(self), before=before, after=None, kw=dict(kw), error="PathOpsError", injected=True)
                    raise real.PathOpsError("injected failure")
                try:
                    r = super().simplify(**kw)
                except real.PathOpsError:
                    rec.log("simplify", pid=rec._id(self), before=before, after=None, kw=dict(kw), error="PathOpsError")
                    raise
                rec.log("simplify", pid=rec._id(self), before=before, after=snapshot(self), kw=dict(kw))
                return r

            def stroke(self, *a, **kw):
                before = snapshot(self)
                r = super().stroke(*a, **kw)
                rec.log("stroke", pid=rec._id(self), before=before, after=snapshot(self), args=tuple(
                    (int(x) if hasattr(x, "value") else (tuple(x) if isinstance(x, (list, tuple)) else x)) for x in a))
                return r

            def transform(self, *a, **kw):
                before = snapshot(self)
                r = super().transform(*a, **kw)
                # pathops.Path.transform returns a new Path
                res = RecPath(r) if not isinstance(r, RecPath) else r
                res.fillType = r.fillType
                rec.log("transform", pid=rec._id(self), before=before, after=snapshot(res), matrix=tuple(a), rid=rec._id(res))
                return res

            def convertConicsToQuads(self, *a, **kw):
                before = snapshot(self)
                r = super().convertConicsToQuads(*a, **kw)
                rec.log("conics", pid=rec._id(self), before=before, after=snapshot(self), args=tuple(a))
                return r

            def __iter__(self):
                rec.log("read", pid=rec._id(self), value=snapshot(self))
                return real.Path.__iter__(self)

            @property
            def area(self):
                v = real.Path.area.__get__(self)
                rec.log("area", pid=rec._id(self), before=snapshot(self), value=v)
                return v

            @property
            def bounds(self):
                v = real.Path.bounds.__get__(self)
                rec.log("bounds", pid=rec._id(self), before=snapshot(self), value=tuple(v))
                return v

        def rec_path(*a, **kw):
            p = RecPath(*a, **kw)
            if a and isinstance(a[0], real.Path):
                p.fillType = a[0].fillType
                rec.log("copy", pid=rec._id(p), src=rec._id(a[0]))
            else:
                rec.log("new", pid=rec._id(p), fill=int(p.fillType))
            return p

        def rec_op(one, two, op, **kw):
            a, b = snapshot(one), snapshot(two)
            k = rec.count["op"]
            rec.count["op"] += 1
            if rec.fail == ("op", k):
                rec.log("op", op=int(op), a=a, b=b, aid=rec._id(one), bid=rec._id(two), result=None, kw=dict(kw), error="PathOpsError", injected=True)
                raise real.PathOpsError("injected failure")
            try:
                r = real.op(one, two, op, **kw)
            except real.PathOpsError:
                rec.log("op", op=int(op), a=a, b=b, aid=rec._id(one), bid=rec._id(two), result=None, kw=dict(kw), error="PathOpsError")
                raise
            res = RecPath(r)
            res.fillType = r.fillType
            rec.log("op", op=int(op), a=a, b=b, aid=rec._id(one), bid=rec._id(two), result=snapshot(res), rid=rec._id(res), kw=dict(kw))
            return res

        shim = types.SimpleNamespace()
        for name in dir(real):
            if not name.startswith("__"):
                setattr(shim, name, getattr(real, name))
        # keep class attributes used as dict keys / unbound methods working: subclass instances are accepted
        shim.Path = rec_path
        shim.op = rec_op
        shim.RecPath = RecPath
        saved = svg_pathops.pathops
        svg_pathops.pathops = shim
        try:
            yield self
        finally:
            svg_pathops.pathops = saved


OP_NAMES = {0: "difference", 1: "intersection", 2: "union", 3: "xor", 4: "reverse_difference"}


def expression_of(events):
    """rebuild, per engine path id, the expression that produced its current value.
    mk(i,rule): i-th path constructed by skia_path (creation order), fill type name"""
    expr = {}
    mk = 0
    out_order = []
    for e in events:
        k = e["kind"]
        if k == "new":
            expr[e["pid"]] = "mk(%d,%s)" % (mk, "nonzero" if e["fill"] == 0 else "evenodd")
            mk += 1
        elif k == "copy":
            expr[e["pid"]] = expr.get(e["src"], "?")
        elif k == "op":
            expr[e["rid"]] = "op(%s,%s,%s)" % (OP_NAMES.get(e["op"], e["op"]), expr.get(e["aid"], "?"), expr.get(e["bid"], "?")) if e.get("rid") is not None else None
            if e.get("kw", {}).get("fix_winding") is not True:
                expr[e["rid"]] = "NOFIX:" + str(expr[e["rid"]])
        elif k == "simplify":
            fw = e.get("kw", {}).get("fix_winding")
            expr[e["pid"]] = "simplify(%s)" % expr.get(e["pid"], "?") if fw is True else "simplify_nofix(%s)" % expr.get(e["pid"], "?")
        elif k == "stroke":
            expr[e["pid"]] = "stroke(%s)" % expr.get(e["pid"], "?")
        elif k == "conics":
            expr[e["pid"]] = "conics(%s)" % expr.get(e["pid"], "?")
        elif k == "transform":
            expr[e["rid"]] = "transform(%s)" % expr.get(e["pid"], "?")
        elif k in ("read", "area", "bounds"):
            e["expr"] = expr.get(e["pid"], "?")
    return expr


def reads(events):
    """expressions of the engine paths whose commands / area / bounds were read, in order"""
    expression_of(events)
    return [(e["kind"], e.get("expr")) for e in events if e["kind"] in ("read", "area", "bounds")]
