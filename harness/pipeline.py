"""Shared tie for the document-level properties: the conversion pipeline of the implementation vs the
Lean pipeline model (lean/PicoSVG/Model/Pipeline.lean) with the Skia answers replayed from the recorded
run and the *questions* compared verbatim."""
import common
import docgen
import oracle
import treewire
from common import esc


def impl():
    common.import_impl()
    from picosvg.svg import SVG
    return SVG


def apply_op(svg, op):
    """returns (result, current object afterwards); `copy:<op>` is the copying form, the history continues on the copy"""
    if op.startswith("copy:"):
        t = op[5:].split()
        if t[0] == "round_floats":
            r = svg.round_floats(int(t[1]))
        elif t[0] == "topicosvg":
            r = svg.topicosvg(ndigits=int(t[1]), allow_text=t[2] == "1", drop_unsupported=t[3] == "1")
        elif t[0] == "set_attributes":
            r = svg.set_attributes(tuple(tuple(kv.split("=", 1)) for kv in t[1:]))
        elif t[0] == "remove_attributes":
            r = svg.remove_attributes(tuple(t[1:]))
        else:
            r = getattr(svg, t[0])()
        return r, r
    r = apply_op1(svg, op)
    return r, svg


def apply_op1(svg, op):
    t = op.split()
    if t[0] == "round_floats":
        return svg.round_floats(int(t[1]), inplace=True)
    if t[0] == "topicosvg":
        return svg.topicosvg(ndigits=int(t[1]), allow_text=t[2] == "1", drop_unsupported=t[3] == "1", inplace=True)
    if t[0] == "checkpicosvg":
        return svg.checkpicosvg(allow_text=t[1] == "1", drop_unsupported=t[2] == "1")
    if t[0] == "set_attributes":
        return svg.set_attributes(tuple(tuple(kv.split("=", 1)) for kv in t[1:]), inplace=True)
    if t[0] == "remove_attributes":
        return svg.remove_attributes(tuple(t[1:]), inplace=True)
    if t[0] == "bounding_box":
        return svg.bounding_box()
    if t[0] == "view_box":
        return svg.view_box()
    if t[0] == "tostring":
        return svg.tostring()
    if t[0] == "shapes":
        return svg.shapes()
    return getattr(svg, t[0])(inplace=True)


class Run:
    """one implementation run of an op sequence on a document"""

    def __init__(self, src, ops):
        self.src = src
        self.ops = list(ops)
        self.tape = oracle.Tape()
        self.in_wire = None
        self.outcome = None
        self.out_text = None
        self.out_wire = None
        self.extras = []
        SVG = impl()
        with self.tape.recording():
            try:
                svg = SVG.fromstring(src)
                self.in_wire = treewire.encode(svg.svg_root)
                self.none_good = svg.svg_root.nsmap.get(None) == "http://www.w3.org/2000/svg"
                for op in self.ops:
                    prev = svg
                    r, svg = apply_op(svg, op)
                    if op.startswith("copy:"):
                        self.extras.append("")
                    elif op.startswith("checkpicosvg"):
                        self.extras.append("\x1d".join(r))
                    elif op.startswith("resolve_nested_svgs"):
                        self.extras.append("self" if r is prev else "None")
                    elif op in ("bounding_box", "view_box"):
                        self.extras.append("None" if r is None else " ".join(common.hexf(float(v)) for v in (r.x, r.y, r.w, r.h)))
                    else:
                        self.extras.append("")
                self.out_wire = treewire.encode(svg.toetree())
                self.out_text = svg.tostring()
                self.outcome = "ok"
            except RecursionError:
                self.outcome = "RecursionError"
            except Exception as e:  # noqa
                self.outcome = type(e).__name__

    def model_line(self):
        return "svgobj\trun\t%s\t%s\t%s\t%s" % ("1" if getattr(self, "none_good", True) else "0", ";".join(self.ops), self.tape.wire(), self.in_wire)

    def compare(self, m):
        """None if the model output m agrees, else a description"""
        if self.in_wire is None:
            return None
        if not m.startswith("ok"):
            if self.outcome == m:
                return None
            return "implementation outcome %s, model %s" % (self.outcome, m)
        if self.outcome != "ok":
            return "implementation raised %s, model returned a document" % self.outcome
        mt, asked, extras, left = m[3:].split("\x1c")
        a = treewire.strip_text(treewire.decode(self.out_wire))
        b = treewire.strip_text(treewire.decode(mt))
        if a != b:
            return "output trees differ: " + first_diff(a, b)
        mq = asked.split("\x1d") if asked else []
        if mq != self.tape.questions:
            for i, (x, y) in enumerate(zip(self.tape.questions, mq)):
                if x != y:
                    return "Skia call %d differs: implementation asked %s, model expected %s" % (i, x[:200], y[:200])
            return "number of Skia calls differs: implementation %d, model %d" % (len(self.tape.questions), len(mq))
        mex = extras.split("\x1e") if extras else []
        for op, x, y in zip(self.ops, self.extras, mex):
            if op.startswith("checkpicosvg") and sorted(x.split("\x1d")) != sorted(y.split("\x1d")):
                return "checkpicosvg reports differ: %r vs %r" % (x, y)
            if op.startswith("resolve_nested_svgs") and x != y:
                return "resolve_nested_svgs(inplace=True) returned %s, model %s" % (x, y)
            if op in ("bounding_box", "view_box") and x.lower() != y.lower():
                return "%s() returned %s, model %s" % (op, x, y)
        return None


def first_diff(a, b, path="/"):
    if a[0] != b[0]:
        return "%s: node kinds %s vs %s" % (path, a[0], b[0])
    if a[0] != "E":
        return "%s: %r vs %r" % (path, a, b)
    if a[1] != b[1]:
        return "%s: tag %s vs %s" % (path, a[1], b[1])
    if a[2] != b[2]:
        return "%s<%s>: attributes %r vs %r" % (path, a[1].split("}")[-1], a[2], b[2])
    if len(a[3]) != len(b[3]):
        return "%s<%s>: %d children vs %d" % (path, a[1].split("}")[-1], len(a[3]), len(b[3]))
    for i, (x, y) in enumerate(zip(a[3], b[3])):
        if x != y:
            return first_diff(x, y, "%s%s[%d]/" % (path, a[1].split("}")[-1], i))
    return "?"


FEATURE_SETS = {
    "structural": dict(use=True, nested_svg=True, groups=True, transforms=True, display=True),
    "clips": dict(use=True, clips=True, transforms=True),
    "strokes": dict(strokes=True, transforms=True),
    "gradients": dict(gradients=True, transforms=True, use=True),
    "cascade": dict(use=True, root_attrs=True, styles=True, opacity=True, display=True, strokes=True),
    "noise": dict(noise=True, use=True, clips=True, gradients=True),
    "hostile": dict(unsupported=True, text=True, degenerate=True, noise=True, use=True, gradients=True),
    "all": dict(use=True, nested_svg=True, clips=True, strokes=True, gradients=True, display=True, noise=True, root_attrs=True, degenerate=True),
}


def gen_doc(rng, kind=None):
    kind = kind or rng.choice(list(FEATURE_SETS))
    return kind, docgen.document(rng, docgen.Features(**FEATURE_SETS[kind]))
