#!/venv/bin/python
"""./check <Cxx> [--tier quick|thorough] [--replay FILE]

Decides one property (DESIGN §2.6):
  1. regenerate Gen/*.lean from /repo's working tree (translator), rebuild the property's
     theorems and the model driver, audit axioms and forbidden tokens      -> proof obligations
  2. correspondence: implementation vs Lean model on generated inputs        -> the tie
  3. failing-input search: the property itself evaluated on the implementation with the
     Lean specification (or an independent judge) — always run; deeper when 1 or 2 broke
  4. VIOLATION / KNOWN-FINDING lines, evidence/<id>.json, exit status (0 held, 1 violation,
     2 infrastructure failure)
"""
import argparse
import importlib
import json
import os
import random
import sys
import time
import traceback

sys.path.insert(0, os.path.dirname(os.path.abspath(__file__)))
import common  # noqa: E402
from common import Infra  # noqa: E402


class Ctx:
    def __init__(self, prop, tier, seed):
        self.prop = prop
        self.tier = tier
        self.seed = seed
        self.rng = random.Random("%s-%s" % (prop, seed))
        self.driver = None
        self.driver_ok = False
        self.tie_breaks = []       # strings: what no longer checks
        self.escalate = False
        self.stats = {}
        self.samples = []
        self.hist = {}

    def count(self, key, n=1):
        self.hist[key] = self.hist.get(key, 0) + n

    def thorough(self):
        return self.tier == "thorough"

    def model(self, lines):
        if not self.driver_ok:
            raise Infra("model driver unavailable")
        return self.driver.batch(lines)


def first_errors(log, n=6):
    out = []
    for line in log.splitlines():
        if "error" in line:
            out.append(line.strip()[:300])
            if len(out) >= n:
                break
    return out


def run_check(prop, tier, seed, replay=None):
    t0 = time.time()
    mod = importlib.import_module("props." + prop.lower())
    ctx = Ctx(prop, tier, seed)

    # ---- 1. proof side
    ok_tr, summary = common.translate()
    if not ok_tr:
        ctx.tie_breaks.append("translator: " + str(summary.get("error")))
    ctx.gen_summary = summary
    ok_build, log = common.lake_build(mod.LEAN_TARGETS)
    if not ok_build:
        ctx.tie_breaks.append("lake build of %s failed: %s" % (mod.LEAN_TARGETS, first_errors(log)))
    ok_drv, dlog = common.lake_build(["driver"])
    if not ok_drv:
        ctx.tie_breaks.append("model driver no longer builds against the generated tables: %s" % first_errors(dlog))
    try:
        ctx.driver = common.Driver()
        ctx.driver_ok = ok_drv
    except Infra:
        ctx.driver_ok = False

    prop_file = os.path.join(common.LEAN_DIR, "PicoSVG", "Props", prop + ".lean")
    names = common.theorem_names(prop_file)
    axioms = {}
    audit_text = ""
    if ok_build:
        rc, axioms, audit_text = common.audit_axioms(prop, mod.LEAN_TARGETS, names)
        if rc != 0:
            ctx.tie_breaks.append("axiom audit failed: %s" % first_errors(audit_text))
    discharged = 0
    axioms_seen = set()
    for n in names:
        ax = axioms.get(n)
        if ax is None:
            continue
        axioms_seen.update(ax)
        if set(ax) <= common.ALLOWED_AXIOMS:
            discharged += 1
        else:
            ctx.tie_breaks.append("theorem %s depends on non-whitelisted axioms %s" % (n, ax))
    if ok_build and discharged != len(names):
        missing = [n for n in names if n not in axioms]
        if missing:
            ctx.tie_breaks.append("theorems not reported by the audit: %s" % missing[:5])
    forbidden = common.grep_forbidden()
    if forbidden:
        ctx.tie_breaks.append("forbidden tokens in Lean sources: %s" % forbidden[:5])
    # thorough tier: the compiled property module is re-checked by the toolchain's independent checker
    ctx.stats["leanchecker"] = "not run (quick tier)"
    if ok_build and tier == "thorough" and not replay:
        rc, out, err, dt = common.run(["lake", "env", "leanchecker"] + list(mod.LEAN_TARGETS), cwd=common.LEAN_DIR, timeout=1800)
        ctx.stats["leanchecker"] = "ok (%.0fs)" % dt if rc == 0 else "FAILED rc=%d" % rc
        if rc != 0:
            ctx.tie_breaks.append("leanchecker rejects %s: %s" % (mod.LEAN_TARGETS, (out + err)[-300:]))

    violations = []
    known_lines = []

    # ---- replay mode
    if replay:
        payload = json.load(open(replay))
        res = mod.replay(ctx, payload)
        print(json.dumps(res, indent=1, default=str))
        return 1 if res.get("fails") else 0

    # ---- 2. correspondence
    disagreements = []
    if ctx.driver_ok:
        try:
            disagreements = mod.correspondence(ctx) or []
        except Infra:
            raise
    else:
        ctx.count("correspondence-skipped-no-driver")
    for d in disagreements[:50]:
        ctx.tie_breaks.append("correspondence: " + d.get("what", "?"))

    # ---- 3. failing-input search on the implementation (always; deeper when the tie broke)
    ctx.escalate = bool(ctx.tie_breaks)
    found = mod.search(ctx, disagreements) or []

    # ---- 4. classify
    findings = common.load_known_findings(prop)
    reported_known = set()
    new_viol = []
    for v in found:
        kid = mod.classify(v, findings) if hasattr(mod, "classify") else None
        if kid is not None:
            reported_known.add(kid)
        else:
            new_viol.append(v)
    # every listed finding is replayed on the implementation on every run
    for e in findings:
        if e.get("status") != "finding":
            continue
        still = mod.replay_finding(ctx, e) if hasattr(mod, "replay_finding") else True
        if still:
            known_lines.append("KNOWN-FINDING: property=%s %s" % (prop, e["what"]))
        else:
            ctx.count("known-finding-no-longer-reproduces:" + e.get("id", "?"))

    nviol = 0
    # distinct failing inputs, at most a handful of lines
    seen = set()
    for v in new_viol:
        key = v.get("key") or json.dumps(v.get("input"), sort_keys=True, default=str)[:200]
        if key in seen:
            continue
        seen.add(key)
        if len(seen) > 5:
            continue
        path = common.write_replay(prop, v)
        print("VIOLATION property=%s replay=%s" % (prop, path))
        nviol += 1
    if ctx.tie_breaks and not new_viol:
        # proof obligation / correspondence broke and no failing input of an unlisted kind was
        # found; if every tie break is explained by a listed known finding it is not re-raised
        unexplained = [t for t in ctx.tie_breaks if not getattr(mod, "tie_break_is_known", lambda t, f: False)(t, findings)]
        if unexplained:
            path = common.write_replay(prop, {
                "kind": "tie-broken",
                "no_longer_checks": unexplained[:20],
                "disagreements": disagreements[:5],
                "note": "the property is no longer shown to hold; no failing input was found by the search",
                "search": ctx.hist,
            })
            print("VIOLATION property=%s replay=%s no-failing-input-found" % (prop, path))
            nviol += 1
    for l in known_lines:
        print(l)

    # ---- evidence
    cov = {
        "obligations": max(len(names), 1),
        "discharged": discharged,
        "checker_cmd": "cd lean && lake build %s && lake env lean Audit/%s.lean  (#print axioms on every property theorem)" % (" ".join(mod.LEAN_TARGETS), prop),
        "trusted_base": sorted(axioms_seen) + list(getattr(mod, "TRUSTED", [])),
        "theorems": names,
        "evaluations": int(ctx.stats.get("evaluations", 0)),
        "distinct_nontrivial": int(ctx.stats.get("distinct_nontrivial", 0)),
        "traces_validated_against_impl": int(ctx.stats.get("corr_cases", 0)),
        "rule": getattr(mod, "RULE", ""),
        "samples": ctx.samples[:8],
        "histogram": ctx.hist,
        "tie_breaks": ctx.tie_breaks[:20],
        "generated_tables_changed": bool(summary.get("tables_changed")) if isinstance(summary, dict) else None,
        "known_findings_reported": sorted(reported_known),
        "leanchecker": ctx.stats.get("leanchecker"),
    }
    common.write_evidence(prop, tier, seed, cov, list(getattr(mod, "ASSUMPTIONS", [])), time.time() - t0, nviol)
    print("%s tier=%s seed=%s theorems=%d/%d corr_cases=%s evaluations=%s violations=%d wall=%.1fs" % (
        prop, tier, seed, discharged, len(names), ctx.stats.get("corr_cases", 0),
        ctx.stats.get("evaluations", 0), nviol, time.time() - t0))
    return 1 if nviol else 0


def main():
    ap = argparse.ArgumentParser()
    ap.add_argument("prop")
    ap.add_argument("--tier", default=os.environ.get("VERIF_TIER", "quick"), choices=["quick", "thorough"])
    ap.add_argument("--replay")
    a = ap.parse_args()
    try:
        seed = int(os.environ.get("VERIF_SEED", "0"))
    except ValueError:
        seed = 0
    try:
        rc = run_check(a.prop.upper(), a.tier, seed, a.replay)
    except Infra as e:
        print("INFRA-FAILURE: %s" % e)
        sys.exit(2)
    except Exception:
        traceback.print_exc()
        print("INFRA-FAILURE: unexpected exception in the check itself")
        sys.exit(2)
    sys.exit(rc)


if __name__ == "__main__":
    main()
