"""Generators for SVG path data (shared by C09, C10, C12, C18, C20)."""
import itertools

LETTERS = "MmZzLlHhVvCcSsQqTtAa"
ARITY = {"m": 2, "z": 0, "l": 2, "h": 1, "v": 1, "c": 6, "s": 4, "q": 4, "t": 2, "a": 7}

LATTICE = [0, 1, 2, -1, 3, 0.5, -2.5, 4]


def fmt(v):
    if isinstance(v, int):
        return str(v)
    if float(v).is_integer():
        return str(int(v))
    return repr(float(v))


def args_for(rng, letter, lattice=LATTICE, arc_degenerate=True):
    k = letter.lower()
    if k == "a":
        rx = rng.choice([1, 2, 0.5, 3, 0, 1.5]) if arc_degenerate else rng.choice([1, 2, 0.5, 3, 1.5])
        ry = rng.choice([1, 2, 0.5, 3, 0, 2.5]) if arc_degenerate else rng.choice([1, 2, 0.5, 3, 2.5])
        rot = rng.choice([0, 0, 30, 90, -45, 400])
        return [rx, ry, rot, rng.choice([0, 1]), rng.choice([0, 1]), rng.choice(lattice), rng.choice(lattice)]
    return [rng.choice(lattice) for _ in range(ARITY[k])]


def cmd_str(letter, args):
    if not args:
        return letter
    return letter + " ".join(fmt(a) for a in args)


def seq_to_d(seq):
    return " ".join(cmd_str(l, a) for l, a in seq)


def exhaustive_sequences(rng, length, first=("M",), lattice=LATTICE):
    """every sequence of `length` letters after an initial moveto; arguments from the lattice
    (one random draw per position — the *letters* are exhaustive)."""
    for f in first:
        for letters in itertools.product(LETTERS, repeat=length):
            seq = [(f, [rng.choice(lattice), rng.choice(lattice)])]
            for l in letters:
                seq.append((l, args_for(rng, l, lattice)))
            yield seq


def random_sequence(rng, maxlen=30, lattice=None, start_with_move=0.9):
    lat = lattice or LATTICE
    n = rng.randint(0, maxlen)
    seq = []
    if rng.random() < start_with_move:
        seq.append((rng.choice("Mm"), [rng.choice(lat), rng.choice(lat)]))
    for _ in range(n):
        k = rng.random()
        if k < 0.15:
            l = rng.choice("Zz")
        elif k < 0.25:
            l = rng.choice("Mm")
        else:
            l = rng.choice(LETTERS)
        seq.append((l, args_for(rng, l, lat)))
    return seq


def random_float_lattice(rng):
    k = rng.random()
    if k < 0.3:
        return [round(rng.uniform(-100, 100), rng.randint(0, 3)) for _ in range(8)]
    if k < 0.6:
        return [rng.uniform(-1000, 1000) for _ in range(8)]
    if k < 0.8:
        return [rng.choice([1e-10, -1e-10, 5e-10, 1e-9, 2e-9, 0, 1, 5]) for _ in range(8)]
    return [rng.choice([0, 1, -1]) * 10 ** rng.randint(-6, 6) for _ in range(8)]
