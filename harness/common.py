"""Shared machinery of the picosvg verification checks (DESIGN §2).

  * translate + lake build + axiom audit + forbidden-token grep  (the proof side)
  * driver process wrapper and the line protocol                 (the model side)
  * evidence writer, known findings, replay files, VIOLATION lines
"""
import fcntl
import hashlib
import json
import os
import random
import re
import struct
import subprocess
import sys
import time

VERIF = os.path.dirname(os.path.dirname(os.path.abspath(__file__)))
REPO = os.environ.get("PICOSVG_REPO", "/repo")
LEAN_DIR = os.path.join(VERIF, "lean")
GEN_DIR = os.path.join(LEAN_DIR, "PicoSVG", "Gen")
PY = "/venv/bin/python"
DRIVER_BIN = os.path.join(LEAN_DIR, ".lake", "build", "bin", "driver")
ALLOWED_AXIOMS = {"propext", "Classical.choice", "Quot.sound"}
FORBIDDEN = re.compile(
    r"\bsorry\b|\badmit\b|^\s*axiom\s|native_decide|bv_decide|implemented_by|\bunsafe\s|maxHeartbeats\s+0\b"
)


class Infra(Exception):
    """infrastructure failure: exit 2, never a violation"""


# ---------------------------------------------------------------- numbers on the wire

def hexf(x) -> str:
    return struct.pack(">d", float(x)).hex()


def unhex(h: str) -> float:
    return struct.unpack(">d", bytes.fromhex(h))[0]


def bits(x) -> int:
    return struct.unpack(">Q", struct.pack(">d", float(x)))[0]


def canon_hex(h: str) -> str:
    """-0.0 == 0.0, every NaN == NaN"""
    v = int(h, 16)
    if v == 0x8000000000000000:
        return "0" * 16
    if (v >> 52) & 0x7FF == 0x7FF and v & ((1 << 52) - 1):
        return "7ff8000000000000"
    return h.lower()


def ulp_diff(h1: str, h2: str) -> int:
    def key(h):
        v = int(h, 16)
        return -(v & 0x7FFFFFFFFFFFFFFF) if v >> 63 else v
    return abs(key(h1) - key(h2))


def esc(s: str) -> str:
    return (s.replace("\\", "\\\\").replace("\t", "\\t").replace("\n", "\\n").replace("\r", "\\r"))


def unesc(s: str) -> str:
    out = []
    i = 0
    while i < len(s):
        c = s[i]
        if c == "\\" and i + 1 < len(s):
            n = s[i + 1]
            out.append({"t": "\t", "n": "\n", "r": "\r", "\\": "\\"}.get(n, n))
            i += 2
        else:
            out.append(c)
            i += 1
    return "".join(out)


# ---------------------------------------------------------------- lean side

def run(cmd, cwd=None, timeout=3600, env=None, input=None):
    t0 = time.time()
    p = subprocess.run(cmd, cwd=cwd, capture_output=True, text=True, timeout=timeout, env=env, input=input)
    return p.returncode, p.stdout, p.stderr, time.time() - t0


class LakeLock:
    def __enter__(self):
        os.makedirs(os.path.join(LEAN_DIR, ".lake"), exist_ok=True)
        self.f = open(os.path.join(LEAN_DIR, ".lake", "verif.lock"), "w")
        fcntl.flock(self.f, fcntl.LOCK_EX)
        return self

    def __exit__(self, *a):
        fcntl.flock(self.f, fcntl.LOCK_UN)
        self.f.close()


def translate():
    """regenerate Gen/*.lean from the working tree; returns (ok, summary)"""
    rc, out, err, _ = run([PY, os.path.join(VERIF, "tools", "translate.py"), REPO, GEN_DIR])
    try:
        summary = json.loads(out.strip().splitlines()[-1])
    except Exception:
        summary = {"error": "translator crashed", "stderr": err[-2000:], "stdout": out[-2000:]}
    return rc == 0 and "error" not in summary, summary


def lake_build(targets):
    """returns (ok, log). Serialised by a file lock: checks may run concurrently."""
    with LakeLock():
        rc, out, err, dt = run(["lake", "build"] + list(targets), cwd=LEAN_DIR, timeout=3000)
    return rc == 0, out + err


def theorem_names(prop_file):
    """names of `theorem` declarations in a Props file, fully qualified with its namespace"""
    text = open(prop_file, encoding="utf-8").read()
    names = []
    ns = []
    for line in text.splitlines():
        m = re.match(r"^namespace\s+(\S+)", line)
        if m:
            ns.append(m.group(1))
            continue
        m = re.match(r"^end\s+(\S+)\s*$", line)
        if m and ns and ns[-1] == m.group(1):
            ns.pop()
            continue
        m = re.match(r"^(?:private\s+|protected\s+)?theorem\s+([^\s:({\[]+)", line)
        if m:
            names.append(".".join(ns + [m.group(1)]))
    return names


def strip_comments(text):
    # block comments (non-nested is enough for our sources) and line comments
    text = re.sub(r"/-.*?-/", lambda m: "\n" * m.group(0).count("\n"), text, flags=re.S)
    return "\n".join(l.split("--")[0] for l in text.splitlines())


def grep_forbidden():
    hits = []
    for root, _, files in os.walk(LEAN_DIR):
        if ".lake" in root:
            continue
        for fn in files:
            if not fn.endswith(".lean"):
                continue
            p = os.path.join(root, fn)
            body = strip_comments(open(p, encoding="utf-8").read())
            for i, line in enumerate(body.splitlines(), 1):
                if FORBIDDEN.search(line):
                    hits.append("%s:%d: %s" % (os.path.relpath(p, VERIF), i, line.strip()[:120]))
    return hits


def audit_axioms(prop, modules, names):
    """#print axioms for every property theorem; returns {name: [axioms]} or raises Infra"""
    os.makedirs(os.path.join(LEAN_DIR, "Audit"), exist_ok=True)
    path = os.path.join(LEAN_DIR, "Audit", prop + ".lean")
    with open(path, "w") as f:
        for m in modules:
            f.write("import %s\n" % m)
        for n in names:
            f.write("#print axioms %s\n" % n)
    with LakeLock():
        rc, out, err, _ = run(["lake", "env", "lean", path], cwd=LEAN_DIR, timeout=1200)
    res = {}
    text = out + err
    for m in re.finditer(r"'([^']+)' depends on axioms: \[([^\]]*)\]", text, flags=re.S):
        res[m.group(1)] = [a.strip() for a in m.group(2).replace("\n", " ").split(",") if a.strip()]
    for m in re.finditer(r"'([^']+)' does not depend on any axioms", text):
        res[m.group(1)] = []
    return rc, res, text


class Driver:
    """batch interface to the Lean model driver (compiled lean_exe, Mathlib-free)."""

    def __init__(self):
        if not os.path.exists(DRIVER_BIN):
            raise Infra("driver binary missing: run setup (lake build)")

    def batch(self, lines, timeout=3000):
        if not lines:
            return []
        data = "\n".join(lines) + "\n"
        p = subprocess.run([DRIVER_BIN], input=data, capture_output=True, text=True, timeout=timeout)
        if p.returncode != 0:
            raise Infra("driver exited %d: %s" % (p.returncode, p.stderr[-500:]))
        out = p.stdout.split("\n")
        if out and out[-1] == "":
            out.pop()
        if len(out) != len(lines):
            raise Infra("driver answered %d lines for %d requests" % (len(out), len(lines)))
        return out


# ---------------------------------------------------------------- results

class Violation:
    def __init__(self, prop, kind, detail, replay, found_input=True):
        self.prop = prop
        self.kind = kind  # 'property' (failing input on the real code) | 'tie' (obligation/correspondence)
        self.detail = detail
        self.replay = replay  # dict written to the replay file
        self.found_input = found_input


def write_replay(prop, payload):
    os.makedirs(os.path.join(VERIF, "replays"), exist_ok=True)
    blob = json.dumps(payload, sort_keys=True, default=str)
    h = hashlib.sha256(blob.encode()).hexdigest()[:12]
    path = os.path.join(VERIF, "replays", "%s-%s.json" % (prop, h))
    with open(path, "w") as f:
        json.dump(payload, f, indent=1, sort_keys=True, default=str)
    return os.path.relpath(path, VERIF)


def load_known_findings(prop):
    path = os.path.join(VERIF, "known_findings.json")
    if not os.path.exists(path):
        return []
    data = json.load(open(path))
    return [e for e in data.get("entries", []) if e.get("property") == prop]


def write_evidence(prop, tier, seed, coverage, assumptions, wall_s, violations):
    os.makedirs(os.path.join(VERIF, "evidence"), exist_ok=True)
    ev = {
        "property_id": prop,
        "tier": tier,
        "seed": int(seed),
        "level": "proof",
        "coverage": coverage,
        "assumptions": assumptions,
        "wall_s": round(wall_s, 2),
        "violations": int(violations),
    }
    path = os.path.join(VERIF, "evidence", prop + ".json")
    tmp = path + ".tmp"
    with open(tmp, "w") as f:
        json.dump(ev, f, indent=1, default=str)
    os.replace(tmp, path)
    return path


def import_impl():
    """import picosvg from the working tree (fresh)"""
    src = os.path.join(REPO, "src")
    if src not in sys.path:
        sys.path.insert(0, src)
    import picosvg  # noqa
    assert os.path.realpath(picosvg.__file__).startswith(os.path.realpath(REPO)), picosvg.__file__
    return picosvg


def outcome_of(fn):
    """run fn(); map exceptions to a small enum"""
    try:
        return ("ok", fn())
    except RecursionError:
        return ("RecursionError", None)
    except Exception as e:  # noqa
        return (type(e).__name__, None)
