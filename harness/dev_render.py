"""dev: python harness/dev_render.py <featureset> <seed> <N> [mode]"""
import sys, random, collections, json
sys.path.insert(0, '/verif/harness')
import common, docgen, pipeline, renderjudge
FS = {
 "c02": dict(use=True, nested_svg=True, groups=True, transforms=True, display=True, opacity=False, styles=False, evenodd=False, max_depth=4),
 "c03": dict(use=True, clips=True, groups=True, transforms=True, opacity=False, styles=False, max_depth=3),
 "c04": dict(strokes=True, transforms=True, opacity=False, groups=True),
 "c05": dict(use=True, root_attrs=True, styles=True, opacity=True, display=True, groups=True, transforms=False),
 "c06": dict(gradients=True, transforms=True, use=True, opacity=False),
}
fs, seed, n = sys.argv[1], sys.argv[2], int(sys.argv[3])
mode = sys.argv[4] if len(sys.argv) > 4 else "stack"
rng = random.Random(seed)
drv = common.Driver()
SVG = pipeline.impl()
cnt = collections.Counter()
shown = 0
for i in range(n):
    src = docgen.document(rng, docgen.Features(**FS[fs]))
    o, out = common.outcome_of(lambda: SVG.fromstring(src).topicosvg().tostring())
    if o != "ok":
        cnt["conv:" + o] += 1
        continue
    r = renderjudge.judge(drv, src, out, rng, n=64, mode=mode)
    cnt[r["status"]] += 1
    if r["status"] == "skip":
        cnt["skip:" + r["why"][:40]] += 1
    if r["status"] == "fail" and shown < int(sys.argv[5] if len(sys.argv) > 5 else 3):
        shown += 1
        print("FAIL", {k: v for k, v in r.items() if k != "status"})
        print(" SRC", src)
        print(" OUT", out)
print(dict(cnt))
