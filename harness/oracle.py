"""Recording of picosvg's calls into `picosvg.svg_pathops` (function level) — the oracle tape.

Each wrapped function materialises its command-sequence arguments, calls the real function, materialises
the result, and logs (question, answer).  The *question* string has the same format the Lean model
produces for the call it expects to make (lean/PicoSVG/Model/Simplify.lean, SvgObj.lean), so the
ordered list of questions is compared verbatim: wrong fill rule, operand order, matrix, stroke
parameter or a missing / extra call is a correspondence failure.  The *answers* are replayed to the
model as its oracle tape.
"""
import contextlib

import common
from common import hexf


def ntos(v):
    if isinstance(v, float) and v.is_integer():
        return str(int(v))
    return str(v)


XY = {"M": [(0, 1)], "L": [(0, 1)], "Q": [(0, 1), (2, 3)], "C": [(0, 1), (2, 3), (4, 5)], "Z": [], "T": [(0, 1)], "S": [(0, 1), (2, 3)],
      "H": [], "V": [], "A": [(5, 6)]}


def fmt_cmds(cmds):
    """the d string picosvg's printer gives for a command list (path_segment conventions)"""
    segs = []
    for c, args in cmds:
        pairs = set(XY.get(c.upper(), []))
        a = [ntos(x) for x in args]
        out = []
        i = 0
        while i < len(a):
            if (i, i + 1) in pairs:
                out.append("%s,%s" % (a[i], a[i + 1]))
                i += 2
            else:
                out.append(a[i])
                i += 1
        segs.append(c + " ".join(out))
    return " ".join(segs)


def enc_cmds(cmds):
    return "c:" + ";".join(" ".join([c] + [hexf(x) for x in a]) for c, a in cmds)


class Tape:
    def __init__(self):
        self.questions = []
        self.answers = []

    def wire(self):
        return "\x1d".join(self.answers)

    @contextlib.contextmanager
    def recording(self):
        common.import_impl()
        from picosvg import svg_pathops as P
        import pathops
        tape = self
        saved = {}

        def mat(x):
            return [(c, tuple(a)) for c, a in x]

        def wrap_pathop(name):
            real = getattr(P, name)

            def f(svg_cmd_seqs, fill_rules):
                seqs = [mat(s) for s in svg_cmd_seqs]
                rules = list(fill_rules)
                q = "%s(%s)" % (name, " | ".join("%s @%s" % (fmt_cmds(s), r) for s, r in zip(seqs, rules + ["?"] * len(seqs))))
                tape.questions.append(q)
                try:
                    r = real(seqs, rules)
                    res = None if r is None else mat(r)
                except pathops.PathOpsError:
                    tape.answers.append("e:PathOpsError")
                    raise
                if res is None:
                    tape.questions.pop()
                    return None
                tape.answers.append(enc_cmds(res))
                return iter(res)
            return f

        def remove_overlaps(svg_cmds, fill_rule):
            cmds = mat(svg_cmds)
            tape.questions.append("remove_overlaps(%s; %s)" % (fmt_cmds(cmds), fill_rule))
            try:
                res = mat(saved["remove_overlaps"](cmds, fill_rule))
            except pathops.PathOpsError:
                tape.answers.append("e:PathOpsError")
                raise
            tape.answers.append(enc_cmds(res))
            return iter(res)

        def transform(svg_cmds, affine):
            cmds = mat(svg_cmds)
            tape.questions.append("transform(%s; %s)" % (fmt_cmds(cmds), " ".join(ntos(v) for v in affine)))
            res = mat(saved["transform"](cmds, affine))
            tape.answers.append(enc_cmds(res))
            return iter(res)

        def stroke(svg_cmds, cap, join, width, miter, tolerance, dash_array=(), dash_offset=0.0):
            cmds = mat(svg_cmds)
            tape.questions.append("stroke(%s; %s)" % (fmt_cmds(cmds), ", ".join([
                str(cap), str(join), ntos(width), ntos(miter), ntos(tolerance), "[" + " ".join(ntos(v) for v in dash_array) + "]", ntos(dash_offset)])))
            res = mat(saved["stroke"](cmds, cap, join, width, miter, tolerance, dash_array, dash_offset))
            tape.answers.append(enc_cmds(res))
            return iter(res)

        def bounding_box(svg_cmds):
            cmds = mat(svg_cmds)
            tape.questions.append("bounding_box(%s)" % fmt_cmds(cmds))
            r = saved["bounding_box"](cmds)
            tape.answers.append("b:" + " ".join(hexf(v) for v in r))
            return r

        def path_area(svg_cmds, fill_rule):
            cmds = mat(svg_cmds)
            tape.questions.append("path_area(%s; %s)" % (fmt_cmds(cmds), fill_rule))
            try:
                r = saved["path_area"](cmds, fill_rule)
            except pathops.PathOpsError:
                tape.answers.append("e:PathOpsError")
                raise
            tape.answers.append("n:" + hexf(r))
            return r

        repl = {"union": wrap_pathop("union"), "intersection": wrap_pathop("intersection"), "difference": wrap_pathop("difference"),
                "remove_overlaps": remove_overlaps, "transform": transform, "stroke": stroke, "bounding_box": bounding_box, "path_area": path_area}
        for k in repl:
            saved[k] = getattr(P, k)
        for k, v in repl.items():
            setattr(P, k, v)
        try:
            yield self
        finally:
            for k, v in saved.items():
                setattr(P, k, v)
