"""Independent geometric evaluator (no Skia): flattening of M/L/Q/C/Z command sequences, winding
number / even-odd point classification with an epsilon band around edges, distance to the outline
(for strokes), affine images.  Used as the judge of the rendering properties and to validate the
GeomOracle hypotheses on recorded Skia calls."""
import math


def lerp(a, b, t):
    return (a[0] + (b[0] - a[0]) * t, a[1] + (b[1] - a[1]) * t)


def flat_quad(p0, p1, p2, tol, out, depth=0):
    # distance of control point from chord
    dx, dy = p2[0] - p0[0], p2[1] - p0[1]
    d = abs((p1[0] - p0[0]) * dy - (p1[1] - p0[1]) * dx)
    n = math.hypot(dx, dy)
    dev = d / n if n > 0 else math.hypot(p1[0] - p0[0], p1[1] - p0[1])
    if dev <= tol or depth > 16:
        out.append(p2)
        return
    a, b = lerp(p0, p1, 0.5), lerp(p1, p2, 0.5)
    m = lerp(a, b, 0.5)
    flat_quad(p0, a, m, tol, out, depth + 1)
    flat_quad(m, b, p2, tol, out, depth + 1)


def flat_cubic(p0, p1, p2, p3, tol, out, depth=0):
    dx, dy = p3[0] - p0[0], p3[1] - p0[1]
    n = math.hypot(dx, dy)
    if n > 0:
        d1 = abs((p1[0] - p0[0]) * dy - (p1[1] - p0[1]) * dx) / n
        d2 = abs((p2[0] - p0[0]) * dy - (p2[1] - p0[1]) * dx) / n
    else:
        d1 = math.hypot(p1[0] - p0[0], p1[1] - p0[1])
        d2 = math.hypot(p2[0] - p0[0], p2[1] - p0[1])
    if max(d1, d2) <= tol or depth > 16:
        out.append(p3)
        return
    a, b, c = lerp(p0, p1, 0.5), lerp(p1, p2, 0.5), lerp(p2, p3, 0.5)
    d, e = lerp(a, b, 0.5), lerp(b, c, 0.5)
    m = lerp(d, e, 0.5)
    flat_cubic(p0, a, d, m, tol, out, depth + 1)
    flat_cubic(m, e, c, p3, tol, out, depth + 1)


def flatten(cmds, tol=1e-3):
    """cmds: iterable of (letter, args) over absolute M L Q C Z.
    returns list of contours: (points, closed_flag)"""
    contours = []
    cur = None
    pts = None
    start = None
    for c, a in cmds:
        if c == "M":
            if pts and len(pts) > 0:
                contours.append((pts, False))
            cur = (a[0], a[1])
            start = cur
            pts = [cur]
        elif c == "Z":
            if pts is not None:
                contours.append((pts, True))
            cur = start
            pts = [cur] if cur is not None else None
        else:
            if pts is None:
                cur = (0.0, 0.0)
                start = cur
                pts = [cur]
            if c == "L":
                cur = (a[0], a[1])
                pts.append(cur)
            elif c == "Q":
                flat_quad(cur, (a[0], a[1]), (a[2], a[3]), tol, pts)
                cur = (a[2], a[3])
            elif c == "C":
                flat_cubic(cur, (a[0], a[1]), (a[2], a[3]), (a[4], a[5]), tol, pts)
                cur = (a[4], a[5])
            else:
                raise ValueError("flatten: unexpected command %r" % c)
    if pts and len(pts) > 1:
        contours.append((pts, False))
    return [(p, cl) for p, cl in contours if len(p) > 1]


def winding(contours, x, y):
    """winding number of the (implicitly closed) contours around (x, y)"""
    wn = 0
    for pts, _ in contours:
        n = len(pts)
        for i in range(n):
            x0, y0 = pts[i]
            x1, y1 = pts[(i + 1) % n]
            if y0 <= y:
                if y1 > y and (x1 - x0) * (y - y0) - (x - x0) * (y1 - y0) > 0:
                    wn += 1
            elif y1 <= y and (x1 - x0) * (y - y0) - (x - x0) * (y1 - y0) < 0:
                wn -= 1
    return wn


def inside(contours, x, y, rule="nonzero"):
    w = winding(contours, x, y)
    return (w != 0) if rule == "nonzero" else (w % 2 != 0)


def seg_dist(px, py, a, b):
    ax, ay = a
    bx, by = b
    dx, dy = bx - ax, by - ay
    l2 = dx * dx + dy * dy
    if l2 == 0:
        return math.hypot(px - ax, py - ay)
    t = ((px - ax) * dx + (py - ay) * dy) / l2
    t = 0.0 if t < 0 else 1.0 if t > 1 else t
    return math.hypot(px - (ax + t * dx), py - (ay + t * dy))


def edge_dist(contours, x, y, implicit_close=True):
    """distance from (x,y) to the outline (fills close every contour implicitly)"""
    best = float("inf")
    for pts, closed in contours:
        n = len(pts)
        last = n if (closed or implicit_close) else n - 1
        for i in range(last):
            d = seg_dist(x, y, pts[i], pts[(i + 1) % n])
            if d < best:
                best = d
    return best


def stroke_dist(contours, x, y):
    """distance to the drawn outline only (open contours are NOT closed)"""
    return edge_dist(contours, x, y, implicit_close=False)


def strip_inside(contours, x, y, half):
    """is (x, y) inside the rectangle of half-width `half` swept along some drawn segment, i.e. does a perpendicular
    foot fall within a segment at a distance below `half`?  (True does not depend on caps or joins.)"""
    for pts, closed in contours:
        n = len(pts)
        last = n if closed else n - 1
        for i in range(last):
            ax, ay = pts[i]
            bx, by = pts[(i + 1) % n]
            dx, dy = bx - ax, by - ay
            l2 = dx * dx + dy * dy
            if l2 == 0:
                continue
            t = ((x - ax) * dx + (y - ay) * dy) / l2
            if 0.0 <= t <= 1.0 and math.hypot(x - (ax + t * dx), y - (ay + t * dy)) < half:
                return True
    return False


def stroke_classify(contours, x, y, w, join, miterlimit, cap, dash, offset, band):
    """three-valued membership of (x, y) in the stroke of the polyline contours (user space): True = covered whatever the
    stroker does within `band`, False = not covered, None = undecided (near caps, joins, dash ends, or inside the band).

    Covered for certain: a perpendicular foot falls on a drawn part of a segment, away from open ends and dash ends, at less
    than w/2 - band (or, with round joins / caps, the point is that close to a drawn vertex / end point).
    Not covered for certain: no segment strip (widened and lengthened by band) with a drawn part near the foot contains the
    point, and the point is farther from every drawn interior vertex than the join can reach (w/2, or miterlimit * w/2 for
    miter joins) and from every open end / dash end than the cap can reach."""
    half = w / 2.0
    cap_ext = 0.0 if cap == "butt" else (half if cap == "round" else half * math.sqrt(2))
    cap_len = 0.0 if cap == "butt" else half          # how far a cap lengthens a dash along the path
    join_r = half * max(miterlimit, 1.0) if join == "miter" else half
    total = sum(dash) if dash else 0.0
    dashed = bool(dash) and total > 0

    def dash_state(spos):
        """(is_on, distance to the nearest dash boundary) at arc length spos of a subpath"""
        if not dashed:
            return True, float("inf")
        p = (spos + offset) % total
        acc = 0.0
        for i, d in enumerate(dash):
            if p < acc + d or i == len(dash) - 1:
                return (i % 2 == 0), min(p - acc, acc + d - p)
            acc += d
        return False, 0.0

    inside = False
    maybe = False
    for pts, closed in contours:
        n = len(pts)
        last = n if closed else n - 1
        cum = [0.0]
        for i in range(last):
            ax, ay = pts[i]
            bx, by = pts[(i + 1) % n]
            cum.append(cum[-1] + math.hypot(bx - ax, by - ay))
        length = cum[-1]
        for i in range(last):
            ax, ay = pts[i]
            bx, by = pts[(i + 1) % n]
            dx, dy = bx - ax, by - ay
            l = math.hypot(dx, dy)
            if l == 0:
                continue
            t = ((x - ax) * dx + (y - ay) * dy) / l          # along the segment
            perp = abs((x - ax) * dy - (y - ay) * dx) / l
            if perp >= half + band or t < -band - cap_len or t > l + band + cap_len:
                continue
            tc = min(max(t, 0.0), l)
            spos = cum[i] + tc
            on, margin = dash_state(spos)
            near_open_end = (not closed) and (spos < band or length - spos < band)
            if 0.0 <= t <= l and perp < half - band and on and margin > band and not near_open_end:
                inside = True
            # could the stroke reach the point from this segment?
            if on or margin <= cap_len + band:
                if -band - (cap_len if (not on or near_open_end or (not closed and (i == 0 or i == last - 1))) else 0.0) <= t <= l + band + (
                        cap_len if (not on or near_open_end or (not closed and (i == 0 or i == last - 1))) else 0.0):
                    maybe = True
        # vertices: joins at interior vertices, caps at open ends
        for j in range(n):
            px, py = pts[j]
            d = math.hypot(x - px, y - py)
            is_end = (not closed) and (j == 0 or j == n - 1)
            spos = cum[min(j, len(cum) - 1)] if not (closed and j == 0) else 0.0
            on, margin = dash_state(spos)
            drawn = on or margin <= cap_len + band
            if not drawn:
                continue
            if is_end:
                if cap == "round" and d < half - band and on and margin > band:
                    inside = True
                if cap != "butt" and d < cap_ext + band:
                    maybe = True
            else:
                # the disc of a round join: certain only when the vertex is farther than the disc's radius from the next dash
                # boundary — the vertices of a flattened curve are no joins, and a disc centred on one would reach over a butt end
                if join == "round" and d < half - band and on and margin > half + band:
                    inside = True
                if d < join_r + band:
                    maybe = True
        if dashed and cap != "butt" and any(d == 0 for d in dash[0::2]):
            # a zero-length dash with round or square caps is a dot (SVG 1.1 §11.4: the dotted-line idiom "0 N"): the point is
            # covered when it lies well inside the cap shape centred on the dash position
            starts = []
            acc = 0.0
            for i, d in enumerate(dash):
                if i % 2 == 0 and d == 0:
                    starts.append(acc)
                acc += d
            for i in range(last):
                ax, ay = pts[i]
                bx, by = pts[(i + 1) % n]
                l = math.hypot(bx - ax, by - ay)
                if l == 0:
                    continue
                ux, uy = (bx - ax) / l, (by - ay) / l
                for s0 in starts:
                    # positions s on this segment with (s + offset) % total == s0
                    k0 = math.ceil((cum[i] + offset - s0) / total)
                    spos = s0 + k0 * total - offset
                    while spos <= cum[i + 1]:
                        if spos >= cum[i] and (closed or band < spos < length - band):
                            cx, cy = ax + ux * (spos - cum[i]), ay + uy * (spos - cum[i])
                            if cap == "round":
                                if math.hypot(x - cx, y - cy) < half - band:
                                    inside = True
                            else:
                                al = abs((x - cx) * ux + (y - cy) * uy)
                                pe = abs((x - cx) * uy - (y - cy) * ux)
                                if al < half - band and pe < half - band and min(spos - cum[i], cum[i + 1] - spos) > half:
                                    inside = True
                        spos += total
    if inside:
        return True
    if not maybe:
        return False
    return None


def bbox(contours):
    xs = [p[0] for pts, _ in contours for p in pts]
    ys = [p[1] for pts, _ in contours for p in pts]
    if not xs:
        return None
    return (min(xs), min(ys), max(xs), max(ys))


def map_cmds(cmds, aff):
    """image of absolute M/L/Q/C/Z commands under the affine (a,b,c,d,e,f)"""
    a, b, c, d, e, f = aff
    out = []
    for l, args in cmds:
        na = []
        for i in range(0, len(args), 2):
            x, y = args[i], args[i + 1]
            na += [a * x + c * y + e, b * x + d * y + f]
        out.append((l, tuple(na)))
    return out


def area(contours):
    """signed-area sum is not the filled area; used only as a magnitude hint"""
    s = 0.0
    for pts, _ in contours:
        n = len(pts)
        for i in range(n):
            x0, y0 = pts[i]
            x1, y1 = pts[(i + 1) % n]
            s += x0 * y1 - x1 * y0
    return s / 2.0
