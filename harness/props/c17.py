"""C17 — conversion always terminates with a picosvg or an exception, never a hang."""
import concurrent.futures
import json
import os
import subprocess
import tempfile
import time

import common
import docgen
import pipeline
from props import c01

LEAN_TARGETS = ["PicoSVG.Props.C17"]
RULE = ("documents from an adversarial grammar: self- and mutually-referencing use (cycles of length 1-4, also through groups "
        "and clipPaths), clipPath and gradient href cycles, dangling hrefs, malformed attribute values, exponentially "
        "expanding use chains, DOCTYPE with internal and external entities; each conversion runs in a watchdogged subprocess "
        "(10 s wall clock per conversion, copying and in-place, 2 GiB address space); the Lean pipeline model (total, fuelled loops) predicts ok / exception class / "
        "fuel exhaustion and a timeout must coincide with fuel exhaustion; non-trivial = distinct document containing a "
        "reference cycle or an entity declaration")
ASSUMPTIONS = [
    "wall-clock proportionality is only observed (limit 10 s for documents of a few hundred nodes), not proved",
    "'never reads external entities' is libxml2 behaviour under XMLParser(resolve_entities=False): monitored with a canary "
    "string, not proved",
    "the Lean model is total by construction; that its fuel bounds are generous enough for acyclic documents is checked by "
    "the correspondence (an acyclic document on which the model runs out of fuel would be a disagreement)",
]
TRUSTED = ["harness watchdog", "libxml2 entity handling", "harness/pipeline.py (tie)"]

NS = 'xmlns="http://www.w3.org/2000/svg" xmlns:xlink="http://www.w3.org/1999/xlink"'
CANARY = "CANARY-7f3a9c-DO-NOT-LEAK"

WORKER = r"""
import sys, resource, json
resource.setrlimit(resource.RLIMIT_AS, (2 << 30, 2 << 30))
sys.path.insert(0, sys.argv[1])
from picosvg.svg import SVG
src = open(sys.argv[2], encoding="utf-8").read()
def stage(name, f):
    try:
        out = f()
        print(json.dumps({"stage": name, "outcome": "ok", "out": out}), flush=True)
    except RecursionError:
        print(json.dumps({"stage": name, "outcome": "RecursionError"}), flush=True)
    except MemoryError:
        print(json.dumps({"stage": name, "outcome": "MemoryError"}), flush=True)
    except BaseException as e:
        print(json.dumps({"stage": name, "outcome": type(e).__name__, "msg": str(e)[:300]}), flush=True)
def inplace():
    svg = SVG.fromstring(src)
    svg.topicosvg(inplace=True)
    return svg.tostring()
stage("copy", lambda: SVG.fromstring(src).topicosvg().tostring())
stage("inplace", inplace)
"""


def corpus(canary_path):
    """documents that run first on every run: one per hang / leak ever seen or seeded, minimised"""
    W = '<svg %s viewBox="0 0 100 100">%%s</svg>' % NS
    return [("corpus", W % b) for b in [
        '<use xlink:href="#nope"/>',
        '<g id="a"><use xlink:href="#a"/></g>',
        '<use id="a" xlink:href="#a"/>',
        '<use id="a" xlink:href="#b"/><use id="b" xlink:href="#a"/>',
        '<rect width="9" height="9" opacity="nan"/>',
        '<rect width="9" height="9" fill-opacity="NaN"/><circle r="3"/>',
        '<g opacity="nan"><rect width="9" height="9"/><circle r="3"/></g>',
        '<defs><clipPath id="a" clip-path="url(#b)"><rect width="5" height="5"/></clipPath><clipPath id="b" clip-path="url(#b)"><rect width="5" height="5"/></clipPath></defs><rect width="9" height="9" clip-path="url(#a)"/>',
        '<defs><linearGradient id="h" xlink:href="#i"/><linearGradient id="i" xlink:href="#h"/></defs><rect width="9" height="9" fill="url(#h)" transform="translate(1 1)"/>',
        # a use cycle whose references carry white space
        '<g id="a"><rect width="5" height="5"/><use xlink:href="#a "/></g>',
        '<g id="a"><use xlink:href=" #b"/></g><g id="b"><use xlink:href="#a"/><rect width="5" height="5"/></g>',
        # unsupported content below a group that survives the conversion: raise, or return a picosvg
        '<g opacity="0.5"><text x="1" y="9">t</text><rect width="9" height="9"/><circle r="4"/></g>',
        '<defs><linearGradient id="g"><stop offset="0" stop-color="red"/><animate attributeName="x1" to="1"/></linearGradient></defs><g opacity="0.4"><rect width="9" height="9" fill="url(#g)"/><image width="3" height="3"/><circle r="4"/></g>',
        # a gradient chain that runs into a cycle it is not part of
        '<defs><linearGradient id="g0" xlink:href="#ga"/><linearGradient id="ga" xlink:href="#gb"/><linearGradient id="gb" xlink:href="#ga"/></defs><rect width="9" height="9" fill="url(#g0)" transform="translate(1 1)"/>',
        # a clipPath that clips itself, with enough geometry that a thousand rounds of resolving it would take minutes
        '<defs><clipPath id="a" clip-path="url(#a)">%s</clipPath></defs><path d="M0,0 L90,0 L90,90 Z" clip-path="url(#a)"/>' % "".join('<circle cx="%d" cy="%d" r="7"/>' % (5 + 9 * (i % 10), 5 + 9 * (i // 10)) for i in range(60)),
    ]] + [("corpus", '<!DOCTYPE svg [<!ENTITY xxe SYSTEM "file://%s">]><svg %s viewBox="0 0 100 100">&xxe;<rect width="5" height="5"/></svg>' % (canary_path, NS)),
          ("corpus", '<!DOCTYPE svg [<!ENTITY a "aaaaaaaaaa"><!ENTITY b "&a;&a;&a;&a;&a;&a;&a;&a;"><!ENTITY c "&b;&b;&b;&b;&b;&b;&b;&b;">]><svg %s viewBox="0 0 100 100"><desc>&c;</desc><circle r="4"/></svg>' % NS)]


def gen_doc(rng, canary_path):
    k = rng.choice(["use-self", "use-mutual", "use-use", "use-chain", "use-in-clip-cycle", "clip-cycle", "grad-cycle", "dangling", "dangling-use", "nan", "malformed",
                    "expanding", "entities", "benign"])
    body = ""
    defs = ""
    if k == "use-self":
        inner = rng.choice(['<use xlink:href="#a"/>', '<rect width="5" height="5"/><use xlink:href="#a" x="3"/>', '<g><use xlink:href="#a"/></g>'])
        body = '<g id="a">%s</g>' % inner
        if rng.random() < 0.5:
            body += '<use xlink:href="#a" y="10"/>'
    elif k == "use-mutual":
        n = rng.randint(2, 4)
        ids = ["n%d" % i for i in range(n)]
        for i, x in enumerate(ids):
            body += '<g id="%s"><circle r="%d"/><use xlink:href="#%s"/></g>' % (x, i + 2, ids[(i + 1) % n])
    elif k == "use-use":
        # use elements that are themselves the targets
        n = rng.randint(1, 4)
        ids = ["w%d" % i for i in range(n)]
        body = "".join('<use id="%s" xlink:href="#%s"%s/>' % (x, ids[(i + 1) % n], rng.choice(["", ' x="2"', ' transform="scale(2)"'])) for i, x in enumerate(ids))
        if rng.random() < 0.5:
            body = '<rect width="4" height="4"/>' + body
        if rng.random() < 0.3:
            body = "<g>%s</g>" % body
    elif k == "use-chain":
        # acyclic chain: must terminate
        n = rng.randint(2, 6)
        body = '<rect id="c0" width="4" height="4"/>'
        for i in range(1, n):
            body += '<g id="c%d"><use xlink:href="#c%d" x="%d"/><use xlink:href="#c%d" y="%d"/></g>' % (i, i - 1, i, i - 1, i)
    elif k == "use-in-clip-cycle":
        defs = '<clipPath id="cp"><use xlink:href="#u"/></clipPath>'
        body = '<rect id="u" width="9" height="9" clip-path="url(#cp)"/><circle r="20" clip-path="url(#cp)"/>'
    elif k == "clip-cycle":
        n = rng.randint(1, 4)
        for i in range(n):
            defs += '<clipPath id="k%d" clip-path="url(#k%d)"><rect width="%d" height="9"/></clipPath>' % (i, (i + 1) % n, 5 + i)
        body = '<circle r="20" clip-path="url(#k0)"/>'
    elif k == "grad-cycle":
        n = rng.randint(1, 4)
        for i in range(n):
            defs += '<linearGradient id="h%d" xlink:href="#h%d"%s/>' % (i, (i + 1) % n, ' x1="0.2"' if i == 0 else "")
        body = '<rect width="30" height="30" fill="url(#h0)" transform="translate(1 1)"/><rect width="3" height="3" fill="url(#h0)"/>'
    elif k == "dangling":
        body = rng.choice(['<use xlink:href="#nope"/>', '<rect width="5" height="5" clip-path="url(#nope)"/>',
                           '<rect width="5" height="5" fill="url(#nope)" transform="scale(2)"/>',
                           '<linearGradient id="g" xlink:href="#nope"/><rect width="5" height="5" fill="url(#g)"/>',
                           '<use xlink:href="http://example.org/x.svg#a"/>', '<use/>'])
    elif k == "dangling-use":
        body = rng.choice(['<use xlink:href="#nope"/>', '<g><rect width="5" height="5"/><use xlink:href="#gone" x="3"/></g>',
                           '<rect id="ok" width="4" height="4"/><use xlink:href="#ok"/><use xlink:href="#missing" transform="scale(2)"/>'])
    elif k == "nan":
        # float() accepts these spellings: nothing downstream may loop on them
        v = rng.choice(["nan", "NaN", "nan", "inf", "-inf", "1e999"])
        body = rng.choice(['<rect width="9" height="9" opacity="%s"/>', '<rect width="9" height="9" fill-opacity="%s"/>',
                           '<circle r="4" opacity="%s"/><rect width="3" height="3"/>', '<path d="M0,0 L5,0 L5,5 Z" fill-opacity="%s" fill="red"/>',
                           '<g opacity="%s"><rect width="9" height="9"/><circle r="3"/></g>', '<circle r="%s"/>',
                           '<rect width="9" height="9" stroke="red" stroke-width="%s"/>', '<rect width="9" height="9" transform="scale(%s)"/>']) % v
    elif k == "malformed":
        body = rng.choice(['<rect width="abc" height="5"/>', '<circle r="1e"/>', '<path d="M0,0 L1"/>', '<g transform="rotate(a)"><rect width="2" height="2"/></g>',
                           '<g opacity="x"><rect width="2" height="2"/><rect width="3" height="3"/></g>', '<rect width="5" height="5" style="fill"/>',
                           '<svg viewBox="0 0 10"><rect width="2" height="2"/></svg>', '<rect width="5" height="5" stroke="red" stroke-dasharray="a,b"/>',
                           '<path d="M0,0 L5,5 L9,0 z" stroke="red" stroke-width="1e400"/>', '<polygon points="1,2 3"/>'])
    elif k == "expanding":
        n = rng.randint(3, 6)
        body = '<rect id="e0" width="2" height="2"/>'
        for i in range(1, n):
            body += '<g id="e%d">%s</g>' % (i, ''.join('<use xlink:href="#e%d" x="%d"/>' % (i - 1, j) for j in range(3)))
    elif k == "entities":
        pass
    else:
        return k, docgen.document(rng, docgen.Features(use=True, clips=True, gradients=True, strokes=True))
    doc = '<svg %s viewBox="0 0 100 100"><defs>%s</defs>%s</svg>' % (NS, defs, body)
    if k == "entities":
        doctype = rng.choice([
            '<!DOCTYPE svg [<!ENTITY hello "<rect width=\'7\' height=\'7\'/>"><!ENTITY xxe SYSTEM "file://%s">]>' % canary_path,
            '<!DOCTYPE svg [<!ENTITY xxe SYSTEM "file://%s"><!ENTITY a "aaaaaaaaaa"><!ENTITY b "&a;&a;&a;&a;&a;&a;&a;&a;"><!ENTITY c "&b;&b;&b;&b;&b;&b;&b;&b;">]>' % canary_path,
        ])
        body = rng.choice(['&xxe;<rect width="5" height="5"/>', '<g>&xxe;</g><rect width="5" height="5"/>', '<desc>&xxe;</desc><rect width="5" height="5"/>', '<title>&hello;</title><rect width="5" height="5"/>&hello;',
                           '<text>&xxe;</text><circle r="4"/>', '<desc>&c;&c;&c;</desc><circle r="4"/>'])
        doc = doctype + '<svg %s viewBox="0 0 100 100">%s</svg>' % (NS, body)
    return k, doc


def run_watchdog(doc, limit=10.0):
    with tempfile.TemporaryDirectory() as td:
        p = os.path.join(td, "in.svg")
        with open(p, "w", encoding="utf-8") as f:
            f.write(doc)
        w = os.path.join(td, "w.py")
        with open(w, "w") as f:
            f.write(WORKER)
        t0 = time.time()
        timed_out = False
        try:
            r = subprocess.run([common.PY, w, os.path.join(common.REPO, "src"), p], capture_output=True, text=True, timeout=2 * limit)
            stdout, stderr, rc = r.stdout, r.stderr, r.returncode
        except subprocess.TimeoutExpired as e:
            timed_out = True
            stdout = e.stdout.decode("utf-8", "replace") if isinstance(e.stdout, bytes) else (e.stdout or "")
            stderr, rc = "", None
        dt = time.time() - t0
        stages = []
        for ln in stdout.strip().splitlines():
            try:
                stages.append(json.loads(ln))
            except Exception:
                pass
        done = {s["stage"]: s for s in stages if isinstance(s, dict) and "stage" in s}
        # the first stage (conversion of a copy, what the CLI does) is the reference result; the in-place stage must
        # terminate too and end the same way
        if "copy" not in done:
            return {"outcome": "TIMEOUT" if timed_out else "CRASH", "stage": "copy", "secs": dt, "stderr": stderr[-300:], "rc": rc}
        res = dict(done["copy"])
        res["secs"] = dt
        if "inplace" not in done:
            res["outcome"] = "TIMEOUT" if timed_out else "CRASH"
            res["stage"] = "inplace"
            res["stderr"] = stderr[-300:]
        else:
            res["inplace_outcome"] = done["inplace"]["outcome"]
            res["inplace_out"] = done["inplace"].get("out")
        return res


def correspondence(ctx):
    n = 500 if ctx.thorough() else 96
    rng = ctx.rng
    canary_dir = tempfile.mkdtemp(prefix="picosvg-verif-canary-")
    canary = os.path.join(canary_dir, "secret.txt")
    with open(canary, "w") as f:
        # markup, so that a parser that expands the entity splices an element into the document
        f.write('<path id="%s" d="M0,0 L7,0 L7,7 Z"/>' % CANARY)
    docs = corpus(canary) + [gen_doc(rng, canary) for _ in range(n - 11)]
    with concurrent.futures.ThreadPoolExecutor(max_workers=12) as ex:
        results = list(ex.map(lambda d: run_watchdog(d[1]), docs))
    ctx._results = list(zip(docs, results))
    dis = []
    lines, plan = [], []
    nontrivial = 0
    SVG = pipeline.impl()
    import treewire
    for (k, doc), res in zip(docs, results):
        ctx.count("%s:%s" % (k, res["outcome"]))
        if k not in ("benign", "malformed", "dangling"):
            nontrivial += 1
        if res["outcome"] in ("TIMEOUT", "MemoryError", "CRASH"):
            # model with an empty oracle tape: the use loop precedes every Skia call
            o, root = common.outcome_of(lambda: SVG.fromstring(doc).svg_root)
            if o != "ok":
                continue
            lines.append("svgobj\trun\t1\ttopicosvg 3 0 0\t\t" + treewire.encode(root))
            plan.append((k, doc, res, None))
        else:
            r = pipeline.Run(doc, ["topicosvg 3 0 0"])
            if r.in_wire is None:
                continue
            lines.append(r.model_line())
            plan.append((k, doc, res, r))
    outs = ctx.model(lines)
    for (k, doc, res, r), m in zip(plan, outs):
        if r is None:
            if m != "RecursionError":
                dis.append({"what": "%s: implementation %s but the model predicts %s (not fuel exhaustion)" % (k, res["outcome"], m[:80]), "kind": "hang", "input": doc})
        else:
            why = r.compare(m)
            if why:
                dis.append({"what": "%s: %s" % (k, why), "kind": "pipeline", "input": doc})
    try:
        os.remove(canary)
        os.rmdir(canary_dir)
    except OSError:
        pass
    ctx.stats["corr_cases"] = len(plan)
    ctx.stats["evaluations"] = ctx.stats.get("evaluations", 0) + n
    ctx.stats["distinct_nontrivial"] = nontrivial
    ctx.samples.append({"kind": docs[0][0], "document": docs[0][1][:400], "outcome": results[0]["outcome"]})
    return dis


def search(ctx, disagreements):
    found = []
    results = getattr(ctx, "_results", [])
    grammar_items = []
    for (k, doc), res in results:
        o = res["outcome"]
        if o in ("TIMEOUT", "MemoryError", "CRASH"):
            tag = None
            found.append({"kind": "termination", "input": doc, "tag": tag, "key": "hang:" + k,
                          "detail": "%s document: %s conversion did not finish (%s after %.1fs)" % (
                              k, "in-place" if res.get("stage") == "inplace" else "copying", o, res.get("secs", 0))})
        elif o == "ok":
            if CANARY in res.get("out", ""):
                found.append({"kind": "termination", "input": doc, "tag": None, "detail": "external entity content leaked into the output"})
            grammar_items.append((doc, res["out"]))
        elif CANARY in res.get("msg", ""):
            found.append({"kind": "termination", "input": doc, "tag": None, "detail": "external entity content leaked into an exception message"})
    # normal returns satisfy the grammar (C01's executable spec)
    if ctx.driver_ok and grammar_items:
        from lxml import etree
        import treewire
        items = []
        parsed = []
        for doc, out in grammar_items:
            try:
                root = etree.fromstring(out.encode("utf-8"), etree.XMLParser(remove_blank_text=True))
            except etree.XMLSyntaxError as e:
                # a normal return whose serialisation is not even well-formed XML (e.g. an entity reference without its DTD)
                found.append({"kind": "termination", "input": doc, "tag": None, "detail": "normal return that does not parse as XML: %s" % str(e)[:160]})
                continue
            parsed.append((doc, out))
            items.append((treewire.encode(root), 3, False))
        grammar_items = parsed
        for (doc, out), v in zip(grammar_items, c01.grammar_check(ctx, items)):
            if v:
                found.append({"kind": "termination", "input": doc, "tag": None, "detail": "normal return violating the picosvg grammar: %s" % v[:3]})
    ctx.stats["evaluations"] = ctx.stats.get("evaluations", 0) + len(results)
    return found


def classify(v, findings):
    for e in findings:
        if e.get("status") == "finding" and v.get("tag") and v.get("tag") == e.get("tag"):
            return e["id"]
    return None


def replay_finding(ctx, e):
    res = run_watchdog(e["witness"]["input"], limit=5.0)
    return res["outcome"] in ("TIMEOUT", "MemoryError", "CRASH")


def replay(ctx, payload):
    if payload.get("kind") == "termination":
        res = run_watchdog(payload["input"])
        return {"fails": res["outcome"] in ("TIMEOUT", "MemoryError", "CRASH") or CANARY in json.dumps(res), "result": {k: v for k, v in res.items() if k != "out"}}
    return {"fails": bool(ctx.tie_breaks), "no_longer_checks": ctx.tie_breaks}
