"""C18 — pruning of invisible content is conservative."""
import random

from lxml import etree

import common
import docgen
import geom
import render
import skia_trace
from common import esc, hexf

LEAN_TARGETS = ["PicoSVG.Props.C18"]
RULE = ("shapes of all seven kinds incl. degenerate geometry (collinear points, zero-size shapes, coincident subpaths "
        "cancelling under evenodd, move-only paths, slivers) x fill / stroke / stroke-width / opacities / display given as "
        "attributes or style declarations; might_paint, the area consultation and remove_empty_subpaths vs the Lean model "
        "(area answers taken from the recorded Skia calls); the verdicts and the two removal operations are judged against "
        "the independent renderer; non-trivial = distinct shape for which the ladder reaches the stroke/fill/area rungs")
ASSUMPTIONS = [
    "path_area (Skia simplify + area) is 0 exactly for shapes with empty interior under their fill rule: oracle value, "
    "validated by point sampling only",
    "theorems cover the decision ladder for all field values; style parsing and geometry are tied by correspondence",
]
TRUSTED = ["harness/render.py", "harness/skia_trace.py", "Skia area", "tools/translate.py (dataclass field tables)"]

SVGNS = "http://www.w3.org/2000/svg"


def impl():
    common.import_impl()
    import picosvg.svg as S
    import picosvg.svg_types as T
    return S, T


# degenerate and tricky geometry, each also judged under a fixed set of paints on every run
FIXED_DS = [
            "M10,10", "M10,10 M20,20", "M10,10 L20,20", "M5,5 L50,5 L90,5 Z",
            "M1,1 z", "", "M10,10 L20,10 L20,20 L10,20 Z M10,10 L20,10 L20,20 L10,20 Z", "M10,10 L20,10 L20,20 L10,20 Z M10,10 L10,20 L20,20 L20,10 Z",
            "M10,10 h0.0001 v30 h-0.0001 z", "M0,0 L10,0 M0,0 L10,10 L0,10 Z", "M10,10 L30,10 L30,30 L10,30 Z M15,15 L25,15 L25,25 L15,25 Z",
            "m5,5 0,0 0,0", "M10,10 Q20,20 30,10", "M5,5 Z", "M5,5 z M9,9 Z", "M5,5 L5,5", "M8,8 Z M20,20 L30,30",
            # equal-area contours drawn in opposite directions (a colon, a bowtie): the signed areas cancel
            "M10,10 L20,10 L20,20 L10,20 Z M30,10 L30,20 L40,20 L40,10 Z", "M10,10 L30,30 L30,10 L10,30 Z",
            "M5,5 h10 v10 h-10 z M25,5 v10 h10 v-10 z M45,5 h10 v10 h-10 z", "M10,10 L20,10 L20,20 L10,20 Z M12,30 L12,40 L22,40 L22,30 Z", "M10,10 C10,10 10,10 10,10 Z", "M3,3 L3,3 Z L5,5 L5,0 Z"]
CANON_PAINTS = [{}, {"fill": "red"}, {"fill": "red", "fill-rule": "evenodd"}, {"fill": "none", "stroke": "blue"},
                {"fill": "none", "stroke": "blue", "stroke-linecap": "round", "stroke-width": "3"}, {"style": "fill:red;stroke-width:0"},
                {"style": "stroke:red;fill:none;stroke-width:2"}, {"style": "stroke:red", "fill": "#0f0"},
                {"fill": "none", "stroke": "blue", "stroke-width": "3", "stroke-dasharray": "0 4", "stroke-linecap": "round"},
                {"fill": "none", "stroke": "blue", "stroke-width": "3", "style": "stroke-dasharray:0,6;stroke-linecap:square"},
                {"fill": "none", "style": "fill:black"}, {"fill": "red", "fill-opacity": "0", "style": "fill-opacity:1"},
                {"fill": "none", "stroke": "blue", "stroke-width": "0", "style": "stroke-width:1"}]


_NS = 'xmlns="http://www.w3.org/2000/svg" viewBox="0 0 40 40"'
RAW_DOCS = [
    '<svg %s><g style="stroke:red;stroke-width:3"><path style="fill:none" d="M5,5 L30,30"/></g></svg>' % _NS,
    '<svg %s><g style="fill:none"><path fill="red" d="M5,5 L30,30 L30,5 Z"/></g></svg>' % _NS,
    '<svg %s><g style="fill:none"><g><path style="fill:blue" d="M5,5 L30,30 L30,5 Z"/></g></g></svg>' % _NS,
    '<svg %s><defs><clipPath id="c"><path fill="none" d="M5,5 L30,30 L30,5 Z"/></clipPath></defs><rect x="2" y="2" width="36" height="36" fill="blue" clip-path="url(#c)"/></svg>' % _NS,
    '<svg %s><defs><clipPath id="c"><rect x="5" y="5" width="20" height="20" opacity="0"/></clipPath></defs><g clip-path="url(#c)"><rect x="2" y="2" width="36" height="36" fill="blue"/><rect x="10" y="10" width="5" height="5" fill="none"/></g></svg>' % _NS,
    '<svg %s><g fill="none" stroke="none"><path stroke="red" stroke-width="2" d="M5,20 L35,20"/><path d="M5,30 L35,30"/></g></svg>' % _NS,
    # a template in defs is painted by the use elements that instance it, with their paint
    '<svg xmlns:xlink="http://www.w3.org/1999/xlink" %s><defs><path id="a" fill="none" d="M5,5 L35,30"/></defs><use xlink:href="#a" stroke="black" stroke-width="3"/></svg>' % _NS,
    '<svg xmlns:xlink="http://www.w3.org/1999/xlink" %s><defs><g id="icon"><path fill="none" d="M5,5 L35,30"/></g></defs><use xlink:href="#icon" stroke="black" stroke-width="3"/></svg>' % _NS,
    # … wherever the template sits
    '<svg xmlns:xlink="http://www.w3.org/1999/xlink" %s><path id="a" fill="none" d="M5,5 L35,5"/><use xlink:href="#a" stroke="red" stroke-width="3" y="10"/></svg>' % _NS,
    '<svg xmlns:xlink="http://www.w3.org/1999/xlink" %s><g id="k" fill="none"><path d="M5,20 L35,20 M5,28 L35,28"/></g><use xlink:href="#k" stroke="blue" stroke-width="2" y="6"/></svg>' % _NS,
    # a style declaration that restates the initial value overrides a hiding attribute (own or inherited)
    '<svg %s><g fill="none"><rect x="5" y="5" width="20" height="20" style="fill:black"/></g></svg>' % _NS,
    '<svg %s><rect x="5" y="5" width="20" height="20" fill="red" opacity="0" style="opacity:1"/></svg>' % _NS,
    '<svg %s><rect x="5" y="5" width="20" height="20" fill="red" display="none" style="display:inline"/></svg>' % _NS,
    '<svg %s><path d="M5,30 L35,30" fill="none" stroke="red" stroke-width="2" display="none" style="display:block"/></svg>' % _NS,
    '<svg %s><g display="none"><path d="M5,5 L30,30 L30,5 Z" fill="blue" style="display:inline"/></g><path d="M2,35 L38,35" stroke="red" stroke-width="0" fill="none" style="stroke-width:1"/></svg>' % _NS,
]


def gen_shape(rng):
    tag = rng.choice(["path", "path", "path", "rect", "circle", "ellipse", "line", "polygon", "polyline"])
    at = {}
    if tag == "path":
        at["d"] = rng.choice([docgen.rpath_d(rng), docgen.rpath_d(rng, closed=False)] + FIXED_DS * 2)
    elif tag == "rect":
        at.update(x=docgen.num(rng, 0, 50), y=docgen.num(rng, 0, 50), width=rng.choice(["0", "10", "0.00001", docgen.num(rng, 1, 40)]), height=rng.choice(["0", "10", docgen.num(rng, 1, 40)]))
    elif tag == "circle":
        at.update(cx="30", cy="30", r=rng.choice(["0", "5", "12.5", "0.0001"]))
    elif tag == "ellipse":
        at.update(cx="30", cy="30", rx=rng.choice(["0", "5", "10"]), ry=rng.choice(["0", "5", "7"]))
    elif tag == "line":
        at.update(x1="5", y1="5", x2=rng.choice(["5", "50"]), y2=rng.choice(["5", "40"]))
    else:
        at["points"] = rng.choice(["10,10 40,10 40,40", "10,10 20,20 30,30", "10,10 10,10 10,10", "", "5,5 50,5", "10,10 40,10 40,40 10,40"])
    paint = []
    if rng.random() < 0.6:
        paint.append(("fill", rng.choice(["none", "red", "black", "none"])))
    if rng.random() < 0.5:
        paint.append(("stroke", rng.choice(["none", "blue", "black"])))
    if rng.random() < 0.4:
        paint.append(("stroke-width", rng.choice(["0", "1", "2.5", "0.0"])))
    if rng.random() < 0.4:
        paint.append(("opacity", rng.choice(["0", "0.5", "1", "0.0"])))
    if rng.random() < 0.3:
        paint.append(("fill-opacity", rng.choice(["0", "0.5", "1"])))
    if rng.random() < 0.3:
        paint.append(("stroke-opacity", rng.choice(["0", "0.5", "1"])))
    if rng.random() < 0.2:
        paint.append(("display", rng.choice(["none", "inline", "block"])))
    if rng.random() < 0.4:
        paint.append(("fill-rule", rng.choice(["evenodd", "evenodd", "nonzero"])))
    if rng.random() < 0.3:
        paint.append(("stroke-linecap", rng.choice(["round", "square", "butt"])))
    styled = []
    for k, v in paint:
        if rng.random() < 0.4:
            styled.append((k, v))
        else:
            at[k] = v
    # a style declaration outranks the presentation attribute of the same name: now and then the attribute says the opposite
    hiding = {"fill": "none", "stroke": "none", "stroke-width": "0", "opacity": "0", "fill-opacity": "0",
              "stroke-opacity": "0", "display": "none"}
    showing = {"fill": "red", "stroke": "blue", "stroke-width": "2", "opacity": "1", "fill-opacity": "1",
               "stroke-opacity": "1", "display": "inline"}
    for k, v in styled:
        if k in hiding and rng.random() < 0.3:
            at[k] = showing[k] if v == hiding[k] or v in ("0.0",) else hiding[k]
    if styled or rng.random() < 0.05:
        st = ";".join("%s:%s" % kv for kv in styled)
        if rng.random() < 0.1:
            st += rng.choice([";foo:bar", "; -inkscape-x: 1", ";;", "; bogus", ";opacity:abc", "; stroke-width : 3 "])
        at["style"] = st
    return tag, at


def declared(at):
    """presentation attributes with the style declarations laid over them (independent of the implementation)"""
    out = {k: v for k, v in at.items() if k != "style"}
    for decl in at.get("style", "").split(";"):
        if decl.count(":") == 1:
            k, v = decl.split(":")
            out[k.strip()] = v.strip()
    return out


def stroke_law(tag, at):
    """'any shape with a visible stroke is reported as possibly painting': True when the attributes say the stroke shows and
    the geometry draws something (more than movetos); None when this evaluator cannot tell"""
    a = declared(at)
    try:
        if a.get("display", "inline") == "none" or a.get("stroke", "none") == "none":
            return False
        if float(a.get("stroke-width", "1")) == 0 or float(a.get("opacity", "1")) * float(a.get("stroke-opacity", "1")) == 0:
            return False
    except ValueError:
        return None
    if tag == "path":
        letters = [c for c in a.get("d", "") if c.isalpha() and c not in "eE"]
        return any(c not in "Mm" for c in letters)
    if tag in ("polygon", "polyline"):
        return len(a.get("points", "").split()) >= 2
    return True


def wire_attrs(at):
    return "\x1e".join("%s\x1f%s" % (esc(k), esc(v)) for k, v in at.items())


def impl_shape(tag, at):
    S, T = impl()
    el = etree.Element("{%s}%s" % (SVGNS, tag), attrib=at)
    return S.from_element(el)


def run_might_paint(tag, at):
    rec = skia_trace.Recorder()
    with rec.active():
        o, v = common.outcome_of(lambda: impl_shape(tag, at).might_paint())
    areas = [e for e in rec.events if e["kind"] == "area"]
    errs = [e for e in rec.events if e["kind"] == "simplify" and e.get("error")]
    return o, v, areas, errs


def correspondence(ctx):
    rng = ctx.rng
    n = 4000 if ctx.thorough() else 800
    shapes = [gen_shape(rng) for _ in range(n)]
    ctx._shapes = shapes
    res = [run_might_paint(t, a) for t, a in shapes]
    lines = []
    for (t, a), (o, v, areas, errs) in zip(shapes, res):
        w = wire_attrs(a)
        lines.append("rec\tneeds_area\t%s\t%s" % (t, w))
        ar = "-"
        if errs:
            ar = "PathOpsError"
        elif areas:
            ar = hexf(areas[-1]["value"])
        lines.append("rec\tmight_paint\t%s\t%s\t%s" % (t, w, ar))
    outs = ctx.model(lines)
    dis = []
    nontrivial = 0
    for i, ((t, a), (o, v, areas, errs)) in enumerate(zip(shapes, res)):
        need, mp = outs[2 * i], outs[2 * i + 1]
        r = ("ok " + ("true" if v else "false")) if o == "ok" else o
        ctx.count("outcome:" + r)
        asked = bool(areas or errs)
        if asked:
            nontrivial += 1
        if r != mp:
            dis.append({"what": "might_paint <%s %r>: impl=%s model=%s" % (t, a, r, mp), "kind": "might_paint", "input": [t, a]})
        elif o == "ok" and need.startswith("ok") and (need == "ok true") != asked:
            dis.append({"what": "might_paint <%s %r>: implementation %s the engine area, model says needs_area=%s" % (t, a, "consulted" if asked else "did not consult", need), "kind": "might_paint", "input": [t, a]})
    # remove_empty_subpaths on the path shapes
    paths = [(t, a) for t, a in shapes if t == "path"]
    lines = []
    impl_res = []
    for t, a in paths:
        rec = skia_trace.Recorder()
        with rec.active():
            o, v = common.outcome_of(lambda: impl_shape(t, a).remove_empty_subpaths().d)
        answers = []
        for e in rec.events:
            if e["kind"] == "area":
                answers.append(hexf(e["value"]))
            elif e["kind"] == "simplify" and e.get("error"):
                answers.append("PathOpsError")
        impl_res.append("ok " + esc(v) if o == "ok" else o)
        lines.append("rec\tremove_empty_subpaths\t%s\t%s\t%s" % (t, wire_attrs(a), " ".join(answers)))
    outs2 = ctx.model(lines)
    for (t, a), r, m in zip(paths, impl_res, outs2):
        ctx.count("subpaths:" + r.split(" ")[0])
        if r != m:
            dis.append({"what": "remove_empty_subpaths <%s %r>: impl=%s model=%s" % (t, a, r, m), "kind": "subpaths", "input": [t, a]})
    ctx.samples.append({"shape": shapes[0][0], "attrs": shapes[0][1], "impl": str(res[0][:2])})
    ctx.stats["corr_cases"] = n
    ctx.stats["evaluations"] = ctx.stats.get("evaluations", 0) + n
    ctx.stats["distinct_nontrivial"] = nontrivial
    return dis


# ------------------------------------------------------------------ judge

def doc_of(tag, at):
    return '<svg xmlns="%s" viewBox="0 0 100 100"><%s %s/></svg>' % (SVGNS, tag, " ".join('%s="%s"' % (k, v.replace('"', "&quot;")) for k, v in at.items()))


def sample_points(rng, n=60):
    pts = [(rng.uniform(0, 60), rng.uniform(0, 60)) for _ in range(n)]
    # a lattice helps for axis-aligned thin shapes
    pts += [(x + 0.37, y + 0.41) for x in range(2, 60, 6) for y in range(2, 60, 6)]
    return pts


def painted_somewhere(ctx, text, rng, eps=0.02):
    try:
        D = render.Doc(text, ctx.driver, tol=0.005)
    except (render.Unsupported, etree.XMLSyntaxError, ValueError):
        return None
    D.eps = eps
    for x, y in sample_points(rng):
        try:
            L = D.point(x, y)
        except (render.Unsupported, ValueError, ZeroDivisionError):
            return None
        if L is render.UNKNOWN:
            continue
        c = render.composite(L)
        if c[3] > 1e-9:
            return (x, y, c)
    return False


def same_rendering(ctx, a, b, rng, eps=0.05):
    try:
        A, B = render.Doc(a, ctx.driver, tol=0.005), render.Doc(b, ctx.driver, tol=0.005)
    except (render.Unsupported, etree.XMLSyntaxError, ValueError):
        return None
    A.eps = B.eps = eps
    for x, y in sample_points(rng, 40):
        try:
            la = A.point(x, y)
        except (render.Unsupported, ValueError, ZeroDivisionError):
            return None
        try:
            lb = B.point(x, y)
        except render.Unsupported as e:
            if "dangling" in str(e):
                return "the result cannot be rendered any more: %s (the source can)" % e
            return None
        except (ValueError, ZeroDivisionError):
            return None
        if la is render.UNKNOWN or lb is render.UNKNOWN:
            continue
        ca, cb = render.composite(la), render.composite(lb)
        if max(abs(p - q) for p, q in zip(ca, cb)) > 2e-3:
            return "at (%.2f, %.2f) the colour changes from %s to %s" % (x, y, tuple(round(v, 3) for v in ca), tuple(round(v, 3) for v in cb))
    return None


def search(ctx, disagreements):
    S, T = impl()
    rng = ctx.rng
    found = []
    if not ctx.driver_ok:
        return found
    shapes = getattr(ctx, "_shapes", None) or [gen_shape(rng) for _ in range(400)]
    if not ctx.thorough():
        shapes = shapes[:400]
    shapes = [("path", dict(pa, d=d)) for d in FIXED_DS for pa in CANON_PAINTS] + list(shapes)
    for t, a in shapes:
        o, v, _, _ = run_might_paint(t, a)
        if o != "ok":
            continue
        if v is False and stroke_law(t, a):
            ctx.count("judged-stroke-law")
            found.append({"kind": "prune-law", "input": [t, a], "tag": None, "law": "stroke",
                          "detail": "the shape has a visible stroke (%s) and draws more than movetos, yet might_paint() is False" % declared(a)})
        if v is False:
            p = painted_somewhere(ctx, doc_of(t, a), rng)
            ctx.count("judged-false")
            if p:
                found.append({"kind": "prune-law", "input": [t, a], "tag": None,
                              "detail": "might_paint() is False but the shape paints at (%.2f, %.2f): %s" % (p[0], p[1], tuple(round(c, 3) for c in p[2]))})
        # remove_empty_subpaths on paths must not change the rendering
        if t == "path":
            o2, d2 = common.outcome_of(lambda: impl_shape(t, a).remove_empty_subpaths().d)
            if o2 == "ok" and d2 != a.get("d", ""):
                a2 = dict(a)
                a2["d"] = d2
                why = same_rendering(ctx, doc_of(t, a), doc_of(t, a2), rng)
                ctx.count("judged-subpaths")
                if why:
                    tag = None
                    st = impl_shape(t, a).apply_style_attribute()
                    if st.stroke != "none":
                        tag = "stroked-subpath"
                    found.append({"kind": "prune-law", "input": [t, a], "tag": tag,
                                  "detail": "remove_empty_subpaths() %r -> %r: %s" % (a.get("d"), d2, why)})
    # document level: fixed raw documents first (group-level style, shapes that only serve as clip geometry)
    for src in RAW_DOCS:
        for opname in ("remove_unpainted_shapes", "remove_empty_subpaths"):
            o, out = common.outcome_of(lambda: getattr(S.SVG.fromstring(src), opname)().tostring())
            if o != "ok":
                continue
            why = same_rendering(ctx, src, out, rng, eps=0.3)
            ctx.count("judged-raw-doc")
            if why:
                tag = "group-style-cascade" if "<g style=" in src else None
                found.append({"kind": "prune-law", "input": ["doc", src], "tag": tag, "op": opname, "detail": "%s(): %s" % (opname, why)})
    n = 60 if ctx.thorough() else 15
    for _ in range(n):
        F = docgen.Features(strokes=True, display=True, degenerate=True, use=False, clips=False, max_depth=2)
        src = docgen.document(rng, F)
        o, out = common.outcome_of(lambda: S.SVG.fromstring(src).remove_unpainted_shapes().tostring())
        if o != "ok":
            continue
        why = same_rendering(ctx, src, out, rng, eps=0.3)
        ctx.count("judged-doc")
        if why:
            found.append({"kind": "prune-law", "input": ["doc", src], "tag": None, "detail": "remove_unpainted_shapes(): " + why})
    ctx.stats["evaluations"] = ctx.stats.get("evaluations", 0) + len(shapes) + n
    return found


def classify(v, findings):
    for e in findings:
        if e.get("status") == "finding" and v.get("tag") and v.get("tag") == e.get("tag"):
            return e["id"]
    return None


def replay(ctx, payload):
    if payload.get("kind") == "prune-law":
        t, a = payload["input"]
        rng = random.Random(5)
        if t == "doc":
            S, T = impl()
            out = getattr(S.SVG.fromstring(a), payload.get("op", "remove_unpainted_shapes"))().tostring()
            why = same_rendering(ctx, a, out, rng, eps=0.3)
            return {"fails": bool(why), "detail": why}
        o, v, _, _ = run_might_paint(t, a)
        p = painted_somewhere(ctx, doc_of(t, a), rng) if v is False else None
        res = {"might_paint": (o, v), "painted_point": p}
        if t == "path":
            d2 = impl_shape(t, a).remove_empty_subpaths().d
            a2 = dict(a)
            a2["d"] = d2
            res["remove_empty_subpaths"] = d2
            res["rendering_change"] = same_rendering(ctx, doc_of(t, a), doc_of(t, a2), rng)
        res["stroke_law_broken"] = bool(v is False and stroke_law(t, a))
        res["fails"] = bool(p) or bool(res.get("rendering_change")) or res["stroke_law_broken"]
        return res
    return {"fails": bool(ctx.tie_breaks), "no_longer_checks": ctx.tie_breaks}
