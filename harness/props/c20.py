"""C20 — a reported reuse transform really maps one shape onto the other."""
import math

import common
import pathgen
from common import esc, hexf, unhex
from props import c12

LEAN_TARGETS = ["PicoSVG.Props.C20"]
RULE = ("pairs (s, T(s)) with T over translations, rotations, uniform / non-uniform scalings, mirrorings and general affine "
        "maps; unrelated pairs; near-miss pairs off by 1.1 x and 0.9 x the tolerance in one coordinate; tolerances 1e-3 .. 1; "
        "shapes = closed and open outlines of lines, quadratics, cubics (and arcs for the correspondence); affine_between vs the "
        "Lean model (None / matrix within 4 ulp); every reported matrix is re-verified by an independent per-command check; "
        "non-trivial = distinct pair for which a non-identity transform is reported")
ASSUMPTIONS = [
    "the Lean theorem is about the control structure of the Float model (every return passes the verification gate); that "
    "the gate itself (apply the matrix, compare command by command) means 'maps one outline onto the other' is checked on the "
    "implementation by an independent evaluator for arc-free outlines",
    "arcs: the radius scaling of the code is a heuristic; arcs are covered by the correspondence only",
]
TRUSTED = ["harness/props/c20.py independent outline mapper", "Lean Float = libm (atan2, pow, sqrt)"]


def impl():
    common.import_impl()
    from picosvg.svg_reuse import affine_between
    from picosvg.svg_types import SVGPath
    return affine_between, SVGPath


def r2(v):
    return round(v, 3)


def base_outline(rng, arcs=False):
    """list of absolute commands over M L Q C (A) Z"""
    n = rng.randint(3, 7)
    cx, cy = rng.uniform(-20, 20), rng.uniform(-20, 20)
    r = rng.uniform(3, 20)
    pts = [(r2(cx + r * rng.uniform(0.5, 1) * math.cos(2 * math.pi * i / n + rng.uniform(-0.3, 0.3))),
            r2(cy + r * rng.uniform(0.5, 1) * math.sin(2 * math.pi * i / n + rng.uniform(-0.3, 0.3)))) for i in range(n)]
    cmds = [("M", [pts[0][0], pts[0][1]])]
    for p in pts[1:]:
        k = rng.random()
        if k < 0.5:
            cmds.append(("L", [p[0], p[1]]))
        elif k < 0.7:
            cmds.append(("Q", [r2(p[0] + rng.uniform(-5, 5)), r2(p[1] + rng.uniform(-5, 5)), p[0], p[1]]))
        elif k < 0.9 or not arcs:
            cmds.append(("C", [r2(p[0] + rng.uniform(-5, 5)), r2(p[1] + rng.uniform(-5, 5)), r2(p[0] + rng.uniform(-5, 5)), r2(p[1] + rng.uniform(-5, 5)), p[0], p[1]]))
        else:
            cmds.append(("A", [r2(rng.uniform(2, 10)), r2(rng.uniform(2, 10)), 0, rng.choice([0, 1]), rng.choice([0, 1]), p[0], p[1]]))
    if rng.random() < 0.8:
        cmds.append(("Z", []))
    return cmds


def d_of(cmds, style=0, rng=None):
    out = []
    for c, a in cmds:
        out.append(c + " ".join(repr(float(v)) if not float(v).is_integer() else str(int(v)) for v in a))
    return " ".join(out)


def rtransform(rng):
    k = rng.choice(["translate", "translate", "rotate", "uscale", "nuscale", "mirror", "general", "rotscale"])
    if k == "translate":
        return k, (1.0, 0.0, 0.0, 1.0, float(rng.randint(-30, 30)), float(rng.randint(-30, 30)))
    if k == "rotate":
        a = math.radians(rng.choice([30, 45, 90, 120, 180, -60, rng.uniform(0, 360)]))
        return k, (math.cos(a), math.sin(a), -math.sin(a), math.cos(a), float(rng.randint(-10, 10)), float(rng.randint(-10, 10)))
    if k == "uscale":
        s = rng.choice([0.5, 2.0, 1.5, 3.0])
        return k, (s, 0.0, 0.0, s, float(rng.randint(-10, 10)), float(rng.randint(-10, 10)))
    if k == "nuscale":
        return k, (rng.choice([0.5, 2.0, 1.5]), 0.0, 0.0, rng.choice([0.75, 3.0, 1.25]), 0.0, 0.0)
    if k == "mirror":
        return k, rng.choice([(-1.0, 0.0, 0.0, 1.0, 0.0, 0.0), (1.0, 0.0, 0.0, -1.0, 5.0, 5.0)])
    if k == "rotscale":
        a = math.radians(rng.uniform(0, 360))
        s = rng.choice([0.5, 2.0])
        return k, (s * math.cos(a), s * math.sin(a), -s * math.sin(a), s * math.cos(a), 3.0, -4.0)
    return k, (rng.uniform(0.5, 2), rng.uniform(-0.5, 0.5), rng.uniform(-0.5, 0.5), rng.uniform(0.5, 2), rng.uniform(-10, 10), rng.uniform(-10, 10))


def map_cmds(cmds, A):
    a, b, c, d, e, f = A
    out = []
    for l, args in cmds:
        if l == "A":
            # uniform radii scaling only makes sense for similarity transforms; keep as generated
            sx = math.hypot(a, b)
            sy = math.hypot(c, d)
            x, y = args[5], args[6]
            out.append((l, [args[0] * sx, args[1] * sy, args[2], args[3], args[4], a * x + c * y + e, b * x + d * y + f]))
            continue
        na = []
        for i in range(0, len(args), 2):
            x, y = args[i], args[i + 1]
            na += [a * x + c * y + e, b * x + d * y + f]
        out.append((l, na))
    return out


def gen_pair(rng):
    tol = rng.choice([1e-3, 1e-2, 1e-1, 1.0, 0.05])
    k = rng.random()
    arcs = rng.random() < 0.15
    s1 = base_outline(rng, arcs)
    if k < 0.55:
        name, T = rtransform(rng)
        s2 = map_cmds(s1, T)
        kind = "image:" + name
    elif k < 0.62:
        s2 = [(c, list(a)) for c, a in s1]
        kind = "identical"
    elif k < 0.68:
        # one outline is a prefix of the other (continued / closed), possibly translated
        base = [(c, list(a)) for c, a in s1 if c != "Z"]
        T = (1.0, 0.0, 0.0, 1.0, float(rng.choice([0, 0, 7, -3])), float(rng.choice([0, 0, 4])))
        longer = map_cmds(base, T)
        extra = rng.choice(["close", "line", "both"])
        if extra in ("line", "both"):
            longer.append(("L", [longer[-1][1][-2] + 5.0, longer[-1][1][-1] - 2.0]))
        if extra in ("close", "both"):
            longer.append(("Z", []))
        s1 = base
        s2 = longer
        if rng.random() < 0.5:
            s1, s2 = s2, s1
        kind = "prefix"
    elif k < 0.8:
        s2 = base_outline(rng, arcs)
        kind = "unrelated"
    else:
        name, T = rtransform(rng)
        s2 = map_cmds(s1, T)
        # near miss: perturb one coordinate of one command
        idx = rng.randrange(1, len(s2))
        if s2[idx][1]:
            j = rng.randrange(len(s2[idx][1]))
            if s2[idx][0] != "A" or j >= 5:
                s2[idx][1][j] += rng.choice([1.1, 0.9, -1.1, 3.0]) * tol
        kind = "nearmiss:" + name
    return {"kind": kind, "tol": tol, "d1": d_of(s1), "d2": d_of(s2), "s1": s1, "s2": s2}


def impl_between(d1, d2, tol):
    affine_between, SVGPath = impl()
    o, v = common.outcome_of(lambda: affine_between(SVGPath(d=d1), SVGPath(d=d2), tol))
    if o != "ok":
        return o
    return "ok None" if v is None else "ok " + " ".join(hexf(x) for x in v)


def correspondence(ctx):
    n = 6000 if ctx.thorough() else 900
    pairs = [gen_pair(ctx.rng) for _ in range(n)]
    ctx._pairs = pairs
    outs = ctx.model(["reuse\tbetween\t%s\t%s\t%s" % (esc(p["d1"]), esc(p["d2"]), hexf(p["tol"])) for p in pairs])
    dis = []
    nontrivial = 0
    ident = "ok " + " ".join(hexf(x) for x in (1, 0, 0, 1, 0, 0))
    for p, m in zip(pairs, outs):
        r = impl_between(p["d1"], p["d2"], p["tol"])
        p["impl"] = r
        ctx.count(p["kind"].split(":")[0] + "->" + ("none" if r == "ok None" else "found" if r.startswith("ok") else r))
        if r.startswith("ok ") and r not in ("ok None", ident):
            nontrivial += 1
        if r != m and not (r.startswith("ok") and m.startswith("ok") and r != "ok None" and m != "ok None" and c12.close_enc(r, m, 16)):
            dis.append({"what": "affine_between(%r, %r, %g): impl=%s model=%s" % (p["d1"], p["d2"], p["tol"], r, m), "kind": "between", "input": {k: p[k] for k in ("d1", "d2", "tol")}})
    ctx.samples.append({"pair": pairs[0]["kind"], "d1": pairs[0]["d1"], "d2": pairs[0]["d2"], "tol": pairs[0]["tol"], "impl": pairs[0]["impl"]})
    ctx.stats["corr_cases"] = n
    ctx.stats["evaluations"] = ctx.stats.get("evaluations", 0) + n
    ctx.stats["distinct_nontrivial"] = nontrivial
    return dis


# ------------------------------------------------------------------ independent re-verification

def rel_steps(cmds):
    """per command: list of vectors relative to the previous end point (first moveto absolute)"""
    out = []
    cur = (0.0, 0.0)
    start = cur
    for l, a in cmds:
        if l == "Z":
            out.append(("z", []))
            cur = start
            continue
        vs = []
        for i in range(0, len(a), 2):
            vs.append((a[i] - cur[0], a[i + 1] - cur[1]))
        out.append((l, vs))
        cur = (a[-2], a[-1])
        if l == "M":
            start = cur
    return out


def verify(A, s1, s2, tol):
    """does A map outline s1 onto s2, command for command, within tol (relative coordinates)?"""
    if any(l == "A" for l, _ in s1 + s2):
        return None
    a, b, c, d, e, f = A
    r1, r2_ = rel_steps(s1), rel_steps(s2)
    if [l for l, _ in r1] != [l for l, _ in r2_]:
        return "command letters differ"
    slack = tol * 1e-6 + 1e-9
    first = True
    for (l, v1), (_, v2) in zip(r1, r2_):
        for (x, y), (u, w) in zip(v1, v2):
            if l == "M" and first:
                mx, my = a * x + c * y + e, b * x + d * y + f
            else:
                mx, my = a * x + c * y, b * x + d * y
            if abs(mx - u) > tol + slack or abs(my - w) > tol + slack:
                return "command %s: image (%.6g, %.6g) vs target (%.6g, %.6g) differ by more than %g" % (l, mx, my, u, w, tol)
        if l == "M":
            first = False
    return None


def search(ctx, disagreements):
    pairs = getattr(ctx, "_pairs", None) or [gen_pair(ctx.rng) for _ in range(600)]
    found = []
    for p in pairs:
        r = p.get("impl") or impl_between(p["d1"], p["d2"], p["tol"])
        if not r.startswith("ok"):
            # an exception reports no transform: outside the property (counted, compared with the model)
            ctx.count("raised:" + r)
            continue
        if r == "ok None":
            if p["kind"] == "identical":
                found.append({"kind": "reuse-law", "input": {k: p[k] for k in ("d1", "d2", "tol")}, "detail": "identical shapes but no transform reported"})
            elif p["kind"] == "image:translate":
                found.append({"kind": "reuse-law", "input": {k: p[k] for k in ("d1", "d2", "tol")}, "detail": "an exact translation of the shape was not found"})
            continue
        A = [unhex(h) for h in r.split()[1:]]
        ctx.count("verified")
        why = verify(A, p["s1"], p["s2"], p["tol"])
        if why:
            found.append({"kind": "reuse-law", "input": {k: p[k] for k in ("d1", "d2", "tol", "s1", "s2")},
                          "detail": "reported %s does not map the first outline onto the second: %s" % (tuple(round(v, 6) for v in A), why)})
        if p["kind"] == "identical" and tuple(A) != (1, 0, 0, 1, 0, 0):
            found.append({"kind": "reuse-law", "input": {k: p[k] for k in ("d1", "d2", "tol")}, "detail": "identical shapes but %s reported" % (A,)})
    ctx.stats["evaluations"] = ctx.stats.get("evaluations", 0) + len(pairs)
    return found


def classify(v, findings):
    return None


def replay(ctx, payload):
    if payload.get("kind") == "reuse-law":
        i = payload["input"]
        r = impl_between(i["d1"], i["d2"], i["tol"])
        res = {"impl": r}
        if r.startswith("ok ") and r != "ok None" and "s1" in i:
            res["verify"] = verify([unhex(h) for h in r.split()[1:]], i["s1"], i["s2"], i["tol"])
        res["fails"] = bool(res.get("verify")) or not r.startswith("ok")
        return res
    return {"fails": bool(ctx.tie_breaks), "no_longer_checks": ctx.tie_breaks}
