"""C20 — a reported reuse transform really maps one shape onto the other."""
import math

import common
import pathgen
from common import esc, hexf, unhex
from props import c12

LEAN_TARGETS = ["PicoSVG.Props.C20"]
RULE = ("pairs (s, T(s)) with T over translations, rotations, uniform / non-uniform scalings, mirrorings and general affine "
        "maps; unrelated pairs; near-miss pairs off by 1.1 x and 0.9 x the tolerance in one coordinate; tolerances 1e-3 .. 1; "
        "shapes = one to three closed and open subpaths of lines, quadratics, cubics and elliptical arcs, spelled with absolute, "
        "relative and H/V commands, and pairs of rects; arc flags flipped, later subpaths shifted; affine_between vs the "
        "Lean model (None / matrix within 4 ulp); every reported matrix is re-verified on the outlines Spec.interp (Lean) "
        "gives the two paths: control points command for command, arcs as sampled curves; "
        "non-trivial = distinct pair for which a non-identity transform is reported")
ASSUMPTIONS = [
    "the Lean theorem is about the control structure of the Float model (every return passes the verification gate); that "
    "the gate itself (apply the matrix, compare command by command) means 'maps one outline onto the other' is checked on the "
    "implementation by an independent evaluator on the outlines the Lean path interpreter gives both shapes",
    "arcs are compared as curves (49 sampled points each way) with a slack of 3 x tolerance + 1% of the arc's extent: gross "
    "differences (wrong sweep, wrong rotation) are seen, near-misses of an arc parameter are not",
]
TRUSTED = ["harness/props/c20.py independent outline mapper", "Lean Float = libm (atan2, pow, sqrt)"]


def impl():
    common.import_impl()
    from picosvg.svg_reuse import affine_between
    from picosvg.svg_types import SVGPath
    return affine_between, SVGPath


def r2(v):
    return round(v, 3)


def base_outline(rng, arcs=False):
    """list of absolute commands over M L Q C (A) Z"""
    n = rng.randint(3, 7)
    cx, cy = rng.uniform(-20, 20), rng.uniform(-20, 20)
    r = rng.uniform(3, 20) if rng.random() < 0.8 else rng.uniform(60, 120)
    pts = [(r2(cx + r * rng.uniform(0.5, 1) * math.cos(2 * math.pi * i / n + rng.uniform(-0.3, 0.3))),
            r2(cy + r * rng.uniform(0.5, 1) * math.sin(2 * math.pi * i / n + rng.uniform(-0.3, 0.3)))) for i in range(n)]
    cmds = [("M", [pts[0][0], pts[0][1]])]
    for p in pts[1:]:
        k = rng.random()
        if k < 0.5:
            cmds.append(("L", [p[0], p[1]]))
        elif k < 0.7:
            cmds.append(("Q", [r2(p[0] + rng.uniform(-5, 5)), r2(p[1] + rng.uniform(-5, 5)), p[0], p[1]]))
        elif k < 0.9 or not arcs:
            cmds.append(("C", [r2(p[0] + rng.uniform(-5, 5)), r2(p[1] + rng.uniform(-5, 5)), r2(p[0] + rng.uniform(-5, 5)), r2(p[1] + rng.uniform(-5, 5)), p[0], p[1]]))
        else:
            cmds.append(("A", [r2(rng.uniform(2, 10)), r2(rng.uniform(2, 10)), rng.choice([0, 0, 0, 30, 90]), rng.choice([0, 1]), rng.choice([0, 1]), p[0], p[1]]))
    if rng.random() < 0.8:
        cmds.append(("Z", []))
    return cmds


def fnum(v):
    v = float(v)
    return str(int(v)) if v.is_integer() and abs(v) < 1e15 else repr(v)


def d_of(cmds, style=0, rng=None):
    """absolute M/L/Q/C/A/Z commands -> path data; style 1 re-spells them (relative letters for later movetos and
    lines, H/V where a line is axis-parallel) without changing what is drawn"""
    out = []
    cur = start = (0.0, 0.0)
    first = True
    for c, a in cmds:
        if c == "Z":
            out.append("Z")
            cur = start
            continue
        k = rng.random() if style else 1.0
        if c == "L" and a[1] == cur[1] and k < 0.6:
            out.append("H" + fnum(a[0]) if k < 0.4 else "h" + fnum(a[0] - cur[0]))
        elif c == "L" and a[0] == cur[0] and k < 0.6:
            out.append("V" + fnum(a[1]) if k < 0.4 else "v" + fnum(a[1] - cur[1]))
        elif c in ("L", "M") and not first and k < 0.8:
            out.append(c.lower() + " ".join(fnum(v) for v in (a[0] - cur[0], a[1] - cur[1])))
        else:
            out.append(c + " ".join(fnum(v) for v in a))
        cur = (a[-2], a[-1])
        if c == "M":
            start = cur
        first = False
    return " ".join(out)


def multi_outline(rng, arcs=False):
    """one to three subpaths; axis-parallel edges are common (H/V spellings)"""
    cmds = []
    for _ in range(rng.choice([1, 1, 1, 2, 2, 3])):
        if rng.random() < 0.3:
            x, y, w, h = rng.randint(-20, 20), rng.randint(-20, 20), rng.randint(2, 15), rng.randint(2, 15)
            cmds += [("M", [x, y]), ("L", [x + w, y]), ("L", [x + w, y + h]), ("L", [x, y + h]), ("Z", [])]
        else:
            cmds += base_outline(rng, arcs)
    return cmds


def rtransform(rng):
    k = rng.choice(["translate", "translate", "rotate", "uscale", "nuscale", "mirror", "general", "rotscale"])
    if k == "translate":
        return k, (1.0, 0.0, 0.0, 1.0, float(rng.randint(-30, 30)), float(rng.randint(-30, 30)))
    if k == "rotate":
        a = math.radians(rng.choice([30, 45, 90, 120, 180, -60, rng.uniform(0, 360)]))
        return k, (math.cos(a), math.sin(a), -math.sin(a), math.cos(a), float(rng.randint(-10, 10)), float(rng.randint(-10, 10)))
    if k == "uscale":
        s = rng.choice([0.5, 2.0, 1.5, 3.0, 1.23456, 0.87654, 2.71828, 1.23456])
        return k, (s, 0.0, 0.0, s, float(rng.randint(-10, 10)), float(rng.randint(-10, 10)))
    if k == "nuscale":
        return k, (rng.choice([0.5, 2.0, 1.5]), 0.0, 0.0, rng.choice([0.75, 3.0, 1.25]), 0.0, 0.0)
    if k == "mirror":
        return k, rng.choice([(-1.0, 0.0, 0.0, 1.0, 0.0, 0.0), (1.0, 0.0, 0.0, -1.0, 5.0, 5.0)])
    if k == "rotscale":
        a = math.radians(rng.uniform(0, 360))
        s = rng.choice([0.5, 2.0])
        return k, (s * math.cos(a), s * math.sin(a), -s * math.sin(a), s * math.cos(a), 3.0, -4.0)
    return k, (rng.uniform(0.5, 2), rng.uniform(-0.5, 0.5), rng.uniform(-0.5, 0.5), rng.uniform(0.5, 2), rng.uniform(-10, 10), rng.uniform(-10, 10))


def map_cmds(cmds, A, true_arcs=False):
    """the image of the commands under A. Arc parameters: `true_arcs` gives the image ellipse where that is an arc with
    simply related parameters (similarity transforms, mirrorings, axis-parallel scalings of an unrotated ellipse) and
    None otherwise; without it the radii are scaled the way the implementation does (not the image in general)"""
    a, b, c, d, e, f = A
    out = []
    for l, args in cmds:
        if l == "A":
            x, y = args[5], args[6]
            nx, ny = a * x + c * y + e, b * x + d * y + f
            sx, sy = math.hypot(a, b), math.hypot(c, d)
            if not true_arcs:
                out.append((l, [args[0] * sx, args[1] * sy, args[2], args[3], args[4], nx, ny]))
                continue
            det = a * d - b * c
            sweep = args[4] if det > 0 else 1 - args[4]
            if b == 0 and c == 0 and args[2] == 0:
                out.append((l, [args[0] * abs(a), args[1] * abs(d), 0, args[3], sweep, nx, ny]))
            elif abs(sx - sy) < 1e-12 * sx and abs(a * c + b * d) < 1e-12 * sx * sx:
                th = math.degrees(math.atan2(b, a))
                rot = th + args[2] if det > 0 else th - args[2]
                out.append((l, [args[0] * sx, args[1] * sx, rot, args[3], sweep, nx, ny]))
            else:
                return None
            continue
        na = []
        for i in range(0, len(args), 2):
            x, y = args[i], args[i + 1]
            na += [a * x + c * y + e, b * x + d * y + f]
        out.append((l, na))
    return out


def gen_pair(rng):
    tol = rng.choice([1e-3, 1e-2, 1e-1, 1.0, 0.05])
    k = rng.random()
    if rng.random() < 0.05:
        # the same numbers under the same letters, absolute in one path and relative in the other: different outlines
        pts = [(float(rng.randint(2, 30)), float(rng.randint(2, 30))) for _ in range(rng.randint(3, 5))]
        z = rng.random() < 0.6
        body = " ".join("%s%g,%g" % ("L", x, y) for x, y in pts[1:])
        d1 = "M%g,%g %s%s" % (pts[0][0], pts[0][1], body, " Z" if z else "")
        d2 = "M%g,%g %s%s" % (pts[0][0], pts[0][1], body.replace("L", "l"), " z" if z else "")
        if rng.random() < 0.5:
            d1, d2 = d2, d1
        return {"kind": "different:caseflip", "tol": tol, "d1": d1, "d2": d2}
    arcs = rng.random() < 0.3
    s1 = multi_outline(rng, arcs) if rng.random() < 0.5 else base_outline(rng, arcs)
    style = 1 if rng.random() < 0.4 else 0
    if k < 0.5:
        name, T = rtransform(rng)
        s2 = map_cmds(s1, T, true_arcs=True)
        kind = "image:" + name
        if s2 is None:
            s2 = map_cmds(s1, T)
            kind = "arcimage:" + name
    elif k < 0.56:
        # radii scaled, rotation and flags kept: not the image of an arc under a rotation or a mirroring
        name, T = rtransform(rng)
        s2 = map_cmds(s1, T)
        kind = ("arcimage:" if arcs else "image:") + name
    elif k < 0.62:
        s2 = [(c, list(a)) for c, a in s1]
        kind = "identical"
    elif k < 0.68:
        # one outline is a prefix of the other (continued / closed), possibly translated
        s1 = base_outline(rng, arcs)
        base = [(c, list(a)) for c, a in s1 if c != "Z"]
        T = (1.0, 0.0, 0.0, 1.0, float(rng.choice([0, 0, 7, -3])), float(rng.choice([0, 0, 4])))
        longer = map_cmds(base, T)
        extra = rng.choice(["close", "line", "both"])
        if extra in ("line", "both"):
            longer.append(("L", [longer[-1][1][-2] + 5.0, longer[-1][1][-1] - 2.0]))
        if extra in ("close", "both"):
            longer.append(("Z", []))
        s1 = base
        s2 = longer
        if rng.random() < 0.5:
            s1, s2 = s2, s1
        kind = "prefix"
    elif k < 0.76:
        s2 = multi_outline(rng, arcs) if rng.random() < 0.5 else base_outline(rng, arcs)
        kind = "unrelated"
    elif k < 0.8:
        # same commands, arc flags or later subpaths changed: never the same outline
        s2 = [(c, list(a)) for c, a in s1]
        flips = [i for i, (c, _) in enumerate(s2) if c == "A"]
        moves = [i for i, (c, _) in enumerate(s2) if c == "M"][1:]
        if flips and (not moves or rng.random() < 0.6):
            i = rng.choice(flips)
            s2[i][1][rng.choice([3, 4])] ^= 1
            kind = "arcflag"
        elif moves:
            # everything from a later subpath on is shifted
            i = rng.choice(moves)
            dx, dy = rng.choice([(6.0, 0.0), (0.0, -4.0), (3.0, 5.0)])
            s2 = s2[:i] + map_cmds(s2[i:], (1.0, 0.0, 0.0, 1.0, dx, dy))
            kind = "subpathshift"
        else:
            kind = "identical"
        if kind != "identical" and rng.random() < 0.5:
            T = (1.0, 0.0, 0.0, 1.0, float(rng.randint(-9, 9)), float(rng.randint(-9, 9)))
            s2 = map_cmds(s2, T)
    else:
        name, T = rtransform(rng)
        if rng.random() < 0.4:
            name, T = "identity", (1.0, 0.0, 0.0, 1.0, 0.0, 0.0)
        s2 = map_cmds(s1, T, true_arcs=True) or map_cmds(s1, T)
        # near miss: perturb one coordinate of one command
        idx = rng.randrange(1, len(s2))
        if s2[idx][1]:
            j = rng.randrange(len(s2[idx][1]))
            if s2[idx][0] != "A" or j >= 5:
                s2[idx][1][j] += rng.choice([1.1, 0.9, -1.1, 3.0]) * tol
        kind = "nearmiss:" + name
    return {"kind": kind, "tol": tol, "d1": d_of(s1, style, rng), "d2": d_of(s2, style, rng)}


def arc_pair(rng):
    """outlines dominated by tilted elliptical arcs (rx != ry, x-axis-rotation != 0), paired with what scaling the end points and
    radii and keeping rotation and flags gives — the image only for translations and uniform positive scalings"""
    tol = rng.choice([1e-3, 1e-2, 0.1])
    if rng.random() < 0.25:
        # the x-axis-rotation is an angle, not a length: two large arcs whose rotations differ by less than the tolerance
        # (as numbers) are far apart as curves; the same pair moved, so that the search runs instead of the identity shortcut
        tol = rng.choice([0.1, 0.2, 0.5])
        R = float(rng.choice([400, 1000, 2500]))
        rot = float(rng.choice([0, 15, 40]))
        d = round(rng.uniform(0.5, 0.95) * tol, 3) * rng.choice([1, -1])
        fl = [rng.choice([0, 1]), rng.choice([0, 1])]
        s1 = [("M", [0.0, 0.0]), ("A", [R, R / 2, rot] + fl + [2 * R, 0.0])]
        s2 = [("M", [0.0, 0.0]), ("A", [R, R / 2, rot + d] + fl + [2 * R, 0.0])]
        if rng.random() < 0.4:
            s1.append(("L", [R, -R])); s2.append(("L", [R, -R]))
        name = "arcrot:identity"
        if rng.random() < 0.4:
            s2 = map_cmds(s2, (1.0, 0.0, 0.0, 1.0, 30.0, -20.0)); name = "arcrot:translate"
        return {"kind": "arcimage:" + name, "tol": tol, "d1": d_of(s1, 0, rng), "d2": d_of(s2, 0, rng)}
    x, y = float(rng.randint(-10, 10)), float(rng.randint(-10, 10))
    rx, ry = float(rng.randint(4, 12)), float(rng.randint(2, 7))
    if rx == ry:
        rx += 3.0
    rot = rng.choice([20, 30, 45, 60, 90])
    # the first edge is horizontal and the arc runs vertically: the shape the staged search can align under an axis-parallel
    # scaling (x by the first edge, y by the first edge with a y part)
    w0 = float(rng.randint(8, 14))
    if rng.random() < 0.6:
        s1 = [("M", [x, y]), ("L", [x + w0, y]), ("A", [rx, ry, rot, rng.choice([0, 1]), rng.choice([0, 1]), x + w0, y + 12]),
              ("L", [x, y + 12])]
    else:
        s1 = [("M", [x, y]), ("L", [x + 12, y + 1]), ("A", [rx, ry, rot, rng.choice([0, 1]), rng.choice([0, 1]), x + 20, y + 14]),
              ("L", [x + 4, y + 18])]
    if rng.random() < 0.5:
        s1.append(("A", [ry, rx, rot + 10, 0, 1, x - 3, y + 9]))
    if rng.random() < 0.7:
        s1.append(("Z", []))
    name, T = rng.choice([("nuscale", (2.0, 0.0, 0.0, 0.5, 0.0, 0.0)), ("nuscale", (1.5, 0.0, 0.0, 3.0, 4.0, -2.0)), ("uscale", (2.0, 0.0, 0.0, 2.0, 1.0, 1.0)),
                          ("translate", (1.0, 0.0, 0.0, 1.0, 7.0, -3.0)), ("mirror", (-1.0, 0.0, 0.0, 1.0, 0.0, 0.0)),
                          ("rotate", (0.0, 1.0, -1.0, 0.0, 2.0, 2.0))])
    s2 = map_cmds(s1, T)
    kind = ("image:" if name in ("translate", "uscale") else "arcimage:") + name
    return {"kind": kind, "tol": tol, "d1": d_of(s1, 0, rng), "d2": d_of(s2, 0, rng)}


def poly_pair(rng):
    """two polygons / polylines (basic shape objects, geometry in the `points` string): equal, translated, or different"""
    n = rng.randint(3, 6)
    pts = [(rng.randint(-20, 20), rng.randint(-20, 20)) for _ in range(n)]
    k = rng.random()
    tol = rng.choice([1e-3, 1e-2, 0.1])
    if k < 0.3:
        dx, dy = rng.randint(-9, 9), rng.randint(-9, 9)
        q = [(x + dx, y + dy) for x, y in pts]
        kind = "polys:translate" if (dx, dy) != (0, 0) else "polys:identical"
    elif k < 0.4:
        q, kind = list(pts), "polys:identical"
    elif k < 0.7:
        q = list(pts)
        i = rng.randrange(n)
        q[i] = (q[i][0] + rng.choice([3, -5, 1]), q[i][1] + rng.choice([0, 2, -4]))
        kind = "polys:different"
    else:
        q = [(rng.randint(-20, 20), rng.randint(-20, 20)) for _ in range(n)]
        kind = "polys:different"
    return {"kind": kind, "tol": tol, "tag": rng.choice(["polygon", "polyline"]), "p1": pts, "p2": q}


def poly_between(p):
    affine_between, SVGPath = impl()
    from picosvg.svg_types import SVGPolygon, SVGPolyline
    cls = SVGPolygon if p["tag"] == "polygon" else SVGPolyline
    mk = lambda pts: cls(points=" ".join("%d,%d" % xy for xy in pts))  # noqa: E731
    p["d1"], p["d2"] = mk(p["p1"]).as_path().d, mk(p["p2"]).as_path().d
    o, v = common.outcome_of(lambda: affine_between(mk(p["p1"]), mk(p["p2"]), p["tol"]))
    if o != "ok":
        return o
    return "ok None" if v is None else "ok " + " ".join(hexf(x) for x in v)


def rect_pair(rng):
    """two basic shapes compared through as_path(): the identity fast path sees their raw H/V/A commands"""
    x, y, w, h = rng.randint(-9, 9), rng.randint(-9, 9), rng.randint(2, 12), rng.randint(2, 12)
    r = rng.choice([0, 0, 1, 2])
    tol = rng.choice([1e-3, 1e-2, 0.1, 1.0])
    k = rng.random()
    if k < 0.4:
        b = (x, y, w + rng.choice([0, 1, 3]) * rng.choice([1, 2]) * max(tol, 0.5) * 3, h, r)
    elif k < 0.7:
        b = (x, y, w, h + rng.choice([1, 2, 5]) * max(tol, 0.5) * 3, r)
    else:
        b = (x + rng.randint(-5, 5), y + rng.randint(-5, 5), w, h, r)
    return {"kind": "rects", "tol": tol, "r1": (x, y, w, h, r), "r2": b}


def impl_between(d1, d2, tol):
    affine_between, SVGPath = impl()
    o, v = common.outcome_of(lambda: affine_between(SVGPath(d=d1), SVGPath(d=d2), tol))
    if o != "ok":
        return o
    return "ok None" if v is None else "ok " + " ".join(hexf(x) for x in v)


def rect_between(p):
    affine_between, SVGPath = impl()
    from picosvg.svg_types import SVGRect
    mk = lambda r: SVGRect(x=r[0], y=r[1], width=r[2], height=r[3], rx=r[4], ry=r[4])  # noqa: E731
    p["d1"], p["d2"] = mk(p["r1"]).as_path().d, mk(p["r2"]).as_path().d
    o, v = common.outcome_of(lambda: affine_between(mk(p["r1"]), mk(p["r2"]), p["tol"]))
    if o != "ok":
        return o
    return "ok None" if v is None else "ok " + " ".join(hexf(x) for x in v)


def correspondence(ctx):
    n = 6000 if ctx.thorough() else 900
    pairs = [arc_pair(ctx.rng) if ctx.rng.random() < 0.08 else gen_pair(ctx.rng) for _ in range(n)]
    ctx._pairs = pairs
    outs = ctx.model(["reuse\tbetween\t%s\t%s\t%s" % (esc(p["d1"]), esc(p["d2"]), hexf(p["tol"])) for p in pairs])
    dis = []
    nontrivial = 0
    ident = "ok " + " ".join(hexf(x) for x in (1, 0, 0, 1, 0, 0))
    for p, m in zip(pairs, outs):
        r = impl_between(p["d1"], p["d2"], p["tol"])
        p["impl"] = r
        ctx.count(p["kind"].split(":")[0] + "->" + ("none" if r == "ok None" else "found" if r.startswith("ok") else r))
        if r.startswith("ok ") and r not in ("ok None", ident):
            nontrivial += 1
        if r != m and not (r.startswith("ok") and m.startswith("ok") and r != "ok None" and m != "ok None" and c12.close_enc(r, m, 16)):
            dis.append({"what": "affine_between(%r, %r, %g): impl=%s model=%s" % (p["d1"], p["d2"], p["tol"], r, m), "kind": "between", "input": {k: p[k] for k in ("d1", "d2", "tol")}})
    ctx.samples.append({"pair": pairs[0]["kind"], "d1": pairs[0]["d1"], "d2": pairs[0]["d2"], "tol": pairs[0]["tol"], "impl": pairs[0]["impl"]})
    ctx.stats["corr_cases"] = n
    ctx.stats["evaluations"] = ctx.stats.get("evaluations", 0) + n
    ctx.stats["distinct_nontrivial"] = nontrivial
    return dis


# ------------------------------------------------------------------ independent re-verification

def rel_steps(cmds):
    """per command: list of vectors relative to the previous end point (first moveto absolute)"""
    out = []
    cur = (0.0, 0.0)
    start = cur
    for l, a in cmds:
        if l == "Z":
            out.append(("z", []))
            cur = start
            continue
        vs = []
        for i in range(0, len(a), 2):
            vs.append((a[i] - cur[0], a[i + 1] - cur[1]))
        out.append((l, vs))
        cur = (a[-2], a[-1])
        if l == "M":
            start = cur
    return out


def arc_points(v, n=48):
    """points of the elliptical arc segment (Spec.interp encoding) relative to its start point"""
    x0, y0, rx, ry, rot, large, sweep, x1, y1 = v
    if (x0, y0) == (x1, y1):
        return [(0.0, 0.0)]
    if rx == 0 or ry == 0:
        return [((x1 - x0) * i / n, (y1 - y0) * i / n) for i in range(n + 1)]
    cx, cy, rx, ry, phi, t1, dt = c12.true_params((x0, y0, rx, ry, rot, int(large != 0), int(sweep != 0), x1, y1))
    c, s_ = math.cos(phi), math.sin(phi)
    out = []
    for i in range(n + 1):
        t = t1 + dt * i / n
        ex, ey = rx * math.cos(t), ry * math.sin(t)
        out.append((cx + c * ex - s_ * ey - x0, cy + s_ * ex + c * ey - y0))
    return out


def poly_dist(p, poly):
    best = float("inf")
    for i in range(len(poly) - 1):
        (ax, ay), (bx, by) = poly[i], poly[i + 1]
        dx, dy = bx - ax, by - ay
        L = dx * dx + dy * dy
        t = 0.0 if L == 0 else max(0.0, min(1.0, ((p[0] - ax) * dx + (p[1] - ay) * dy) / L))
        best = min(best, math.hypot(p[0] - ax - t * dx, p[1] - ay - t * dy))
    if len(poly) == 1:
        best = math.hypot(p[0] - poly[0][0], p[1] - poly[0][1])
    return best


def verify(A, g1, g2, tol):
    """does A map outline 1 onto outline 2, command for command, within tol (coordinates relative to each command's start
    point, as the implementation compares them)?  g1, g2: segments of Spec.interp (Lean), absolute coordinates.
    Arcs are judged as curves: sampled points of the mapped arc against the other arc (both directions)."""
    a, b, c, d, e, f = A
    if [k for k, _ in g1] != [k for k, _ in g2]:
        return "drawn segments differ in kind: %s vs %s" % ("".join(k for k, _ in g1), "".join(k for k, _ in g2))
    slack = tol * 1e-6 + 1e-9
    cur1 = cur2 = None
    for i, ((k, v1), (_, v2)) in enumerate(zip(g1, g2)):
        if k == "M":
            if cur1 is None:
                mx, my = a * v1[0] + c * v1[1] + e, b * v1[0] + d * v1[1] + f
                u, w = v2[0], v2[1]
            else:
                x, y = v1[0] - cur1[0], v1[1] - cur1[1]
                mx, my = a * x + c * y, b * x + d * y
                u, w = v2[0] - cur2[0], v2[1] - cur2[1]
            if abs(mx - u) > tol + slack or abs(my - w) > tol + slack:
                return "moveto %d: image (%.6g, %.6g) vs target (%.6g, %.6g) differ by more than %g" % (i, mx, my, u, w, tol)
            cur1, cur2 = (v1[0], v1[1]), (v2[0], v2[1])
            continue
        if k == "Z":
            cur1, cur2 = (v1[-2], v1[-1]), (v2[-2], v2[-1])
            continue
        if k == "A":
            P1 = [(a * x + c * y, b * x + d * y) for x, y in arc_points(v1)]
            P2 = arc_points(v2)
            ext = max([math.hypot(*q) for q in P2] + [math.hypot(*q) for q in P1] + [1e-9])
            lim = 3 * tol + 0.01 * ext
            worst = max([poly_dist(q, P2) for q in P1[::4]] + [poly_dist(q, P1) for q in P2[::4]])
            if worst > lim:
                return "arc %d: the image of the first arc and the second arc are %.4g apart (extent %.4g, tolerance %g)" % (i, worst, ext, tol)
            if b == 0 and c == 0 and a == d and a > 0 and len(P1) == len(P2):
                # a translation / uniform scaling keeps the arc's own parametrisation: the sampled points correspond one to one
                # (the polyline distance above allows 1% of the extent for the sampling; this comparison needs no such slack)
                pw = max(math.hypot(q1[0] - q2[0], q1[1] - q2[1]) for q1, q2 in zip(P1, P2))
                if pw > 3 * tol + 1e-9 * ext:
                    return "arc %d: corresponding points of the image of the first arc and of the second arc are %.4g apart (tolerance %g)" % (i, pw, tol)
            cur1, cur2 = (v1[-2], v1[-1]), (v2[-2], v2[-1])
            continue
        p0, q0 = (v1[0], v1[1]), (v2[0], v2[1])
        for j in range(2, len(v1), 2):
            x, y = v1[j] - p0[0], v1[j + 1] - p0[1]
            mx, my = a * x + c * y, b * x + d * y
            u, w = v2[j] - q0[0], v2[j + 1] - q0[1]
            if abs(mx - u) > tol + slack or abs(my - w) > tol + slack:
                return "segment %d (%s): image (%.6g, %.6g) vs target (%.6g, %.6g) differ by more than %g" % (i, k, mx, my, u, w, tol)
        cur1, cur2 = (v1[-2], v1[-1]), (v2[-2], v2[-1])
    return None


def outlines(ctx, ds):
    """Spec.interp (Lean) of each path string -> segment lists (None where the specification gives no meaning)"""
    from props import c09
    outs = ctx.model(["spec\tinterp\t" + esc(d) for d in ds])
    return [c09.parse_segs(o) for o in outs]


def judge_pair(p, r, g1, g2):
    """the property on one pair: r = what affine_between answered, g1/g2 = the outlines per Spec.interp"""
    inp = {k: p[k] for k in ("d1", "d2", "tol", "kind")}
    if not r.startswith("ok"):
        return None
    if g1 is None or g2 is None:
        return None
    if r == "ok None":
        if p["kind"] == "identical":
            return {"kind": "reuse-law", "input": inp, "detail": "identical shapes but no transform reported"}
        if p["kind"] in ("image:translate", "polys:translate"):
            return {"kind": "reuse-law", "input": inp, "detail": "an exact translation of the shape was not found"}
        if p["kind"] == "polys:identical":
            return {"kind": "reuse-law", "input": inp, "detail": "identical shapes but no transform reported"}
        return None
    A = [unhex(h) for h in r.split()[1:]]
    why = verify(A, g1, g2, p["tol"])
    if why:
        return {"kind": "reuse-law", "input": inp,
                "detail": "reported %s does not map the first outline onto the second: %s" % (tuple(round(v, 6) for v in A), why)}
    if p["kind"] == "identical" and any(abs(x - y) > (0 if p["d1"] == p["d2"] else 1e-9) for x, y in zip(A, (1, 0, 0, 1, 0, 0))):
        return {"kind": "reuse-law", "input": inp, "detail": "identical shapes but %s reported" % (A,)}
    return None


def search(ctx, disagreements):
    pairs = getattr(ctx, "_pairs", None) or [gen_pair(ctx.rng) for _ in range(600)]
    rects = [rect_pair(ctx.rng) for _ in range(600 if ctx.thorough() or ctx.escalate else 150)]
    for p in rects:
        p["impl"] = rect_between(p)
        ctx.count("rects->" + ("none" if p["impl"] == "ok None" else "found" if p["impl"].startswith("ok") else p["impl"]))
    # the answer for a pair depends on the tolerance asked for now, not on what was asked before: near-miss pairs are put to
    # the implementation at a coarse tolerance first and then at the fine one, and the second answer is judged
    affine_between_, SVGPath_ = impl()
    again = []
    fresh = []
    while len(fresh) < 60:  # fresh pairs: not put to the implementation before in this process
        q = gen_pair(ctx.rng)
        if q["kind"].startswith("nearmiss"):
            fresh.append(q)
    for p in fresh:
        common.outcome_of(lambda: affine_between_(SVGPath_(d=p["d1"]), SVGPath_(d=p["d2"]), max(1.0, 50 * p["tol"])))
        q = dict(p)
        q["impl"] = impl_between(p["d1"], p["d2"], p["tol"])
        q["kind"] = "again:" + p["kind"]
        again.append(q)
    pairs = pairs + again
    polys = [poly_pair(ctx.rng) for _ in range(400 if ctx.thorough() or ctx.escalate else 120)]
    for p in polys:
        p["impl"] = poly_between(p)
        ctx.count(p["kind"] + "->" + ("none" if p["impl"] == "ok None" else "found" if p["impl"].startswith("ok") else p["impl"]))
    pairs = pairs + rects + polys
    found = []
    if not ctx.driver_ok:
        ctx.count("judge-skipped-no-driver", len(pairs))
        return found
    gs = outlines(ctx, [p["d1"] for p in pairs] + [p["d2"] for p in pairs])
    n = len(pairs)
    for i, p in enumerate(pairs):
        r = p.get("impl") or impl_between(p["d1"], p["d2"], p["tol"])
        if not r.startswith("ok"):
            # an exception reports no transform: outside the property (counted, compared with the model)
            ctx.count("raised:" + r)
            continue
        if r != "ok None":
            ctx.count("verified" + (":arcs" if "A" in p["d1"] else ""))
        v = judge_pair(p, r, gs[i], gs[n + i])
        if v:
            found.append(v)
    ctx.stats["evaluations"] = ctx.stats.get("evaluations", 0) + len(pairs)
    return found


def classify(v, findings):
    return None


def replay(ctx, payload):
    if payload.get("kind") == "reuse-law":
        i = payload["input"]
        r = impl_between(i["d1"], i["d2"], i["tol"])
        g1, g2 = outlines(ctx, [i["d1"], i["d2"]])
        v = judge_pair(dict(i, kind=i.get("kind", "")), r, g1, g2)
        return {"impl": r, "verdict": v and v["detail"], "fails": bool(v)}
    return {"fails": bool(ctx.tie_breaks), "no_longer_checks": ctx.tie_breaks}
