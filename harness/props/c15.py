"""C15 — an SVG object always equals its serialisation, whatever the operation history."""
import concurrent.futures
import itertools
import json
import os

from lxml import etree

import common
import docgen
import pipeline

LEAN_TARGETS = ["PicoSVG.Props.C15"]
RULE = ("histories over the public operations of picosvg.svg.SVG (20 with an inplace switch, each in-place and copying, plus the "
        "read-only queries shapes / bounding_box / view_box / tostring / checkpicosvg / breadth_first): every history is run "
        "directly on one object and again with SVG.fromstring(obj.tostring()) between every two steps; the final documents "
        "must agree as canonical XML, every in-place call must return the receiver, every copying call must leave the "
        "receiver's serialisation unchanged; quick: all histories of length <= 2 on two documents plus random histories up "
        "to length 8 on generated documents; thorough: all histories of length <= 3 and more random ones; histories over the "
        "modelled operations are also run through the Lean object model (cache, flush, clone) with the Skia answers replayed; "
        "non-trivial = distinct (document, history) whose steps all return normally")
ASSUMPTIONS = [
    "the refinement theorem is about an abstract object (tree, cache, load, store) under the lens laws PutGet and PutPut; that "
    "picosvg's from_element/to_element obey them, and that each public operation is of one of the disciplined kinds, is "
    "checked by the histories and by the generated discipline table, not proved",
    "a history stops at the first exception (both runs must raise the same class there)",
]
TRUSTED = ["tools/opscan.py (discipline table from the AST)", "lxml canonicalisation (c14n)", "harness/pipeline.py (tie)"]

DOCS = [
    '<svg xmlns="http://www.w3.org/2000/svg" xmlns:xlink="http://www.w3.org/1999/xlink" viewBox="0 0 100 100">'
    '<defs><linearGradient id="g" x2="0.5"><stop offset="0" stop-color="red"/><stop offset="1" stop-color="blue"/></linearGradient>'
    '<clipPath id="c"><circle cx="30" cy="30" r="25"/></clipPath></defs>'
    '<g opacity="0.5" style="fill:green"><rect id="r" x="10" y="10" width="40.1234" height="30" rx="4" clip-path="url(#c)"/>'
    '<path d="m5,5 h20 v20 s5,5 10,0 z" fill-rule="evenodd" fill-opacity="0.5" transform="translate(3 4)"/></g>'
    '<use xlink:href="#r" x="40" y="40" fill="url(#g)"/><svg x="50" y="0" width="50" height="50" viewBox="0 0 10 10"><ellipse cx="5" cy="5" rx="4" ry="2"/></svg>'
    '<line x1="0" y1="90" x2="150" y2="95" stroke="black" stroke-width="3" style="stroke-linecap:round"/><title>t</title><?pi x?></svg>',
    '<svg xmlns="http://www.w3.org/2000/svg" viewBox="0 0 20 20" fill="blue"><polygon points="1,1 9,1 9,9" opacity="0.5" fill-opacity="0.5"/>'
    '<circle cx="25" cy="25" r="3"/><path d="M2,12 L8,12 L8,18 Z M30,30" style="fill:none;stroke:red"/><rect width="0" height="5"/></svg>',
]

MUTATORS = ["absolute", "shapes_to_paths", "expand_shorthand", "apply_style_attributes", "resolve_use", "simplify", "clip_to_viewbox",
            "evenodd_to_nonzero_winding", "round_floats", "remove_empty_subpaths", "remove_unpainted_shapes", "remove_nonsvg_content",
            "remove_processing_instructions", "remove_anonymous_symbols", "remove_title_meta_desc", "set_attributes", "remove_attributes",
            "set_viewbox", "set_root_paint",
            "normalize_opacity", "resolve_nested_svgs", "topicosvg"]
QUERIES = ["shapes", "bounding_box", "view_box", "tostring", "checkpicosvg", "breadth_first"]
MODELLED = {"absolute", "shapes_to_paths", "expand_shorthand", "apply_style_attributes", "resolve_use", "simplify", "evenodd_to_nonzero_winding",
            "round_floats", "remove_empty_subpaths", "remove_unpainted_shapes", "remove_nonsvg_content", "remove_processing_instructions",
            "remove_anonymous_symbols", "remove_title_meta_desc", "normalize_opacity", "resolve_nested_svgs", "topicosvg", "shapes", "tostring", "set_attributes", "remove_attributes", "bounding_box", "view_box"}
# (set_viewbox is judged on the implementation only: the wire format of the model's set_attributes has no spaces in values)
# checkpicosvg as a stand-alone query resolves clip paths while it walks (Skia calls the gate model does not make, because at
# the gate no clip path is left): it is part of the histories judged on the implementation, not of the model correspondence
STEPS = [(m, "inplace") for m in MUTATORS] + [(m, "copy") for m in MUTATORS] + [(q, "query") for q in QUERIES]


def call(svg, name, mode):
    kw = {} if mode == "query" else {"inplace": mode == "inplace"}
    if name == "round_floats":
        return svg.round_floats(2, **kw)
    if name == "set_attributes":
        return svg.set_attributes((("fill", "purple"), ("data-x", "1")), xpath="//svg:g | /svg:svg", **kw)
    if name == "set_viewbox":
        return svg.set_attributes((("viewBox", "0 0 40 40"),), **kw)
    if name == "set_root_paint":
        # the default xpath (the root alone) with inheritable paint: what cached shapes inherited must follow
        return svg.set_attributes((("fill", "red"), ("stroke", "blue"), ("stroke-width", "2")), **kw)
    if name == "remove_attributes":
        return svg.remove_attributes(("opacity", "width"), xpath="//svg:g | /svg:svg", **kw)
    if name == "topicosvg":
        return svg.topicosvg(**kw)
    if name == "breadth_first":
        return list(svg.breadth_first())
    return getattr(svg, name)(**kw)


def canon(text):
    root = etree.fromstring(text.encode("utf-8"))
    etree.cleanup_namespaces(root)
    return etree.tostring(root, method="c14n").decode("utf-8")


def run_history(src, hist):
    """returns (verdict, detail); verdict None = held, 'skip' = history ended in the same exception both ways"""
    SVG = pipeline.impl()
    direct = SVG.fromstring(src)
    ref = SVG.fromstring(src)
    receivers = []     # (object after a copying call, expected canonical serialisation)
    for i, (name, mode) in enumerate(hist):
        ref = SVG.fromstring(ref.tostring())
        before_ref = None
        if mode == "copy":
            before_ref = canon(ref.tostring())
        od, rd = common.outcome_of(lambda: call(direct, name, mode))
        orr, rr = common.outcome_of(lambda: call(ref, name, "inplace" if mode == "copy" else mode))
        if od != orr:
            return "outcome", "step %d %s(%s): direct history %s, re-parsed history %s" % (i, name, mode, od, orr)
        if od != "ok":
            return "skip", od
        if mode == "inplace" and rd is not direct:
            return "return", "step %d %s(inplace=True) returned %r instead of the receiver" % (i, name, type(rd).__name__ if rd is not None else None)
        if mode == "copy":
            if rd is direct or not isinstance(rd, SVG):
                return "return", "step %d %s(inplace=False) returned %s" % (i, name, "the receiver" if rd is direct else type(rd).__name__)
            receivers.append((direct, before_ref, i, name))
            direct = rd
    a, b = canon(direct.tostring()), canon(ref.tostring())
    if a != b:
        return "differs", "final documents differ: %s" % diff_hint(a, b)
    for obj, expect, i, name in receivers:
        got = canon(obj.tostring())
        if got != expect:
            return "receiver", "receiver of the copying call %s at step %d changed: %s" % (name, i, diff_hint(got, expect))
    return None, None


def diff_hint(a, b):
    for i, (x, y) in enumerate(zip(a, b)):
        if x != y:
            return "at %d: ...%s... vs ...%s..." % (i, a[max(0, i - 70):i + 70], b[max(0, i - 70):i + 70])
    return "lengths %d vs %d" % (len(a), len(b))


def _work(args):
    src, hists = args
    out = []
    for h in hists:
        try:
            v, d = run_history(src, h)
        except BaseException as e:  # noqa
            v, d = "harness", "%s: %s" % (type(e).__name__, e)
        out.append((h, v, d))
    return out


def all_histories(maxlen):
    for n in range(1, maxlen + 1):
        for h in itertools.product(STEPS, repeat=n):
            yield list(h)


def random_history(rng):
    n = rng.randint(2, 8)
    h = []
    for _ in range(n):
        k = rng.random()
        if k < 0.2:
            h.append((rng.choice(QUERIES), "query"))
        else:
            h.append((rng.choice(MUTATORS), "copy" if rng.random() < 0.4 else "inplace"))
    return h


def op_string(name, mode):
    s = {"round_floats": "round_floats 2", "topicosvg": "topicosvg 3 0 0", "checkpicosvg": "checkpicosvg 0 0",
         "set_attributes": "set_attributes fill=purple data-x=1", "remove_attributes": "remove_attributes opacity width",
         "set_viewbox": "set_attributes viewBox=0_0_40_40"}.get(name, name)
    return ("copy:" + s) if mode == "copy" else s


def correspondence(ctx):
    """histories over the modelled operations: implementation vs the Lean object model"""
    rng = ctx.rng
    n = 500 if ctx.thorough() else 90
    cases = []
    steps = [s for s in STEPS if s[0] in MODELLED]
    for i in range(n):
        src = DOCS[i % 2] if i < 30 else pipeline.gen_doc(rng)[1]
        h = [rng.choice(steps) for _ in range(rng.randint(1, 5))]
        cases.append((src, [op_string(*s) for s in h]))
    # past disagreements run first
    import json as _json
    import os as _os
    cp = _os.path.join(common.VERIF, "harness", "corpus", "C15.jsonl")
    past = [_json.loads(l) for l in open(cp)] if _os.path.exists(cp) else []
    cases = [(e["src"], list(e["ops"])) for e in past] + cases
    runs = [pipeline.Run(src, ops) for src, ops in cases]
    live = [(c, r) for c, r in zip(cases, runs) if r.in_wire is not None]
    outs = ctx.model([r.model_line() for _, r in live])
    dis = []
    for ((src, ops), r), m in zip(live, outs):
        ctx.count("model:" + r.outcome)
        why = r.compare(m)
        if why:
            dis.append({"what": "history %s: %s" % (ops, why), "kind": "pipeline", "input": {"src": src, "ops": ops}})
    ctx.stats["corr_cases"] = len(live)
    ctx.stats["evaluations"] = ctx.stats.get("evaluations", 0) + len(live)
    ctx.samples.append({"document": cases[-1][0][:300], "history": cases[-1][1], "outcome": runs[-1].outcome})
    return dis


def tag_of(h, v):
    names = [n for n, _ in h]
    modes = [m for _, m in h]
    if v == "return" and "resolve_nested_svgs" in names:
        return "resolve-nested-svgs-returns-none"
    return None


def search(ctx, disagreements):
    rng = ctx.rng
    deep = ctx.thorough()
    jobs = []
    exhaustive_len = 3 if deep else 2
    ex_docs = DOCS if not deep else DOCS[:1]
    hs = list(all_histories(exhaustive_len))
    if deep:
        # length 3 exhaustively on the first document (|STEPS|^3 histories), length 2 on both
        pass
    for src in ex_docs:
        for i in range(0, len(hs), 400):
            jobs.append((src, hs[i:i + 400]))
    if deep:
        h2 = list(all_histories(2))
        for i in range(0, len(h2), 400):
            jobs.append((DOCS[1], h2[i:i + 400]))
    # anything an object could remember about its document must follow a later change of the document:
    # query / consumer, then a change of the root's geometry attributes, then a consumer again
    triples = [[a, b, c] for a in [("view_box", "query"), ("bounding_box", "query"), ("clip_to_viewbox", "inplace"), ("simplify", "inplace")]
               for b in [("set_viewbox", "inplace"), ("set_viewbox", "copy"), ("remove_attributes", "inplace"), ("set_attributes", "inplace"), ("set_root_paint", "inplace")]
               for c in [("clip_to_viewbox", "inplace"), ("clip_to_viewbox", "copy"), ("simplify", "inplace"), ("topicosvg", "inplace"), ("view_box", "query")]]
    for src in DOCS:
        jobs.append((src, triples))
    nrand = 1500 if deep else (400 if ctx.escalate else 160)
    rnd = []
    for _ in range(nrand):
        src = pipeline.gen_doc(rng)[1] if rng.random() < 0.8 else rng.choice(DOCS)
        rnd.append((src, [random_history(rng)]))
    jobs += rnd
    found = []
    seen = set()
    held = 0
    with concurrent.futures.ProcessPoolExecutor(max_workers=min(16, os.cpu_count() or 4)) as ex:
        for (src, _), res in zip(jobs, ex.map(_work, jobs, chunksize=1)):
            for h, v, d in res:
                ctx.count("history:" + (v or "held"))
                ctx.count("len:%d" % len(h))
                if v is None:
                    held += 1
                if v in (None, "skip"):
                    continue
                if v == "harness":
                    raise common.Infra("C15 history runner failed: %s" % d)
                # report one violation per (kind, last two step names) to keep the output readable
                key = (v, tuple(h[-2:]))
                if key in seen:
                    continue
                seen.add(key)
                found.append({"kind": "history", "input": {"src": src, "history": h}, "tag": tag_of(h, v), "verdict": v, "detail": d})
    ctx.stats["evaluations"] = ctx.stats.get("evaluations", 0) + sum(len(j[1]) for j in jobs)
    ctx.stats["distinct_nontrivial"] = held
    found.sort(key=lambda f: len(f["input"]["history"]))
    return found[:25]


def classify(v, findings):
    for e in findings:
        if e.get("status") == "finding" and v.get("tag") and v.get("tag") == e.get("tag"):
            return e["id"]
    return None


def replay(ctx, payload):
    if payload.get("kind") == "history":
        c = payload["input"]
        v, d = run_history(c["src"], [tuple(s) for s in c["history"]])
        return {"fails": v not in (None, "skip"), "verdict": v, "detail": d}
    if payload.get("kind") == "pipeline":
        c = payload["input"]
        r = pipeline.Run(c["src"], c["ops"])
        m = ctx.model([r.model_line()])[0]
        return {"fails": bool(r.compare(m)), "difference": r.compare(m)}
    return {"fails": bool(ctx.tie_breaks), "no_longer_checks": ctx.tie_breaks}
