"""C12 — arc-to-cubic conversion tracks the true elliptical arc."""
import math

import common
from common import hexf, unhex, canon_hex, ulp_diff

LEAN_TARGETS = ["PicoSVG.Props.C12"]
RULE = ("arcs (start, rx, ry, rotation, large, sweep, end): coordinates and radii log-uniform over 1e-3..1e5 with signs, "
        "rotations in [-400,400] degrees, 4 flag combinations, radii exactly/barely/not fitting the chord, zero and negative "
        "radii, coincident end points; implementation arc_to_cubic vs Lean model on Float (bit patterns, <=4 ulp tolerated for "
        "libm); non-trivial = distinct arc producing at least one cubic")
ASSUMPTIONS = [
    "theorems are over an ordered field with sqrt abstracted by sqrt(x)^2 = x (GoodMath); trigonometric content (sweep direction, "
    "extent, the 0.03% radial bound) is not proved in Lean — it is evaluated on the implementation by an independent "
    "centre-parametrisation evaluator (SVG implementation notes F.6.5)",
    "Lean Float sqrt/atan2/sin/cos/tan = the libm CPython uses on this machine",
]
TRUSTED = ["harness/props/c12.py independent ellipse evaluator", "tools/translate.py", "Lean Float = C double/libm"]


def impl():
    common.import_impl()
    from picosvg.arc_to_cubic import arc_to_cubic
    return arc_to_cubic


def logu(rng, lo=-3, hi=5):
    return 10 ** rng.uniform(lo, hi)


def gen_arc(rng):
    k = rng.random()
    sx, sy = rng.choice([-1, 1]) * logu(rng), rng.choice([-1, 1]) * logu(rng)
    if k < 0.3:
        # chord comparable to the radii
        r = logu(rng, -2, 4)
        ex, ey = sx + rng.uniform(-3, 3) * r, sy + rng.uniform(-3, 3) * r
        rx, ry = r * rng.uniform(0.2, 3), r * rng.uniform(0.2, 3)
    elif k < 0.5:
        ex, ey = rng.choice([-1, 1]) * logu(rng), rng.choice([-1, 1]) * logu(rng)
        rx, ry = logu(rng), logu(rng)
    elif k < 0.6:
        # exactly / barely fitting, rotation 0
        r = rng.choice([1.0, 2.5, 100.0, 0.125])
        sx, sy = rng.choice([0.0, 3.0, -7.5]), rng.choice([0.0, 1.0])
        ex, ey = sx + 2 * r, sy
        rx = r * rng.choice([1.0, 1.0, 1 + 1e-12, 1 - 1e-12, 1 + 1e-6, 1 - 1e-6])
        ry = r * rng.choice([1.0, 0.5, 2.0])
    elif k < 0.7:
        ex, ey = rng.uniform(-10, 10), rng.uniform(-10, 10)
        sx, sy = rng.uniform(-10, 10), rng.uniform(-10, 10)
        rx, ry = rng.choice([0.0, 1.0, -1.0, 2.0, -0.0]), rng.choice([0.0, 1.0, -2.0, 3.0])
    elif k < 0.76:
        ex, ey = sx, sy  # coincident
        rx, ry = logu(rng), logu(rng)
    elif k < 0.8:
        # end points a hair apart but distinct (the "full circle as one large arc" idiom), or a drawing at a tiny scale
        if rng.random() < 0.6:
            sx, sy = float(rng.randint(-60, 60)), float(rng.randint(-60, 60))
            ex, ey = sx + rng.choice([0.0, 5e-10, -3e-10, 1e-11]), sy + rng.choice([5e-10, -2e-10, 8e-10])
            rx, ry = float(rng.randint(1, 60)), float(rng.randint(1, 60))
        else:
            sc = rng.choice([1e-10, 3e-10, 1e-12])
            sx, sy, ex, ey = [sc * rng.randint(-20, 20) for _ in range(4)]
            if (sx, sy) == (ex, ey):
                ex += sc
            rx, ry = sc * rng.randint(1, 15), sc * rng.randint(1, 15)
    else:
        sx, sy, ex, ey = [float(rng.randint(-20, 20)) for _ in range(4)]
        rx, ry = float(rng.randint(0, 15)), float(rng.randint(0, 15))
    rot = rng.choice([0.0, 0.0, 30.0, 90.0, -45.0, 400.0, -400.0, rng.uniform(-400, 400), 180.0, 360.0])
    if 0.5 <= k < 0.6:
        rot = 0.0
    return (sx, sy, rx, ry, rot, rng.choice([0, 1]), rng.choice([0, 1]), ex, ey)


def impl_arc(a):
    f = impl()
    sx, sy, rx, ry, rot, large, sweep, ex, ey = a
    o, v = common.outcome_of(lambda: list(f((sx, sy), rx, ry, rot, large, sweep, (ex, ey))))
    return o, v


def enc_impl(o, v):
    if o != "ok":
        return o
    if not v:
        return "ok empty"
    if v[0][0] is None:
        return "ok line %s %s" % (hexf(v[0][2][0]), hexf(v[0][2][1]))
    return "ok cubics " + ";".join(" ".join(hexf(c) for p in seg for c in p) for seg in v)


def model_line(a):
    sx, sy, rx, ry, rot, large, sweep, ex, ey = a
    return "arc\t%s\t%d\t%d" % (" ".join(hexf(x) for x in (sx, sy, rx, ry, rot, ex, ey)), large, sweep)


def close_enc(r, m, max_ulp=4):
    if r == m:
        return True
    tr, tm = r.replace(";", " ").split(), m.replace(";", " ").split()
    if len(tr) != len(tm):
        return False
    for x, y in zip(tr, tm):
        if len(x) == 16 and len(y) == 16:
            if canon_hex(x) != canon_hex(y) and ulp_diff(canon_hex(x), canon_hex(y)) > max_ulp:
                return False
        elif x != y:
            return False
    return True


def correspondence(ctx):
    n = 30000 if ctx.thorough() else 5000
    arcs = [gen_arc(ctx.rng) for _ in range(n)]
    ctx._arcs = arcs
    outs = ctx.model([model_line(a) for a in arcs])
    dis = []
    nontrivial = 0
    for a, m in zip(arcs, outs):
        o, v = impl_arc(a)
        r = enc_impl(o, v)
        ctx.count("outcome:" + " ".join(r.split()[:2]))
        if r.startswith("ok cubics"):
            nontrivial += 1
            ctx.count("segments:%d" % len(v))
        if r != m:
            if close_enc(r, m):
                ctx.count("libm-ulp")
            else:
                dis.append({"what": "arc_to_cubic%r: impl=%s model=%s" % (a, r[:200], m[:200]), "kind": "arc", "input": list(a)})
    ctx.samples.append({"arc": list(arcs[0]), "impl": enc_impl(*impl_arc(arcs[0]))[:300]})
    pd, _ = path_level(ctx, 1500 if ctx.thorough() else 300)
    dis += pd
    ctx.stats["corr_cases"] = n
    ctx.stats["evaluations"] = ctx.stats.get("evaluations", 0) + n
    ctx.stats["distinct_nontrivial"] = nontrivial
    return dis


# ------------------------------------------------------------------ independent evaluator (SVG implementation notes F.6)

def true_params(a):
    """endpoint -> centre parametrisation per SVG 1.1 F.6.5/F.6.6, written independently.
    returns (cx, cy, rx, ry, phi, theta1, dtheta) with rx, ry the corrected (absolute) radii"""
    sx, sy, rx, ry, rot, fa, fs, ex, ey = a
    rx, ry = abs(rx), abs(ry)
    phi = math.radians(rot)
    c, s = math.cos(phi), math.sin(phi)
    dx2, dy2 = (sx - ex) / 2.0, (sy - ey) / 2.0
    x1p = c * dx2 + s * dy2
    y1p = -s * dx2 + c * dy2
    lam = (x1p * x1p) / (rx * rx) + (y1p * y1p) / (ry * ry)
    if lam > 1:
        rx *= math.sqrt(lam)
        ry *= math.sqrt(lam)
    num = rx * rx * ry * ry - rx * rx * y1p * y1p - ry * ry * x1p * x1p
    den = rx * rx * y1p * y1p + ry * ry * x1p * x1p
    co = math.sqrt(max(num / den, 0.0))
    if fa == fs:
        co = -co
    cxp = co * rx * y1p / ry
    cyp = -co * ry * x1p / rx
    cx = c * cxp - s * cyp + (sx + ex) / 2.0
    cy = s * cxp + c * cyp + (sy + ey) / 2.0

    def ang(ux, uy, vx, vy):
        return math.atan2(ux * vy - uy * vx, ux * vx + uy * vy)

    theta1 = ang(1, 0, (x1p - cxp) / rx, (y1p - cyp) / ry)
    dtheta = ang((x1p - cxp) / rx, (y1p - cyp) / ry, (-x1p - cxp) / rx, (-y1p - cyp) / ry)
    if fs == 0 and dtheta > 0:
        dtheta -= 2 * math.pi
    elif fs == 1 and dtheta < 0:
        dtheta += 2 * math.pi
    return cx, cy, rx, ry, phi, theta1, dtheta


def cubic_at(p0, p1, p2, p3, t):
    u = 1 - t
    return (u * u * u * p0[0] + 3 * u * u * t * p1[0] + 3 * u * t * t * p2[0] + t * t * t * p3[0],
            u * u * u * p0[1] + 3 * u * u * t * p1[1] + 3 * u * t * t * p2[1] + t * t * t * p3[1])


def judge_arc(a):
    sx, sy, rx, ry, rot, fa, fs, ex, ey = a
    o, v = impl_arc(a)
    if o != "ok":
        if o in ("ZeroDivisionError",) and (abs(rx) < 1e-150 or abs(ry) < 1e-150):
            return None
        return "arc_to_cubic raised %s" % o
    if (sx, sy) == (ex, ey):
        return None if not v else "coincident end points must give no segment, got %d" % len(v)
    if rx == 0 or ry == 0:
        if len(v) == 1 and v[0][0] is None and v[0][1] is None and tuple(v[0][2]) == (ex, ey):
            return None
        return "zero radius must give a straight line to the end point, got %r" % (v,)
    if not v or v[0][0] is None:
        return "non-degenerate arc produced %r" % (v,)
    if len(v) > 4:
        return "more than 4 segments (%d)" % len(v)
    if tuple(v[-1][2]) != (ex, ey):
        return "last segment ends at %r, not exactly at the end point %r" % (tuple(v[-1][2]), (ex, ey))
    cx, cy, crx, cry, phi, th1, dth = true_params(a)
    if not all(map(math.isfinite, (cx, cy, crx, cry, th1, dth))):
        return None
    # conditioning: skip inputs where the chord is tiny relative to coordinates (catastrophic cancellation
    # in the input itself) or the radii barely fit (centre ill-conditioned)
    chord = math.hypot(sx - ex, sy - ey)
    mag = max(abs(sx), abs(sy), abs(ex), abs(ey), 1e-300)
    if chord < 1e-7 * mag:
        return None
    c, s = math.cos(phi), math.sin(phi)

    def unit(q):
        dx, dy = q[0] - cx, q[1] - cy
        return ((c * dx + s * dy) / crx, (-s * dx + c * dy) / cry)

    # slack for float noise in the unit frame
    slack = 1e-9 + 1e-12 * mag / min(crx, cry)
    lam_margin = abs(1 - ((((sx - ex) / 2 * c + (sy - ey) / 2 * s) ** 2) / (crx * crx) + ((-(sx - ex) / 2 * s + (sy - ey) / 2 * c) ** 2) / (cry * cry)))
    if lam_margin < 1e-9:
        slack += 1e-4  # radii (barely) fit: centre is ill-conditioned; radial check only loosely
    prev = (sx, sy)
    total = 0.0
    last_ang = None
    for seg in v:
        p1, p2, p3 = seg
        for i in range(0, 11):
            q = cubic_at(prev, p1, p2, p3, i / 10.0)
            u = unit(q)
            rad = math.hypot(u[0], u[1])
            if abs(rad - 1) > 3.0e-4 + slack:
                return "point at t=%.1f of a segment is %.6f radii from the centre (allowed 1 +- 0.0003): arc %r" % (i / 10.0, rad, a)
            ang = math.atan2(u[1], u[0])
            if last_ang is not None:
                d = ang - last_ang
                while d > math.pi:
                    d -= 2 * math.pi
                while d < -math.pi:
                    d += 2 * math.pi
                if lam_margin >= 1e-9 and abs(d) > 1e-6 and (d > 0) != (fs == 1):
                    return "segment runs against the sweep flag (step %.4g rad with sweep=%d)" % (d, fs)
                total += d
            last_ang = ang
        prev = p3
    if lam_margin >= 1e-6 and abs(abs(dth) - math.pi) > 1e-4:
        if abs(total - dth) > 1e-4:
            return "swept angle %.6f differs from the arc's extent %.6f (large=%d sweep=%d)" % (total, dth, fa, fs)
        if (abs(total) > math.pi) != (fa == 1):
            return "extent %.4f contradicts the large-arc flag %d" % (total, fa)
    return None


def arc_paths(rng, n):
    """path data exercising the arcs_to_cubics callback: relative / absolute arcs after every kind of
    command, zero radii, coincident end points, repeated arcs"""
    import pathgen
    out = []
    for _ in range(n):
        seq = [(rng.choice("Mm"), [rng.choice(pathgen.LATTICE), rng.choice(pathgen.LATTICE)])]
        for _k in range(rng.randint(1, 5)):
            l = rng.choice("AaAaAaLlHhVvCcQqZz")
            seq.append((l, pathgen.args_for(rng, l)))
            if rng.random() < 0.5:
                l2 = rng.choice("Aa")
                seq.append((l2, pathgen.args_for(rng, l2)))
        out.append(pathgen.seq_to_d(seq))
    return out


def path_level(ctx, n):
    """SVGPath.arcs_to_cubics(): model correspondence on the d string and the Spec.interp judge of C09"""
    from props import c09
    ds = list(c09.FULL_TURNS) + ["M10,10 A5 5 0 1 1 10,10.0000000001 z", "M2,3 L8,3 A4 4 0 1 0 2.0000000004,3 Z"] + arc_paths(ctx.rng, n)
    outs = ctx.model([c09.model_line("arcs_to_cubics", d) for d in ds])
    dis = []
    for d, m in zip(ds, outs):
        r = c09.impl_op("arcs_to_cubics", d)
        ctx.count("path-level:" + r.split(" ")[0])
        if r != m:
            dis.append({"what": "arcs_to_cubics(%r): impl=%s model=%s" % (d, r[:200], m[:200]), "kind": "path", "input": d})
    found = c09.judge(ctx, [("arcs_to_cubics", d, None) for d in ds])
    found = [f for f in found if f.get("tag") != "shorthand-after-arc"]
    return dis, found


def search(ctx, disagreements):
    if ctx.driver_ok:
        _, pf = path_level(ctx, 2500 if ctx.thorough() else 500)
    else:
        pf = []
    found0 = pf
    arcs = getattr(ctx, "_arcs", None) or [gen_arc(ctx.rng) for _ in range(3000)]
    if ctx.escalate:
        arcs = arcs + [gen_arc(ctx.rng) for _ in range(3 * len(arcs))]
    found = list(found0)
    for a in arcs:
        o, why = common.outcome_of(lambda: judge_arc(a))
        if o != "ok":
            why = "judge raised %s" % o
        if why:
            tag = None
            sx, sy, rx, ry = a[0], a[1], a[2], a[3]
            if (rx < 0) != (ry < 0) and rx != 0 and ry != 0:
                tag = "single-negative-radius"
            found.append({"kind": "arc-law", "input": list(a), "detail": why, "tag": tag})
        ctx.count("judged")
    for d in disagreements:
        if d.get("kind") == "arc":
            why = judge_arc(tuple(d["input"]))
            if why:
                found.append({"kind": "arc-law", "input": d["input"], "detail": why})
    ctx.stats["evaluations"] = ctx.stats.get("evaluations", 0) + len(arcs)
    return found


def classify(v, findings):
    for e in findings:
        if e.get("status") == "finding" and v.get("tag") and v.get("tag") == e.get("tag"):
            return e["id"]
    return None


def replay_finding(ctx, e):
    return bool(judge_arc(tuple(e["witness"]["input"])))


def replay(ctx, payload):
    if payload.get("kind") == "arc-law":
        why = judge_arc(tuple(payload["input"]))
        return {"fails": bool(why), "detail": why, "impl": enc_impl(*impl_arc(tuple(payload["input"])))[:400]}
    return {"fails": bool(ctx.tie_breaks), "no_longer_checks": ctx.tie_breaks}
