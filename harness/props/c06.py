"""C06 — rewritten gradients assign the same colour to every point of their shapes."""
from props.render_common import RenderProp

LEAN_TARGETS = ["PicoSVG.Props.C06"]
RULE = ("linear and radial gradients (coordinates as numbers or percentages, both gradientUnits, gradientTransform lists, all "
        "spreadMethods, href chains contributing attributes and/or stops) on shapes under transform chains, groups and use: "
        "topicosvg vs the Lean pipeline model (trees incl. every rewritten gradient attribute, Skia questions), the colour the "
        "source's and the converted document's gradients give at 64 interior points per document (tolerance 0.02), and every "
        "gradient left in the output is self-contained (no href, plain numbers, own stops); non-trivial = distinct converted "
        "document with a gradient-painted sample point")
ASSUMPTIONS = [
    "with bounding-box units the shape's geometry must not be altered by clipping or stroking (the property's scope): the "
    "generator uses neither with bounding-box units; user-space gradients are also used as stroke paints",
    "gradient parameters are rounded to 6 decimals by the code; the judge's tolerance (0.02 per channel) absorbs it",
]
TRUSTED = ["harness/render.py gradient evaluator (SVG 1.1 §13.2)", "harness/pipeline.py (tie)"]

import re


def features(rng):
    return dict(gradients=True, transforms=True, use=rng.random() < 0.5, opacity=False, groups=True, styles=rng.random() < 0.3)


def nontrivial(src, out):
    return "Gradient" in out


def special_stroke(rng):
    """a gradient as the stroke paint of a shape under a transform chain: the outline that replaces the stroke is filled
    with it, so it has to be carried into the outline's coordinate system like a fill gradient"""
    if rng.random() < 0.7:
        g = '<linearGradient id="g" gradientUnits="userSpaceOnUse" x1="%d" y1="%d" x2="%d" y2="%d">' % (rng.randint(0, 10), rng.randint(0, 10), rng.randint(25, 40), rng.randint(0, 30))
        tag = "linearGradient"
    else:
        g = '<radialGradient id="g" gradientUnits="userSpaceOnUse" cx="%d" cy="%d" r="%d">' % (rng.randint(10, 25), rng.randint(10, 25), rng.randint(15, 30))
        tag = "radialGradient"
    stops = '<stop offset="0" stop-color="red"/><stop offset="0.5" stop-color="blue"/><stop offset="1" stop-color="lime"/>'
    tr = rng.choice(["translate(40 30)", "translate(30 45) scale(1.5)", "translate(60 20) rotate(40)", "matrix(1 0 0 2 35 10)", "scale(2)"])
    fill = rng.choice(["none", "none", "#ff0", "url(#g)"])
    shape = rng.choice(['<path d="M5,8 L35,8 L35,30" fill="%s" stroke="url(#g)" stroke-width="%d"/>',
                        '<rect x="4" y="5" width="30" height="22" fill="%s" stroke="url(#g)" stroke-width="%d"/>',
                        '<circle cx="18" cy="18" r="13" fill="%s" stroke="url(#g)" stroke-width="%d"/>']) % (fill, rng.choice([6, 8, 10]))
    wrap = rng.choice(['<g transform="%s">%s</g>', '<g transform="%s"><g>%s</g></g>']) % (tr, shape)
    if rng.random() < 0.3:
        wrap = shape.replace("/>", ' transform="%s"/>' % tr)
    return '<svg xmlns="http://www.w3.org/2000/svg" viewBox="0 0 160 140"><defs>%s%s</%s></defs>%s</svg>' % (g, stops, tag, wrap)


def special_template_order(rng):
    """a gradient that takes its gradientTransform (a translation, which the conversion folds into coordinates) and stops
    from a template written before or AFTER it in the document"""
    tx, ty = rng.choice([(5, 0), (12, 7), (0, 9), (20, 20)])
    tr = rng.choice(["translate(%d %d)" % (tx, ty), "translate(%d %d) scale(1.5)" % (tx, ty), "matrix(1 0 0 1 %d %d)" % (tx, ty)])
    stops = '<stop offset="0" stop-color="red"/><stop offset="0.5" stop-color="blue"/><stop offset="1" stop-color="lime"/>'
    if rng.random() < 0.6:
        g = '<linearGradient id="g" xlink:href="#t" x1="%d" x2="%d" gradientUnits="userSpaceOnUse"/>' % (rng.randint(0, 10), rng.randint(20, 40))
        t = '<linearGradient id="t" x1="0" x2="10" gradientUnits="userSpaceOnUse" gradientTransform="%s">%s</linearGradient>' % (tr, stops)
    else:
        g = '<radialGradient id="g" xlink:href="#t" cx="%d" cy="%d" gradientUnits="userSpaceOnUse"/>' % (rng.randint(10, 25), rng.randint(10, 25))
        t = '<radialGradient id="t" cx="5" cy="5" r="%d" gradientUnits="userSpaceOnUse" gradientTransform="%s">%s</radialGradient>' % (rng.randint(12, 25), tr, stops)
    defs = [g, t] if rng.random() < 0.7 else [t, g]
    if rng.random() < 0.4:
        # used -> middle (own stops, geometry from far) -> far, in any document order
        far = ('<linearGradient id="far" x1="5" x2="45" gradientUnits="userSpaceOnUse" gradientTransform="%s" spreadMethod="%s"/>'
               % (tr, rng.choice(["reflect", "repeat", "pad"])))
        mid = '<linearGradient id="t" xlink:href="#far">%s</linearGradient>' % stops
        g = '<linearGradient id="g" xlink:href="#t"/>'
        defs = [g, mid, far]
        rng.shuffle(defs)
    shape = '<rect x="2" y="3" width="60" height="40" fill="url(#g)"%s/>' % rng.choice(["", "", ' transform="translate(10 5)"'])
    return ('<svg xmlns="http://www.w3.org/2000/svg" xmlns:xlink="http://www.w3.org/1999/xlink" viewBox="0 0 100 80"><defs>%s</defs>%s</svg>'
            % ("".join(defs), shape))


def special_cross_kind(rng):
    """a radial gradient whose template is a linear one (or the reverse): the attributes common to both kinds — gradientUnits,
    gradientTransform, spreadMethod — and the stops come from the template; the shape reaches beyond the gradient vector so
    that the spread method shows"""
    spread = rng.choice(["reflect", "repeat"])
    stops = '<stop offset="0" stop-color="red"/><stop offset="1" stop-color="blue"/>'
    common = rng.choice(['spreadMethod="%s"' % spread, 'spreadMethod="%s" gradientTransform="translate(4 2)"' % spread,
                         'spreadMethod="%s" gradientUnits="userSpaceOnUse"' % spread])
    if rng.random() < 0.5:
        t = '<linearGradient id="t" %s>%s</linearGradient>' % (common, stops)
        g = ('<radialGradient id="g" xlink:href="#t" cx="30" cy="30" r="12" gradientUnits="userSpaceOnUse"/>' if "userSpaceOnUse" in common
             else '<radialGradient id="g" xlink:href="#t" cx="0.3" cy="0.3" r="0.15"/>')
    else:
        t = '<radialGradient id="t" %s>%s</radialGradient>' % (common, stops)
        g = ('<linearGradient id="g" xlink:href="#t" x1="20" x2="35" gradientUnits="userSpaceOnUse"/>' if "userSpaceOnUse" in common
             else '<linearGradient id="g" xlink:href="#t" x1="0.2" x2="0.35"/>')
    if rng.random() < 0.5:
        # every field of the gradient dataclass is inherited, the focal radius too
        t = '<radialGradient id="t" cx="40" cy="40" r="30" fr="%d" fx="%d" gradientUnits="userSpaceOnUse">%s</radialGradient>' % (rng.randint(4, 9), rng.randint(36, 44), stops)
        g = '<radialGradient id="g" xlink:href="#t"%s/>' % rng.choice(["", ' cy="45"', ' gradientTransform="translate(6 3)"'])
    defs = [t, g]
    rng.shuffle(defs)
    return ('<svg xmlns="http://www.w3.org/2000/svg" xmlns:xlink="http://www.w3.org/1999/xlink" viewBox="0 0 100 100"><defs>%s</defs>'
            '<rect x="5" y="5" width="90" height="80" fill="url(#g)"/></svg>' % "".join(defs))


_calls = [0]


def special(rng, force=None):
    """user-space gradients whose coordinates are percentages of a non-square viewport"""
    # the first documents of every run go once through each special kind (so that none is missing by chance)
    _calls[0] += 1
    if _calls[0] <= 6:
        for _ in range(40):
            d = [special_cross_kind, special_cross_kind, special_template_order, special_stroke, special_cross_kind, special_template_order][_calls[0] - 1](rng)
            if _calls[0] not in (1, 5) or 'fr="' in d:
                return d
        return d
    k = rng.random()
    if k < 0.05:
        return special_cross_kind(rng)
    if k < 0.10:
        return special_template_order(rng)
    if k < 0.17:
        return special_stroke(rng)
    if k > 0.29:
        return None
    w, h = rng.choice([(120, 80), (90, 140), (200, 100)])
    def pc(lo, hi):
        return "%d%%" % rng.randint(lo, hi)
    if rng.random() < 0.6:
        g = ('<radialGradient id="g" gradientUnits="userSpaceOnUse" cx="%s" cy="%s" r="%s" fx="%s" fy="%s"%s>' % (
            pc(35, 65), pc(35, 65), pc(30, 50), pc(40, 60), pc(40, 60), rng.choice(["", ' spreadMethod="reflect"'])))
        tag = "radialGradient"
    else:
        g = '<linearGradient id="g" gradientUnits="userSpaceOnUse" x1="%s" y1="%s" x2="%s" y2="%s">' % (pc(0, 30), pc(0, 40), pc(60, 100), pc(50, 100))
        tag = "linearGradient"
    stops = '<stop offset="0" stop-color="red"/><stop offset="0.6" stop-color="blue"/><stop offset="1" stop-color="lime"/>'
    tr = rng.choice(["", ' transform="translate(5 3)"', ' transform="scale(0.9) rotate(10)"'])
    # the viewBox need not start at the origin: percentages are fractions of its width and height, not positions in it
    ox, oy = rng.choice([(0, 0), (0, 0), (-40, -30), (25, 10)])
    return ('<svg xmlns="http://www.w3.org/2000/svg" viewBox="%d %d %d %d"><defs>%s%s</%s></defs><rect x="%d" y="%d" width="%d" height="%d" fill="url(#g)"%s/></svg>'
            % (ox, oy, w, h, g, stops, tag, ox + w // 10, oy + h // 10, w * 7 // 10, h * 7 // 10, tr))


P = RenderProp(features, "color", n_quick=110, n_thorough=700, nontrivial=nontrivial, special=special)
correspondence = P.correspondence
replay = P.replay


def self_contained(out):
    for m in re.finditer(r"<(linear|radial)Gradient([^>]*)>(.*?)</\1Gradient>|<(linear|radial)Gradient([^>]*)/>", out, re.S):
        attrs = m.group(2) if m.group(2) is not None else m.group(5)
        body = m.group(3) or ""
        if "href" in attrs:
            return "a gradient in the output still has an href"
        if "%" in attrs:
            return "a gradient in the output has a percentage coordinate"
        if "<stop" not in body:
            return "a gradient in the output has no stops of its own"
    return None


def search(ctx, disagreements):
    found = P.search(ctx, disagreements)
    for c, r in getattr(ctx, "_runs", []):
        if r.outcome == "ok":
            why = self_contained(r.out_text)
            # a gradient whose whole href chain has no stops legitimately has none
            if why and not (why.endswith("no stops of its own") and c["src"].count("<stop") == 0):
                found.append({"kind": "render", "input": c, "tag": None, "point": [0, 0], "detail": why, "output": r.out_text[:1500]})
    return found
