"""C06 — rewritten gradients assign the same colour to every point of their shapes."""
from props.render_common import RenderProp

LEAN_TARGETS = ["PicoSVG.Props.C06"]
RULE = ("linear and radial gradients (coordinates as numbers or percentages, both gradientUnits, gradientTransform lists, all "
        "spreadMethods, href chains contributing attributes and/or stops) on shapes under transform chains, groups and use: "
        "topicosvg vs the Lean pipeline model (trees incl. every rewritten gradient attribute, Skia questions), the colour the "
        "source's and the converted document's gradients give at 64 interior points per document (tolerance 0.02), and every "
        "gradient left in the output is self-contained (no href, plain numbers, own stops); non-trivial = distinct converted "
        "document with a gradient-painted sample point")
ASSUMPTIONS = [
    "with bounding-box units the shape's geometry must not be altered by clipping or stroking (the property's scope): the "
    "generator uses neither here",
    "gradient parameters are rounded to 6 decimals by the code; the judge's tolerance (0.02 per channel) absorbs it",
]
TRUSTED = ["harness/render.py gradient evaluator (SVG 1.1 §13.2)", "harness/pipeline.py (tie)"]

import re


def features(rng):
    return dict(gradients=True, transforms=True, use=rng.random() < 0.5, opacity=False, groups=True, styles=rng.random() < 0.3)


def nontrivial(src, out):
    return "Gradient" in out


P = RenderProp(features, "color", n_quick=110, n_thorough=700, nontrivial=nontrivial)
correspondence = P.correspondence
replay = P.replay


def self_contained(out):
    for m in re.finditer(r"<(linear|radial)Gradient([^>]*)>(.*?)</\1Gradient>|<(linear|radial)Gradient([^>]*)/>", out, re.S):
        attrs = m.group(2) if m.group(2) is not None else m.group(5)
        body = m.group(3) or ""
        if "href" in attrs:
            return "a gradient in the output still has an href"
        if "%" in attrs:
            return "a gradient in the output has a percentage coordinate"
        if "<stop" not in body:
            return "a gradient in the output has no stops of its own"
    return None


def search(ctx, disagreements):
    found = P.search(ctx, disagreements)
    for c, r in getattr(ctx, "_runs", []):
        if r.outcome == "ok":
            why = self_contained(r.out_text)
            # a gradient whose whole href chain has no stops legitimately has none
            if why and not (why.endswith("no stops of its own") and c["src"].count("<stop") == 0):
                found.append({"kind": "render", "input": c, "tag": None, "point": [0, 0], "detail": why, "output": r.out_text[:1500]})
    return found
