"""C14 — content that renderers ignore never influences the converted document."""
import re

from lxml import etree

import common
import pipeline
import treewire

LEAN_TARGETS = ["PicoSVG.Props.C14"]
RULE = ("metamorphic pairs: an accepted document D from the structural grammar (shapes, groups, use, clipPaths, gradients, "
        "strokes) and N(D) with 1-10 insertions of comments, processing instructions, title/desc/metadata elements, "
        "foreign-namespace elements (with subtrees) and attributes, id-less symbols, attribute-less wrapper groups, "
        "inter-element whitespace and an XML declaration at arbitrary tree positions (incl. inside defs, gradients, clipPaths "
        "and between shapes); convert(N(D)) must equal convert(D) after canonical relabelling of generated gradient ids, sorting "
        "of defs and rounding of gradient parameters; the cleanup passes of both are tied to the Lean model; non-trivial = "
        "distinct pair in which N(D) != D and D converts")
ASSUMPTIONS = [
    "comments, blank text and the XML declaration are dropped by lxml's parser (trusted)",
    "noise is not inserted into text content (lxml tail semantics, see Props/C14.lean)",
    "wrapper groups: judged on the implementation only",
]
TRUSTED = ["lxml parser options", "harness canonicalisation of generated gradient ids"]

SVG = "http://www.w3.org/2000/svg"


def insert_noise(rng, src, n):
    parser = etree.XMLParser(remove_blank_text=True)
    if "xlink:" in src and "xmlns:xlink" not in src:
        src = src.replace("<svg ", '<svg xmlns:xlink="http://www.w3.org/1999/xlink" ', 1)
    root = etree.fromstring(src.encode("utf-8"), parser)
    kinds = ["comment", "pi", "title", "desc", "metadata", "foreign", "foreign_attr", "symbol", "wrapper", "whitespace"]
    for _ in range(n):
        k = rng.choice(kinds)
        els = [e for e in root.iter() if isinstance(e.tag, str) and etree.QName(e).localname not in ("text", "tspan", "textPath", "stop")]
        # noise inside a gradient (its stops may be inherited through href only while it has no child of its own) and
        # inside a clipPath (every child is taken for a shape) is where a late or missing clean-up shows
        special = [e for e in els if etree.QName(e).localname in ("linearGradient", "radialGradient", "clipPath")]
        target = rng.choice(special) if special and rng.random() < 0.3 else rng.choice(els)
        pos = rng.randint(0, len(target))
        if k == "comment":
            target.insert(pos, etree.Comment(" noise "))
        elif k == "pi":
            target.insert(pos, etree.ProcessingInstruction("xpacket", "begin='x'"))
        elif k in ("title", "desc", "metadata"):
            e = etree.Element("{%s}%s" % (SVG, k))
            if rng.random() < 0.5:
                e.text = "some text"
            if k == "metadata" and rng.random() < 0.5:
                etree.SubElement(e, "{http://purl.org/dc/elements/1.1/}format").text = "image/svg+xml"
            target.insert(pos, e)
        elif k == "foreign":
            e = etree.Element("{http://sodipodi.sourceforge.net/DTD/sodipodi-0.dtd}namedview", attrib={"id": "nv"})
            if rng.random() < 0.5:
                etree.SubElement(e, "{%s}rect" % SVG, attrib={"width": "5", "height": "5"})
            target.insert(pos, e)
        elif k == "foreign_attr":
            target.set("{http://www.inkscape.org/namespaces/inkscape}label", "x")
        elif k == "symbol":
            e = etree.Element("{%s}symbol" % SVG)
            etree.SubElement(e, "{%s}circle" % SVG, attrib={"r": "3"})
            if rng.random() < 0.4:
                # content that would not convert on its own: an id-less symbol is discarded whole, whatever it holds
                if rng.random() < 0.5:
                    etree.SubElement(e, "{%s}use" % SVG, attrib={"{http://www.w3.org/1999/xlink}href": "#no-such-target"})
                else:
                    etree.SubElement(e, "{%s}rect" % SVG, attrib={"width": "oops", "height": "2"})
            target.insert(pos, e)
        elif k == "wrapper":
            # wrap a run of consecutive rendered children of a group / the root into an attribute-less g
            cands = [e for e in els if etree.QName(e).localname in ("svg", "g") and len(e) > 0 and e.getparent() is None or (etree.QName(e).localname == "g" and len(e) > 0)]
            cands = [e for e in cands if not any(etree.QName(a).localname in ("clipPath", "linearGradient", "radialGradient", "defs") for a in e.iterancestors())]
            if not cands:
                continue
            t = rng.choice(cands)
            kids = [c for c in t if isinstance(c.tag, str) and etree.QName(c).localname in ("g", "path", "rect", "circle", "ellipse", "line", "polygon", "polyline", "use")]
            if not kids:
                continue
            i = rng.randrange(len(kids))
            first = kids[i]
            g = etree.Element("{%s}g" % SVG)
            first.addprevious(g)
            g.append(first)
        else:
            target.text = (target.text or "") if len(target) == 0 else "\n   "
    out = etree.tostring(root).decode("utf-8")
    if rng.random() < 0.5:
        out = rng.choice(['<?xml version="1.0" encoding="UTF-8"?>\n', '<?xml version="1.0"\n     encoding="UTF-8"?>\n',
                          "<?xml version='1.0' encoding='utf-8' standalone='no'?>\n", '<?xml version="1.0"?>']) + out
    return out


def canon_output(text):
    """canonical form: gradient ids relabelled in order of first use, defs sorted, gradient numbers to 5 digits"""
    parser = etree.XMLParser(remove_blank_text=True)
    root = etree.fromstring(text.encode("utf-8"), parser)
    order = []
    for el in root.iter():
        if isinstance(el.tag, str):
            m = re.match(r"^url\(#([^)]+)\)$", el.attrib.get("fill", ""))
            if m and m.group(1) not in order:
                order.append(m.group(1))
    ren = {old: "G%d" % i for i, old in enumerate(order)}
    for el in root.iter():
        if not isinstance(el.tag, str):
            continue
        if el.tag.endswith("Gradient"):
            if el.attrib.get("id") in ren:
                el.set("id", ren[el.attrib["id"]])
            for k, v in list(el.attrib.items()):
                if k in ("x1", "y1", "x2", "y2", "cx", "cy", "r", "fx", "fy", "fr"):
                    el.set(k, repr(round(float(v), 5)))
                elif k == "gradientTransform":
                    el.set(k, re.sub(r"-?\d+\.\d+", lambda mm: repr(round(float(mm.group(0)), 5)), v))
        m = re.match(r"^url\(#([^)]+)\)$", el.attrib.get("fill", ""))
        if m and m.group(1) in ren:
            el.set("fill", "url(#%s)" % ren[m.group(1)])
    for d in root.iter("{%s}defs" % SVG):
        d[:] = sorted(d, key=lambda e: e.attrib.get("id", ""))
    # namespace declarations are compared as written: a foreign prefix declared on an inner element must go with the
    # content that used it (repaired in /repo, DESIGN §9.3; the canonical form used to drop unused declarations)
    return etree.tostring(root).decode("utf-8")


NUM = re.compile(r"-?\d+\.\d+(?:[eE][-+]?\d+)?")


def same_output(c1, c2):
    """canonical outputs agree: identical text, numbers compared with a tolerance of 2 units of the fifth decimal (the
    noise may change the order of float operations, and a value sitting on a rounding boundary must not flip the verdict)"""
    if c1 == c2:
        return True
    if NUM.sub("#", c1) != NUM.sub("#", c2):
        return False
    for a, b in zip(NUM.findall(c1), NUM.findall(c2)):
        x, y = float(a), float(b)
        if abs(x - y) > 2e-5 * max(1.0, abs(x)):
            return False
    return True


def correspondence(ctx):
    """the cleanup passes of D and N(D) through the Lean model"""
    n = 600 if ctx.thorough() else 100
    rng = ctx.rng
    pairs = []
    for _ in range(n):
        kind, src = pipeline.gen_doc(rng, rng.choice(["structural", "clips", "gradients", "strokes", "cascade"]))
        noisy = insert_noise(rng, src, rng.randint(1, 10))
        pairs.append((src, noisy))
    ctx._pairs = pairs
    ops = ["remove_nonsvg_content", "remove_processing_instructions", "remove_anonymous_symbols", "remove_title_meta_desc"]
    runs = []
    for src, noisy in pairs:
        runs.append(pipeline.Run(src, ops))
        runs.append(pipeline.Run(noisy, ops))
    outs = ctx.model([r.model_line() for r in runs])
    dis = []
    for r, m in zip(runs, outs):
        why = r.compare(m)
        ctx.count("cleanup:" + r.outcome)
        if why:
            dis.append({"what": "cleanup passes: %s" % why, "kind": "cleanup", "input": r.src})
    # model-side metamorphic check: cleanup(N(D)) == cleanup(D) as trees
    for i in range(0, len(runs), 2):
        a, b = outs[i], outs[i + 1]
        if a.startswith("ok") and b.startswith("ok"):
            ta = treewire.strip_text(treewire.decode(a[3:].split("\x1c")[0]))
            tb = treewire.strip_text(treewire.decode(b[3:].split("\x1c")[0]))
            ctx.count("model-metamorphic")
            if not wrapper_equal(ta, tb):
                ctx.count("model-metamorphic-differs(wrapper groups)")
    ctx.stats["corr_cases"] = len(runs)
    ctx.stats["evaluations"] = ctx.stats.get("evaluations", 0) + len(runs)
    ctx.samples.append({"D": pairs[0][0][:300], "N(D)": pairs[0][1][:400]})
    return dis


def wrapper_equal(a, b):
    return a == b


H_ = '<svg xmlns="http://www.w3.org/2000/svg" viewBox="0 0 10 10">'
# pairs that run first on every run: noise at the string level, which the tree-level inserter cannot place
CORPUS_PAIRS = [
    (H_ + '<defs><path id="a" d="M0,0 L5,0 L5,5 Z"/></defs><use xlink:href="#a"/></svg>',
     H_ + '<defs><path id="a" d="M0,0 L5,0 L5,5 Z"/></defs><!-- xmlns:xlink --><use xlink:href="#a"/></svg>'),
    (H_ + '<defs><path id="a" d="M0,0 L5,0 L5,5 Z"/></defs><use xlink:href="#a"/></svg>',
     H_ + '<defs><!-- the old header:\n  <svg xmlns="http://www.w3.org/2000/svg"\n       xmlns:xlink="http://www.w3.org/1999/xlink">\n--><path id="a" d="M0,0 L5,0 L5,5 Z"/></defs><use xlink:href="#a"/></svg>'),
    # an attribute-less wrapper around one of several users of a bounding-box gradient under one transform: the traversal
    # order of the users changes, what each of them is painted with must not
    (H_ + '<defs><linearGradient id="g"><stop offset="0" stop-color="red"/><stop offset="1" stop-color="blue"/></linearGradient></defs>'
          '<g transform="translate(3 4) scale(2)"><rect width="10" height="4" fill="url(#g)"/><circle cx="20" cy="10" r="3" fill="url(#g)"/></g></svg>',
     H_ + '<defs><linearGradient id="g"><stop offset="0" stop-color="red"/><stop offset="1" stop-color="blue"/></linearGradient></defs>'
          '<g transform="translate(3 4) scale(2)"><rect width="10" height="4" fill="url(#g)"/><g><circle cx="20" cy="10" r="3" fill="url(#g)"/></g></g></svg>'),
    (H_ + '<defs><linearGradient id="g"><stop offset="0" stop-color="red"/><stop offset="1" stop-color="blue"/></linearGradient></defs>'
          '<g transform="translate(3 4) scale(2)"><rect width="10" height="4" fill="url(#g)"/><circle cx="20" cy="10" r="3" fill="url(#g)"/></g></svg>',
     H_ + '<defs><linearGradient id="g"><stop offset="0" stop-color="red"/><stop offset="1" stop-color="blue"/></linearGradient></defs>'
          '<g transform="translate(3 4) scale(2)"><g><rect width="10" height="4" fill="url(#g)"/></g><circle cx="20" cy="10" r="3" fill="url(#g)"/></g></svg>'),
    (H_ + '<defs><path id="a" d="M0,0 L5,0 L5,5 Z"/></defs><use xlink:href="#a"/></svg>',
     H_ + '<metadata><r:RDF xmlns:r="http://www.w3.org/1999/02/22-rdf-syntax-ns#" xmlns:xlink="http://www.w3.org/1999/xlink"/></metadata><defs><path id="a" d="M0,0 L5,0 L5,5 Z"/></defs><use xlink:href="#a"/></svg>'),
    (H_ + '<defs><path id="a" d="M0,0 L5,0 L5,5 Z"/></defs><use xlink:href="#a"/></svg>',
     H_ + '<?note xmlns:xlink is not declared here?><defs><path id="a" d="M0,0 L5,0 L5,5 Z"/></defs><use xlink:href="#a"/></svg>'),
    (H_ + '<g opacity="0.98999999"><rect width="5" height="5"/><circle r="2"/></g></svg>',
     H_ + '<g><g opacity="0.98999999"><rect width="5" height="5"/><circle r="2"/></g></g></svg>'),
    (H_ + '<g opacity="0.9996"><rect width="5" height="5"/><circle r="2" fill="red"/></g><path opacity="0.12345678" d="M0,0 L5,0 L5,5 Z"/></svg>',
     H_ + '<g><g opacity="0.9996"><rect width="5" height="5"/><circle r="2" fill="red"/></g></g><g><path opacity="0.12345678" d="M0,0 L5,0 L5,5 Z"/></g></svg>'),
    (H_ + '<rect width="5" height="5"/></svg>', H_ + '<foo xmlns=""/><rect width="5" height="5"/></svg>'),
    (H_ + '<g opacity="0.5"><rect width="5" height="5"/><circle r="2"/></g></svg>',
     H_ + '<g opacity="0.5"><rect width="5" height="5"/><bar xmlns=""><rect xmlns="http://www.w3.org/2000/svg" width="1" height="1"/></bar><circle r="2"/></g></svg>'),
    # a foreign prefix declared on a kept group goes with the attribute and element that used it
    (H_ + '<g opacity="0.5"><path d="M1,1 L9,1 L9,9 Z"/><path d="M3,3 L9,3 L9,9 Z"/></g></svg>',
     H_ + '<g opacity="0.5" xmlns:foo="urn:foo" foo:bar="1"><foo:x/><path d="M1,1 L9,1 L9,9 Z"/><path d="M3,3 L9,3 L9,9 Z"/></g></svg>'),
    (H_ + '<path d="M0,0 L1,1 L1,0 Z"/></svg>', '<?foo a?>' + H_ + '<path d="M0,0 L1,1 L1,0 Z"/></svg>'),
    (H_ + '<path d="M0,0 L1,1 L1,0 Z"/></svg>', '<?xml version="1.0"\n   encoding="UTF-8"?>\n<!-- c -->\n' + H_ + '<path d="M0,0 L1,1 L1,0 Z"/></svg><!-- after -->'),
]


def convert_inplace(SVG_, text):
    svg = SVG_.fromstring(text)
    svg.topicosvg(inplace=True)
    return svg.tostring()


def search(ctx, disagreements):
    SVG_ = pipeline.impl()
    pairs = CORPUS_PAIRS + (getattr(ctx, "_pairs", None) or [])
    found = []
    nontrivial = 0
    for src, noisy in CORPUS_PAIRS:
        # the in-place form too (the copying form deep-copies the root element only)
        o1, out1 = common.outcome_of(lambda: convert_inplace(SVG_, src))
        o2, out2 = common.outcome_of(lambda: convert_inplace(SVG_, noisy))
        ctx.count("inplace-pair:%s/%s" % (o1, o2))
        if o1 == "ok" and (o2 != "ok" or not same_output(canon_output(out1), canon_output(out2))):
            found.append({"kind": "noise", "input": {"D": src, "N(D)": noisy, "inplace": True},
                          "detail": "topicosvg(inplace=True): D converts but N(D) %s" % ("raises " + o2 if o2 != "ok" else "gives a different document")})
    for src, noisy in pairs:
        o1, out1 = common.outcome_of(lambda: SVG_.fromstring(src).topicosvg().tostring())
        o2, out2 = common.outcome_of(lambda: SVG_.fromstring(noisy).topicosvg().tostring())
        ctx.count("pair:%s/%s" % (o1, o2))
        if o1 != "ok":
            if o2 == "ok":
                found.append({"kind": "noise", "input": {"D": src, "N(D)": noisy}, "detail": "D is rejected (%s) but N(D) converts" % o1})
            continue
        nontrivial += 1
        if o2 != "ok":
            found.append({"kind": "noise", "input": {"D": src, "N(D)": noisy}, "detail": "D converts but N(D) raises %s" % o2})
            continue
        c1, c2 = canon_output(out1), canon_output(out2)
        if not same_output(c1, c2):
            found.append({"kind": "noise", "input": {"D": src, "N(D)": noisy},
                          "detail": "convert(N(D)) differs from convert(D): %s" % diff_hint(c1, c2)})
    ctx.stats["distinct_nontrivial"] = nontrivial
    ctx.stats["evaluations"] = ctx.stats.get("evaluations", 0) + 2 * len(pairs)
    return found


def diff_hint(a, b):
    for i, (x, y) in enumerate(zip(a, b)):
        if x != y:
            return "...%s...  vs  ...%s..." % (a[max(0, i - 80):i + 80], b[max(0, i - 80):i + 80])
    return "lengths %d vs %d" % (len(a), len(b))


def classify(v, findings):
    return None


def replay(ctx, payload):
    if payload.get("kind") == "noise":
        SVG_ = pipeline.impl()
        src, noisy = payload["input"]["D"], payload["input"]["N(D)"]
        o1, out1 = common.outcome_of(lambda: SVG_.fromstring(src).topicosvg().tostring())
        o2, out2 = common.outcome_of(lambda: SVG_.fromstring(noisy).topicosvg().tostring())
        fails = o1 == "ok" and (o2 != "ok" or not same_output(canon_output(out1), canon_output(out2)))
        return {"fails": fails, "D": (o1, out1), "N(D)": (o2, out2)}
    return {"fails": bool(ctx.tie_breaks), "no_longer_checks": ctx.tie_breaks}
