"""C05 — every output path carries the paint and opacity the SVG cascade assigns."""
from props.render_common import RenderProp

LEAN_TARGETS = ["PicoSVG.Props.C05"]
RULE = ("documents whose shapes, groups, root and use elements set fill, fill-rule, fill-opacity, opacity and display through "
        "attributes and/or style declarations at any nesting level, with overlapping geometry (cascade grammar of "
        "harness/docgen.py, depth <= 3, a share of them with strokes on opaque shapes): topicosvg vs the Lean pipeline model "
        "(trees + Skia questions), and the composited premultiplied colour of source and converted document compared by the "
        "independent renderer at 64 points per document outside the 0.4% edge band (tolerance 0.02 per channel); "
        "non-trivial = distinct converted document with at least one painted sample point")
ASSUMPTIONS = [
    "the layer algebra (Spec/Composite.lean) is the SVG 1.1 simple alpha compositing model; that the renderer and the "
    "specification agree is by construction of harness/render.py (same source-over formula), not proved",
    "'inherit' and currentColor are excluded, as in the property",
]
TRUSTED = ["harness/render.py (independent evaluator)", "Spec/Composite.lean", "harness/pipeline.py (tie)"]


def features(rng):
    F = dict(use=True, root_attrs=True, styles=True, opacity=True, display=True, groups=True, transforms=rng.random() < 0.3, max_depth=3)
    return F


P = RenderProp(features, "color", n_quick=110, n_thorough=700)
correspondence = P.correspondence
search = P.search
replay = P.replay
