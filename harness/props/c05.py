"""C05 — every output path carries the paint and opacity the SVG cascade assigns."""
from props.render_common import RenderProp

LEAN_TARGETS = ["PicoSVG.Props.C05"]
RULE = ("documents whose shapes, groups, root and use elements set fill, fill-rule, fill-opacity, opacity and display through "
        "attributes and/or style declarations at any nesting level, with overlapping geometry (cascade grammar of "
        "harness/docgen.py, depth <= 3, a share of them with strokes on opaque shapes): topicosvg vs the Lean pipeline model "
        "(trees + Skia questions), and the composited premultiplied colour of source and converted document compared by the "
        "independent renderer at 64 points per document outside the 0.4% edge band (tolerance 0.02 per channel); "
        "non-trivial = distinct converted document with at least one painted sample point")
ASSUMPTIONS = [
    "the layer algebra (Spec/Composite.lean) is the SVG 1.1 simple alpha compositing model; that the renderer and the "
    "specification agree is by construction of harness/render.py (same source-over formula), not proved",
    "'inherit' and currentColor are excluded, as in the property",
]
TRUSTED = ["harness/render.py (independent evaluator)", "Spec/Composite.lean", "harness/pipeline.py (tie)"]


def features(rng):
    F = dict(use=True, root_attrs=True, styles=True, opacity=True, display=True, groups=True, transforms=rng.random() < 0.3, max_depth=3)
    return F


def special(rng, force=None):
    """translucent groups inside translucent groups with overlapping children: which groups may be flattened"""
    if force is None and rng.random() > 0.15:
        return None
    def rect(x, y, col, extra=""):
        return '<rect x="%d" y="%d" width="40" height="40" fill="%s"%s/>' % (x, y, col, extra)
    o1, o2 = rng.choice(["0.5", "0.3", "0.8"]), rng.choice(["0.5", "0.6", "0.25"])
    inner = '<g opacity="%s">%s%s</g>' % (o2, rect(20, 20, "blue"), rect(35, 35, "red"))
    kind = rng.random()
    if kind < 0.4:
        body = '<g opacity="%s">%s%s</g>' % (o1, rect(10, 10, "lime"), inner)            # one shape + a kept subgroup
    elif kind < 0.7:
        body = '<g opacity="%s">%s</g>' % (o1, inner)                                      # only a kept subgroup
    else:
        body = '<g opacity="%s" fill-opacity="0.5">%s<g>%s</g>%s</g>' % (o1, rect(10, 10, "lime"), rect(30, 5, "orange"), inner)
    pts = [(30, 30), (45, 45), (25, 25), (60, 60), (15, 15), (38, 38)]
    return ('<svg xmlns="http://www.w3.org/2000/svg" viewBox="0 0 100 100">%s%s</svg>' % (rect(0, 30, "gray") if rng.random() < 0.5 else "", body), pts)


P = RenderProp(features, "color", n_quick=110, n_thorough=700, special=special)
P.firsts = [1, 1, 1, 1, 1, 1]
correspondence = P.correspondence
search = P.search
replay = P.replay
