"""C01 — conversion output always conforms to the documented picosvg grammar."""
import os
import subprocess
import tempfile

import common
import pipeline
import treewire
from common import esc

LEAN_TARGETS = ["PicoSVG.Props.C01"]
RULE = ("random documents from the structural grammar (7 shapes, g, defs, use, nested svg, clipPath, gradients, strokes, "
        "styles, text, unsupported elements, noise; depth <= 3) x ndigits 0..6 x allow_text x drop_unsupported: "
        "SVG.fromstring(x).topicosvg(**opts) vs the Lean pipeline model with the Skia answers replayed and the Skia "
        "questions compared; every normal return (library and a CLI sample) is checked with the executable grammar "
        "Spec.Pico.violations; non-trivial = distinct document that converts normally")
ASSUMPTIONS = [
    "lxml parsing / serialisation and namespace handling are trusted (trees are compared, not bytes)",
    "Skia results enter as recorded answers; only their command letters and roundedness matter for this property",
    "the closed theorem 'toPico d = ok d' -> Spec.Pico.violations d' = []' is not proved: proved are gate soundness, kept-group "
    "shape, rounding idempotence/half-unit bound and the command-letter target forms; the composition is judged per run",
]
TRUSTED = ["Spec/Pico.lean (README grammar as executable checker)", "harness/pipeline.py + oracle.py (tie)", "lxml"]


def gen_case(rng):
    kind, src = pipeline.gen_doc(rng)
    nd = rng.choice([3, 3, 0, 1, 2, 4, 5, 6])
    allow_text = rng.random() < 0.25
    drop = rng.random() < 0.3
    return {"kind": kind, "src": src, "ndigits": nd, "allow_text": allow_text, "drop_unsupported": drop}


# documents on which the path engine gives up (skia's simplify raises): the conversion has to raise too, a normal return
# would carry what the failed step was to remove (an evenodd rule, overlaps, a stroke)
_HEAD = '<svg xmlns="http://www.w3.org/2000/svg" viewBox="0 0 10 10">'
FIXED_CASES = [
    {"kind": "engine-gives-up", "src": _HEAD + '<path fill-rule="evenodd" d="M5,9 C8.5,7.5 0,2 4,6.5 L1.6,3.3 Z"/><path d="M1,1 L3,1 L3,3 Z"/></svg>',
     "ndigits": 3, "allow_text": False, "drop_unsupported": False},
    {"kind": "engine-gives-up", "src": _HEAD + '<g fill-rule="evenodd"><path d="M5,9 C8.5,7.5 0,2 4,6.5 L1.6,3.3 Z"/></g></svg>',
     "ndigits": 0, "allow_text": True, "drop_unsupported": True},
]


def ops_of(c):
    return ["topicosvg %d %d %d" % (c["ndigits"], int(c["allow_text"]), int(c["drop_unsupported"]))]


def correspondence(ctx):
    n = 1500 if ctx.thorough() else 220
    cases = [dict(c) for c in FIXED_CASES] + [gen_case(ctx.rng) for _ in range(n)]
    runs = [pipeline.Run(c["src"], ops_of(c)) for c in cases]
    live = [(c, r) for c, r in zip(cases, runs) if r.in_wire is not None]
    outs = ctx.model([r.model_line() for _, r in live])
    dis = []
    ok = 0
    for (c, r), m in zip(live, outs):
        ctx.count("outcome:" + r.outcome)
        ctx.count("kind:" + c["kind"])
        why = r.compare(m)
        if why:
            dis.append({"what": "topicosvg(%s): %s" % ({k: c[k] for k in ("ndigits", "allow_text", "drop_unsupported")}, why), "kind": "pipeline", "input": c})
        if r.outcome == "ok":
            ok += 1
    ctx._runs = live
    ctx.samples.append({"document": cases[0]["src"][:300], "options": {k: cases[0][k] for k in ("ndigits", "allow_text", "drop_unsupported")}, "outcome": runs[0].outcome})
    ctx.stats["corr_cases"] = len(live)
    ctx.stats["evaluations"] = ctx.stats.get("evaluations", 0) + len(live)
    ctx.stats["distinct_nontrivial"] = ok
    return dis


def grammar_check(ctx, items):
    """items: list of (tree wire, ndigits, allow_text) -> list of violation lists"""
    outs = ctx.model(["spec\tispico\t%d\t%d\t%s" % (nd, int(at), w) for w, nd, at in items])
    res = []
    for o in outs:
        body = o[3:] if o.startswith("ok") else o
        res.append([v for v in body.split("\x1d") if v])
    return res


def cli_run(src, allow_text, drop):
    with tempfile.TemporaryDirectory() as td:
        p = os.path.join(td, "in.svg")
        with open(p, "w") as f:
            f.write(src)
        cmd = [common.PY, "-m", "picosvg.picosvg", p]
        if allow_text:
            cmd.append("--allow_text")
        if drop:
            cmd.append("--drop_unsupported")
        env = dict(os.environ, PYTHONPATH=os.path.join(common.REPO, "src"))
        r = subprocess.run(cmd, capture_output=True, text=True, env=env, timeout=120)
        return r.returncode, r.stdout


def search(ctx, disagreements):
    found = []
    live = getattr(ctx, "_runs", None)
    if live is None:
        cases = [gen_case(ctx.rng) for _ in range(150)]
        live = [(c, pipeline.Run(c["src"], ops_of(c))) for c in cases]
    if not ctx.driver_ok:
        return found
    okruns = [(c, r) for c, r in live if r.outcome == "ok"]
    viols = grammar_check(ctx, [(r.out_wire, c["ndigits"], c["allow_text"]) for c, r in okruns])
    for (c, r), v in zip(okruns, viols):
        ctx.count("grammar-checked")
        if v:
            tag = None
            if all("g with fewer than two children" in x for x in v):
                tag = "group-underfull-after-pruning"
            found.append({"kind": "grammar", "input": c, "tag": tag, "detail": "topicosvg returned normally but the output violates the picosvg grammar: %s" % v[:4], "output": r.out_text[:1500]})
    # drop_unsupported must not fail because of unsupported elements
    for c, r in live:
        if c["drop_unsupported"] and r.outcome == "ValueError":
            rr = pipeline.Run(c["src"], ["topicosvg %d %d 0" % (c["ndigits"], int(c["allow_text"]))])
            # the same document without unsupported content failing for another reason is fine; detect the gate message
            SVG = pipeline.impl()
            try:
                SVG.fromstring(c["src"]).topicosvg(ndigits=c["ndigits"], allow_text=c["allow_text"], drop_unsupported=True)
            except ValueError as e:
                # "BadElement: <path> reuses id=..." is the duplicate-id report, not an unsupported element
                bad = [m for m in str(e).split("BadElement: ")[1:] if "reuses id=" not in m]
                if bad:
                    found.append({"kind": "grammar", "input": c, "tag": None, "detail": "drop_unsupported=True but the call failed because of unsupported elements: %s" % str(e)[:200]})
            except Exception:
                pass
    # CLI sample
    import treewire as tw
    from lxml import etree
    ncli = 12 if ctx.thorough() else 4
    cli_items, cli_cases = [], []
    # the option combinations the command line offers, on fixed documents the library converts with the same options
    _doc = ('<?xml version="1.0"?><!-- head --><?pi x?><svg xmlns="http://www.w3.org/2000/svg" viewBox="0 0 40 40"><!-- a comment --><?target data?><image width="5" height="5"/><text x="2" y="9">t</text>'
            '<rect width="9" height="9"/><g opacity="0.5"><foo/><circle r="3"/><rect x="9" width="4" height="4"/></g></svg>')
    SVG = pipeline.impl()
    for at_, dr_ in ((True, True), (False, True)):
        o_, _ = common.outcome_of(lambda: SVG.fromstring(_doc).topicosvg(allow_text=at_, drop_unsupported=dr_))
        if o_ != "ok":
            continue
        c_ = {"src": _doc, "ndigits": 3, "allow_text": at_, "drop_unsupported": dr_, "kind": "cli-flags"}
        rc, out = cli_run(_doc, at_, dr_)
        ctx.count("cli-flags:rc%d" % rc)
        if rc != 0:
            found.append({"kind": "grammar", "input": c_, "tag": None, "detail": "the library converts this document with allow_text=%s drop_unsupported=%s but the CLI with the same flags exits with %d" % (at_, dr_, rc)})
            continue
        if "<!--" in out or "<?target" in out or "<?pi" in out:
            found.append({"kind": "grammar", "input": c_, "tag": None, "detail": "a comment or processing instruction of the source survives in the CLI output (file argument): %s" % out[:300]})
            continue
        root = etree.fromstring(out.encode("utf-8"), etree.XMLParser(remove_blank_text=True))
        cli_items.append((tw.encode(root), 3, at_))
        cli_cases.append(c_)
    for c, r in okruns[:ncli * 3]:
        if c["ndigits"] != 3:
            continue
        if len(cli_cases) >= ncli:
            break
        rc, out = cli_run(c["src"], c["allow_text"], c["drop_unsupported"])
        ctx.count("cli:rc%d" % rc)
        if rc != 0:
            found.append({"kind": "grammar", "input": c, "tag": None, "detail": "the library converts this document but the CLI exits with %d" % rc})
            continue
        parser = etree.XMLParser(remove_blank_text=True)
        root = etree.fromstring(out.encode("utf-8"), parser)
        cli_items.append((tw.encode(root), 3, c["allow_text"]))
        cli_cases.append(c)
    if cli_items:
        for c, v in zip(cli_cases, grammar_check(ctx, cli_items)):
            if v and not all("g with fewer than two children" in x for x in v):
                found.append({"kind": "grammar", "input": c, "tag": None, "detail": "CLI output violates the grammar: %s" % v[:4]})
    ctx.stats["evaluations"] = ctx.stats.get("evaluations", 0) + len(okruns)
    return found


def classify(v, findings):
    for e in findings:
        if e.get("status") == "finding" and v.get("tag") and v.get("tag") == e.get("tag"):
            return e["id"]
    return None


def replay_finding(ctx, e):
    c = e["witness"]
    r = pipeline.Run(c["src"], ops_of(c))
    if r.outcome != "ok":
        return False
    v = grammar_check(ctx, [(r.out_wire, c["ndigits"], c["allow_text"])])[0]
    return bool(v)


def replay(ctx, payload):
    if payload.get("kind") == "grammar":
        c = payload["input"]
        r = pipeline.Run(c["src"], ops_of(c))
        v = grammar_check(ctx, [(r.out_wire, c["ndigits"], c["allow_text"])])[0] if r.outcome == "ok" else None
        return {"fails": bool(v), "outcome": r.outcome, "violations": v, "output": r.out_text}
    if payload.get("kind") == "pipeline":
        c = payload["input"]
        r = pipeline.Run(c["src"], ops_of(c))
        m = ctx.model([r.model_line()])[0]
        return {"fails": bool(r.compare(m)), "difference": r.compare(m)}
    return {"fails": bool(ctx.tie_breaks), "no_longer_checks": ctx.tie_breaks}
